(** C04 (main clause): proofs for Olc/UafModel.v. *)
From Coq Require Import List ZArith Bool Arith Lia.
From Unodb Require Import Lock.LockModel Olc.ReadModel Olc.ReadProofs Olc.WriteModel Olc.WriteShapes
  Olc.WriteProofs Olc.WriteExample Olc.UafModel.
Import ListNotations.
Local Open Scope nat_scope.

(** ** A child pointer read out of a node that was in the tree points to a
    node that was in the tree no earlier than the node itself *)
Lemma child_of_linked : forall g Y b c, linked g Y -> child_of g Y b c -> linked g c.
Proof.
  intros g Y b c [pth Hr] (cY & p & cs & Hc & Hk & Hf).
  exists (pth ++ p ++ [b]). eapply reach_child; eassumption.
Qed.

Lemma frozen_back : forall H, obsolete_children_frozen H ->
  forall Y b c y k, linked (H y) Y -> child_of (H (y + k)) Y b c ->
    exists z, y <= z <= y + k /\ linked (H z) c.
Proof.
  intros H F Y b c y. induction k as [|k IH]; intros HY Hc.
  - rewrite Nat.add_0_r in *. exists y. split; [lia|]. eapply child_of_linked; eassumption.
  - replace (y + S k) with (S (y + k)) in * by lia.
    assert (Hyk : y <= y + k) by lia.
    destruct (F Y y (y + k) b c Hyk HY Hc) as [HL | Hc'].
    + exists (S (y + k)). split; [lia|]. eapply child_of_linked; eassumption.
    + destruct (IH HY Hc') as (z & Hz & Hl). exists z. split; [lia | exact Hl].
Qed.

(** ** Every node touched in the period was in the tree at some moment of the
    period, no later than the touch *)
Theorem touched_was_reachable : forall H s tr, obsolete_children_frozen H -> trace_ok H s tr ->
  forall d, In d tr -> exists y, s <= y <= d_at d /\ linked (H y) (d_node d).
Proof.
  intros H s tr F Hok. induction Hok as [|tr d Hok IH Hm Hsh Hto]; intros d0 Hin; [contradiction|].
  apply in_app_or in Hin. destruct Hin as [Hin | [<- | []]]; [apply IH; exact Hin|].
  destruct (d_src d) as [m | Y b m] eqn:Es; cbn [src_moment src_shows src_touched] in *.
  - exists m. split; [lia|]. exists []. apply reach_root. exact Hsh.
  - destruct Hto as (e & He & EY & Hem). destruct (IH e He) as (y & Hy & HlY). rewrite EY in HlY.
    assert (Em : m = y + (m - y)) by lia. rewrite Em in Hsh.
    destruct (frozen_back H F Y b (d_node d) y (m - y) HlY Hsh) as (z & Hz & Hl).
    exists z. split; [lia | exact Hl].
Qed.

(** ** A node in the tree has not been retired, hence is not freed *)
Theorem reachable_not_retired : forall H R, retire_unlinked H R ->
  forall t n, linked (H t) n -> forall r th, r <= t -> ~ rc_retire R r th n.
Proof. intros H R RU t n Hl r th Hle Hr. exact (RU r th n t Hr Hle Hl). Qed.

Theorem reachable_never_freed : forall H R, retire_unlinked H R -> freed_via_retire H R ->
  forall t n, linked (H t) n -> ~ rc_freed R t n.
Proof.
  intros H R RU FV t n Hl Hf. destruct (FV t n t Hf (le_n t) Hl) as (r & th & Hle & Hr).
  exact (RU r th n t Hr Hle Hl).
Qed.

(** ** A node touched at moment d_at d of the period is not with the allocator
    at any later moment u of the period either, unless the thread has itself
    retired it by then *)
Theorem protected_until_quiescent : forall H R th s e tr,
  writers_discipline H R -> qsbr_safe R -> freed_via_retire H R ->
  in_period R th s e -> trace_ok H s tr ->
  forall d u, In d tr -> d_at d <= u <= e ->
    (forall r, rc_retire R r th (d_node d) -> u < r) -> ~ rc_freed R u (d_node d).
Proof.
  intros H R th s e tr [RU F] Q FV P Hok d u Hin Hu Own Hf.
  destruct (touched_was_reachable H s tr F Hok d Hin) as (y & Hy & Hl).
  assert (Hyu : y <= u) by lia.
  destruct (FV u (d_node d) y Hf Hyu Hl) as (r & t & Hru & Hr).
  assert (Hyr : y < r).
  { destruct (le_lt_dec r y) as [Hle|Hlt]; [|exact Hlt]. exfalso. exact (RU r t _ y Hr Hle Hl). }
  destruct (Nat.eq_dec th t) as [<- | Hne].
  - pose proof (Own r Hr) as Hur. lia.
  - refine (Q r t (d_node d) th u Hr Hne _ Hru _ Hf).
    + apply (P r). lia.
    + intros q Hq. apply (P q); lia.
Qed.

(** ** No use after free: the accesses themselves *)
Theorem no_use_after_free : forall H R th s e tr,
  writers_discipline H R -> qsbr_safe R -> freed_via_retire H R ->
  in_period R th s e -> trace_ok H s tr -> own_retire_later R th tr ->
  forall d, In d tr -> d_at d <= e -> ~ rc_freed R (d_at d) (d_node d).
Proof.
  intros H R th s e tr W Q FV P Hok Own d Hin Hle.
  eapply protected_until_quiescent; eauto.
  intros r Hr. exact (proj1 (Own d r Hin) Hr).
Qed.

(** sub-traces: a prefix of a trace is a trace *)
Lemma trace_ok_app_inv : forall H s tr d, trace_ok H s (tr ++ [d]) ->
  trace_ok H s tr /\ s <= src_moment (d_src d) <= d_at d /\ src_shows H (d_src d) (d_node d) /\ src_touched tr (d_src d).
Proof.
  intros H s tr d Hok. inversion Hok as [E | tr' d' Hok' Hm Hsh Hto E].
  - destruct tr; discriminate.
  - apply app_inj_tail in E. destruct E as [-> ->]. auto.
Qed.

Lemma trace_ok_split : forall H s tr2 tr1, trace_ok H s (tr1 ++ tr2) -> trace_ok H s tr1.
Proof.
  intros H s tr2. induction tr2 as [|d tr2 IH] using rev_ind; intros tr1 Hok.
  - rewrite app_nil_r in Hok. exact Hok.
  - rewrite app_assoc in Hok. apply trace_ok_app_inv in Hok. apply IH. apply Hok.
Qed.

(** the read of the child slot out of Y (at the source moment) is itself an
    access to memory that is not with the allocator *)
Corollary slot_read_not_freed : forall H R th s e tr,
  writers_discipline H R -> qsbr_safe R -> freed_via_retire H R ->
  in_period R th s e -> trace_ok H s tr -> own_retire_later R th tr ->
  forall d Y b m, In d tr -> d_src d = FromChild Y b m -> d_at d <= e -> ~ rc_freed R m Y.
Proof.
  intros H R th s e tr W Q FV P Hok Own d Y b m Hin Es Hle.
  pose proof Hin as Hin0.
  apply in_split in Hin. destruct Hin as (l1 & l2 & ->).
  assert (Hok1 : trace_ok H s (l1 ++ [d])).
  { apply (trace_ok_split H s l2). rewrite <- app_assoc. exact Hok. }
  destruct (trace_ok_app_inv H s l1 d Hok1) as (_ & Hm & _ & Hto).
  rewrite Es in Hm, Hto. cbn [src_moment src_touched] in Hm, Hto.
  destruct Hto as (e0 & He0 & EY & Hem). rewrite <- EY.
  eapply (protected_until_quiescent H R th s e (l1 ++ d :: l2)); eauto.
  - apply in_or_app. left. exact He0.
  - lia.
  - intros r Hr. rewrite EY in Hr. exact (proj2 (Own d r Hin0) Y b m Es Hr).
Qed.

(** ** Histories generated by the commit shapes satisfy the discipline *)
Lemma upd_cases : forall (h : heap) X cX n c', upd h X cX n = Some c' ->
  (n = X /\ c' = cX) \/ (n <> X /\ h n = Some c').
Proof.
  intros h X cX n c' E. unfold upd in E. destruct (Nat.eqb_spec n X) as [->|Hne].
  - left. split; [reflexivity | congruence].
  - right. split; assumption.
Qed.

(** how one commit changes a cell that exists before it: not at all, or the
    content is kept (the node is marked obsolete), or the word is bumped *)
Definition cont_step (g g' : gstate) : Prop :=
  forall n c c', hp g n = Some c -> hp g' n = Some c' ->
    c' = c \/ cont c' = cont c \/ word c' = bump (word c).

Ltac upd_split E :=
  match type of E with
  | upd _ _ _ _ = Some _ =>
      apply upd_cases in E; destruct E as [[-> ->] | [? E]]; [| try upd_split E]
  end.

Ltac cont_fin :=
  solve [ congruence | left; congruence
        | right; left; cbn [cont mk]; congruence
        | right; right; cbn [word mk]; congruence ].

Lemma slot_redirect_cont : forall g s h X g',
  slot_redirect g s h X g' ->
  (forall n c c', hp g n = Some c -> h n = Some c' -> c' = c \/ cont c' = cont c \/ word c' = bump (word c)) ->
  cont_step g g'.
Proof.
  intros g [|P bP] h X g' Hs Hh n c c' Hc Hc'; cbn [slot_redirect] in Hs.
  - subst g'. cbn [hp set_root] in Hc'. eapply Hh; eassumption.
  - destruct Hs as (cP & pP & csP & csP' & HcP & HkP & _ & ->). cbn [hp set_hp] in Hc'.
    upd_split Hc'; [cont_fin | eapply Hh; eassumption].
Qed.

Lemma ins_commit_cont : forall k v g g', ins_commit k v g g' -> cont_step g g'.
Proof.
  intros k v g g' [Hc | Hc | Hc | Hc | Hc].
  - destruct Hc as [N d cN p cs b L wl cs' (_ & _ & HcN & _) _ HL _ _ ->].
    intros n c c' Hc Hc'. cbn [hp set_hp] in Hc'. upd_split Hc'; cont_fin.
  - destruct Hc as [L wl _ HL _ ->].
    intros n c c' Hc Hc'. cbn [hp set_root] in Hc'. upd_split Hc'; cont_fin.
  - destruct Hc as [s L0 d cL kL vL X wx px csX bl bk Lk wl h _ _ _ _ _ _ _ _ _ _ HX HLk _ _ _ -> Hs].
    eapply slot_redirect_cont; [exact Hs|].
    intros n c c' Hc Hc'. upd_split Hc'; cont_fin.
  - destruct Hc as [s N d cN p cs b N' wn cs' L wl h (_ & _ & HcN & _) _ HN' HL _ _ _ _ -> Hs].
    eapply slot_redirect_cont; [exact Hs|].
    intros n c c' Hc Hc'. upd_split Hc'; cont_fin.
  - destruct Hc as [s N d cN p1 bn p2 cs bk X wx csX Lk wl h _ _ HcN _ _ _ _ _ HX HLk _ _ _ -> Hs].
    eapply slot_redirect_cont; [exact Hs|].
    intros n c c' Hc Hc'. upd_split Hc'; cont_fin.
Qed.

Lemma rem_commit_cont : forall k g g', rem_commit k g g' -> cont_step g g'.
Proof.
  intros k g g' [Hc | Hc | Hc | Hc].
  - destruct Hc as [N d cN p cs b L cL v cs' (_ & _ & HcN & _) _ HcL _ _ ->].
    intros n c c' Hc Hc'. cbn [hp set_hp] in Hc'. upd_split Hc'; cont_fin.
  - destruct Hc as [L cL v _ HcL _ ->].
    intros n c c' Hc Hc'. cbn [hp set_root] in Hc'. upd_split Hc'; cont_fin.
  - destruct Hc as [s N d cN p cs b N' wn cs' L cL v h (_ & _ & HcN & _) _ HcL _ HN' _ _ -> Hs].
    eapply slot_redirect_cont; [exact Hs|].
    intros n c c' Hc Hc'. upd_split Hc'; cont_fin.
  - destruct Hc as [s N d cN p cs b L cL v bc C cC cC' h (_ & _ & HcN & _) _ _ HcL _ HcC HC' -> Hs].
    eapply slot_redirect_cont; [exact Hs|].
    intros n c c' Hc Hc'.
    destruct HC' as [(kc & vc & _ & ->) | (pc & csC & _ & ->)]; upd_split Hc'; cont_fin.
Qed.

Lemma commit_cont : forall k g g', commit k g g' -> cont_step g g'.
Proof.
  intros k g g' [[v Hc] | Hc]; [eapply ins_commit_cont | eapply rem_commit_cont]; eassumption.
Qed.

Lemma child_of_cont : forall g g' Y b c cY cY', hp g Y = Some cY -> hp g' Y = Some cY' -> cont cY' = cont cY ->
  child_of g' Y b c -> child_of g Y b c.
Proof.
  intros g g' Y b c cY cY' Hc Hc' E (c0 & p & cs & H0 & Hk & Hf).
  rewrite Hc' in H0. injection H0 as <-. exists cY, p, cs. rewrite <- E. auto.
Qed.

(** an obsolete word stays obsolete *)
Lemma obsolete_later : forall H, generated H -> forall n t t' c c', t <= t' ->
  hp (H t) n = Some c -> w_is_obsolete (word c) = true -> hp (H t') n = Some c' -> word c' = 1%Z.
Proof.
  intros H G n t t' c c' Hle Hc Ho Hc'.
  destruct (past_later H (generated_cell_step H G) n (word c') t t' c Hle Hc) as (c2 & Hc2 & Hp).
  - left. unfold w_is_obsolete in Ho. apply Z.eqb_eq in Ho. exact Ho.
  - rewrite Hc' in Hc2. injection Hc2 as <-. destruct Hp as [E | Hlt]; [exact E | lia].
Qed.

Lemma linked_free : forall H, generated H -> forall t n, linked (H t) n ->
  exists c, hp (H t) n = Some c /\ w_is_free (word c) = true.
Proof. intros H G t n [pth Hr]. exact (wf_alloc _ (generated_WF H G t) n pth Hr). Qed.

Theorem generated_frozen : forall H, generated H -> obsolete_children_frozen H.
Proof.
  intros H G Y y t b c Hyt HlY Hch.
  destruct (proj2 G t) as [E | [k Hcm]]; [right; rewrite <- E; exact Hch|].
  destruct (linked_free H G y Y HlY) as (cy & Hcy & Hfy).
  destruct (alloc_later H (generated_cell_step H G) Y y t cy Hyt Hcy) as (c0 & Hc0).
  pose proof Hch as (cY & p & cs & HcY & HkY & HfY).
  destruct (generated_cell_step H G t Y c0 Hc0) as (c1 & Hc1 & Hcell).
  rewrite HcY in Hc1. injection Hc1 as <-.
  destruct Hcell as [-> | (Hf0 & _)].
  { right. eapply child_of_cont; [exact Hc0 | exact HcY | reflexivity | exact Hch]. }
  destruct (commit_cont k _ _ Hcm Y c0 cY Hc0 HcY) as [-> | [Ek | Ew]].
  - right. eapply child_of_cont; [exact Hc0 | exact HcY | reflexivity | exact Hch].
  - right. eapply child_of_cont; [exact Hc0 | exact HcY | exact Ek | exact Hch].
  - left.
    assert (HfY' : w_is_free (word cY) = true) by (rewrite Ew; apply bump_free; exact Hf0).
    destruct HlY as [pth Hr].
    assert (HySt : y <= S t) by lia.
    apply (generated_stays_reachable H G y (S t) Y pth HySt Hr).
    intros u Hu.
    assert (Hyu : y <= u) by lia.
    destruct (alloc_later H (generated_cell_step H G) Y y u cy Hyu Hcy) as (cu & Hcu).
    exists cu. split; [exact Hcu|].
    destruct (w_is_obsolete (word cu)) eqn:Ho; [exfalso | reflexivity].
    assert (HuSt : u <= S t) by lia.
    pose proof (obsolete_later H G Y u (S t) cu cY HuSt Hcu Ho HcY) as E1.
    rewrite E1 in HfY'. cbv in HfY'. discriminate.
Qed.

Theorem generated_retire_unlinked : forall H R, generated H -> retire_obsolete H R -> retire_unlinked H R.
Proof.
  intros H R G RO r t n t' Hr Hle Hl.
  destruct (RO r t n Hr) as (c & Hc & Ho).
  destruct (linked_free H G t' n Hl) as (c' & Hc' & Hf).
  pose proof (obsolete_later H G n r t' c c' Hle Hc Ho Hc') as E1.
  rewrite E1 in Hf. cbv in Hf. discriminate.
Qed.

Theorem generated_discipline : forall H R, generated H -> retire_obsolete H R -> writers_discipline H R.
Proof.
  intros H R G RO. split; [apply generated_retire_unlinked; assumption | apply generated_frozen; exact G].
Qed.

(** the composition on generated histories *)
Theorem generated_no_use_after_free : forall H R th s e tr,
  generated H -> retire_obsolete H R -> qsbr_safe R -> freed_via_retire H R ->
  in_period R th s e -> trace_ok H s tr -> own_retire_later R th tr ->
  forall d, In d tr -> d_at d <= e -> ~ rc_freed R (d_at d) (d_node d).
Proof.
  intros H R th s e tr G RO. apply no_use_after_free. apply generated_discipline; assumption.
Qed.

(** ** The example *)
Lemma ux_H_early : forall t, t < 2 -> ux_H t = ux_g0.
Proof. intros t Ht. unfold ux_H. destruct (Nat.ltb_spec t 2); [reflexivity | lia]. Qed.

Lemma ux_H_late : forall t, 2 <= t -> ux_H t = ux_g1.
Proof. intros t Ht. unfold ux_H. destruct (Nat.ltb_spec t 2); [lia | reflexivity]. Qed.

Lemma ux_H_cases : forall t, ux_H t = ux_g0 \/ (2 <= t /\ ux_H t = ux_g1).
Proof.
  intros t. destruct (le_lt_dec 2 t) as [Hge|Hlt]; [right; split; [exact Hge | apply ux_H_late; exact Hge] | left; apply ux_H_early; exact Hlt].
Qed.

Lemma ux_g1_reach : forall n pth, reach ux_g1 n pth -> n = 3.
Proof.
  intros n pth Hr. induction Hr as [n Hroot | n pth c p cs b c' Hr IH Hc Hk Hf].
  - cbn in Hroot. congruence.
  - subst n. cbn in Hc. injection Hc as <-. cbn in Hk. discriminate.
Qed.

Lemma ux_late_unlinked : forall t n, 2 <= t -> n = 1 \/ n = 2 -> ~ linked (ux_H t) n.
Proof.
  intros t n Ht Hn [pth Hr]. rewrite ux_H_late in Hr by exact Ht. apply ux_g1_reach in Hr. lia.
Qed.

Lemma ux_g0_linked : forall n, n = 1 \/ n = 2 \/ n = 3 -> linked ux_g0 n.
Proof.
  assert (R1 : reach ux_g0 1 []) by (apply reach_root; reflexivity).
  intros n [-> | [-> | ->]].
  - exists []. exact R1.
  - exists ([] ++ [] ++ [1%Z]). eapply reach_child; [exact R1 | reflexivity | reflexivity | reflexivity].
  - exists ([] ++ [] ++ [2%Z]). eapply reach_child; [exact R1 | reflexivity | reflexivity | reflexivity].
Qed.

(** contents never change in the example: only words do *)
Lemma ux_cont_const : forall t n, option_map cont (hp (ux_H t) n) = option_map cont (ux_hp0 n).
Proof.
  intros t n. destruct (ux_H_cases t) as [-> | [_ ->]]; [reflexivity|].
  destruct n as [|[|[|[|n]]]]; reflexivity.
Qed.

Lemma ux_child_of_const : forall t t' Y b c, child_of (ux_H t) Y b c -> child_of (ux_H t') Y b c.
Proof.
  intros t t' Y b c (cY & p & cs & Hc & Hk & Hf).
  pose proof (ux_cont_const t Y) as E1. pose proof (ux_cont_const t' Y) as E2.
  rewrite Hc in E1. cbn [option_map] in E1. rewrite <- E1 in E2.
  destruct (hp (ux_H t') Y) as [cY'|] eqn:Hc'; [|discriminate].
  cbn [option_map] in E2. injection E2 as E2. exists cY', p, cs. rewrite E2. auto.
Qed.

Lemma ux_frozen : obsolete_children_frozen ux_H.
Proof. intros Y y t b c _ _ Hch. right. eapply ux_child_of_const. exact Hch. Qed.

Lemma ux_discipline : forall rm fm qm, 2 <= rm -> writers_discipline ux_H (ux_R rm fm qm).
Proof.
  intros rm fm qm Hrm. split; [|exact ux_frozen].
  intros r t n t' (-> & _ & Hn) Hle. apply ux_late_unlinked; [lia | exact Hn].
Qed.

Lemma ux_freed_via_retire : forall H rm fm qm, rm <= fm -> freed_via_retire H (ux_R rm fm qm).
Proof.
  intros H rm fm qm Hle u n y (Hu & Hn) _ _. exists rm, 1. split; [lia|]. cbn. auto.
Qed.

Lemma ux_qsbr_safe : forall rm fm qm, rm < qm <= fm -> qsbr_safe (ux_R rm fm qm).
Proof.
  intros rm fm qm Hq r t n th u (-> & -> & _) Hne Hreg Hru Hnq (Hu & _).
  cbn in Hreg. destruct Hreg as [-> | ->]; [|contradiction].
  apply (Hnq qm); [lia|]. cbn. auto.
Qed.

Lemma ux_unlink_retires : forall rm fm qm, 2 <= rm -> unlink_retires ux_H (ux_R rm fm qm).
Proof.
  intros rm fm qm Hrm t n Hl Hnl.
  destruct (le_lt_dec 2 t) as [Hge | Hlt].
  { exfalso. apply Hnl. rewrite ux_H_late in * by lia. exact Hl. }
  destruct (Nat.eq_dec t 1) as [-> | Hne].
  - rewrite ux_H_early in Hl by lia. rewrite ux_H_late in Hnl by lia.
    destruct Hl as [pth Hr].
    assert (Hn : n = 1 \/ n = 2 \/ n = 3).
    { clear Hnl. induction Hr as [n Hroot | n pth c p cs b c' Hr IH Hc Hk Hf].
      - cbn in Hroot. left. congruence.
      - destruct IH as [-> | [-> | ->]]; cbn in Hc; injection Hc as <-; cbn in Hk; try discriminate.
        injection Hk as <- <-. cbn in Hf.
        destruct (b =? 1)%Z; [injection Hf as <-; auto|].
        destruct (b =? 2)%Z; [injection Hf as <-; auto | discriminate]. }
    destruct Hn as [-> | [-> | ->]].
    + exists rm, 1. split; [lia|]. cbn. auto.
    + exists rm, 1. split; [lia|]. cbn. auto.
    + exfalso. apply Hnl. exists []. apply reach_root. reflexivity.
  - exfalso. apply Hnl. rewrite ux_H_early in * by lia. exact Hl.
Qed.

Lemma ux_own : forall rm fm qm tr, own_retire_later (ux_R rm fm qm) 0 tr.
Proof.
  intros rm fm qm tr d r _. split.
  - intros (_ & E & _). discriminate.
  - intros Y b m _ (_ & E & _). discriminate.
Qed.

Lemma ux_child_1_2 : forall t, child_of (ux_H t) 1 1%Z 2.
Proof.
  intros t. apply (ux_child_of_const 0 t).
  exists {| word := 0%Z; cont := CInode [] [(1%Z, 2); (2%Z, 3)] |}, [], [(1%Z, 2); (2%Z, 3)].
  repeat split.
Qed.

Lemma ux_trace_ok : trace_ok ux_H 0 ux_trace.
Proof.
  apply (tr_snoc ux_H 0 [ {| d_at := 1; d_node := 1; d_src := FromRoot 0 |};
                          {| d_at := 4; d_node := 2; d_src := FromChild 1 1%Z 3 |} ]
                         {| d_at := 5; d_node := 1; d_src := FromRoot 0 |}).
  - apply (tr_snoc ux_H 0 [ {| d_at := 1; d_node := 1; d_src := FromRoot 0 |} ]
                          {| d_at := 4; d_node := 2; d_src := FromChild 1 1%Z 3 |}).
    + apply (tr_snoc ux_H 0 [] {| d_at := 1; d_node := 1; d_src := FromRoot 0 |}).
      * apply tr_nil.
      * cbn. lia.
      * reflexivity.
      * exact I.
    + cbn. lia.
    + cbn [d_src d_node src_shows]. apply ux_child_1_2.
    + cbn [d_src src_touched]. eexists. split; [left; reflexivity|]. cbn. lia.
  - cbn. lia.
  - reflexivity.
  - exact I.
Qed.

Lemma ux_trace_q_ok : trace_ok ux_H 0 ux_trace_q.
Proof.
  apply (tr_snoc ux_H 0 [ {| d_at := 1; d_node := 1; d_src := FromRoot 0 |} ]
                        {| d_at := 6; d_node := 2; d_src := FromChild 1 1%Z 1 |}).
  - apply (tr_snoc ux_H 0 [] {| d_at := 1; d_node := 1; d_src := FromRoot 0 |}).
    + apply tr_nil.
    + cbn. lia.
    + reflexivity.
    + exact I.
  - cbn. lia.
  - cbn [d_src d_node src_shows]. apply ux_child_1_2.
  - cbn [d_src src_touched]. eexists. split; [left; reflexivity|]. cbn. lia.
Qed.

Lemma ux_in_period : forall rm fm qm s e, e < qm -> in_period (ux_R rm fm qm) 0 s e.
Proof.
  intros rm fm qm s e He t Ht. split; [cbn; auto|]. intros _ (E & _). lia.
Qed.

(** the reader is inside node 1 when the collapse unlinks it, reads a child
    pointer out of the obsolete node afterwards, and all hypotheses hold:
    retire at 3, the reader quiesces at 7, the memory is released at 8 *)
Theorem example_protected :
  writers_discipline ux_H (ux_R 3 8 7) /\ unlink_retires ux_H (ux_R 3 8 7) /\
  qsbr_safe (ux_R 3 8 7) /\ freed_via_retire ux_H (ux_R 3 8 7) /\
  in_period (ux_R 3 8 7) 0 0 6 /\ trace_ok ux_H 0 ux_trace /\ own_retire_later (ux_R 3 8 7) 0 ux_trace /\
  (* the situation is the interesting one *)
  linked (ux_H 1) 1 /\ ~ linked (ux_H 2) 1 /\ ~ linked (ux_H 3) 2 /\
  (exists c, hp (ux_H 3) 1 = Some c /\ w_is_obsolete (word c) = true) /\
  (* ... and the memory is indeed released later *)
  rc_freed (ux_R 3 8 7) 8 2.
Proof.
  split; [apply ux_discipline; lia|]. split; [apply ux_unlink_retires; lia|].
  split; [apply ux_qsbr_safe; lia|]. split; [apply ux_freed_via_retire; lia|].
  split; [apply ux_in_period; lia|]. split; [exact ux_trace_ok|]. split; [apply ux_own|].
  split; [rewrite ux_H_early by lia; apply ux_g0_linked; auto|].
  split; [apply ux_late_unlinked; [lia | auto]|].
  split; [apply ux_late_unlinked; [lia | auto]|].
  split; [eexists; split; reflexivity|].
  cbn. auto.
Qed.

(** without the QSBR guarantee: nodes released at the unlink moment; every
    other hypothesis holds and the reader's access at moment 4 hits memory
    that is with the allocator *)
Theorem qsbr_needed :
  writers_discipline ux_H (ux_R 2 2 100) /\ freed_via_retire ux_H (ux_R 2 2 100) /\
  in_period (ux_R 2 2 100) 0 0 6 /\ trace_ok ux_H 0 ux_trace /\ own_retire_later (ux_R 2 2 100) 0 ux_trace /\
  ~ qsbr_safe (ux_R 2 2 100) /\
  exists d, In d ux_trace /\ d_at d <= 6 /\ rc_freed (ux_R 2 2 100) (d_at d) (d_node d).
Proof.
  assert (W : writers_discipline ux_H (ux_R 2 2 100)) by (apply ux_discipline; lia).
  assert (FV : freed_via_retire ux_H (ux_R 2 2 100)) by (apply ux_freed_via_retire; lia).
  assert (P : in_period (ux_R 2 2 100) 0 0 6) by (apply ux_in_period; lia).
  assert (X : exists d, In d ux_trace /\ d_at d <= 6 /\ rc_freed (ux_R 2 2 100) (d_at d) (d_node d)).
  { exists {| d_at := 4; d_node := 2; d_src := FromChild 1 1%Z 3 |}.
    split; [right; left; reflexivity|]. cbn. lia. }
  repeat (split; [first [assumption | exact ux_trace_ok | apply ux_own]|]).
  split; [|exact X].
  intros Q. destruct X as (d & Hin & Hle & Hf).
  exact (no_use_after_free ux_H _ 0 0 6 ux_trace W Q FV P ux_trace_ok (ux_own _ _ _ _) d Hin Hle Hf).
Qed.

(** a thread that went through a quiescent state while holding the pointer
    is not protected: QSBR keeps its promise (retire at 3, the reader quiesces
    at 4, release at 5), the writers keep theirs, the reader stays registered,
    and its access at moment 6 through a pointer read at moment 1 hits
    released memory.  Neither [0, 6] nor any later start is a period of which
    ux_trace_q is a trace. *)
Theorem quiescent_state_ends_protection :
  writers_discipline ux_H (ux_R 3 5 4) /\ qsbr_safe (ux_R 3 5 4) /\ freed_via_retire ux_H (ux_R 3 5 4) /\
  trace_ok ux_H 0 ux_trace_q /\ own_retire_later (ux_R 3 5 4) 0 ux_trace_q /\
  (forall t, rc_reg (ux_R 3 5 4) t 0) /\ rc_quiesce (ux_R 3 5 4) 4 0 /\
  in_period (ux_R 3 5 4) 0 0 3 /\ ~ in_period (ux_R 3 5 4) 0 0 6 /\
  (forall s, 1 < s -> ~ trace_ok ux_H s ux_trace_q) /\
  exists d, In d ux_trace_q /\ rc_freed (ux_R 3 5 4) (d_at d) (d_node d).
Proof.
  split; [apply ux_discipline; lia|]. split; [apply ux_qsbr_safe; lia|].
  split; [apply ux_freed_via_retire; lia|]. split; [exact ux_trace_q_ok|]. split; [apply ux_own|].
  split; [intros t; cbn; auto|]. split; [cbn; auto|].
  split; [apply ux_in_period; lia|].
  split.
  { intros P. assert (H4 : 0 <= 4 <= 6) by lia. destruct (P 4 H4) as [_ Hq]. apply Hq; [lia|]. cbn. auto. }
  split.
  { intros s Hs Hok.
    change ux_trace_q with ([ {| d_at := 1; d_node := 1; d_src := FromRoot 0 |} ] ++
                            [ {| d_at := 6; d_node := 2; d_src := FromChild 1 1%Z 1 |} ]) in Hok.
    apply trace_ok_app_inv in Hok. destruct Hok as (_ & Hm & _). cbn in Hm. lia. }
  exists {| d_at := 6; d_node := 2; d_src := FromChild 1 1%Z 1 |}.
  split; [right; left; reflexivity|]. cbn. lia.
Qed.

(** the frozen-children hypothesis is needed: a store of a dangling pointer
    into the obsolete node; every other hypothesis holds and the reader's
    access at moment 5 hits memory that is with the allocator *)
Lemma ux_g0_reach : forall n pth, reach ux_g0 n pth -> n = 1 \/ n = 2 \/ n = 3.
Proof.
  intros n pth Hr. induction Hr as [n Hroot | n pth c p cs b c' Hr IH Hc Hk Hf].
  - cbn in Hroot. left. congruence.
  - destruct IH as [-> | [-> | ->]]; cbn in Hc; injection Hc as <-; cbn in Hk; try discriminate.
    injection Hk as <- <-. cbn in Hf.
    destruct (b =? 1)%Z; [injection Hf as <-; auto|].
    destruct (b =? 2)%Z; [injection Hf as <-; auto | discriminate].
Qed.

Lemma ux_g2_reach : forall n pth, reach ux_g2 n pth -> n = 3.
Proof.
  intros n pth Hr. induction Hr as [n Hroot | n pth c p cs b c' Hr IH Hc Hk Hf].
  - cbn in Hroot. congruence.
  - subst n. cbn in Hc. injection Hc as <-. cbn in Hk. discriminate.
Qed.

Lemma ux_H2_cases : forall t, (t < 2 /\ ux_H2 t = ux_g0) \/ (t = 2 /\ ux_H2 t = ux_g1) \/ (3 <= t /\ ux_H2 t = ux_g2).
Proof.
  intros t. unfold ux_H2. destruct (Nat.ltb_spec t 2); [left; auto|].
  destruct (Nat.ltb_spec t 3); [right; left; split; [lia | reflexivity] | right; right; auto].
Qed.

Lemma ux_H2_linked : forall t n, linked (ux_H2 t) n -> (n = 1 \/ n = 2 \/ n = 3) /\ (2 <= t -> n = 3).
Proof.
  intros t n [pth Hr]. destruct (ux_H2_cases t) as [[Ht E] | [[Ht E] | [Ht E]]]; rewrite E in Hr.
  - split; [eapply ux_g0_reach; exact Hr | lia].
  - apply ux_g1_reach in Hr. auto.
  - apply ux_g2_reach in Hr. auto.
Qed.

Lemma ux_trace2_ok : trace_ok ux_H2 0 ux_trace2.
Proof.
  apply (tr_snoc ux_H2 0 [ {| d_at := 1; d_node := 1; d_src := FromRoot 0 |} ]
                         {| d_at := 5; d_node := 4; d_src := FromChild 1 9%Z 4 |}).
  - apply (tr_snoc ux_H2 0 [] {| d_at := 1; d_node := 1; d_src := FromRoot 0 |}).
    + apply tr_nil.
    + cbn. lia.
    + reflexivity.
    + exact I.
  - cbn. lia.
  - cbn [d_src d_node src_shows]. eexists. exists [], [(1%Z, 2); (2%Z, 3); (9%Z, 4)]. repeat split.
  - cbn [d_src src_touched]. eexists. split; [left; reflexivity|]. cbn. lia.
Qed.

Theorem frozen_needed :
  retire_unlinked ux_H2 ux_R2 /\ qsbr_safe ux_R2 /\ freed_via_retire ux_H2 ux_R2 /\
  in_period ux_R2 0 0 6 /\ trace_ok ux_H2 0 ux_trace2 /\ own_retire_later ux_R2 0 ux_trace2 /\
  ~ obsolete_children_frozen ux_H2 /\
  exists d, In d ux_trace2 /\ d_at d <= 6 /\ rc_freed ux_R2 (d_at d) (d_node d).
Proof.
  assert (RU : retire_unlinked ux_H2 ux_R2).
  { intros r t n t' (-> & _ & Hn) Hle Hl. apply ux_H2_linked in Hl. destruct Hl as [_ Hl]. specialize (Hl ltac:(lia)). lia. }
  assert (Q : qsbr_safe ux_R2).
  { intros r t n th u (-> & -> & Hn) Hne Hreg Hru Hnq Hf.
    cbn in Hreg. destruct Hreg as [-> | ->]; [|contradiction].
    destruct Hf as [(Hu & _) | ->]; [|lia].
    apply (Hnq 7); [lia|]. cbn. auto. }
  assert (FV : freed_via_retire ux_H2 ux_R2).
  { intros u n y Hf _ Hl. destruct Hf as [(Hu & Hn) | ->].
    - exists 3, 1. split; [lia|]. cbn. auto.
    - apply ux_H2_linked in Hl. lia. }
  assert (P : in_period ux_R2 0 0 6).
  { intros t Ht. split; [cbn; auto|]. intros _ (E & _). lia. }
  assert (Own : own_retire_later ux_R2 0 ux_trace2).
  { intros d r _. split; [intros (_ & E & _); discriminate | intros Y b m _ (_ & E & _); discriminate]. }
  assert (X : exists d, In d ux_trace2 /\ d_at d <= 6 /\ rc_freed ux_R2 (d_at d) (d_node d)).
  { exists {| d_at := 5; d_node := 4; d_src := FromChild 1 9%Z 4 |}.
    split; [right; left; reflexivity|]. cbn. split; [lia | auto]. }
  repeat (split; [first [assumption | exact ux_trace2_ok]|]).
  split; [|exact X].
  intros F. destruct X as (d & Hin & Hle & Hf).
  exact (no_use_after_free ux_H2 ux_R2 0 0 6 ux_trace2 (Build_writers_discipline _ _ RU F) Q FV P ux_trace2_ok Own d Hin Hle Hf).
Qed.

(** ** The hypotheses of the generated-history theorem are satisfiable: the
    run of Olc/WriteExample.v (empty -> root_insert [1;2] -> leaf_split [1;3]
    at the root slot, creating inode 1 over leaves 0 and 2 -> collapse of
    inode 1 at moment 3).  The reader reads the root pointer at moment 2 and
    enters inode 1; the writer retires nodes 1 and 2 at moment 4; at moment 4
    the reader reads the slot for byte 3 out of the obsolete inode 1 and at
    moment 5 touches the obsolete leaf 2. *)
Definition gen_H : history := fun t =>
  match t with 0 => ex_g0 | 1 => ex_g1 | 2 => ex_g2 | _ => ex_g3 end.

Definition gen_trace : list deref :=
  [ {| d_at := 2; d_node := 1; d_src := FromRoot 2 |};
    {| d_at := 5; d_node := 2; d_src := FromChild 1 3%Z 4 |} ].

Lemma gen_H_generated : generated gen_H.
Proof.
  split; [apply init_ok_empty; reflexivity|].
  intros [|[|[|t]]]; cbn [gen_H].
  - right. exists ex_k1. left. exists ex_v1. exact ex_step1.
  - right. exists ex_k2. left. exists ex_v2. exact ex_step2.
  - right. exists ex_k2. right. exact ex_step3.
  - left. reflexivity.
Qed.

Lemma gen_retire_obsolete : retire_obsolete gen_H (ux_R 4 8 7).
Proof. intros r t n (-> & _ & [-> | ->]); eexists; split; reflexivity. Qed.

Lemma gen_trace_ok : trace_ok gen_H 2 gen_trace.
Proof.
  apply (tr_snoc gen_H 2 [ {| d_at := 2; d_node := 1; d_src := FromRoot 2 |} ]
                         {| d_at := 5; d_node := 2; d_src := FromChild 1 3%Z 4 |}).
  - apply (tr_snoc gen_H 2 [] {| d_at := 2; d_node := 1; d_src := FromRoot 2 |}).
    + apply tr_nil.
    + cbn. lia.
    + reflexivity.
    + exact I.
  - cbn. lia.
  - cbn [d_src d_node src_shows]. exists (mk 1 (CInode [1%Z] ex_csX)), [1%Z], ex_csX. repeat split.
  - cbn [d_src src_touched]. eexists. split; [left; reflexivity|]. cbn. lia.
Qed.

Theorem generated_example :
  generated gen_H /\ retire_obsolete gen_H (ux_R 4 8 7) /\ qsbr_safe (ux_R 4 8 7) /\
  freed_via_retire gen_H (ux_R 4 8 7) /\ in_period (ux_R 4 8 7) 0 2 6 /\
  trace_ok gen_H 2 gen_trace /\ own_retire_later (ux_R 4 8 7) 0 gen_trace /\
  linked (gen_H 2) 1 /\ ~ linked (gen_H 3) 1 /\ ~ linked (gen_H 3) 2.
Proof.
  split; [exact gen_H_generated|]. split; [exact gen_retire_obsolete|].
  split; [apply ux_qsbr_safe; lia|]. split; [apply ux_freed_via_retire; lia|].
  split; [apply ux_in_period; lia|]. split; [exact gen_trace_ok|]. split; [apply ux_own|].
  split; [exists []; apply reach_root; reflexivity|].
  assert (R3 : forall n pth, reach (gen_H 3) n pth -> n = 0).
  { intros n pth Hr. induction Hr as [n Hroot | n pth c p cs b c' Hr IH Hc Hk Hf].
    - cbn in Hroot. congruence.
    - subst n. cbn in Hc. injection Hc as <-. cbn in Hk. discriminate. }
  split; intros [pth Hr]; apply R3 in Hr; discriminate.
Qed.

Print Assumptions protected_until_quiescent.
Print Assumptions no_use_after_free.
Print Assumptions generated_discipline.
