(** C03e, adequacy (2): a heap that represents a well-formed sequential tree
    satisfies the heap invariant WF of Olc/WriteModel.v. *)
From Coq Require Import List ZArith Bool Arith Lia.
From Unodb Require Import Base.Lex Art.ArtModel Art.ArtSpec Art.ArtInv Art.ArtLemmas Art.ArtProofs.
From Unodb Require Import Lock.LockModel Olc.ReadModel Olc.WriteModel Olc.WriteShapes.
From Unodb Require Import Olc.ArtRefine Olc.ArtRefineIns.
Import ListNotations.
Local Open Scope nat_scope.

Local Notation AWF := ArtInv.WF.

(** ** reach relative to a start node, and its decomposition at the front *)
Inductive rreach (h : heap) (r : nid) : nid -> list Z -> Prop :=
| rr_here : rreach h r r []
| rr_child : forall n pth c p cs b c', rreach h r n pth -> h n = Some c -> cont c = CInode p cs ->
    find_child b cs = Some c' -> rreach h r c' (pth ++ p ++ [b]).

Lemma reach_rreach : forall g n pth, reach g n pth -> exists r, ReadModel.root g = Some r /\ rreach (hp g) r n pth.
Proof.
  intros g n pth H. induction H as [n Hr | n pth c p cs b c' _ IH Hc Hk Hf].
  - exists n. split; [exact Hr | constructor].
  - destruct IH as (r & Hr & IH). exists r. split; [exact Hr | eapply rr_child; eassumption].
Qed.

Lemma rr_front : forall h r m q, rreach h r m q ->
  (m = r /\ q = []) \/
  exists c p cs b m1 q', h r = Some c /\ cont c = CInode p cs /\ find_child b cs = Some m1 /\
    q = p ++ [b] ++ q' /\ rreach h m1 m q'.
Proof.
  intros h r m q H. induction H as [|n pth c p cs b c' Hr IH Hc Hk Hf]; [left; auto | right].
  destruct IH as [[-> ->] | (c0 & p0 & cs0 & b0 & m1 & q' & Hc0 & Hk0 & Hf0 & -> & Hr')].
  - exists c, p, cs, b, c', []. repeat split; try assumption; constructor.
  - exists c0, p0, cs0, b0, m1, (q' ++ p ++ [b]). repeat split; try assumption.
    + rewrite <- !app_assoc. reflexivity.
    + eapply rr_child; eassumption.
Qed.

(** ** the ids of a represented subtree are determined by the heap *)
Lemma rep_ids_det_mut : forall h,
  (forall t n ids, rep h t n ids -> forall t' ids', rep h t' n ids' -> ids = ids') /\
  (forall ch cs ids, rep_list h ch cs ids -> forall ch' ids', rep_list h ch' cs ids' -> ids = ids').
Proof.
  intros h. apply rep_mutind.
  - intros id k v n c Hc _ Hk t' ids' H'. destruct (rep_root_cell _ _ _ _ H') as (c' & Hc' & _ & M).
    rewrite Hc in Hc'. injection Hc' as <-. destruct t'; [destruct M as [_ ->]; reflexivity|].
    destruct M as (cs & ids0 & E & _). congruence.
  - intros c p ch n cl cs ids Hc _ Hk _ IH t' ids' H'. destruct (rep_root_cell _ _ _ _ H') as (c' & Hc' & _ & M).
    rewrite Hc in Hc'. injection Hc' as <-. destruct t'; [destruct M as [E _]; congruence|].
    destruct M as (cs' & ids0 & E & Hl & ->). rewrite Hk in E. injection E as <- <-. f_equal. eapply IH. exact Hl.
  - intros ch' ids' H'. inversion H'. reflexivity.
  - intros b t m i1 ch cs i2 _ IH1 _ IH2 ch' ids' H'. inversion H' as [|b' t' m' j1 ch'' cs' j2 Hr Hl]; subst.
    f_equal; [eapply IH1; exact Hr | eapply IH2; exact Hl].
Qed.

Lemma rep_ids_det : forall h t n ids t' ids', rep h t n ids -> rep h t' n ids' -> ids = ids'.
Proof. intros h t n ids t' ids' H H'. exact (proj1 (rep_ids_det_mut h) t n ids H t' ids' H'). Qed.

(** ** finding a child in a represented child list *)
Lemma rep_list_find : forall h ch cs ids b m, rep_list h ch cs ids -> find_child b cs = Some m ->
  exists t im, In (b, t) ch /\ rep h t m im /\ incl im ids /\ exists i1 i2, ids = i1 ++ im ++ i2.
Proof.
  intros h ch cs ids b m Hl. induction Hl as [|b0 t0 m0 i1 ch cs i2 Hr Hl IH]; cbn; [discriminate|].
  destruct (Z.eqb_spec b b0) as [->|Hne]; intros Hf.
  - injection Hf as <-. exists t0, i1. split; [left; reflexivity | split; [exact Hr | split; [apply incl_appl, incl_refl|]]].
    exists [], i2. reflexivity.
  - destruct (IH Hf) as (t & im & HI & Hrm & Hinc & j1 & j2 & ->). exists t, im.
    split; [right; exact HI | split; [exact Hrm | split; [apply incl_appr; exact Hinc|]]].
    exists (i1 ++ j1), j2. rewrite <- app_assoc. reflexivity.
Qed.

Lemma rep_list_disjoint : forall h ch cs ids b1 m1 b2 m2 t1 im1 t2 im2,
  rep_list h ch cs ids -> NoDup ids ->
  find_child b1 cs = Some m1 -> find_child b2 cs = Some m2 -> b1 <> b2 ->
  rep h t1 m1 im1 -> rep h t2 m2 im2 -> forall x, In x im1 -> In x im2 -> False.
Proof.
  intros h ch cs ids b1 m1 b2 m2 t1 im1 t2 im2 Hl. revert b1 m1 b2 m2 t1 im1 t2 im2.
  induction Hl as [|b0 t0 m0 i1 ch cs i2 Hr Hl IH]; intros b1 m1 b2 m2 t1 im1 t2 im2 Hnd Hf1 Hf2 Hne R1 R2 x X1 X2;
    cbn in Hf1, Hf2; [discriminate|].
  destruct (NoDup_app_inv _ _ _ Hnd) as (N1 & N2 & D).
  destruct (Z.eqb_spec b1 b0) as [E1|E1]; destruct (Z.eqb_spec b2 b0) as [E2|E2].
  - congruence.
  - injection Hf1 as <-. rewrite (rep_ids_det _ _ _ _ _ _ R1 Hr) in X1.
    destruct (rep_list_find _ _ _ _ _ _ Hl Hf2) as (t & im & _ & Rm & Hinc & _).
    rewrite (rep_ids_det _ _ _ _ _ _ R2 Rm) in X2. exact (D x X1 (Hinc x X2)).
  - injection Hf2 as <-. rewrite (rep_ids_det _ _ _ _ _ _ R2 Hr) in X2.
    destruct (rep_list_find _ _ _ _ _ _ Hl Hf1) as (t & im & _ & Rm & Hinc & _).
    rewrite (rep_ids_det _ _ _ _ _ _ R1 Rm) in X1. exact (D x X2 (Hinc x X1)).
  - eapply (IH b1 m1 b2 m2); eassumption.
Qed.

Lemma child_AWF : forall L c p ch pi b t, AWF L (Inode c p ch) pi -> In (b, t) ch -> AWF L t (pi ++ p ++ [b]).
Proof.
  intros L c p ch pi b t HW HI. apply WF_inode in HW. destruct HW as (_ & _ & _ & _ & _ & Hch).
  unfold WFch in Hch. rewrite Forall_forall in Hch. exact (proj2 (Hch _ HI)).
Qed.

(** ** every node reached from the root of a represented subtree is itself
    the root of a represented, well-formed subtree, inside the ids *)
Lemma rr_rep : forall L h fuel t pi n ids, rep h t n ids -> NoDup ids -> AWF L t pi -> L - length pi < fuel ->
  forall m q, rreach h n m q ->
  exists t' ids', rep h t' m ids' /\ AWF L t' (pi ++ q) /\ incl ids' ids /\ (m = n -> q = []).
Proof.
  intros L h. induction fuel as [|f IH]; intros t pi n ids Hr Hnd HW Hfuel m q Hreach; [lia|].
  destruct (rr_front _ _ _ _ Hreach) as [[-> ->] | (c & p & cs & b & m1 & q' & Hc & Hk & Hf & -> & Hr')].
  - exists t, ids. rewrite app_nil_r. repeat split; [exact Hr | exact HW | apply incl_refl].
  - destruct (rep_root_cell _ _ _ _ Hr) as (c0 & Hc0 & _ & M). rewrite Hc in Hc0. injection Hc0 as <-.
    destruct t as [lid lk lv | c1 p1 ch]; [destruct M as [E _]; congruence|].
    destruct M as (cs0 & ids0 & E & Hl & ->). rewrite Hk in E. injection E as <- <-.
    destruct (rep_list_find _ _ _ _ _ _ Hl Hf) as (t1 & im & HI & R1 & Hinc & j1 & j2 & Eids).
    pose proof (child_AWF _ _ _ _ _ _ _ HW HI) as HW1.
    inversion Hnd as [|x l Hnin Hnd0]; subst.
    assert (Hndm : NoDup im).
    { apply NoDup_app_inv in Hnd0. destruct Hnd0 as (_ & Hnd0 & _). apply NoDup_app_inv in Hnd0. tauto. }
    assert (Hlen : length pi + length p < L) by (apply WF_inode in HW; tauto).
    destruct (IH t1 (pi ++ p ++ [b]) m1 im R1 Hndm HW1 ltac:(rewrite !app_length; cbn; lia) m q' Hr')
      as (t' & ids' & R' & W' & Hinc' & _).
    exists t', ids'. split; [exact R' | split; [|split]].
    + rewrite <- !app_assoc in W'. exact W'.
    + intros x Hx. right. apply Hinc. apply Hinc'. exact Hx.
    + intros ->. exfalso. apply Hnin. apply Hinc. apply Hinc'. eapply rep_root_in. exact R'.
Qed.

(** a node held by a slot strictly below m' is among the ids of m', and is not m' *)
Lemma below_in : forall L h t' pi' m' im' n2 q2 c2 p2 cs2 b2 m,
  rep h t' m' im' -> NoDup im' -> AWF L t' pi' ->
  rreach h m' n2 q2 -> h n2 = Some c2 -> cont c2 = CInode p2 cs2 -> find_child b2 cs2 = Some m ->
  In m im' /\ m <> m'.
Proof.
  intros L h t' pi' m' im' n2 q2 c2 p2 cs2 b2 m R Hnd HW Hr Hc Hk Hf.
  pose proof (rr_child _ _ _ _ _ _ _ _ _ Hr Hc Hk Hf) as Hr'.
  destruct (rr_rep L h (S (L - length pi')) t' pi' m' im' R Hnd HW ltac:(lia) m _ Hr') as (t'' & ids'' & R'' & _ & Hinc & Hroot).
  split; [apply Hinc; eapply rep_root_in; exact R''|].
  intros ->. specialize (Hroot eq_refl). apply app_eq_nil in Hroot. destruct Hroot as [_ Hroot].
  apply app_eq_nil in Hroot. destruct Hroot as [_ Hroot]. discriminate.
Qed.

Lemma rr_parent : forall L h fuel t pi n ids, rep h t n ids -> NoDup ids -> AWF L t pi -> L - length pi < fuel ->
  forall n1 q1 c1 p1 cs1 b1 n2 q2 c2 p2 cs2 b2 m,
    rreach h n n1 q1 -> h n1 = Some c1 -> cont c1 = CInode p1 cs1 -> find_child b1 cs1 = Some m ->
    rreach h n n2 q2 -> h n2 = Some c2 -> cont c2 = CInode p2 cs2 -> find_child b2 cs2 = Some m ->
    n1 = n2 /\ b1 = b2.
Proof.
  intros L h. induction fuel as [|f IH]; intros t pi n ids Hr Hnd HW Hfuel
    n1 q1 c1 p1 cs1 b1 n2 q2 c2 p2 cs2 b2 m R1 C1 K1 F1 R2 C2 K2 F2; [lia|].
  (* the root cell, if it is an inner node *)
  assert (Hroot : forall c p cs, h n = Some c -> cont c = CInode p cs ->
            exists c0 ch ids0, t = Inode c0 p ch /\ ids = n :: ids0 /\ rep_list h ch cs ids0 /\ NoDup ids0 /\
              length pi + length p < L).
  { intros c p cs Hc Hk. destruct (rep_root_cell _ _ _ _ Hr) as (c0 & Hc0 & _ & M). rewrite Hc in Hc0. injection Hc0 as <-.
    destruct t as [lid lk lv | c1' p1' ch]; [destruct M as [E _]; congruence|].
    destruct M as (cs0 & ids0 & E & Hl & ->). rewrite Hk in E. injection E as <- <-.
    exists c1', ch, ids0. repeat split; try assumption; [inversion Hnd; assumption | apply WF_inode in HW; tauto]. }
  (* a child of the root: its represented subtree *)
  assert (Hchild : forall c0 p ch ids0 cs b m', t = Inode c0 p ch -> rep_list h ch cs ids0 -> NoDup ids0 ->
            find_child b cs = Some m' ->
            exists t' im', rep h t' m' im' /\ NoDup im' /\ AWF L t' (pi ++ p ++ [b])).
  { intros c0 p ch ids0 cs b m' -> Hl Hnd0 Hf.
    destruct (rep_list_find _ _ _ _ _ _ Hl Hf) as (t' & im' & HI & R' & _ & j1 & j2 & ->).
    exists t', im'. split; [exact R' | split; [|eapply child_AWF; eassumption]].
    apply NoDup_app_inv in Hnd0. destruct Hnd0 as (_ & Hnd0 & _). apply NoDup_app_inv in Hnd0. tauto. }
  destruct (rr_front _ _ _ _ R1) as [[-> ->] | (d1 & r1 & ds1 & a1 & m1 & q1' & D1 & E1 & G1 & -> & R1')];
  destruct (rr_front _ _ _ _ R2) as [[-> ->] | (d2 & r2 & ds2 & a2 & m2 & q2' & D2 & E2 & G2 & -> & R2')].
  - (* both at the root *)
    split; [reflexivity|]. rewrite C1 in C2. injection C2 as <-. rewrite K1 in K2. injection K2 as <- <-.
    destruct (Z.eq_dec b1 b2) as [E|Hne]; [exact E | exfalso].
    destruct (Hroot _ _ _ C1 K1) as (c0 & ch & ids0 & -> & -> & Hl & Hnd0 & _).
    destruct (rep_list_find _ _ _ _ _ _ Hl F1) as (t1 & im1 & _ & T1 & _).
    destruct (rep_list_find _ _ _ _ _ _ Hl F2) as (t2 & im2 & _ & T2 & _).
    eapply (rep_list_disjoint _ _ _ _ b1 m b2 m); try eassumption; eapply rep_root_in; eassumption.
  - (* first at the root, second below *)
    exfalso. rewrite C1 in D2. injection D2 as <-. rewrite K1 in E2. injection E2 as <- <-.
    destruct (Hroot _ _ _ C1 K1) as (c0 & ch & ids0 & Et & -> & Hl & Hnd0 & _).
    destruct (Hchild _ _ _ _ _ _ _ Et Hl Hnd0 G2) as (t' & im' & T' & N' & W').
    destruct (below_in L h _ _ _ _ _ _ _ _ _ _ _ T' N' W' R2' C2 K2 F2) as [HIn Hneq].
    destruct (Z.eq_dec b1 a2) as [E|Hne]; [subst; rewrite F1 in G2; injection G2 as <-; congruence|].
    destruct (rep_list_find _ _ _ _ _ _ Hl F1) as (t1 & im1 & _ & T1 & _).
    eapply (rep_list_disjoint _ _ _ _ b1 m a2 m2); try eassumption. eapply rep_root_in; eassumption.
  - (* second at the root, first below *)
    exfalso. rewrite C2 in D1. injection D1 as <-. rewrite K2 in E1. injection E1 as <- <-.
    destruct (Hroot _ _ _ C2 K2) as (c0 & ch & ids0 & Et & -> & Hl & Hnd0 & _).
    destruct (Hchild _ _ _ _ _ _ _ Et Hl Hnd0 G1) as (t' & im' & T' & N' & W').
    destruct (below_in L h _ _ _ _ _ _ _ _ _ _ _ T' N' W' R1' C1 K1 F1) as [HIn Hneq].
    destruct (Z.eq_dec b2 a1) as [E|Hne]; [subst; rewrite F2 in G1; injection G1 as <-; congruence|].
    destruct (rep_list_find _ _ _ _ _ _ Hl F2) as (t2 & im2 & _ & T2 & _).
    eapply (rep_list_disjoint _ _ _ _ b2 m a1 m1); try eassumption. eapply rep_root_in; eassumption.
  - (* both below *)
    rewrite D1 in D2. injection D2 as <-. rewrite E1 in E2. injection E2 as <- <-.
    destruct (Hroot _ _ _ D1 E1) as (c0 & ch & ids0 & Et & -> & Hl & Hnd0 & Hlen).
    destruct (Hchild _ _ _ _ _ _ _ Et Hl Hnd0 G1) as (t1' & im1' & T1' & N1' & W1').
    destruct (Z.eq_dec a1 a2) as [E|Hne].
    + subst a2. rewrite G1 in G2. injection G2 as <-.
      eapply (IH t1' (pi ++ r1 ++ [a1]) m1 im1' T1' N1' W1'); try eassumption. rewrite !app_length. cbn. lia.
    + exfalso. destruct (Hchild _ _ _ _ _ _ _ Et Hl Hnd0 G2) as (t2' & im2' & T2' & N2' & W2').
      destruct (below_in L h _ _ _ _ _ _ _ _ _ _ _ T1' N1' W1' R1' C1 K1 F1) as [HIn1 _].
      destruct (below_in L h _ _ _ _ _ _ _ _ _ _ _ T2' N2' W2' R2' C2 K2 F2) as [HIn2 _].
      eapply (rep_list_disjoint _ _ _ _ a1 m1 a2 m2); eassumption.
Qed.

(** ** the heap invariant follows from the representation relation *)
Theorem represents_WF : forall L g d, represents g d -> db_WF L d -> WF g.
Proof.
  intros L g d [_ Hroot] HW. unfold db_WF in HW. destruct (ArtModel.root d) as [t|]; [|apply WF_empty; exact Hroot].
  destruct Hroot as (n0 & ids & Hrg & Hr & Hnd).
  assert (Hrr : forall m q, reach g m q -> rreach (hp g) n0 m q).
  { intros m q H. destruct (reach_rreach _ _ _ H) as (r & Er & Hrr). rewrite Hrg in Er. injection Er as <-. exact Hrr. }
  assert (Hsub : forall m q, reach g m q -> exists t' ids', rep (hp g) t' m ids' /\ AWF L t' q /\ (m = n0 -> q = [])).
  { intros m q H. destruct (rr_rep L (hp g) (S L) t [] n0 ids Hr Hnd HW ltac:(cbn; lia) m q (Hrr _ _ H)) as (t' & ids' & R & W & _ & E).
    exists t', ids'. auto. }
  constructor.
  - intros n pth H. destruct (Hsub _ _ H) as (t' & ids' & R & _). destruct (rep_root_cell _ _ _ _ R) as (c & Hc & Hf & _).
    exists c. auto.
  - intros n pth c kk v H Hc Hk. destruct (Hsub _ _ H) as (t' & ids' & R & W & _).
    destruct (rep_root_cell _ _ _ _ R) as (c' & Hc' & _ & M). rewrite Hc in Hc'. injection Hc' as <-.
    destruct t' as [lid lk lv | c1 p1 ch]; [|destruct M as (cs & ids0 & E & _); congruence].
    destruct M as [E _]. rewrite Hk in E. injection E as <- <-. apply WF_leaf in W. destruct W as [_ W]. symmetry. exact W.
  - intros n1 b1 n2 b2 m (q1 & c1 & p1 & cs1 & R1 & C1 & K1 & F1) (q2 & c2 & p2 & cs2 & R2 & C2 & K2 & F2).
    exact (rr_parent L (hp g) (S L) t [] n0 ids Hr Hnd HW ltac:(cbn; lia) n1 q1 c1 p1 cs1 b1 n2 q2 c2 p2 cs2 b2 m (Hrr _ _ R1) C1 K1 F1 (Hrr _ _ R2) C2 K2 F2).
  - intros r n b Er (q & c & p & cs & R & C & K & F). rewrite Hrg in Er. injection Er as <-.
    assert (Hreach : reach g n0 (q ++ p ++ [b])) by (eapply reach_child; eassumption).
    destruct (Hsub _ _ Hreach) as (_ & _ & _ & _ & E). specialize (E eq_refl).
    apply app_eq_nil in E. destruct E as [_ E]. apply app_eq_nil in E. destruct E as [_ E]. discriminate.
Qed.
