(** C09c: the scan theorems for chains of interval queries (the shape of an
    OLC iterator run), and the link from iterator runs to such chains. *)
From Coq Require Import List ZArith Bool Arith Lia Sorted.
From Unodb Require Import Base.Lex Lock.LockModel Olc.ReadModel Olc.ReadProofs Olc.IterModel Olc.IterAux
  Olc.IterProofs Olc.IterSeek.
Import ListNotations.
Local Open Scope Z_scope.

Lemma last_cons_default : forall (A : Type) (l : list A) (a d : A), last (a :: l) d = last l a.
Proof.
  intros A l. induction l as [|b l IH]; intros a d; [reflexivity|].
  change (last (a :: b :: l) d) with (last (b :: l) d). rewrite (IH b d), (IH b a). reflexivity.
Qed.

Lemma wfinal_bound_cons : forall s lo t1 t2 k v ds,
  wfinal_bound s lo ((t1, t2, k, v) :: ds) = wfinal_bound true k ds.
Proof. intros. unfold wfinal_bound. cbn [map fst snd]. apply last_cons_default. Qed.

Lemma wlast_moment_cons : forall t t1 t2 k v ds,
  wlast_moment t ((t1, t2, k, v) :: ds) = wlast_moment t2 ds.
Proof. intros. unfold wlast_moment. cbn [map fst snd]. apply last_cons_default. Qed.

Lemma wscan_last_moment_ge : forall H t s lo ds, wscan H t s lo ds -> (t <= wlast_moment t ds)%nat.
Proof.
  intros H t s lo ds S. induction S as [t s lo | t s lo t1 t2 k v ds Ht Q S IH].
  - unfold wlast_moment. cbn. lia.
  - rewrite wlast_moment_cons. lia.
Qed.

Lemma above_trans_lt : forall s lo a b, above s lo a -> lex_lt a b -> above s lo b.
Proof.
  intros [|] lo a b A L; cbn in *.
  - eapply lex_lt_trans; eassumption.
  - apply lex_lt_le. eapply lex_le_lt_trans; eassumption.
Qed.

(** delivered keys are strictly increasing and all above the bound *)
Theorem wscan_ordered_bounded : forall H t s lo ds, wscan H t s lo ds ->
  StronglySorted lex_lt (wkeys ds) /\ Forall (above s lo) (wkeys ds).
Proof.
  intros H t s lo ds S. induction S as [t s lo | t s lo t1 t2 k v ds Ht Q S [IHs IHb]].
  - split; constructor.
  - destruct Q as (Ak & _ & _). cbn [wkeys map fst snd]. split.
    + constructor; [exact IHs | exact IHb].
    + constructor; [exact Ak|]. eapply Forall_impl; [|exact IHb].
      intros x Hx. cbn in Hx. eapply above_trans_lt; eassumption.
Qed.

(** every delivered entry was in the tree at a moment of its step *)
Theorem wscan_values_held : forall H t s lo ds, wscan H t s lo ds ->
  Forall (fun d : delivery => let '(t1, t2, k, v) := d in
            (t <= t1)%nat /\ exists T, (t1 <= T <= t2)%nat /\ entry (H T) k v) ds.
Proof.
  intros H t s lo ds S. induction S as [t s lo | t s lo t1 t2 k v ds Ht Q S IH].
  - constructor.
  - constructor.
    + destruct Q as (_ & E & _). split; [lia | exact E].
    + eapply Forall_impl; [|exact IH]. intros [[[a b] c] d] [L E]. split; [lia | exact E].
Qed.

(** a key that is never in the tree is never delivered *)
Theorem wscan_no_phantom : forall H t s lo ds k, wscan H t s lo ds ->
  (forall t', ~ has_key (H t') k) -> ~ In k (wkeys ds).
Proof.
  intros H t s lo ds k S Habs Hin.
  pose proof (wscan_values_held H t s lo ds S) as HV. rewrite Forall_forall in HV.
  unfold wkeys in Hin. apply in_map_iff in Hin. destruct Hin as [[[[t1 t2] k0] v] [Hk Hd]].
  cbn in Hk. subst k0. destruct (HV _ Hd) as [_ (T & _ & E)]. apply (Habs T). exists v. exact E.
Qed.

(** completeness for stable keys: a key above the bound, not above the last
    delivered key, that is in the tree at every moment of the scan, is delivered *)
Theorem wscan_complete_prefix : forall H t s lo ds k, wscan H t s lo ds ->
  above s lo k -> ~ above (fst (wfinal_bound s lo ds)) (snd (wfinal_bound s lo ds)) k ->
  (forall t', (t <= t' <= wlast_moment t ds)%nat -> has_key (H t') k) -> In k (wkeys ds).
Proof.
  intros H t s lo ds k S.
  induction S as [t s lo | t s lo t1 t2 k1 v ds Ht Q S IH]; intros Ak Hfb Hst.
  - exfalso. apply Hfb. exact Ak.
  - rewrite wfinal_bound_cons in Hfb. cbn [wkeys map fst snd].
    pose proof (wscan_last_moment_ge H t2 true k1 ds S) as Hmono.
    assert (Hst' : forall t', (t <= t' <= wlast_moment t2 ds)%nat -> has_key (H t') k).
    { intros t' Ht'. apply Hst. rewrite wlast_moment_cons. exact Ht'. }
    destruct Q as (_ & _ & Gap).
    destruct (lex_trichotomy k k1) as [Hlt | [Heq | Hgt]].
    + exfalso. destruct (Gap k Ak Hlt) as (T & HT & Habs). apply Habs. apply Hst'. lia.
    + left. symmetry. exact Heq.
    + right. apply IH; [exact Hgt | exact Hfb |]. intros t' Ht'. apply Hst'. lia.
Qed.

Lemma above_dec : forall s lo k, above s lo k \/ ~ above s lo k.
Proof.
  intros [|] lo k; cbn; unfold lex_lt, lex_le; destruct (lex_compare lo k).
  - right. discriminate.
  - left. reflexivity.
  - right. discriminate.
  - left. discriminate.
  - left. discriminate.
  - right. intros Hx. apply Hx. reflexivity.
Qed.

(** ... and when the scan ran to completion, every stable key above the bound is delivered *)
Theorem wscan_complete : forall H t s lo ds te1 te2 k, wscan H t s lo ds ->
  (wlast_moment t ds <= te1 <= te2)%nat -> wexhausted H te1 te2 (wfinal_bound s lo ds) ->
  above s lo k -> (forall t', (t <= t' <= te2)%nat -> has_key (H t') k) -> In k (wkeys ds).
Proof.
  intros H t s lo ds te1 te2 k S Hte Hex Ak Hst.
  pose proof (wscan_last_moment_ge H t s lo ds S) as Hmono.
  destruct (wfinal_bound s lo ds) as [sb kb] eqn:Efb.
  pose proof (above_dec sb kb k) as Dec.
  destruct Dec as [Hab | Hnab].
  - exfalso. destruct (Hex k Hab) as (T & HT & Habs). apply Habs. apply Hst. lia.
  - apply (wscan_complete_prefix H t s lo ds k S Ak); [rewrite Efb; exact Hnab|].
    intros t' Ht'. apply Hst. lia.
Qed.

(** an atomic query is an interval query: the chains of Olc/ScanSpec.v
    (scan_fwd, all moments t1 = t2) are the special case *)
Lemma first_query_wquery : forall (H : history) T s lo r, first_query (H T) s lo r -> wquery H T T s lo r.
Proof.
  intros H T s lo [[k v]|]; cbn.
  - intros (A & E & G). split; [exact A|]. split; [exists T; split; [lia | exact E]|].
    intros x Ax Lx. exists T. split; [lia | exact (G x Ax Lx)].
  - intros G x Ax. exists T. split; [lia | exact (G x Ax)].
Qed.

Lemma wquery_widen : forall H t1 t2 u1 u2 s lo r, (u1 <= t1)%nat -> (t2 <= u2)%nat ->
  wquery H t1 t2 s lo r -> wquery H u1 u2 s lo r.
Proof.
  intros H t1 t2 u1 u2 s lo [[k v]|] L1 L2; cbn.
  - intros (A & (T & HT & E) & G). split; [exact A|]. split; [exists T; split; [lia | exact E]|].
    intros x Ax Lx. destruct (G x Ax Lx) as (T' & HT' & N). exists T'. split; [lia | exact N].
  - intros G x Ax. destruct (G x Ax) as (T' & HT' & N). exists T'. split; [lia | exact N].
Qed.

(** ** seek, summarised *)

(** a successful forward seek positions the iterator on the result of an
    interval query "least key >= lo" and establishes the stack invariant *)
Theorem seek_result_ok : forall H, disciplined H -> stays_reachable H -> fullpath_stable H -> wf_history H ->
  forall lo rl t1 t2 pos, seek_result H lo rl t1 t2 pos ->
  (rl <= t1 <= t2)%nat /\ pos_ok H pos /\ wquery H t1 t2 false lo (Some (ip_key pos, ip_val pos)).
Proof.
  intros H Hd Hs Hfp W lo rl t1 t2 pos S.
  destruct S as [rl rw rc n0 hs a q k v S1 S2 S3 S4
                | rl rw rc n0 hs a q kr vr t0 pops pv tc b' c' rest hs2 a2 q2 k' v' S1 S2 S3 S4 S5
                | rl rw rc n0 hs a q pops pv tc b' c' rest hs2 a2 q2 k' v' S1 S2 S3
                | rl rw rc n0 hs a q hs2 a2 q2 k' v' S1 S2 S3 S4 S5
                | rl rw rc n0 hs a q en hs2 a2 q2 k' v' S1 S2 S3 S4 S5].
  - destruct (seek_hit_query H lo _ _ _ _ _ _ _ _ _ Hd Hs Hfp W S1 S2 S3) as [L Q].
    destruct S1 as [R _]. destruct (seek_pos_ok H _ _ _ _ _ _ _ k v Hd Hs Hfp W R S2 S4) as [P _].
    split; [lia|]. split; [exact P|]. apply first_query_wquery. exact Q.
  - destruct (seek_lt_some_query H lo _ _ _ _ _ _ _ _ _ _ _ _ _ _ _ _ _ _ _ _ _ Hd Hs Hfp W S1 S2 S3 S4 S5) as (L & Q & P).
    split; [lia|]. split; [exact P | exact Q].
  - destruct (seek_dead_some_query H lo _ _ _ _ _ _ _ _ _ _ _ _ _ _ _ _ _ _ Hd Hs Hfp W S1 S2 S3) as (L & Q & P).
    split; [lia|]. split; [exact P | exact Q].
  - destruct (seek_prefix_lt_query H lo _ _ _ _ _ _ _ _ _ _ _ _ Hd Hs Hfp W S1 S2 S3 S4 S5) as (L & Q & P).
    split; [lia|]. split; [exact P | exact Q].
  - destruct (seek_gte_query H lo _ _ _ _ _ _ _ _ _ _ _ _ _ Hd Hs Hfp W S1 S2 S3 S4 S5) as (L & Q & P).
    split; [lia|]. split; [exact P | exact Q].
Qed.

Theorem seek_end_ok : forall H, disciplined H -> stays_reachable H -> fullpath_stable H -> wf_history H ->
  forall lo rl T, seek_end H lo rl T ->
  (rl <= T)%nat /\ first_query (H T) false lo None.
Proof.
  intros H Hd Hs Hfp W lo rl T S.
  destruct S as [rl Hr | rl rw rc n0 hs a q kr vr t0 pops S1 S2 S3 S4 S5 | rl rw rc n0 hs a q pops S1 S2 S3].
  - split; [lia|]. apply empty_tree_query. exact Hr.
  - exact (seek_lt_none_query H lo _ _ _ _ _ _ _ _ _ _ _ Hd Hs Hfp W S1 S2 S3 S4 S5).
  - exact (seek_dead_none_query H lo _ _ _ _ _ _ _ _ Hd Hs Hfp W S1 S2 S3).
Qed.

(** ** Runs are chains of interval queries *)

Lemma wquery_strict : forall H t1 t2 lo k v, wquery H t1 t2 false lo (Some (k, v)) -> k <> lo ->
  wquery H t1 t2 true lo (Some (k, v)).
Proof.
  intros H t1 t2 lo k v (A & E & G) Hne. cbn in *. split; [|split; [exact E|]].
  - destruct (lex_le_cases _ _ A) as [->|L]; [congruence | exact L].
  - intros x Ax Lx. apply G; [apply lex_lt_le; exact Ax | exact Lx].
Qed.

Lemma first_query_none_strict : forall g lo, first_query g false lo None -> first_query g true lo None.
Proof. intros g lo G x Ax. apply G. cbn in *. apply lex_lt_le. exact Ax. Qed.

Definition run_end (H : history) (t : nat) (s : bool) (lo : key) (ds : list delivery) (e : option nat) : Prop :=
  forall te, e = Some te -> (wlast_moment t ds <= te)%nat /\ wexhausted H te te (wfinal_bound s lo ds).

Theorem iter_run_wscan : forall H, disciplined H -> stays_reachable H -> fullpath_stable H -> wf_history H ->
  forall t pos ds e, iter_run H t pos ds e -> pos_ok H pos ->
  wscan H t true (ip_key pos) ds /\ run_end H t true (ip_key pos) ds e.
Proof.
  intros H Hd Hs Hfp W t pos ds e R.
  induction R as [t pos | t pos t0 pops Ht N | t pos rl T Ht S | t pos rl t1 t2 pos1 t0 pops Ht S Ek Ht2 N
                 | t pos t0 pops pv tc b' c' rest hs a q k' v' ds e Ht N R IH
                 | t pos rl t1 t2 pos1 ds e Ht S Hne R IH
                 | t pos rl t1 t2 pos1 t0 pops pv tc b' c' rest hs a q k' v' ds e Ht S Ek Ht2 N R IH]; intros Pok.
  - split; [constructor | intros te E; discriminate].
  - split; [constructor|]. intros te E. injection E as <-. split; [exact Ht|].
    apply (first_query_wquery H t0 true (ip_key pos) None).
    exact (next_succ_none H pos t0 pops Hd Hs Hfp W Pok N).
  - split; [constructor|]. intros te E. injection E as <-.
    destruct (seek_end_ok H Hd Hs Hfp W _ _ _ S) as [L Q]. split; [unfold wlast_moment; cbn; lia|].
    apply (first_query_wquery H T true (ip_key pos) None). apply first_query_none_strict. exact Q.
  - split; [constructor|]. intros te E. injection E as <-.
    destruct (seek_result_ok H Hd Hs Hfp W _ _ _ _ _ S) as (L & P1 & _).
    split; [unfold wlast_moment; cbn; lia|].
    apply (first_query_wquery H t0 true (ip_key pos) None). rewrite <- Ek.
    exact (next_succ_none H pos1 t0 pops Hd Hs Hfp W P1 N).
  - destruct (next_succ_some H pos t0 pops pv tc b' c' rest hs a q k' v' Hd Hs Hfp W Pok N) as (L & Q & P').
    destruct (IH P') as [S' E']. cbn [ip_key next_pos] in S', E'. split.
    + apply ws_cons; [lia | exact Q | exact S'].
    + intros te E. rewrite wlast_moment_cons, wfinal_bound_cons. exact (E' te E).
  - destruct (seek_result_ok H Hd Hs Hfp W _ _ _ _ _ S) as (L & P1 & Q).
    destruct (IH P1) as [S' E']. split.
    + apply ws_cons; [lia | apply wquery_strict; assumption | exact S'].
    + intros te E. rewrite wlast_moment_cons, wfinal_bound_cons. exact (E' te E).
  - destruct (seek_result_ok H Hd Hs Hfp W _ _ _ _ _ S) as (L & P1 & _).
    destruct (next_succ_some H pos1 t0 pops pv tc b' c' rest hs a q k' v' Hd Hs Hfp W P1 N) as (L' & Q & P').
    destruct (IH P') as [S' E']. cbn [ip_key next_pos] in S', E'. rewrite Ek in Q. split.
    + apply ws_cons; [lia | exact Q | exact S'].
    + intros te E. rewrite wlast_moment_cons, wfinal_bound_cons. exact (E' te E).
Qed.

Theorem iter_scan_wscan : forall H, disciplined H -> stays_reachable H -> fullpath_stable H -> wf_history H ->
  forall t lo ds e, iter_scan H t lo ds e -> wscan H t false lo ds /\ run_end H t false lo ds e.
Proof.
  intros H Hd Hs Hfp W t lo ds e S. destruct S as [t lo rl T Ht S | t lo rl t1 t2 pos ds e Ht S R].
  - split; [constructor|]. intros te E. injection E as <-.
    destruct (seek_end_ok H Hd Hs Hfp W _ _ _ S) as [L Q]. split; [unfold wlast_moment; cbn; lia|].
    apply (first_query_wquery H T false lo None). exact Q.
  - destruct (seek_result_ok H Hd Hs Hfp W _ _ _ _ _ S) as (L & P1 & Q).
    destruct (iter_run_wscan H Hd Hs Hfp W _ _ _ _ R P1) as [S' E']. split.
    + apply ws_cons; [lia | exact Q | exact S'].
    + intros te E. rewrite wlast_moment_cons, wfinal_bound_cons. exact (E' te E).
Qed.
