(** C09c: proofs for Olc/IterModel.v.

    WHY NOT AN ATOMIC QUERY.  Stack (top first): N2 = {'1' -> leaf "aa1"},
    N1 = {'a' -> N2, 'b' -> N3}, root = {'a' -> N1}; N3 = {'5' -> "ab5"}.
    try_next from "aa1": the leaf and then N2 are re-validated (N2 has no
    further child) and popped.  Now writer A inserts "aa2" (changes N2 only:
    N2 is no longer looked at), then writer B inserts "ab0" (changes N3 only).
    Then N1 is re-validated (unchanged), its next child is N3, and the
    left-most descent delivers "ab0".  There is no moment at which "ab0" is
    the successor of "aa1": before B's insert it is not in the tree, after it
    "aa2" is.  try_first / the left-most descent alone is not atomic either
    (a smaller child can be added to a hop whose section is already closed
    while a deeper hop still has a smaller leaf that is removed before the
    reader arrives there).  What holds is the interval query [wquery]: the
    delivered entry is in the tree at the lock moment of its leaf, and every
    key strictly between is absent at one of the moments
    { t0 (the leaf re-validation), the lock moments of the descent hops }.

    (Olc/IterCounter.v checks this counterexample in a slightly smaller tree.)

    Contents:
    - entries and the trie shape (through_inode, through_leaf);
    - entries of the stack stay valid between the moment they were read and
      their re-validation (sentry_at);
    - descents: every hop is in the tree at its path during its section
      (descent_good), the stack they build (descent_pos_ok);
    - the left-most descent (leftmost_query), the pops (pop_floor), the
      pivot (pivot_query), together (pops_pivot_query, pops_end_query);
    - the loop of try_next on a linked stack: up_some_query, up_none_query,
      up_some_pos; from a position: next_some_query, next_none_query,
      next_succ_some, next_succ_none. *)
From Coq Require Import List ZArith Bool Arith Lia Sorted.
From Unodb Require Import Base.Lex Lock.LockModel Olc.ReadModel Olc.ReadProofs Olc.IterModel Olc.IterAux.
Import ListNotations.
Local Open Scope Z_scope.

(** ** Entries go through the nodes on their path *)

Lemma through_inode : forall g n pth c p cs x v, wf_state g ->
  reach g n pth -> hp g n = Some c -> cont c = CInode p cs -> entry g x v -> is_pre pth x ->
  exists b c' r, find_child b cs = Some c' /\ x = pth ++ p ++ b :: r.
Proof.
  intros g n pth c p cs x v W R Hc Hk (L & q & cl & RL & HcL & HkL) P.
  pose proof (wf_leaf g W _ _ _ _ _ RL HcL HkL) as PL.
  destruct (le_lt_dec (length pth) (length q)) as [Hle|Hgt].
  - pose proof (reach_chain g x _ _ _ _ R RL P PL Hle) as D.
    destruct (desc_head _ _ _ _ _ D) as [[-> ->] | (c0 & p0 & cs0 & b0 & c0' & A1 & A2 & A3 & A4)].
    + rewrite Hc in HcL. injection HcL as <-. congruence.
    + rewrite Hc in A1. injection A1 as <-. rewrite Hk in A2. injection A2 as <- <-.
      destruct (desc_ext _ _ _ _ _ A4) as [e ->]. destruct PL as [r ->].
      exists b0, c0', (e ++ r). split; [exact A3|]. rewrite <- !app_assoc. reflexivity.
  - exfalso. pose proof (reach_chain g x _ _ _ _ RL R PL P ltac:(lia)) as D.
    destruct (desc_head _ _ _ _ _ D) as [[-> ->] | (c0 & p0 & cs0 & b0 & c0' & A1 & A2 & A3 & A4)]; [lia|].
    rewrite HcL in A1. injection A1 as <-. congruence.
Qed.

Lemma through_leaf : forall g n pth c k v x vx, wf_state g ->
  reach g n pth -> hp g n = Some c -> cont c = CLeaf k v -> entry g x vx -> is_pre pth x ->
  x = k /\ vx = v.
Proof.
  intros g n pth c k v x vx W R Hc Hk (L & q & cl & RL & HcL & HkL) P.
  pose proof (wf_leaf g W _ _ _ _ _ RL HcL HkL) as PL.
  assert (E : L = n).
  { destruct (le_lt_dec (length pth) (length q)) as [Hle|Hgt].
    - pose proof (reach_chain g x _ _ _ _ R RL P PL Hle) as D.
      destruct (desc_head _ _ _ _ _ D) as [[-> ->] | (c0 & p0 & cs0 & b0 & c0' & A1 & A2 & A3 & A4)]; [reflexivity|].
      rewrite Hc in A1. injection A1 as <-. congruence.
    - pose proof (reach_chain g x _ _ _ _ RL R PL P ltac:(lia)) as D.
      destruct (desc_head _ _ _ _ _ D) as [[-> ->] | (c0 & p0 & cs0 & b0 & c0' & A1 & A2 & A3 & A4)]; [reflexivity|].
      rewrite HcL in A1. injection A1 as <-. congruence. }
  subst L. rewrite Hc in HcL. injection HcL as <-. rewrite Hk in HkL. injection HkL as -> ->. auto.
Qed.

(** the keys of a tree state are unique, and none is a proper prefix of another *)
Lemma entry_leaf_unique : forall g k1 v1 k2 v2, wf_state g ->
  entry g k1 v1 -> entry g k2 v2 -> is_pre k1 k2 -> k1 = k2 /\ v1 = v2.
Proof.
  intros g k1 v1 k2 v2 W (L & q & cl & RL & HcL & HkL) E2 [r ->].
  pose proof (wf_leaf g W _ _ _ _ _ RL HcL HkL) as [r1 ->].
  destruct (through_leaf g L q cl _ _ _ _ W RL HcL HkL E2) as [A B].
  - exists (r1 ++ r). rewrite app_assoc. reflexivity.
  - split; [symmetry; exact A | symmetry; exact B].
Qed.

(** ** Stack entries between the read and the re-validation *)

Definition hop_of (e : sentry) (tc : nat) : hop :=
  {| h_node := e_node e; h_lock := e_at e; h_check := tc; h_word := e_word e;
     h_cont := CInode (e_pre e) (e_cs e) |}.

Lemma hop_of_observed : forall H e tc, sentry_seen H e -> (e_at e <= tc)%nat ->
  word_again H (e_node e) (e_word e) tc -> hop_observed H (hop_of e tc).
Proof.
  intros H e tc (Hf & Hc & _) Hle Hw. unfold hop_observed, hop_of. cbn.
  repeat split; assumption.
Qed.

Definition valid_at (H : history) (e : sentry) (t : nat) : Prop :=
  (exists c, hp (H t) (e_node e) = Some c /\ word c = e_word e /\ cont c = CInode (e_pre e) (e_cs e)) /\
  reach (H t) (e_node e) (e_pth e).

Lemma sentry_at : forall H e tc, disciplined H -> stays_reachable H -> fullpath_stable H ->
  sentry_ok H e -> (e_at e <= tc)%nat -> word_again H (e_node e) (e_word e) tc ->
  forall t, (e_at e <= t <= tc)%nat -> valid_at H e t.
Proof.
  intros H e tc Hd Hs Hfp [Hseen Hr] Hle Hw t Ht.
  pose proof (hop_of_observed H e tc Hseen Hle Hw) as Ho. split.
  - apply (section_cell H (hop_of e tc) Hd Ho t). exact Ht.
  - apply (section_reach_inode H (hop_of e tc) (e_pth e) (e_pre e) (e_cs e) Hd Hs Hfp Ho); [reflexivity | exact Hr | exact Ht].
Qed.

(** the child taken by a valid entry is in the tree below it *)
Lemma valid_child : forall H e t, wf_history H -> valid_at H e t ->
  nth_error (e_cs e) (e_idx e) = Some (e_byte e, e_child e) ->
  reach (H t) (e_child e) (e_cpath e).
Proof.
  intros H e t W [(c & Hc & _ & Hk) R] Hn. unfold e_cpath.
  eapply reach_child; try eassumption. eapply find_child_nth; [|exact Hn].
  eapply wf_sorted; [apply W | exact R | exact Hc | exact Hk].
Qed.

Lemma valid_child_nth : forall H e t i b c', wf_history H -> valid_at H e t ->
  nth_error (e_cs e) i = Some (b, c') -> reach (H t) c' (e_pth e ++ e_pre e ++ [b]).
Proof.
  intros H e t i b c' W [(c & Hc & _ & Hk) R] Hn.
  eapply reach_child; try eassumption. eapply find_child_nth; [|exact Hn].
  eapply wf_sorted; [apply W | exact R | exact Hc | exact Hk].
Qed.

Lemma valid_sorted : forall H e t, wf_history H -> valid_at H e t -> bytes_sorted (e_cs e).
Proof. intros H e t W [(c & Hc & _ & Hk) R]. eapply wf_sorted; [apply W | exact R | exact Hc | exact Hk]. Qed.

(** an entry of the tree below a valid stack entry goes through one of its children *)
Lemma valid_through : forall H e t x v, wf_history H -> valid_at H e t ->
  entry (H t) x v -> is_pre (e_pth e) x ->
  exists b c' r, find_child b (e_cs e) = Some c' /\ x = e_pth e ++ e_pre e ++ b :: r.
Proof.
  intros H e t x v W [(c & Hc & _ & Hk) R] E P.
  eapply through_inode; try eassumption. apply W.
Qed.

(** ** Descents *)

Definition ihop_good (H : history) (i : ihop) : Prop :=
  sentry_ok H (ih_e i) /\ forall t, (e_at (ih_e i) <= t <= ih_check i)%nat -> valid_at H (ih_e i) t.

Lemma ihop_is_good : forall H i, disciplined H -> stays_reachable H -> fullpath_stable H ->
  ihop_seen H i -> reach (H (e_at (ih_e i))) (e_node (ih_e i)) (e_pth (ih_e i)) -> ihop_good H i.
Proof.
  intros H i Hd Hs Hfp (Hseen & Hle & Hw) R.
  assert (Ok : sentry_ok H (ih_e i)) by (split; assumption).
  split; [exact Ok|]. intros t Ht. eapply sentry_at; eassumption.
Qed.

Lemma descent_good : forall H, disciplined H -> stays_reachable H -> fullpath_stable H -> wf_history H ->
  forall tl tc n pth hs a q, descent H tl tc n pth hs a q ->
  (forall t, (tl <= t <= tc)%nat -> reach (H t) n pth) ->
  Forall (ihop_good H) hs /\ Forall (fun i => (tl <= e_at (ih_e i))%nat) hs /\
  reach (H (h_lock a)) (h_node a) q /\ (tl <= h_lock a)%nat.
Proof.
  intros H Hd Hs Hfp W tl tc n pth hs a q D.
  induction D as [tl tc n pth a Ho Hin Hn | tl tc n pth i rest a q Hseen Hin Hn Hp D IH]; intros R.
  - repeat split; try constructor; try lia. subst n. apply R. exact Hin.
  - assert (G : ihop_good H i).
    { apply ihop_is_good; try assumption. rewrite Hn, Hp. apply R. exact Hin. }
    destruct IH as (I1 & I2 & I3 & I4).
    + intros t Ht. destruct G as [_ G]. destruct Hseen as ((_ & _ & Hnth) & _).
      eapply valid_child; [exact W | apply G; exact Ht | exact Hnth].
    + repeat split.
      * constructor; assumption.
      * constructor; [lia|]. eapply Forall_impl; [|exact I2]. cbv beta. intros x Hx. lia.
      * exact I3.
      * lia.
Qed.

Lemma is_pre_dec : forall q x, {is_pre q x} + {~ is_pre q x}.
Proof.
  intros q x. destruct (is_prefix q x) eqn:E.
  - left. apply is_prefix_spec in E. exact E.
  - right. intros P. apply is_prefix_spec in P. congruence.
Qed.

(** ** The left-most descent *)

Lemma hop_lock_cell : forall H a, hop_observed H a ->
  exists c, hp (H (h_lock a)) (h_node a) = Some c /\ word c = h_word a /\ cont c = h_cont a.
Proof. intros H a (_ & _ & Hc & _). exact Hc. Qed.

(** the delivered leaf is below the start node, it is in the tree at its lock
    moment, and every smaller key below the start node is absent at the lock
    moment of one of the hops *)
Lemma leftmost_query : forall H, disciplined H -> stays_reachable H -> fullpath_stable H -> wf_history H ->
  forall tl tc n pth hs a q, descent H tl tc n pth hs a q ->
  (forall t, (tl <= t <= tc)%nat -> reach (H t) n pth) -> leftmost hs ->
  forall k' v', h_cont a = CLeaf k' v' ->
  is_pre pth k' /\ entry (H (h_lock a)) k' v' /\
  forall x, is_pre pth x -> lex_lt x k' -> exists T, (tl <= T <= h_lock a)%nat /\ ~ has_key (H T) x.
Proof.
  intros H Hd Hs Hfp W tl tc n pth hs a q D.
  induction D as [tl tc n pth a Ho Hin Hn | tl tc n pth i rest a q Hseen Hin Hn Hp D IH];
    intros R Hl k' v' Hk.
  - destruct (hop_lock_cell H a Ho) as (c & Hc & _ & Hkc). rewrite Hk in Hkc.
    assert (Ra : reach (H (h_lock a)) (h_node a) pth) by (subst n; apply R; exact Hin).
    split; [|split].
    + eapply wf_leaf; [apply W | exact Ra | exact Hc | exact Hkc].
    + exists (h_node a), pth, c. auto.
    + intros x Px Lx. exists (h_lock a). split; [lia|]. intros [vx Ex].
      destruct (through_leaf _ _ _ _ _ _ _ _ (W _) Ra Hc Hkc Ex Px) as [-> _].
      exact (lex_lt_irrefl _ Lx).
  - assert (G : ihop_good H i).
    { apply ihop_is_good; try assumption. rewrite Hn, Hp. apply R. exact Hin. }
    destruct G as [_ G]. inversion Hl as [|i0 l0 Hi0 Hl']; subst i0 l0.
    pose proof Hseen as ((_ & _ & Hnth) & Hle & _). rewrite Hi0 in Hnth.
    destruct (IH) with (k' := k') (v' := v') as (P' & E' & Gap); try assumption.
    { intros t Ht. eapply valid_child; [exact W | apply G; exact Ht |]. rewrite Hi0. exact Hnth. }
    unfold e_cpath in P'. rewrite <- Hp.
    split; [|split].
    + eapply is_pre_app_l. exact P'.
    + exact E'.
    + intros x Px Lx. destruct (is_pre_dec (e_cpath (ih_e i)) x) as [Pc|Pn].
      * destruct (Gap x Pc Lx) as (T & HT & A). exists T. split; [lia | exact A].
      * exists (e_at (ih_e i)). split.
        { destruct (descent_good H Hd Hs Hfp W _ _ _ _ _ _ _ D) as (_ & _ & _ & L4).
          - intros t Ht. eapply valid_child; [exact W | apply G; exact Ht |]. rewrite Hi0. exact Hnth.
          - lia. }
        intros [vx Ex]. assert (V : valid_at H (ih_e i) (e_at (ih_e i))) by (apply G; lia).
        destruct (valid_through H _ _ x vx W V Ex Px) as (bx & cx & r & Hf & ->).
        destruct (child_ge_first _ _ _ _ _ (valid_sorted H _ _ W V) Hnth Hf) as [[-> ->] | Hlt].
        -- apply Pn. unfold e_cpath. exists r. rewrite <- !app_assoc. reflexivity.
        -- destruct P' as [r' ->]. rewrite <- !app_assoc in Lx.
           apply lex_lt_app in Lx. apply lex_lt_app in Lx. cbn in Lx.
           apply lex_lt_cons in Lx. destruct Lx as [?|[? _]]; lia.
Qed.

(** ** The pops *)

(** no key of the set A below path q is in the tree at moment T0 *)
Definition floor (H : history) (T0 : nat) (A : key -> Prop) (q : list Z) : Prop :=
  forall x, A x -> is_pre q x -> ~ has_key (H T0) x.

(** a linked piece of the stack (top first) *)
Fixpoint chain (n : nid) (q : list Z) (es : list sentry) : Prop :=
  match es with
  | [] => True
  | e :: es' => e_child e = n /\ e_cpath e = q /\ chain (e_node e) (e_pth e) es'
  end.

Fixpoint end_path (q : list Z) (es : list sentry) : list Z :=
  match es with [] => q | e :: es' => end_path (e_pth e) es' end.
Fixpoint end_node (n : nid) (es : list sentry) : nid :=
  match es with [] => n | e :: es' => end_node (e_node e) es' end.

Lemma linked_app : forall es rest n q, linked n q (es ++ rest) ->
  chain n q es /\ linked (end_node n es) (end_path q es) rest.
Proof.
  induction es as [|e es IH]; intros rest n q L; cbn in *.
  - split; [exact I | exact L].
  - destruct L as (A & B & L). destruct (IH _ _ _ L) as [C D]. repeat split; assumption.
Qed.

Lemma chain_end_pre : forall es n q, chain n q es -> is_pre (end_path q es) q.
Proof.
  induction es as [|e es IH]; intros n q C; cbn in *.
  - exists []. rewrite app_nil_r. reflexivity.
  - destruct C as (_ & <- & C). destruct (IH _ _ C) as [r E]. unfold e_cpath.
    exists (r ++ e_pre e ++ [e_byte e]).
    transitivity ((end_path (e_pth e) es ++ r) ++ e_pre e ++ [e_byte e]); [rewrite <- E; reflexivity | rewrite <- app_assoc; reflexivity].
Qed.

Definition exhausted_e (e : sentry) : Prop :=
  nth_error (e_cs e) (e_idx e) = Some (e_byte e, e_child e) /\ nth_error (e_cs e) (S (e_idx e)) = None.

(** kw: a key at the current position; the keys of A are not below it *)
Lemma pop_floor : forall H T0 (A : key -> Prop) kw, wf_history H ->
  (forall x, A x -> ~ lex_lt x kw) ->
  forall es n q, Forall (fun e => valid_at H e T0) es -> Forall exhausted_e es -> chain n q es ->
  is_pre q kw -> floor H T0 A q -> floor H T0 A (end_path q es).
Proof.
  intros H T0 A kw W HA. induction es as [|e es IH]; intros n q V X C Pk F; cbn in *; [exact F|].
  inversion V as [|e0 l0 Ve V']; subst e0 l0. inversion X as [|e0 l0 [Xn Xl] X']; subst e0 l0.
  destruct C as (_ & Eq & C).
  apply (IH (e_node e) (e_pth e)); try assumption.
  - rewrite <- Eq in Pk. unfold e_cpath in Pk. eapply is_pre_app_l. exact Pk.
  - intros x Ax Px [vx Ex].
    destruct (valid_through H e T0 x vx W Ve Ex Px) as (bx & cx & r & Hf & ->).
    pose proof (child_le_last _ _ _ _ _ _ (valid_sorted H _ _ W Ve) Xn Xl Hf) as Hle.
    destruct (Z.eq_dec bx (e_byte e)) as [->|Hne].
    + apply (F _ Ax); [|exists vx; exact Ex]. rewrite <- Eq. unfold e_cpath.
      exists r. rewrite <- !app_assoc. reflexivity.
    + apply (HA _ Ax). rewrite <- Eq in Pk. destruct Pk as [r' ->]. unfold e_cpath.
      rewrite <- !app_assoc. apply lex_lt_app. apply lex_lt_app. cbn. apply lex_lt_cons. left. lia.
Qed.

(** ** The pivot *)

Lemma pivot_query : forall H T0 tend (A : key -> Prop) kw pv b' c' k', wf_history H ->
  (forall x, A x -> ~ lex_lt x kw) -> (T0 <= tend)%nat ->
  valid_at H pv T0 ->
  nth_error (e_cs pv) (e_idx pv) = Some (e_byte pv, e_child pv) ->
  nth_error (e_cs pv) (S (e_idx pv)) = Some (b', c') ->
  is_pre (e_cpath pv) kw -> floor H T0 A (e_cpath pv) ->
  is_pre (e_pth pv ++ e_pre pv ++ [b']) k' ->
  (forall x, is_pre (e_pth pv ++ e_pre pv ++ [b']) x -> lex_lt x k' ->
     exists T, (T0 <= T <= tend)%nat /\ ~ has_key (H T) x) ->
  e_byte pv < b' /\
  forall x, A x -> is_pre (e_pth pv) x -> lex_lt x k' -> exists T, (T0 <= T <= tend)%nat /\ ~ has_key (H T) x.
Proof.
  intros H T0 tend A kw pv b' c' k' W HA Hle V Hn Hn' Pk F Pk' Gap.
  pose proof (valid_sorted H _ _ W V) as Srt.
  split.
  {     destruct (child_gap _ _ _ _ _ _ _ _ Srt Hn Hn' (find_child_nth _ _ _ _ Srt Hn)) as [L _]. exact L. }
  intros x Ax Px Lx.
  destruct (is_pre_dec (e_pth pv ++ e_pre pv ++ [b']) x) as [Pc|Pn]; [apply Gap; assumption|].
  exists T0. split; [lia|]. intros [vx Ex].
  destruct (valid_through H pv T0 x vx W V Ex Px) as (bx & cx & r & Hf & ->).
  destruct (child_gap _ _ _ _ _ _ _ _ Srt Hn Hn' Hf) as [Lb [Hlt | [[-> ->] | [[-> ->] | Hgt]]]].
  - apply (HA _ Ax). destruct Pk as [r' ->]. unfold e_cpath. rewrite <- !app_assoc.
    apply lex_lt_app. apply lex_lt_app. cbn. apply lex_lt_cons. left. exact Hlt.
  - apply (F _ Ax); [|exists vx; exact Ex]. unfold e_cpath. exists r. rewrite <- !app_assoc. reflexivity.
  - apply Pn. exists r. rewrite <- !app_assoc. reflexivity.
  - destruct Pk' as [r' ->]. rewrite <- !app_assoc in Lx.
    apply lex_lt_app in Lx. apply lex_lt_app in Lx. cbn in Lx. apply lex_lt_cons in Lx.
    destruct Lx as [?|[? _]]; lia.
Qed.

(** ** The current leaf at the moment it is re-validated *)

Lemma leaf_floor : forall H pos t0 e rest (A : key -> Prop),
  disciplined H -> wf_history H -> pos_ok H pos -> leaf_again H pos t0 ->
  ip_stack pos = e :: rest -> valid_at H e t0 -> (forall x, A x -> x <> ip_key pos) ->
  is_pre (e_cpath e) (ip_key pos) /\ floor H t0 A (e_cpath e).
Proof.
  intros H pos t0 e rest A [Hd _] W (Hfree & (c1 & Hc1 & Hw1 & Hk1) & Hok & _ & _ & Hlink) [Hle (c2 & Hc2 & Hw2)] Hst V HA.
  unfold ip_path in Hlink. rewrite Hst in Hlink, Hok. cbn in Hlink. destruct Hlink as (Echild & _ & _).
  inversion Hok as [|e0 l0 [(_ & _ & Hnth) _] _]; subst e0 l0.
  assert (Hc0 : hp (H t0) (ip_leaf pos) = Some c1).
  { apply (Hd (ip_leaf pos) (ip_at pos) t0 c1 c2 Hle Hc1 Hc2); [congruence | rewrite Hw1; exact Hfree | lia]. }
  pose proof (valid_child H e t0 W V Hnth) as R. rewrite Echild in R.
  split.
  - eapply wf_leaf; [apply W | exact R | exact Hc0 | exact Hk1].
  - intros x Ax Px [vx Ex].
    destruct (through_leaf _ _ _ _ _ _ _ _ (W _) R Hc0 Hk1 Ex Px) as [-> _].
    exact (HA _ Ax eq_refl).
Qed.

Lemma popped_valid : forall H t0 (pops : list (sentry * nat)),
  disciplined H -> stays_reachable H -> fullpath_stable H ->
  Forall (sentry_ok H) (map fst pops) -> Forall (popped_ok H t0) pops ->
  Forall (fun e => valid_at H e t0) (map fst pops) /\ Forall exhausted_e (map fst pops).
Proof.
  intros H t0 pops Hd Hs Hfp. induction pops as [|[e tc] pops IH]; intros Ok Pp; cbn.
  - split; constructor.
  - inversion Ok as [|e0 l0 Oe Ok']; subst. inversion Pp as [|p0 l0 (Ht & Hw & Hx) Pp']; subst. cbn in *.
    destruct (IH Ok' Pp') as [I1 I2]. split; constructor; try assumption.
    + apply (sentry_at H e tc Hd Hs Hfp Oe); [lia | exact Hw | lia].
    + split; [|exact Hx]. destruct Oe as [(_ & _ & Hn) _]. exact Hn.
Qed.

Lemma chain_app : forall es es' n q, chain n q (es ++ es') ->
  chain n q es /\ chain (end_node n es) (end_path q es) es'.
Proof.
  induction es as [|e es IH]; intros es' n q C; cbn in *.
  - split; [exact I | exact C].
  - destruct C as (A & B & C). destruct (IH _ _ _ C) as [C1 C2]. repeat split; assumption.
Qed.

Lemma not_lt_le : forall a b, ~ lex_lt b a -> lex_le a b.
Proof. intros a b Hn E. apply Hn. apply lex_lt_gt. exact E. Qed.

Lemma is_pre_trans : forall a b c, is_pre a b -> is_pre b c -> is_pre a c.
Proof. intros a b c [r ->] [r' ->]. exists (r ++ r'). rewrite app_assoc. reflexivity. Qed.

(** ** Pops, pivot and left-most descent together *)

(** from a position described by: the path q0 of the current child of the top
    entry, a key kw below q0, a set A of keys not below kw, none of which is
    in the tree below q0 at T0 *)
Lemma pops_pivot_query : forall H, disciplined H -> stays_reachable H -> fullpath_stable H -> wf_history H ->
  forall T0 (A : key -> Prop) kw n0 q0 pops pv tc b' c' hs a q k' v',
  (forall x, A x -> ~ lex_lt x kw) -> is_pre q0 kw -> floor H T0 A q0 ->
  Forall (sentry_ok H) (map fst pops) -> Forall (popped_ok H T0) pops ->
  sentry_ok H pv -> (e_at pv <= T0 <= tc)%nat -> word_again H (e_node pv) (e_word pv) tc ->
  chain n0 q0 (map fst pops ++ [pv]) ->
  nth_error (e_cs pv) (S (e_idx pv)) = Some (b', c') ->
  descent H T0 tc c' (e_pth pv ++ e_pre pv ++ [b']) hs a q -> leftmost hs -> h_cont a = CLeaf k' v' ->
  (T0 <= h_lock a)%nat /\ entry (H (h_lock a)) k' v' /\ lex_lt kw k' /\
  forall x, A x -> lex_lt x k' -> exists T, (T0 <= T <= h_lock a)%nat /\ ~ has_key (H T) x.
Proof.
  intros H Hd Hs Hfp W T0 A kw n0 q0 pops pv tc b' c' hs a q k' v' HA Pk F Ok Pp Okv Htv Hwv C Hn' D Hl Hk.
  destruct (popped_valid H T0 pops Hd Hs Hfp Ok Pp) as [Vp Xp].
  assert (Vv : forall t, (e_at pv <= t <= tc)%nat -> valid_at H pv t).
  { intros t Ht. apply (sentry_at H pv tc Hd Hs Hfp Okv); [lia | exact Hwv | exact Ht]. }
  destruct (chain_app _ _ _ _ C) as [Cp Cv]. cbn in Cv. destruct Cv as (_ & Ecp & _).
  pose proof (chain_end_pre _ _ _ Cp) as Pq. rewrite <- Ecp in Pq.
  assert (Pkv : is_pre (e_cpath pv) kw) by (eapply is_pre_trans; eassumption).
  assert (Fv : floor H T0 A (e_cpath pv)).
  { rewrite Ecp. eapply pop_floor; eassumption. }
  assert (Rc : forall t, (T0 <= t <= tc)%nat -> reach (H t) c' (e_pth pv ++ e_pre pv ++ [b'])).
  { intros t Ht. eapply valid_child_nth; [exact W | apply Vv; lia | exact Hn']. }
  destruct (leftmost_query H Hd Hs Hfp W _ _ _ _ _ _ _ D Rc Hl k' v' Hk) as (Pk' & Ek' & Gap).
  destruct (descent_good H Hd Hs Hfp W _ _ _ _ _ _ _ D Rc) as (_ & _ & _ & Lt0).
  destruct Okv as [(_ & _ & Hn) _].
  destruct (pivot_query H T0 (h_lock a) A kw pv b' c' k' W HA Lt0 (Vv T0 ltac:(lia)) Hn Hn' Pkv Fv Pk' Gap) as [Lb Q].
  assert (Lkk : lex_lt kw k').
  { destruct Pkv as [r1 ->]. destruct Pk' as [r2 ->]. unfold e_cpath. rewrite <- !app_assoc.
    apply lex_lt_app. apply lex_lt_app. cbn. apply lex_lt_cons. left. exact Lb. }
  repeat split; try assumption.
  intros x Ax Lx. apply Q; try assumption.
  assert (Pv : is_pre (e_pth pv) kw) by (unfold e_cpath in Pkv; eapply is_pre_app_l; exact Pkv).
  destruct Pv as [r1 E1]. destruct Pk' as [r2 E2]. rewrite <- app_assoc in E2.
  subst kw k'. eapply lex_cut; [apply not_lt_le; apply HA; exact Ax | exact Lx].
Qed.

(** ** The new position *)

Lemma descent_linked : forall H tl tc n pth hs a q, descent H tl tc n pth hs a q ->
  forall below, linked n pth below -> linked (h_node a) q (rev (map ih_e hs) ++ below).
Proof.
  intros H tl tc n pth hs a q D.
  induction D as [tl tc n pth a Ho Hin Hn | tl tc n pth i rest a q Hseen Hin Hn Hp D IH]; intros below L.
  - cbn. subst n. exact L.
  - cbn [map rev]. rewrite <- app_assoc. cbn [app]. apply IH. cbn. subst n pth. auto.
Qed.

Lemma descent_before : forall H tl tc n pth hs a q, descent H tl tc n pth hs a q ->
  Forall (fun i => (e_at (ih_e i) <= h_lock a)%nat) hs /\ (tl <= h_lock a)%nat.
Proof.
  intros H tl tc n pth hs a q D.
  induction D as [tl tc n pth a Ho Hin Hn | tl tc n pth i rest a q Hseen Hin Hn Hp D [IH1 IH2]].
  - split; [constructor | lia].
  - split; [constructor; [lia | exact IH1] | lia].
Qed.

Lemma descent_last_observed : forall H tl tc n pth hs a q, descent H tl tc n pth hs a q -> hop_observed H a.
Proof. intros H tl tc n pth hs a q D. induction D; assumption. Qed.

Lemma linked_top_path : forall n q e st, linked n q (e :: st) -> q = e_cpath e.
Proof. intros n q e st (_ & E & _). symmetry. exact E. Qed.

Lemma rev_map_nonempty_path : forall (l : list sentry) e rest,
  exists e' l', l ++ e :: rest = e' :: l'.
Proof. intros [|x l] e rest; cbn; eauto. Qed.

(** the stack built by a descent on top of a linked stack *)
Lemma descent_pos_ok : forall H, disciplined H -> stays_reachable H -> fullpath_stable H -> wf_history H ->
  forall tl tc n pth hs a q k v below, descent H tl tc n pth hs a q ->
  (forall t, (tl <= t <= tc)%nat -> reach (H t) n pth) -> h_cont a = CLeaf k v ->
  rev (map ih_e hs) ++ below <> [] -> linked n pth below -> Forall (sentry_ok H) below ->
  Forall (fun e => (e_at e <= tl)%nat) below ->
  pos_ok H {| ip_leaf := h_node a; ip_key := k; ip_val := v; ip_word := h_word a; ip_at := h_lock a;
              ip_stack := rev (map ih_e hs) ++ below |}.
Proof.
  intros H Hd Hs Hfp W tl tc n pth hs a q k v below D R Hk Hne L Ok Hat.
  destruct (descent_good H Hd Hs Hfp W _ _ _ _ _ _ _ D R) as (G & _ & _ & _).
  destruct (descent_before _ _ _ _ _ _ _ _ D) as [B1 B2].
  pose proof (descent_last_observed _ _ _ _ _ _ _ _ D) as Ho.
  unfold pos_ok. cbn [ip_leaf ip_key ip_val ip_word ip_at ip_stack].
  split; [destruct Ho as (_ & Hf & _); exact Hf|].
  split; [rewrite <- Hk; apply hop_lock_cell; exact Ho|].
  split; [|split; [|split]].
  - apply Forall_app. split; [|exact Ok]. apply Forall_rev. apply Forall_map.
    eapply Forall_impl; [|exact G]. intros i [Gi _]. exact Gi.
  - apply Forall_app. split.
    + apply Forall_rev. apply Forall_map. exact B1.
    + eapply Forall_impl; [|exact Hat]. cbv beta. intros e He. lia.
  - exact Hne.
  - pose proof (descent_linked _ _ _ _ _ _ _ _ D below L) as L'.
    unfold ip_path. cbn [ip_stack].
    destruct (rev (map ih_e hs) ++ below) as [|e st] eqn:E.
    + congruence.
    + rewrite <- (linked_top_path _ _ _ _ L'). exact L'.
Qed.

Lemma advance_ok : forall H pv b' c', sentry_ok H pv ->
  nth_error (e_cs pv) (S (e_idx pv)) = Some (b', c') -> sentry_ok H (advance pv b' c').
Proof.
  intros H pv b' c' [(Hf & Hc & _) R] Hn. unfold sentry_ok, sentry_seen, advance. cbn.
  repeat split; assumption.
Qed.

(** the position after a successful try_next satisfies the stack invariant again *)
(** ** try_next *)

Lemma lt_asym : forall a b, lex_lt a b -> ~ lex_lt b a.
Proof. intros a b L L'. exact (lex_lt_irrefl _ (lex_lt_trans _ _ _ L L')). Qed.

Lemma lt_neq : forall a b, lex_lt a b -> b <> a.
Proof. intros a b L ->. exact (lex_lt_irrefl _ L). Qed.

Lemma top_valid : forall H t0 pops pv tc, disciplined H -> stays_reachable H -> fullpath_stable H ->
  Forall (sentry_ok H) (map fst pops) -> Forall (popped_ok H t0) pops ->
  sentry_ok H pv -> (e_at pv <= t0 <= tc)%nat -> word_again H (e_node pv) (e_word pv) tc ->
  forall e l, map fst pops ++ [pv] = e :: l -> valid_at H e t0.
Proof.
  intros H t0 pops pv tc Hd Hs Hfp Ok Pp Okv Htv Hwv e l E.
  destruct (popped_valid H t0 pops Hd Hs Hfp Ok Pp) as [Vp _].
  destruct pops as [|[e1 t1] pops]; cbn in E; injection E as <- _.
  - apply (sentry_at H pv tc Hd Hs Hfp Okv); [lia | exact Hwv | lia].
  - inversion Vp; assumption.
Qed.

(** a successful try_next that delivers a leaf is an interval successor query
    over [t0, lock moment of the new leaf] *)
(** pops down to the bottom of the stack: nothing of A is in the tree at T0 *)
Lemma pops_end_query : forall H, disciplined H -> stays_reachable H -> fullpath_stable H -> wf_history H ->
  forall T0 (A : key -> Prop) kw n0 q0 pops,
  (forall x, A x -> ~ lex_lt x kw) -> is_pre q0 kw -> floor H T0 A q0 ->
  Forall (sentry_ok H) (map fst pops) -> Forall (popped_ok H T0) pops ->
  linked n0 q0 (map fst pops) ->
  forall x, A x -> ~ has_key (H T0) x.
Proof.
  intros H Hd Hs Hfp W T0 A kw n0 q0 pops HA Pk F Ok Pp L x Ax.
  destruct (popped_valid H T0 pops Hd Hs Hfp Ok Pp) as [Vp Xp].
  rewrite <- (app_nil_r (map fst pops)) in L. destruct (linked_app _ _ _ _ L) as [C E]. cbn in E.
  pose proof (pop_floor H T0 A kw W HA _ _ _ Vp Xp C Pk F) as F'. rewrite E in F'.
  apply F'; [exact Ax | exists x; reflexivity].
Qed.

(** ** The loop of try_next on a linked stack *)

Lemma stack_split : forall (pops : list (sentry * nat)) pv (rest : list sentry),
  map fst pops ++ pv :: rest = (map fst pops ++ [pv]) ++ rest.
Proof. intros. rewrite <- app_assoc. reflexivity. Qed.

(** the generic statement: A is the set of keys asked for (above the bound),
    kw a key below the path q0 of the current child of the top entry such
    that no key of A is below kw, and no key of A is in the tree below q0 at t0 *)
Theorem up_some_query : forall H st n0 q0 t0 pops pv tc b' c' rest hs a q k' v' (A : key -> Prop) kw,
  disciplined H -> stays_reachable H -> fullpath_stable H -> wf_history H ->
  Forall (sentry_ok H) st -> linked n0 q0 st ->
  up_some H st t0 pops pv tc b' c' rest hs a q k' v' ->
  (forall x, A x -> ~ lex_lt x kw) -> is_pre q0 kw -> floor H t0 A q0 ->
  (t0 <= h_lock a)%nat /\ entry (H (h_lock a)) k' v' /\ lex_lt kw k' /\
  forall x, A x -> lex_lt x k' -> absent_within H t0 (h_lock a) x.
Proof.
  intros H st n0 q0 t0 pops pv tc b' c' rest hs a q k' v' A kw Hd Hs Hfp W Hok Hlink N HA Pk F.
  destruct N as [Nst Npp Nt Nw Nn Nd Nlm Nc].
  rewrite Nst, stack_split in Hok, Hlink.
  apply Forall_app in Hok. destruct Hok as [Hok _]. apply Forall_app in Hok. destruct Hok as [Okp Okv].
  inversion Okv as [|e0 l0 Okv' _]; subst e0 l0.
  destruct (linked_app _ _ _ _ Hlink) as [C _].
  exact (pops_pivot_query H Hd Hs Hfp W t0 A kw _ _ pops pv tc b' c' hs a q k' v'
              HA Pk F Okp Npp Okv' Nt Nw C Nn Nd Nlm Nc).
Qed.

Theorem up_none_query : forall H st n0 q0 t0 pops (A : key -> Prop) kw,
  disciplined H -> stays_reachable H -> fullpath_stable H -> wf_history H ->
  Forall (sentry_ok H) st -> linked n0 q0 st -> up_none H st t0 pops ->
  (forall x, A x -> ~ lex_lt x kw) -> is_pre q0 kw -> floor H t0 A q0 ->
  forall x, A x -> ~ has_key (H t0) x.
Proof.
  intros H st n0 q0 t0 pops A kw Hd Hs Hfp W Hok Hlink [Nst Npp] HA Pk F.
  rewrite Nst in Hok, Hlink.
  exact (pops_end_query H Hd Hs Hfp W t0 A kw _ _ pops HA Pk F Hok Npp Hlink).
Qed.

(** the position after the loop satisfies the stack invariant *)
Theorem up_some_pos : forall H st n0 q0 t0 pops pv tc b' c' rest hs a q k' v',
  disciplined H -> stays_reachable H -> fullpath_stable H -> wf_history H ->
  Forall (sentry_ok H) st -> Forall (fun e => (e_at e <= t0)%nat) st -> linked n0 q0 st ->
  up_some H st t0 pops pv tc b' c' rest hs a q k' v' ->
  pos_ok H (next_pos pv b' c' rest hs a k' v').
Proof.
  intros H st n0 q0 t0 pops pv tc b' c' rest hs a q k' v' Hd Hs Hfp W Hok Hat Hlink N.
  destruct N as [Nst Npp Nt Nw Nn Nd Nlm Nc].
  rewrite Nst in Hok, Hlink, Hat.
  apply Forall_app in Hok. destruct Hok as [_ Hok]. inversion Hok as [|e0 l0 Okv Okr]; subst e0 l0.
  apply Forall_app in Hat. destruct Hat as [_ Hat]. inversion Hat as [|e0 l0 Atv Atr]; subst e0 l0.
  destruct (linked_app _ _ _ _ Hlink) as [_ Lv]. cbn in Lv. destruct Lv as (_ & _ & Lr).
  unfold next_pos. eapply descent_pos_ok with (tl := t0) (tc := tc); try eassumption.
  - intros t Ht. eapply valid_child_nth; [exact W | | exact Nn].
    apply (sentry_at H pv tc Hd Hs Hfp Okv); [lia | exact Nw | lia].
  - destruct (rev (map ih_e hs)); discriminate.
  - cbn. repeat split. exact Lr.
  - constructor; [apply advance_ok; assumption | exact Okr].
  - constructor; [cbn; lia | exact Atr].
Qed.

(** ** try_next from a position *)

Lemma above_not_lt : forall s lo x, above s lo x -> ~ lex_lt x lo.
Proof.
  intros [|] lo x; cbn.
  - apply lt_asym.
  - intros Hle L. exact (lex_lt_not_le _ _ L Hle).
Qed.

Lemma lt_above : forall s lo x, lex_lt lo x -> above s lo x.
Proof. intros [|] lo x L; cbn; [exact L | apply lex_lt_le; exact L]. Qed.

(** a successful try_next that delivers a leaf, as an interval query for any
    bound (s, lo) that lies at the current position: lo below the path of the
    current leaf, the current key not asked for.  (For [next]: the bound is
    the current key, strict; after a [seek] that landed on a smaller leaf:
    the search key, not strict.) *)
Theorem next_some_query : forall H pos t0 pops pv tc b' c' rest hs a q k' v' s lo,
  disciplined H -> stays_reachable H -> fullpath_stable H -> wf_history H -> pos_ok H pos ->
  next_some H pos t0 pops pv tc b' c' rest hs a q k' v' ->
  is_pre (ip_path pos) lo -> (forall x, above s lo x -> x <> ip_key pos) ->
  (t0 <= h_lock a)%nat /\ wquery H t0 (h_lock a) s lo (Some (k', v')).
Proof.
  intros H pos t0 pops pv tc b' c' rest hs a q k' v' s lo Hd Hs Hfp W Pok [Nl N] Plo Hne.
  pose proof Pok as (_ & _ & Hok & _ & _ & Hlink).
  pose proof N as [Nst Npp Nt Nw Nn Nd Nlm Nc].
  assert (Ve : exists e l, ip_stack pos = e :: l /\ valid_at H e t0).
  { rewrite Nst, stack_split in Hok |- *. apply Forall_app in Hok. destruct Hok as [Hok _].
    apply Forall_app in Hok. destruct Hok as [Okp Okv]. inversion Okv as [|e0 l0 Okv' _]; subst e0 l0.
    destruct (map fst pops ++ [pv]) as [|e l] eqn:Etop; [destruct (map fst pops); discriminate|].
    exists e, (l ++ rest). split; [reflexivity|].
    exact (top_valid H t0 pops pv tc Hd Hs Hfp Okp Npp Okv' Nt Nw e l Etop). }
  destruct Ve as (e & l & Est & Ve).
  destruct (leaf_floor H pos t0 e l (above s lo) Hd W Pok Nl Est Ve Hne) as [_ F].
  assert (Eq0 : ip_path pos = e_cpath e) by (unfold ip_path; rewrite Est; reflexivity).
  rewrite <- Eq0 in F.
  destruct (up_some_query H _ _ _ t0 pops pv tc b' c' rest hs a q k' v' (above s lo) lo
              Hd Hs Hfp W Hok Hlink N (above_not_lt s lo) Plo F) as (L0 & E' & Lk & Q).
  split; [exact L0|]. cbn. split; [apply lt_above; exact Lk|]. split.
  - exists (h_lock a). split; [lia | exact E'].
  - exact Q.
Qed.

Theorem next_none_query : forall H pos t0 pops s lo,
  disciplined H -> stays_reachable H -> fullpath_stable H -> wf_history H -> pos_ok H pos ->
  next_none H pos t0 pops ->
  is_pre (ip_path pos) lo -> (forall x, above s lo x -> x <> ip_key pos) ->
  first_query (H t0) s lo None.
Proof.
  intros H pos t0 pops s lo Hd Hs Hfp W Pok [Nl N] Plo Hne.
  pose proof Pok as (_ & _ & Hok & _ & Hnil & Hlink).
  pose proof N as [Nst Npp].
  destruct (ip_stack pos) as [|e l] eqn:Est; [congruence|].
  assert (Ve : valid_at H e t0).
  { destruct (popped_valid H t0 pops Hd Hs Hfp) as [Vp _]; [rewrite <- Nst; exact Hok | exact Npp |].
    rewrite <- Nst in Vp. inversion Vp; assumption. }
  destruct (leaf_floor H pos t0 e l (above s lo) Hd W Pok Nl Est Ve Hne) as [_ F].
  assert (Eq0 : ip_path pos = e_cpath e) by (unfold ip_path; rewrite Est; reflexivity).
  rewrite <- Eq0 in F. rewrite <- Est in Hok, Hlink, N.
  exact (up_none_query H (ip_stack pos) _ _ t0 pops (above s lo) lo Hd Hs Hfp W Hok Hlink N
           (above_not_lt s lo) Plo F).
Qed.

Lemma up_some_top_valid : forall H st t0 pops pv tc b' c' rest hs a q k' v',
  disciplined H -> stays_reachable H -> fullpath_stable H -> Forall (sentry_ok H) st ->
  up_some H st t0 pops pv tc b' c' rest hs a q k' v' -> exists e l, st = e :: l /\ valid_at H e t0.
Proof.
  intros H st t0 pops pv tc b' c' rest hs a q k' v' Hd Hs Hfp Hok [Nst Npp Nt Nw Nn Nd Nlm Nc].
  rewrite Nst, stack_split in Hok |- *. apply Forall_app in Hok. destruct Hok as [Hok _].
  apply Forall_app in Hok. destruct Hok as [Okp Okv]. inversion Okv as [|e0 l0 Okv' _]; subst e0 l0.
  destruct (map fst pops ++ [pv]) as [|e l] eqn:Etop; [destruct (map fst pops); discriminate|].
  exists e, (l ++ rest). split; [reflexivity|].
  exact (top_valid H t0 pops pv tc Hd Hs Hfp Okp Npp Okv' Nt Nw e l Etop).
Qed.

Lemma up_none_top_valid : forall H st t0 pops,
  disciplined H -> stays_reachable H -> fullpath_stable H -> Forall (sentry_ok H) st -> st <> [] ->
  up_none H st t0 pops -> exists e l, st = e :: l /\ valid_at H e t0.
Proof.
  intros H st t0 pops Hd Hs Hfp Hok Hne [Nst Npp].
  destruct st as [|e l]; [congruence|]. exists e, l. split; [reflexivity|].
  destruct (popped_valid H t0 pops Hd Hs Hfp) as [Vp _]; [rewrite <- Nst; exact Hok | exact Npp |].
  rewrite <- Nst in Vp. inversion Vp; assumption.
Qed.

(** [next] from key k: the interval successor query *)
Theorem next_succ_some : forall H pos t0 pops pv tc b' c' rest hs a q k' v',
  disciplined H -> stays_reachable H -> fullpath_stable H -> wf_history H -> pos_ok H pos ->
  next_some H pos t0 pops pv tc b' c' rest hs a q k' v' ->
  (t0 <= h_lock a)%nat /\ wquery H t0 (h_lock a) true (ip_key pos) (Some (k', v')) /\
  pos_ok H (next_pos pv b' c' rest hs a k' v').
Proof.
  intros H pos t0 pops pv tc b' c' rest hs a q k' v' Hd Hs Hfp W Pok N.
  pose proof Pok as (_ & _ & Hok & Hat & _ & Hlink). pose proof N as [Nl Nu].
  destruct (up_some_top_valid H _ _ _ _ _ _ _ _ _ _ _ _ _ Hd Hs Hfp Hok Nu) as (e & l & Est & Ve).
  destruct (leaf_floor H pos t0 e l (fun _ => False) Hd W Pok Nl Est Ve) as [Pk _]; [intros x []|].
  assert (Eq0 : ip_path pos = e_cpath e) by (unfold ip_path; rewrite Est; reflexivity).
  rewrite <- Eq0 in Pk.
  destruct (next_some_query H pos t0 pops pv tc b' c' rest hs a q k' v' true (ip_key pos)
              Hd Hs Hfp W Pok N Pk (lt_neq _)) as [L Q].
  split; [exact L | split; [exact Q|]].
  apply (up_some_pos H (ip_stack pos) (ip_leaf pos) (ip_path pos) t0 pops pv tc b' c' rest hs a q k' v'
           Hd Hs Hfp W Hok); [|exact Hlink | exact Nu].
  destruct Nl as [Nl _]. eapply Forall_impl; [|exact Hat]. cbv beta. intros x Hx. lia.
Qed.

Theorem next_succ_none : forall H pos t0 pops,
  disciplined H -> stays_reachable H -> fullpath_stable H -> wf_history H -> pos_ok H pos ->
  next_none H pos t0 pops -> succ_query (H t0) (ip_key pos) None.
Proof.
  intros H pos t0 pops Hd Hs Hfp W Pok N.
  pose proof Pok as (_ & _ & Hok & _ & Hne & _). pose proof N as [Nl Nu].
  destruct (up_none_top_valid H _ _ _ Hd Hs Hfp Hok Hne Nu) as (e & l & Est & Ve).
  destruct (leaf_floor H pos t0 e l (fun _ => False) Hd W Pok Nl Est Ve) as [Pk _]; [intros x []|].
  assert (Eq0 : ip_path pos = e_cpath e) by (unfold ip_path; rewrite Est; reflexivity).
  rewrite <- Eq0 in Pk.
  exact (next_none_query H pos t0 pops true (ip_key pos) Hd Hs Hfp W Pok N Pk (lt_neq _)).
Qed.
