(** Traces of the OLC index at hook granularity: every event carries the
    node (allocation block) whose lock word or protected field it touches.
    A trace is accepted when its projection onto every node is accepted by the
    single-lock acceptor of Lock/LockModel.v (started from that node's state
    when it became shared), and no thread waits while it holds a write guard.
    Definitions only. *)
From Coq Require Import List ZArith Bool.
From Unodb Require Import Lock.LockModel.
Import ListNotations.
Local Open Scope Z_scope.

Definition blk := nat.
Definition gev := (blk * event)%type.

Definition project (b : blk) (tr : list gev) : list event :=
  map snd (filter (fun e => Nat.eqb (fst e) b) tr).

Definition ev_tid (e : event) : tid :=
  match e with
  | ERLock t _ | ESpin t | ECheck t _ _ | EUpgrade t _ _ | EWUnlock t _ | EWObsolete t | EStore t _ _ | ELoad t _ _ => t
  end.

(** per-node acceptance; [inits]: the nodes with the state each had when it was first shared *)
Definition node_accepts (inits : list (blk * lstate)) (tr : list gev) : bool :=
  forallb (fun bi => match lrun (snd bi) (project (fst bi) tr) with Some _ => true | None => false end) inits.

(** first rejected node and the index (within its projection) of the rejected event *)
Fixpoint node_diag (inits : list (blk * lstate)) (tr : list gev) : option (blk * nat) :=
  match inits with
  | [] => None
  | (b, s) :: inits' =>
      match snd (lrun_diag s (project b tr) O) with
      | Some i => Some (b, i)
      | None => node_diag inits' tr
      end
  end.

(** write guards held by each thread along a trace (node, thread) *)
Fixpoint held_after (held : list (blk * tid)) (tr : list gev) : list (blk * tid) :=
  match tr with
  | [] => held
  | (b, EUpgrade t _ true) :: tr' => held_after ((b, t) :: held) tr'
  | (b, EWUnlock t _) :: tr' | (b, EWObsolete t) :: tr' =>
      held_after (filter (fun h => negb (Nat.eqb (fst h) b && Nat.eqb (snd h) t)) held) tr'
  | _ :: tr' => held_after held tr'
  end.

Definition holds_any (held : list (blk * tid)) (t : tid) : bool := existsb (fun h => Nat.eqb (snd h) t) held.

(** C14: a thread whose next step is a wait (ESpin) holds no write guard *)
Fixpoint no_wait_while_holding (held : list (blk * tid)) (tr : list gev) : bool :=
  match tr with
  | [] => true
  | (b, e) :: tr' =>
      (match e with ESpin t => negb (holds_any held t) | _ => true end) &&
      no_wait_while_holding (held_after held [(b, e)]) tr'
  end.

Definition olc_trace_ok (inits : list (blk * lstate)) (tr : list gev) : bool :=
  node_accepts inits tr && no_wait_while_holding [] tr.
