(** C09d: the atomic reading of a REVERSE iterator step is false -- a checked
    counterexample, the mirror image of Olc/IterCounter.v.  Tree: root 0 =
    {1 -> node 1, 2 -> node 2}, node 1 = {1 -> leaf 3 "11"}, node 2 =
    {5 -> leaf 4 "25"}.  The iterator stands on "25".  try_prior re-validates
    the leaf (moment 1) and node 2 (moment 2, child index 0), pops both.  At
    moment 3 a writer inserts "24" below node 2, at moment 4 another writer
    inserts "19" below node 1.  The root entry is re-validated (unchanged),
    its prior child is node 1, the right-most descent delivers "19".  All
    conditions of the step theorem hold, the step is an interval predecessor
    query, but at no single moment is "19" the predecessor of "25". *)
From Coq Require Import List ZArith Bool Arith Lia Sorted.
From Unodb Require Import Base.Lex Lock.LockModel Olc.ReadModel Olc.ReadProofs Olc.IterModel Olc.IterAux
  Olc.IterProofs Olc.IterRevModel Olc.IterRevProofs.
Import ListNotations.
Local Open Scope Z_scope.

Definition rk0 : list (Z * nid) := [(1, 1%nat); (2, 2%nat)].
Definition rk1 : list (Z * nid) := [(1, 3%nat)].
Definition rk1' : list (Z * nid) := [(1, 3%nat); (9, 6%nat)].
Definition rk2 : list (Z * nid) := [(5, 4%nat)].
Definition rk2' : list (Z * nid) := [(4, 5%nat); (5, 4%nat)].

Definition rh0 (n : nid) : option cell :=
  match n with
  | 0%nat => Some {| word := 0; cont := CInode [] rk0 |}
  | 1%nat => Some {| word := 0; cont := CInode [] rk1 |}
  | 2%nat => Some {| word := 0; cont := CInode [] rk2 |}
  | 3%nat => Some {| word := 0; cont := CLeaf [1; 1] [110] |}
  | 4%nat => Some {| word := 0; cont := CLeaf [2; 5] [250] |}
  | _ => None
  end.
Definition rh1 (n : nid) : option cell :=
  match n with
  | 2%nat => Some {| word := 4; cont := CInode [] rk2' |}
  | 5%nat => Some {| word := 0; cont := CLeaf [2; 4] [240] |}
  | _ => rh0 n
  end.
Definition rh2 (n : nid) : option cell :=
  match n with
  | 1%nat => Some {| word := 4; cont := CInode [] rk1' |}
  | 6%nat => Some {| word := 0; cont := CLeaf [1; 9] [190] |}
  | _ => rh1 n
  end.
Definition rmk (h : nid -> option cell) : gstate := {| hp := h; root_word := 0; root := Some 0%nat |}.
Definition Hr : history := fun t => if (t <? 3)%nat then rmk rh0 else if (t <? 4)%nat then rmk rh1 else rmk rh2.

Definition rplace (n : nid) (pth : list Z) : Prop :=
  (n = 0%nat /\ pth = []) \/ (n = 1%nat /\ pth = [1]) \/ (n = 2%nat /\ pth = [2]) \/
  (n = 3%nat /\ pth = [1; 1]) \/ (n = 4%nat /\ pth = [2; 5]) \/ (n = 5%nat /\ pth = [2; 4]) \/
  (n = 6%nat /\ pth = [1; 9]).

Lemma rfc_in : forall b cs c, find_child b cs = Some c -> In (b, c) cs.
Proof.
  induction cs as [|[b0 c0] cs IH]; intros c Hf; cbn in Hf; [discriminate|].
  destruct (Z.eqb_spec b b0) as [->|Hne]; [injection Hf as ->; left; reflexivity | right; apply IH; exact Hf].
Qed.

Lemma rreach2_place : forall n pth, reach (rmk rh2) n pth -> rplace n pth.
Proof.
  intros n pth R. induction R as [n Hr0 | n pth c p cs b c' R IH Hc Hk Hf].
  - cbn in Hr0. injection Hr0 as <-. left. auto.
  - apply rfc_in in Hf. unfold rplace in IH.
    destruct IH as [[-> ->] | [[-> ->] | [[-> ->] | [[-> ->] | [[-> ->] | [[-> ->] | [-> ->]]]]]]];
      cbn in Hc; injection Hc as <-; cbn in Hk; try discriminate; injection Hk as <- <-;
      cbn in Hf; unfold rplace; cbn;
      destruct Hf as [E | [E | []]]; injection E as <- <-; auto 10.
Qed.

Definition rgrows (h h' : nid -> option cell) : Prop :=
  forall n c p cs b c', h n = Some c -> cont c = CInode p cs -> find_child b cs = Some c' ->
    exists c1 cs1, h' n = Some c1 /\ cont c1 = CInode p cs1 /\ find_child b cs1 = Some c'.

Lemma rreach_grows : forall h h', rgrows h h' -> forall n pth, reach (rmk h) n pth -> reach (rmk h') n pth.
Proof.
  intros h h' G n pth R. induction R as [n Hr0 | n pth c p cs b c' R IH Hc Hk Hf].
  - apply reach_root. exact Hr0.
  - destruct (G _ _ _ _ _ _ Hc Hk Hf) as (c1 & cs1 & A & B & C). eapply reach_child; eassumption.
Qed.

Lemma rgrows01 : rgrows rh0 rh1.
Proof.
  intros n c p cs b c' Hc Hk Hf. destruct n as [|[|[|n]]].
  - exists c, cs. auto.
  - exists c, cs. auto.
  - cbn in Hc. injection Hc as <-. cbn in Hk. injection Hk as <- <-.
    eexists. exists rk2'. split; [reflexivity | split; [reflexivity|]].
    cbn in Hf |- *. destruct (b =? 5) eqn:E; [|discriminate].
    apply Z.eqb_eq in E. subst b. exact Hf.
  - exists c, cs. split; [|auto]. destruct n as [|[|[|[|n]]]]; try exact Hc. cbn in Hc. discriminate.
Qed.

Lemma rgrows12 : rgrows rh1 rh2.
Proof.
  intros n c p cs b c' Hc Hk Hf. destruct n as [|[|n]].
  - exists c, cs. auto.
  - cbn in Hc. injection Hc as <-. cbn in Hk. injection Hk as <- <-.
    eexists. exists rk1'. split; [reflexivity | split; [reflexivity|]].
    cbn in Hf |- *. destruct (b =? 1); [exact Hf | discriminate].
  - exists c, cs. split; [|auto]. destruct n as [|[|[|[|[|n]]]]]; try exact Hc. cbn in Hc. discriminate.
Qed.

Lemma hp_Hr : forall t n, hp (Hr t) n = if (t <? 3)%nat then rh0 n else if (t <? 4)%nat then rh1 n else rh2 n.
Proof. intros t n. unfold Hr. destruct (t <? 3)%nat; [|destruct (t <? 4)%nat]; reflexivity. Qed.

Lemma reach_Hr_2 : forall t n pth, reach (Hr t) n pth -> reach (rmk rh2) n pth.
Proof.
  intros t n pth R. unfold Hr in R. destruct (t <? 3)%nat; [|destruct (t <? 4)%nat].
  - apply (rreach_grows _ _ rgrows12). apply (rreach_grows _ _ rgrows01). exact R.
  - apply (rreach_grows _ _ rgrows12). exact R.
  - exact R.
Qed.

Lemma reach_Hr_place : forall t n pth, reach (Hr t) n pth -> rplace n pth.
Proof. intros t n pth R. apply rreach2_place. eapply reach_Hr_2. exact R. Qed.

Ltac rplace_cases R :=
  destruct R as [[-> ->] | [[-> ->] | [[-> ->] | [[-> ->] | [[-> ->] | [[-> ->] | [-> ->]]]]]]].

Lemma Hr_wf : wf_history Hr.
Proof.
  assert (S : bytes_sorted rk0 /\ bytes_sorted rk1 /\ bytes_sorted rk1' /\ bytes_sorted rk2 /\ bytes_sorted rk2').
  { unfold bytes_sorted. cbn. repeat split; repeat constructor; lia. }
  destruct S as (S0 & S1 & S1' & S2 & S2').
  intros t. split.
  - intros n pth c k v R Hc0 Hk. apply reach_Hr_place in R. rewrite hp_Hr in Hc0.
    rplace_cases R; destruct (t <? 3)%nat; try destruct (t <? 4)%nat; cbn in Hc0; try discriminate;
      injection Hc0 as <-; cbn in Hk; try discriminate; injection Hk as <- <-; exists []; reflexivity.
  - intros n pth c p cs R Hc0 Hk. apply reach_Hr_place in R. rewrite hp_Hr in Hc0.
    rplace_cases R; destruct (t <? 3)%nat; try destruct (t <? 4)%nat; cbn in Hc0; try discriminate;
      injection Hc0 as <-; cbn in Hk; try discriminate; injection Hk as <- <-; assumption.
Qed.

Lemma Hr_fullpath : fullpath_stable Hr.
Proof.
  exists (fun n => match n with 1%nat => [1] | 2%nat => [2] | _ => [] end).
  intros t n pth c p cs R Hc0 Hk. apply reach_Hr_place in R. rewrite hp_Hr in Hc0.
  rplace_cases R; destruct (t <? 3)%nat; try destruct (t <? 4)%nat; cbn in Hc0; try discriminate;
    injection Hc0 as <-; cbn in Hk; try discriminate; injection Hk as <- <-; reflexivity.
Qed.

Lemma rsame01 : forall n c, rh0 n = Some c -> rh1 n = Some c \/ n = 2%nat.
Proof. intros n c Hc0. destruct n as [|[|[|[|[|[|n]]]]]]; cbn in Hc0 |- *; auto; discriminate. Qed.

Lemma rsame12 : forall n c, rh1 n = Some c -> rh2 n = Some c \/ n = 1%nat.
Proof. intros n c Hc0. destruct n as [|[|[|[|[|[|[|n]]]]]]]; cbn in Hc0 |- *; auto; discriminate. Qed.

Lemma Hr_disciplined : disciplined Hr.
Proof.
  split.
  - intros n t1 t2 c1 c2 Hle Hc1 Hc2 Hw Hfree t Ht. rewrite hp_Hr in *.
    destruct (Nat.ltb_spec t1 3) as [A1|A1]; [|destruct (Nat.ltb_spec t1 4) as [B1|B1]];
    (destruct (Nat.ltb_spec t2 3) as [A2|A2]; [|destruct (Nat.ltb_spec t2 4) as [B2|B2]]);
    (destruct (Nat.ltb_spec t 3) as [A|A]; [|destruct (Nat.ltb_spec t 4) as [B|B]]);
    try lia; try exact Hc1.
    + destruct (rsame01 n c1 Hc1) as [E | ->]; [exact E|].
      cbn in Hc1, Hc2. injection Hc1 as <-. injection Hc2 as <-. cbn in Hw. discriminate.
    + destruct (rsame01 n c1 Hc1) as [E | ->]; [exact E|].
      cbn in Hc1, Hc2. injection Hc1 as <-. injection Hc2 as <-. cbn in Hw. discriminate.
    + destruct (rsame01 n c1 Hc1) as [E | ->].
      * destruct (rsame12 n c1 E) as [E' | ->]; [exact E'|].
        cbn in Hc1, Hc2. injection Hc1 as <-. injection Hc2 as <-. cbn in Hw. discriminate.
      * cbn in Hc1, Hc2. injection Hc1 as <-. injection Hc2 as <-. cbn in Hw. discriminate.
    + destruct (rsame12 n c1 Hc1) as [E | ->]; [exact E|].
      cbn in Hc1, Hc2. injection Hc1 as <-. injection Hc2 as <-. cbn in Hw. discriminate.
  - intros t1 t2 Hle Hw Hfree t Ht. unfold Hr.
    destruct (t <? 3)%nat; [|destruct (t <? 4)%nat]; (destruct (t1 <? 3)%nat; [|destruct (t1 <? 4)%nat]); reflexivity.
Qed.

Lemma Hr_stays_reachable : stays_reachable Hr.
Proof.
  intros t t' n pth Hle R _. exists pth. unfold Hr in *.
  destruct (Nat.ltb_spec t 3) as [A1|A1]; [|destruct (Nat.ltb_spec t 4) as [B1|B1]];
  (destruct (Nat.ltb_spec t' 3) as [A2|A2]; [|destruct (Nat.ltb_spec t' 4) as [B2|B2]]); try lia; try exact R.
  - apply (rreach_grows _ _ rgrows01). exact R.
  - apply (rreach_grows _ _ rgrows12). apply (rreach_grows _ _ rgrows01). exact R.
  - apply (rreach_grows _ _ rgrows12). exact R.
Qed.

(** ** The step *)

Definition er2 : sentry := {| e_node := 2%nat; e_pth := [2]; e_pre := []; e_cs := rk2; e_idx := 0%nat; e_byte := 5;
                              e_child := 4%nat; e_word := 0; e_at := 0%nat |}.
Definition er0 : sentry := {| e_node := 0%nat; e_pth := []; e_pre := []; e_cs := rk0; e_idx := 1%nat; e_byte := 2;
                              e_child := 2%nat; e_word := 0; e_at := 0%nat |}.
Definition posr : ipos := {| ip_leaf := 4%nat; ip_key := [2; 5]; ip_val := [250]; ip_word := 0; ip_at := 0%nat;
                             ip_stack := [er2; er0] |}.
Definition er1 : sentry := {| e_node := 1%nat; e_pth := [1]; e_pre := []; e_cs := rk1'; e_idx := 1%nat; e_byte := 9;
                              e_child := 6%nat; e_word := 4; e_at := 5%nat |}.
Definition ir1 : ihop := {| ih_e := er1; ih_check := 7%nat |}.
Definition ar : hop := {| h_node := 6%nat; h_lock := 6%nat; h_check := 9%nat; h_word := 0; h_cont := CLeaf [1; 9] [190] |}.

Ltac rcell_now := eexists; repeat split; reflexivity.

Lemma rreach0_root : reach (Hr 0%nat) 0%nat [].
Proof. apply reach_root. reflexivity. Qed.

Lemma rreach0_n2 : reach (Hr 0%nat) 2%nat [2].
Proof.
  apply (reach_child (Hr 0%nat) 0%nat [] {| word := 0; cont := CInode [] rk0 |} [] rk0 2 2%nat); try reflexivity.
  exact rreach0_root.
Qed.

Lemma posr_ok : pos_ok Hr posr.
Proof.
  unfold pos_ok. cbn [ip_word ip_at ip_leaf ip_key ip_val ip_stack posr].
  split; [reflexivity|]. split; [rcell_now|]. split; [|split; [|split; [discriminate|]]].
  - constructor; [|constructor; [|constructor]].
    + split; [split; [reflexivity | split; [rcell_now | reflexivity]] | exact rreach0_n2].
    + split; [split; [reflexivity | split; [rcell_now | reflexivity]] | exact rreach0_root].
  - repeat constructor.
  - cbn. repeat split; reflexivity.
Qed.

Lemma stepr : prior_some Hr posr 1 [(er2, 2%nat)] er0 8 1 1%nat [] [ir1] ar [1; 9] [1; 9] [190].
Proof.
  split.
  - split; [cbn; lia | rcell_now].
  - split; try reflexivity.
    + constructor; [|constructor]. split; [cbn; lia | split; [rcell_now | reflexivity]].
    + cbn. lia.
    + rcell_now.
    + cbn. lia.
    + apply d_step; [| cbn; lia | reflexivity | reflexivity |].
      * split; [split; [reflexivity | split; [rcell_now | reflexivity]] | split; [cbn; lia | rcell_now]].
      * apply d_last; [| cbn; lia | reflexivity].
        unfold hop_observed. cbn. split; [lia | split; [reflexivity | split; rcell_now]].
    + constructor; [reflexivity | constructor].
Qed.

(** the step is an interval predecessor query (instance of the theorem) ... *)
Lemma stepr_interval : rquery Hr 1 6 (UKey true [2; 5]) (Some ([1; 9], [190])).
Proof.
  destruct (prior_pred_some Hr posr 1 _ _ _ _ _ _ _ _ _ _ _ Hr_disciplined Hr_stays_reachable Hr_fullpath Hr_wf
              posr_ok stepr) as (_ & Q & _). exact Q.
Qed.

Lemma has24_late : forall T, (4 <= T)%nat -> has_key (Hr T) [2; 4].
Proof.
  intros T HT. exists [240], 5%nat, [2; 4]. eexists.
  assert (E : Hr T = rmk rh2).
  { unfold Hr. destruct (Nat.ltb_spec T 3); [lia|]. destruct (Nat.ltb_spec T 4); [lia | reflexivity]. }
  rewrite E. split; [|split; reflexivity].
  apply (reach_child (rmk rh2) 2%nat [2] {| word := 4; cont := CInode [] rk2' |} [] rk2' 4 5%nat); try reflexivity.
  apply (reach_child (rmk rh2) 0%nat [] {| word := 0; cont := CInode [] rk0 |} [] rk0 2 2%nat); try reflexivity.
  apply reach_root. reflexivity.
Qed.

Lemma no19_early : forall T v, (T < 4)%nat -> ~ entry (Hr T) [1; 9] v.
Proof.
  intros T v HT (n & pth & c & R & Hc0 & Hk). apply reach_Hr_place in R. rewrite hp_Hr in Hc0.
  destruct (Nat.ltb_spec T 4); [|lia].
  rplace_cases R; destruct (T <? 3)%nat; cbn in Hc0; try discriminate; injection Hc0 as <-; cbn in Hk; discriminate.
Qed.

(** ... but not an atomic one: at no moment is "19" the predecessor of "25" *)
Theorem rstep_not_atomic : forall T, ~ pred_query (Hr T) [2; 5] (Some ([1; 9], [190])).
Proof.
  intros T (_ & E & G). destruct (le_lt_dec 4 T) as [Hge | Hlt].
  - apply (G [2; 4]); [reflexivity | reflexivity | apply has24_late; exact Hge].
  - exact (no19_early T _ Hlt E).
Qed.
