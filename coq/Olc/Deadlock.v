(** C14: no wait cycle.  Over every accepted global trace of the OLC index
    (Olc/OlcTrace.v: every node's projection accepted by the lock acceptor, no
    spin step by a thread holding a write guard):

    - the per-node ghost (guards of Lock/LockModel.v) and the global ghost
      (held_after) agree: whoever is in a node's guard set holds that node;
    - a thread that holds a write guard at the end of the trace is not in a
      waiting step (its last event is not a spin);
    - hence every node whose word is write-locked at the end of the trace has
      a unique holder that is not waiting, and a configuration in which every
      unfinished thread is spinning on a write-locked node cannot exist:
      waits-for has no edge into a waiting thread, let alone a cycle. *)
From Coq Require Import List ZArith Bool Lia Arith.
From Unodb Require Import Lock.LockModel Lock.LockProofs Olc.OlcTrace Olc.OlcProofs.
Import ListNotations.
Local Open Scope Z_scope.

(** the last event of thread t in the trace *)
Definition is_of (t : tid) (e : gev) : bool := Nat.eqb (ev_tid (snd e)) t.
Definition last_of (t : tid) (tr : list gev) : option gev := find (is_of t) (rev tr).

(** t is in a waiting step: its last event is the spin body of try_read_lock on node b *)
Definition spinning_on (tr : list gev) (t : tid) (b : blk) : Prop := last_of t tr = Some (b, ESpin t).

(** the initial node states are proper: lock invariant, nobody holds them *)
Definition inits_ok (inits : list (blk * lstate)) : Prop :=
  forall b s0, In (b, s0) inits -> LInv s0 /\ guards s0 = [].

(** ** guards of a node are held globally *)
Lemma in_filter_other (held : list (blk * tid)) b b' t u :
  b <> b' -> In (b, u) held ->
  In (b, u) (filter (fun h => negb (Nat.eqb (fst h) b' && Nat.eqb (snd h) t)) held).
Proof.
  intros Hn Hin. apply filter_In. split; [exact Hin|]. cbn [fst snd].
  destruct (Nat.eqb_spec b b'); [contradiction|reflexivity].
Qed.

Lemma held_after_other held b b' e u :
  b <> b' -> In (b, u) held -> In (b, u) (held_after held [(b', e)]).
Proof.
  intros Hn Hin. destruct e as [| | |t v [|]| | | |]; cbn [held_after]; try exact Hin.
  - right; exact Hin.
  - apply in_filter_other; assumption.
  - apply in_filter_other; assumption.
Qed.

Lemma project_cons_same b e tr : project b ((b, e) :: tr) = e :: project b tr.
Proof. unfold project. cbn [filter fst]. rewrite Nat.eqb_refl. reflexivity. Qed.

Lemma project_cons_other b b' e tr : b <> b' -> project b ((b', e) :: tr) = project b tr.
Proof. intros Hn. unfold project. cbn [filter fst]. destruct (Nat.eqb_spec b' b); [congruence|reflexivity]. Qed.

Lemma guards_are_held b : forall tr held s0 s,
  LInv s0 -> (forall u, In u (guards s0) -> In (b, u) held) ->
  lrun s0 (project b tr) = Some s ->
  forall u, In u (guards s) -> In (b, u) (held_after held tr).
Proof.
  induction tr as [|[b' e] tr IH]; intros held s0 s I Hg Hr u Hu.
  - cbn in Hr. injection Hr as <-. cbn [held_after]. auto.
  - rewrite held_after_cons. destruct (Nat.eq_dec b b') as [<-|Hn].
    + rewrite project_cons_same in Hr. cbn [lrun] in Hr.
      destruct (lstep s0 e) as [s1|] eqn:E; [|discriminate].
      apply (IH _ s1 s); [eapply lstep_inv; eauto| |exact Hr|exact Hu].
      intros w Hw. clear IH Hr Hu.
      destruct e as [t obs|t|t v obs|t v ok|t neww|t|t i x|t i x]; cbn in E; cbn [held_after].
      * destruct (obs =? lw s0); inversion E; subst; auto.
      * inversion E; subst; auto.
      * destruct (obs =? lw s0); inversion E; subst; auto.
      * destruct (w_is_free v); cbn in E; [|discriminate].
        destruct ok; destruct (v =? lw s0); cbn in E; try discriminate; inversion E; subst; cbn [held_after guards] in *.
        -- destruct Hw as [<-|Hw]; [left; reflexivity|right; auto].
        -- auto.
      * destruct (holds s0 t) eqn:Hh; cbn in E; [|discriminate].
        destruct (neww =? lw s0 + 2); [|discriminate]. inversion E; subst; clear E. cbn in Hw.
        destruct (holds_inv s0 t I Hh) as (G & _). rewrite G, remove_tid_single in Hw. destruct Hw.
      * destruct (holds s0 t) eqn:Hh; [|discriminate]. inversion E; subst; clear E. cbn in Hw.
        destruct (holds_inv s0 t I Hh) as (G & _). rewrite G, remove_tid_single in Hw. destruct Hw.
      * match type of E with (if ?c then _ else _) = _ => destruct c end; inversion E; subst; auto.
      * destruct (nth_error (lmem s0) i); [|discriminate]. destruct (x =? z); inversion E; subst; auto.
    + rewrite project_cons_other in Hr by exact Hn.
      apply (IH _ s0 s); [exact I| |exact Hr|exact Hu].
      intros w Hw. apply held_after_other; auto.
Qed.

(** ** a holder is not in a waiting step *)

(** events of other threads do not give u a guard *)
Lemma held_after_no_events u : forall tr held b,
  Forall (fun e => is_of u e = false) tr -> In (b, u) (held_after held tr) -> In (b, u) held.
Proof.
  induction tr as [|[b' e] tr IH]; intros held b Hf Hin; [exact Hin|].
  rewrite held_after_cons in Hin. inversion Hf as [|? ? Hx Hf']; subst.
  apply IH in Hin; [|exact Hf']. clear IH Hf Hf'.
  unfold is_of in Hx. cbn [snd] in Hx. apply Nat.eqb_neq in Hx.
  destruct e as [| | |t v [|]| | | |]; cbn [held_after ev_tid] in *; try exact Hin.
  - destruct Hin as [E|Hin]; [injection E as _ E; contradiction|exact Hin].
  - apply filter_In in Hin. tauto.
  - apply filter_In in Hin. tauto.
Qed.

Lemma find_rev_split {A} (p : A -> bool) : forall l x,
  find p (rev l) = Some x -> exists l1 l2, l = l1 ++ x :: l2 /\ p x = true /\ Forall (fun y => p y = false) l2.
Proof.
  intros l. induction l as [|a l IH] using rev_ind; intros x H; [discriminate|].
  rewrite rev_unit in H. cbn [find] in H. destruct (p a) eqn:Pa.
  - injection H as <-. exists l, []. repeat split; auto.
  - apply IH in H as (l1 & l2 & -> & Px & F). exists l1, (l2 ++ [a]).
    rewrite <- app_assoc. repeat split; auto. apply Forall_app. split; [exact F|repeat constructor; exact Pa].
Qed.

Lemma no_wait_app held : forall a b,
  no_wait_while_holding held (a ++ b) = no_wait_while_holding held a && no_wait_while_holding (held_after held a) b.
Proof.
  intros a; revert held; induction a as [|[b' e] a IH]; intros held b; [reflexivity|].
  unfold gev in *. cbn [app no_wait_while_holding]. rewrite IH, (held_after_cons held b' e a). now rewrite andb_assoc.
Qed.

Lemma holds_any_in held b u : In (b, u) held -> holds_any held u = true.
Proof.
  intros H. unfold holds_any. apply existsb_exists. exists (b, u). split; [exact H|cbn; apply Nat.eqb_refl].
Qed.

Lemma held_after_app held a b : held_after held (a ++ b) = held_after (held_after held a) b.
Proof.
  revert held; induction a as [|[b' e] a IH]; intros held; [reflexivity|].
  unfold gev in *. cbn [app]. rewrite held_after_cons, IH, <- held_after_cons. reflexivity.
Qed.

Theorem holder_not_spinning inits tr b u :
  olc_trace_ok inits tr = true -> In (b, u) (held_after [] tr) -> forall b', ~ spinning_on tr u b'.
Proof.
  unfold olc_trace_ok, spinning_on, last_of. intros H Hin b' Hs.
  apply andb_true_iff in H as [_ H].
  apply find_rev_split in Hs as (l1 & l2 & -> & _ & F).
  rewrite no_wait_app in H. apply andb_true_iff in H as [_ H].
  cbn [no_wait_while_holding] in H. apply andb_true_iff in H as [H _].
  rewrite held_after_app, held_after_cons in Hin. apply held_after_no_events in Hin; [|exact F].
  cbn [held_after] in Hin. apply holds_any_in in Hin. rewrite Hin in H. discriminate.
Qed.

(** ** every write-locked node has a holder, and the holder is not waiting *)
Theorem locked_node_has_running_holder inits tr b s0 s :
  olc_trace_ok inits tr = true -> inits_ok inits -> In (b, s0) inits ->
  lrun s0 (project b tr) = Some s -> w_is_write_locked (lw s) = true ->
  exists u, guards s = [u] /\ In (b, u) (held_after [] tr) /\ forall b', ~ spinning_on tr u b'.
Proof.
  intros Hok Hi Hin Hr Hw. destruct (Hi _ _ Hin) as (I0 & G0).
  pose proof (lrun_inv _ _ _ I0 Hr) as (P & [(G & M)|(u & G & M)]).
  - exfalso. unfold w_is_write_locked in Hw. apply Z.eqb_eq in Hw. lia.
  - exists u. split; [exact G|].
    assert (Hh : In (b, u) (held_after [] tr)).
    { apply (guards_are_held b tr [] s0 s I0); [rewrite G0; intros ? []|exact Hr|rewrite G; left; reflexivity]. }
    split; [exact Hh|]. eapply holder_not_spinning; eauto.
Qed.

(** ** no deadlock: it cannot be that every unfinished thread is spinning on a
    node that is still write-locked (the holders are unfinished threads) *)
Theorem not_all_waiting inits tr (ts : list tid) :
  olc_trace_ok inits tr = true -> inits_ok inits ->
  (forall t, In t ts -> exists b s0 s, In (b, s0) inits /\ spinning_on tr t b /\
       lrun s0 (project b tr) = Some s /\ w_is_write_locked (lw s) = true) ->
  (forall b u, In (b, u) (held_after [] tr) -> In u ts) ->
  ts = [].
Proof.
  intros Hok Hi Hw Hh. destruct ts as [|t ts]; [reflexivity|exfalso].
  destruct (Hw t (or_introl eq_refl)) as (b & s0 & s & Hin & _ & Hr & Hl).
  destruct (locked_node_has_running_holder _ _ _ _ _ Hok Hi Hin Hr Hl) as (u & _ & Hu & Hns).
  destruct (Hw u (Hh _ _ Hu)) as (b' & _ & _ & _ & Hsp & _). exact (Hns b' Hsp).
Qed.
