(** C03e: the sequential ART model (Art/ArtModel.v) and the concurrent heap
    model (Olc/ReadModel.v, Olc/WriteModel.v) describe the same trees: the
    representation relation, its frame / splitting lemmas, and the lifting of
    a local change below a slot to the whole tree. *)
From Coq Require Import List ZArith Bool Arith Lia Permutation.
From Unodb Require Import Base.Lex Art.ArtModel Art.ArtSpec Art.ArtInv Art.ArtLemmas.
From Unodb Require Import Lock.LockModel Olc.ReadModel Olc.WriteModel Olc.WriteShapes.
Import ListNotations.
Local Open Scope Z_scope.
Local Open Scope nat_scope.

(** ** The representation relation.
    [rep h t n ids]: in heap h, node n is the root of (the class-forgetting
    image of) subtree t; ids lists the heap ids used, one per tree position. *)
Inductive rep (h : heap) : node -> nid -> list nid -> Prop :=
| rep_leaf : forall id k v n c,
    h n = Some c -> w_is_free (word c) = true -> cont c = CLeaf k v ->
    rep h (Leaf id k v) n [n]
| rep_inode : forall c p ch n cl cs ids,
    h n = Some cl -> w_is_free (word cl) = true -> cont cl = CInode p cs ->
    rep_list h ch cs ids ->
    rep h (Inode c p ch) n (n :: ids)
with rep_list (h : heap) : list (Z * node) -> list (Z * nid) -> list nid -> Prop :=
| rl_nil : rep_list h [] [] []
| rl_cons : forall b t m i1 ch cs i2,
    rep h t m i1 -> rep_list h ch cs i2 ->
    rep_list h ((b, t) :: ch) ((b, m) :: cs) (i1 ++ i2).

Scheme rep_mind := Induction for rep Sort Prop
  with rep_list_mind := Induction for rep_list Sort Prop.
Combined Scheme rep_mutind from rep_mind, rep_list_mind.

(** the index as a whole: some bound on the allocated ids (fresh ids exist),
    the root pointer holds a representation of the root, distinct ids *)
Definition represents (g : gstate) (d : db) : Prop :=
  (exists bound, forall m, bound <= m -> hp g m = None) /\
  match ArtModel.root d with
  | None => ReadModel.root g = None
  | Some t => exists n ids, ReadModel.root g = Some n /\ rep (hp g) t n ids /\ NoDup ids
  end.

(** ** Frame: rep only reads the cells of its ids *)
Lemma rep_ext_mut : forall h,
  (forall t n ids, rep h t n ids -> forall h', (forall m, In m ids -> h' m = h m) -> rep h' t n ids) /\
  (forall ch cs ids, rep_list h ch cs ids -> forall h', (forall m, In m ids -> h' m = h m) -> rep_list h' ch cs ids).
Proof.
  intros h. apply rep_mutind.
  - intros id k v n c Hc Hf Hk h' E. eapply rep_leaf; [rewrite E; [exact Hc | left; reflexivity] | exact Hf | exact Hk].
  - intros c p ch n cl cs ids Hc Hf Hk Hl IH h' E. eapply rep_inode; [rewrite E; [exact Hc | left; reflexivity] | exact Hf | exact Hk |].
    apply IH. intros m Hm. apply E. right. exact Hm.
  - intros h' _. constructor.
  - intros b t m i1 ch cs i2 Hr IH1 Hl IH2 h' E. constructor.
    + apply IH1. intros x Hx. apply E. apply in_or_app. left. exact Hx.
    + apply IH2. intros x Hx. apply E. apply in_or_app. right. exact Hx.
Qed.

Lemma rep_ext : forall h h' t n ids, rep h t n ids -> (forall m, In m ids -> h' m = h m) -> rep h' t n ids.
Proof. intros h h' t n ids Hr E. exact (proj1 (rep_ext_mut h) t n ids Hr h' E). Qed.

Lemma rep_list_ext : forall h h' ch cs ids, rep_list h ch cs ids -> (forall m, In m ids -> h' m = h m) -> rep_list h' ch cs ids.
Proof. intros h h' ch cs ids Hr E. exact (proj2 (rep_ext_mut h) ch cs ids Hr h' E). Qed.

(** ids are allocated; the root id of a subtree is among its ids *)
Lemma rep_alloc_mut : forall h,
  (forall t n ids, rep h t n ids -> forall m, In m ids -> h m <> None) /\
  (forall ch cs ids, rep_list h ch cs ids -> forall m, In m ids -> h m <> None).
Proof.
  intros h. apply rep_mutind.
  - intros id k v n c Hc _ _ m [<- | []]. congruence.
  - intros c p ch n cl cs ids Hc _ _ _ IH m [<- | Hm]; [congruence | apply IH; exact Hm].
  - intros m [].
  - intros b t m i1 ch cs i2 _ IH1 _ IH2 x Hx. apply in_app_or in Hx. destruct Hx; [apply IH1 | apply IH2]; assumption.
Qed.

Lemma rep_alloc : forall h t n ids m, rep h t n ids -> In m ids -> h m <> None.
Proof. intros h t n ids m Hr. exact (proj1 (rep_alloc_mut h) t n ids Hr m). Qed.

Lemma rep_list_alloc : forall h ch cs ids m, rep_list h ch cs ids -> In m ids -> h m <> None.
Proof. intros h ch cs ids m Hr. exact (proj2 (rep_alloc_mut h) ch cs ids Hr m). Qed.

Lemma rep_root_in : forall h t n ids, rep h t n ids -> In n ids.
Proof. intros h t n ids Hr. destruct Hr; left; reflexivity. Qed.

(** the cell at the root of a represented subtree *)
Lemma rep_root_cell : forall h t n ids, rep h t n ids -> exists c, h n = Some c /\ w_is_free (word c) = true /\
  match t with
  | Leaf _ k v => cont c = CLeaf k v /\ ids = [n]
  | Inode _ p ch => exists cs ids0, cont c = CInode p cs /\ rep_list h ch cs ids0 /\ ids = n :: ids0
  end.
Proof.
  intros h t n ids Hr. destruct Hr as [id k v n c Hc Hf Hk | c p ch n cl cs ids Hc Hf Hk Hl].
  - exists c. auto.
  - exists cl. split; [exact Hc | split; [exact Hf|]]. exists cs, ids. auto.
Qed.

(** ** Children lists: same key bytes in the same order; splitting at a child *)
Lemma rep_list_keys : forall h ch cs ids, rep_list h ch cs ids -> map fst cs = map fst ch.
Proof. intros h ch cs ids Hr. induction Hr as [|b t m i1 ch cs i2 _ _ IH]; [reflexivity | cbn; f_equal; exact IH]. Qed.

Lemma rep_list_length : forall h ch cs ids, rep_list h ch cs ids -> length cs = length ch.
Proof. intros h ch cs ids Hr. apply rep_list_keys in Hr. rewrite <- (map_length fst cs), Hr. apply map_length. Qed.

Lemma rep_list_app : forall h l1 cs1 i1 l2 cs2 i2, rep_list h l1 cs1 i1 -> rep_list h l2 cs2 i2 ->
  rep_list h (l1 ++ l2) (cs1 ++ cs2) (i1 ++ i2).
Proof.
  intros h l1 cs1 i1 l2 cs2 i2 H1 H2. induction H1 as [|b t m j1 ch cs j2 Hr _ IH]; [exact H2|].
  cbn [app]. rewrite <- app_assoc. constructor; assumption.
Qed.

Lemma rep_list_split : forall h l1 l2 cs ids, rep_list h (l1 ++ l2) cs ids ->
  exists cs1 cs2 i1 i2, cs = cs1 ++ cs2 /\ ids = i1 ++ i2 /\ length cs1 = length l1 /\
    rep_list h l1 cs1 i1 /\ rep_list h l2 cs2 i2.
Proof.
  intros h l1. induction l1 as [|[b t] l1 IH]; intros l2 cs ids Hr.
  - exists [], cs, [], ids. repeat split; try reflexivity; [constructor | exact Hr].
  - cbn [app] in Hr. inversion Hr as [|b' t' m j1 ch' cs' j2 Hrt Hrl]; subst.
    destruct (IH _ _ _ Hrl) as (cs1 & cs2 & i1 & i2 & -> & -> & Hlen & H1 & H2).
    exists ((b, m) :: cs1), cs2, (j1 ++ i1), i2. repeat split.
    + rewrite app_assoc. reflexivity.
    + cbn. f_equal. exact Hlen.
    + constructor; assumption.
    + exact H2.
Qed.

Lemma rep_list_mid : forall h l1 b t l2 cs ids, rep_list h (l1 ++ (b, t) :: l2) cs ids ->
  exists cs1 m cs2 i1 im i2, cs = cs1 ++ (b, m) :: cs2 /\ ids = i1 ++ im ++ i2 /\ length cs1 = length l1 /\
    rep_list h l1 cs1 i1 /\ rep h t m im /\ rep_list h l2 cs2 i2.
Proof.
  intros h l1 b t l2 cs ids Hr. destruct (rep_list_split _ _ _ _ _ Hr) as (cs1 & cs2 & i1 & i2 & -> & -> & Hlen & H1 & H2).
  inversion H2 as [|b' t' m j1 ch' cs' j2 Hrt Hrl]; subst.
  exists cs1, m, cs', i1, j1, j2. repeat split; assumption.
Qed.

(** ** The two find_child functions *)
Lemma find_child_None_iff : forall b cs, find_child b cs = None <-> ~ In b (map fst cs).
Proof.
  intros b cs. induction cs as [|[b' c] cs IH]; cbn; [tauto|].
  destruct (Z.eqb_spec b b') as [->|Hne]; [split; [discriminate | intros H; exfalso; apply H; left; reflexivity]|].
  rewrite IH. split; [intros H [E|HI]; [congruence | tauto] | tauto].
Qed.

Lemma find_child_mid : forall b cs1 m cs2, ~ In b (map fst cs1) -> find_child b (cs1 ++ (b, m) :: cs2) = Some m.
Proof.
  intros b cs1 m cs2. induction cs1 as [|[b' c] cs1 IH]; cbn; intros Hn.
  - rewrite Z.eqb_refl. reflexivity.
  - destruct (Z.eqb_spec b b') as [->|Hne]; [exfalso; apply Hn; left; reflexivity | apply IH; tauto].
Qed.

Lemma find_child_skip : forall b' b cs1 m cs2, b' <> b -> find_child b' (cs1 ++ (b, m) :: cs2) = find_child b' (cs1 ++ cs2).
Proof.
  intros b' b cs1 m cs2 Hne. induction cs1 as [|[x c] cs1 IH]; cbn.
  - destruct (Z.eqb_spec b' b); [contradiction | reflexivity].
  - destruct (b' =? x)%Z; [reflexivity | exact IH].
Qed.

Lemma find_child_app_notin : forall b cs1 cs2, ~ In b (map fst cs1) -> find_child b (cs1 ++ cs2) = find_child b cs2.
Proof.
  intros b cs1 cs2. induction cs1 as [|[x c] cs1 IH]; cbn; intros Hn; [reflexivity|].
  destruct (Z.eqb_spec b x) as [->|Hne]; [exfalso; apply Hn; left; reflexivity | apply IH; tauto].
Qed.

(** ** Redirecting a slot, concretely *)
Fixpoint set_child (b : Z) (X : nid) (cs : list (Z * nid)) : list (Z * nid) :=
  match cs with
  | [] => []
  | (b', c) :: cs' => if (b =? b')%Z then (b', X) :: cs' else (b', c) :: set_child b X cs'
  end.

Lemma set_child_slot_set : forall b X cs m, find_child b cs = Some m -> slot_set cs b (Some X) (set_child b X cs).
Proof.
  intros b X cs m. induction cs as [|[b' c] cs IH]; cbn; [discriminate|].
  destruct (Z.eqb_spec b b') as [->|Hne]; intros Hf x; cbn.
  - destruct (Z.eqb_spec x b'); reflexivity.
  - rewrite (IH Hf x). destruct (Z.eqb_spec x b') as [->|Hne2]; [|reflexivity].
    destruct (Z.eqb_spec b' b); [congruence | reflexivity].
Qed.

Lemma set_child_mid : forall b X cs1 m cs2, ~ In b (map fst cs1) -> set_child b X (cs1 ++ (b, m) :: cs2) = cs1 ++ (b, X) :: cs2.
Proof.
  intros b X cs1 m cs2. induction cs1 as [|[b' c] cs1 IH]; cbn; intros Hn.
  - rewrite Z.eqb_refl. reflexivity.
  - destruct (Z.eqb_spec b b') as [->|Hne]; [exfalso; apply Hn; left; reflexivity|]. f_equal. apply IH. tauto.
Qed.

Definition redirect (g : gstate) (s : slot) (h : heap) (X : nid) : gstate :=
  match s with
  | SRoot => set_root g h (Some X)
  | SChild P bP =>
      match hp g P with
      | Some cP =>
          match cont cP with
          | CInode pP csP => set_hp g (upd h P (mk (bump (word cP)) (CInode pP (set_child bP X csP))))
          | CLeaf _ _ => g
          end
      | None => g
      end
  end.

Lemma redirect_ok : forall g s n Q h X, slot_holds g s n Q -> slot_redirect g s h X (redirect g s h X).
Proof.
  intros g [|P bP] n Q h X Hs; cbn in *; [reflexivity|].
  destruct Hs as (pthP & cP & pP & csP & Hr & Hc & Hk & Hf & _).
  rewrite Hc, Hk. exists cP, pP, csP, (set_child bP X csP). repeat split; try assumption.
  eapply set_child_slot_set. exact Hf.
Qed.

Lemma slot_holds_reach : forall g s n Q, slot_holds g s n Q -> reach g n Q.
Proof.
  intros g [|P bP] n Q Hs; cbn in Hs.
  - destruct Hs as [Hr ->]. apply reach_root. exact Hr.
  - destruct Hs as (pthP & cP & pP & csP & Hr & Hc & Hk & Hf & ->). eapply reach_child; eassumption.
Qed.

Lemma slot_holds_child : forall g s P Q cP pP csP b m, slot_holds g s P Q ->
  hp g P = Some cP -> cont cP = CInode pP csP -> find_child b csP = Some m ->
  slot_holds g (SChild P b) m (Q ++ pP ++ [b]).
Proof.
  intros g s P Q cP pP csP b m Hs Hc Hk Hf. cbn. exists Q, cP, pP, csP.
  repeat split; try assumption. eapply slot_holds_reach. exact Hs.
Qed.

(** ** The outcome of a local change below slot s (holding n, subtree ids):
    the new subtree t' is represented at n' in a heap h' that differs from the
    old one only inside the subtree and at the fresh ids; either in place
    (same id, only the heap changes) or by redirecting the slot *)
Definition local_res (g : gstate) (s : slot) (n : nid) (ids fresh : list nid) (t' : node) (g' : gstate) : Prop :=
  exists h' n' ids',
    rep h' t' n' ids' /\ NoDup ids' /\ incl ids' (fresh ++ ids) /\
    (forall m, ~ In m ids -> ~ In m fresh -> h' m = hp g m) /\
    ((n' = n /\ g' = set_hp g h') \/ g' = redirect g s h' n').

(** ** NoDup bookkeeping *)
Lemma NoDup_app_inv : forall (A : Type) (l1 l2 : list A), NoDup (l1 ++ l2) ->
  NoDup l1 /\ NoDup l2 /\ forall x, In x l1 -> ~ In x l2.
Proof.
  intros A l1 l2. induction l1 as [|a l1 IH]; cbn; intros H.
  - repeat split; [constructor | exact H | intros x []].
  - inversion H as [|a' l' Hn Hd]; subst. destruct (IH Hd) as (H1 & H2 & H3).
    repeat split; [constructor; [intros HI; apply Hn; apply in_or_app; left; exact HI | exact H1] | exact H2 |].
    intros x [<- | Hx]; [intros HI; apply Hn; apply in_or_app; right; exact HI | apply H3; exact Hx].
Qed.

Lemma NoDup_mid_replace : forall (i1 im i2 ids' fresh : list nid),
  NoDup (i1 ++ im ++ i2) -> NoDup ids' -> incl ids' (fresh ++ im) ->
  (forall f, In f fresh -> ~ In f i1 /\ ~ In f i2) ->
  NoDup (i1 ++ ids' ++ i2).
Proof.
  intros i1 im i2 ids' fresh Hnd Hnd' Hincl Hfr.
  destruct (NoDup_app_inv _ _ _ Hnd) as (H1 & H23 & D1). destruct (NoDup_app_inv _ _ _ H23) as (H2 & H3 & D2).
  apply NoDup_app_intro; [exact H1 | apply NoDup_app_intro; [exact Hnd' | exact H3 |] |].
  - intros x Hx. apply Hincl in Hx. apply in_app_or in Hx. destruct Hx as [Hx | Hx]; [apply Hfr; exact Hx | apply D2; exact Hx].
  - intros x Hx HI. apply in_app_or in HI. destruct HI as [HI | HI].
    + apply Hincl in HI. apply in_app_or in HI. destruct HI as [HI | HI]; [apply (proj1 (Hfr x HI)); exact Hx|].
      apply (D1 x Hx). apply in_or_app. left. exact HI.
    + apply (D1 x Hx). apply in_or_app. right. exact HI.
Qed.

(** ** Lifting a local change below a child slot to the parent *)
Lemma rep_rebuild : forall h h' h'' c p l1 cs1 i1 b t' n' ids' l2 cs2 i2 P cl,
  rep_list h l1 cs1 i1 -> rep_list h l2 cs2 i2 -> rep h' t' n' ids' ->
  (forall m, In m i1 -> h'' m = h m) -> (forall m, In m i2 -> h'' m = h m) -> (forall m, In m ids' -> h'' m = h' m) ->
  h'' P = Some cl -> w_is_free (word cl) = true -> cont cl = CInode p (cs1 ++ (b, n') :: cs2) ->
  rep h'' (Inode c p (l1 ++ (b, t') :: l2)) P (P :: i1 ++ ids' ++ i2).
Proof.
  intros h h' h'' c p l1 cs1 i1 b t' n' ids' l2 cs2 i2 P cl H1 H2 Hr E1 E2 E' Hc Hf Hk.
  eapply rep_inode; [exact Hc | exact Hf | exact Hk |].
  apply rep_list_app; [eapply rep_list_ext; eassumption|].
  constructor; [eapply rep_ext; eassumption | eapply rep_list_ext; eassumption].
Qed.

Lemma local_lift : forall g s P c p l1 b t' l2 cl cs1 m cs2 i1 im i2 fresh g',
  hp g P = Some cl -> w_is_free (word cl) = true -> cont cl = CInode p (cs1 ++ (b, m) :: cs2) ->
  ~ In b (map fst cs1) ->
  rep_list (hp g) l1 cs1 i1 -> rep_list (hp g) l2 cs2 i2 ->
  NoDup (P :: i1 ++ im ++ i2) ->
  (forall f, In f fresh -> hp g f = None) ->
  local_res g (SChild P b) m im fresh t' g' ->
  local_res g s P (P :: i1 ++ im ++ i2) fresh (Inode c p (l1 ++ (b, t') :: l2)) g'.
Proof.
  intros g s P c p l1 b t' l2 cl cs1 m cs2 i1 im i2 fresh g' Hc Hf Hk Hnb H1 H2 Hnd Hfr
    (h' & n' & ids' & Hr & Hnd' & Hincl & Hframe & Hg').
  inversion Hnd as [|x l HnP Hnd0]; subst.
  destruct (NoDup_app_inv _ _ _ Hnd0) as (N1 & N23 & D1). destruct (NoDup_app_inv _ _ _ N23) as (N2 & N3 & D2).
  assert (HPfr : ~ In P fresh) by (intros HI; apply Hfr in HI; congruence).
  assert (HPim : ~ In P im) by (intros HI; apply HnP; apply in_or_app; right; apply in_or_app; left; exact HI).
  assert (F1 : forall x, In x i1 -> ~ In x im /\ ~ In x fresh /\ x <> P).
  { intros x Hx. repeat split.
    - intros HI. apply (D1 x Hx). apply in_or_app. left. exact HI.
    - intros HI. apply Hfr in HI. exact (rep_list_alloc _ _ _ _ _ H1 Hx HI).
    - intros ->. apply HnP. apply in_or_app. left. exact Hx. }
  assert (F2 : forall x, In x i2 -> ~ In x im /\ ~ In x fresh /\ x <> P).
  { intros x Hx. repeat split.
    - intros HI. exact (D2 x HI Hx).
    - intros HI. apply Hfr in HI. exact (rep_list_alloc _ _ _ _ _ H2 Hx HI).
    - intros ->. apply HnP. apply in_or_app. right. apply in_or_app. right. exact Hx. }
  assert (HPids' : ~ In P ids').
  { intros HI. apply Hincl in HI. apply in_app_or in HI. tauto. }
  assert (Hnd'' : NoDup (P :: i1 ++ ids' ++ i2)).
  { constructor.
    - intros HI. apply in_app_or in HI. destruct HI as [HI | HI]; [apply (F1 P HI); reflexivity|].
      apply in_app_or in HI. destruct HI as [HI | HI]; [tauto | apply (F2 P HI); reflexivity].
    - eapply NoDup_mid_replace; [exact Hnd0 | exact Hnd' | exact Hincl |].
      intros f Hf'. split; intros HI; [apply (proj1 (proj2 (F1 f HI))) | apply (proj1 (proj2 (F2 f HI)))]; exact Hf'. }
  assert (Hincl'' : incl (P :: i1 ++ ids' ++ i2) (fresh ++ P :: i1 ++ im ++ i2)).
  { intros x [<- | Hx]; [apply in_or_app; right; left; reflexivity|].
    apply in_app_or in Hx. destruct Hx as [Hx | Hx]; [apply in_or_app; right; right; apply in_or_app; left; exact Hx|].
    apply in_app_or in Hx. destruct Hx as [Hx | Hx].
    - apply Hincl in Hx. apply in_app_or in Hx. destruct Hx as [Hx | Hx]; [apply in_or_app; left; exact Hx|].
      apply in_or_app; right; right; apply in_or_app; right; apply in_or_app; left; exact Hx.
    - apply in_or_app; right; right; apply in_or_app; right; apply in_or_app; right; exact Hx. }
  destruct Hg' as [[-> ->] | ->].
  - exists h', P, (P :: i1 ++ ids' ++ i2). split; [|split; [exact Hnd'' | split; [exact Hincl'' | split]]].
    + eapply (rep_rebuild (hp g) h' h'); try eassumption.
      * intros x Hx. apply Hframe; apply (F1 x Hx).
      * intros x Hx. apply Hframe; apply (F2 x Hx).
      * reflexivity.
      * rewrite Hframe; assumption.
    + intros x Hx Hxf. apply Hframe; [|exact Hxf]. intros HI. apply Hx. right. apply in_or_app. right. apply in_or_app. left. exact HI.
    + left. split; reflexivity.
  - unfold redirect. rewrite Hc, Hk, (set_child_mid _ _ _ _ _ Hnb).
    set (cl' := mk (bump (word cl)) (CInode p (cs1 ++ (b, n') :: cs2))).
    exists (upd h' P cl'), P, (P :: i1 ++ ids' ++ i2). split; [|split; [exact Hnd'' | split; [exact Hincl'' | split]]].
    + eapply (rep_rebuild (hp g) h' (upd h' P cl')) with (cl := cl'); try eassumption.
      * intros x Hx. rewrite upd_neq by apply (F1 x Hx). apply Hframe; apply (F1 x Hx).
      * intros x Hx. rewrite upd_neq by apply (F2 x Hx). apply Hframe; apply (F2 x Hx).
      * intros x Hx. apply upd_neq. intros ->. contradiction.
      * apply upd_eq.
      * cbn. apply bump_free. exact Hf.
      * reflexivity.
    + intros x Hx Hxf. rewrite upd_neq by (intros ->; apply Hx; left; reflexivity).
      apply Hframe; [|exact Hxf]. intros HI. apply Hx. right. apply in_or_app. right. apply in_or_app. left. exact HI.
    + left. split; reflexivity.
Qed.
