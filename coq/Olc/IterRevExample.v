(** C09d, non-vacuity: the history Hx of Olc/IterExample.v (a writer inserts
    "29" at moment 14; all conditions proved there) with a REVERSE scan
    under way: seek (fwd = false) to [3;0], three calls of prior.

    Tree: root 0 = {1 -> node 1, 2 -> node 2}, node 1 = {1 -> leaf 3 "11",
    3 -> leaf 4 "13"}, node 2 = {7 -> leaf 5 "27"}; from moment 14 on
    node 2 = {7 -> leaf 5, 9 -> leaf 6 "29"} with a new word.

    - seek [3;0] (moments 0..5): the root has no child for byte 3,
      lte_key_byte finds (2 -> node 2), right-most descent: "27";
    - prior (8..12): the entry of node 2 (index 0) is re-validated at 9 and
      popped, the root entry moves from index 1 to 0, right-most descent
      through node 1: "13";
    - the writer inserts "29" at moment 14: between two reverse steps, below
      the bound [3;0], above everything delivered so far;
    - prior (15..16): the entry of node 1 moves from index 1 to 0: "11";
    - prior (19): both entries have index 0 and are popped: end. *)
From Coq Require Import List ZArith Bool Arith Lia Sorted.
From Unodb Require Import Base.Lex Lock.LockModel Olc.ReadModel Olc.ReadProofs Olc.IterModel Olc.IterAux
  Olc.IterProofs Olc.IterSeek Olc.IterScan Olc.IterExample Olc.IterRevModel.
Import ListNotations.
Local Open Scope Z_scope.

Definition hi_x : key := [3; 0].

Definition ra0 : hop := {| h_node := 0%nat; h_lock := 1%nat; h_check := 4%nat; h_word := 0; h_cont := CInode [] cs0 |}.
Definition ren : sentry := {| e_node := 0%nat; e_pth := []; e_pre := []; e_cs := cs0; e_idx := 1%nat; e_byte := 2;
                              e_child := 2%nat; e_word := 0; e_at := 1%nat |}.
Definition re2 : sentry := {| e_node := 2%nat; e_pth := [2]; e_pre := []; e_cs := cs2; e_idx := 0%nat; e_byte := 7;
                              e_child := 5%nat; e_word := 0; e_at := 3%nat |}.
Definition ri2 : ihop := {| ih_e := re2; ih_check := 6%nat |}.
Definition ra5 : hop := {| h_node := 5%nat; h_lock := 5%nat; h_check := 7%nat; h_word := 0; h_cont := CLeaf [2; 7] [270] |}.
Definition re1 : sentry := {| e_node := 1%nat; e_pth := [1]; e_pre := []; e_cs := cs1; e_idx := 1%nat; e_byte := 3;
                              e_child := 4%nat; e_word := 0; e_at := 10%nat |}.
Definition ri1 : ihop := {| ih_e := re1; ih_check := 13%nat |}.
Definition ra4 : hop := {| h_node := 4%nat; h_lock := 12%nat; h_check := 13%nat; h_word := 0; h_cont := CLeaf [1; 3] [130] |}.
Definition ra3 : hop := {| h_node := 3%nat; h_lock := 16%nat; h_check := 18%nat; h_word := 0; h_cont := CLeaf [1; 1] [110] |}.

Lemma rx_seek_down : seek_down Hx hi_x 0 0 2 0%nat [] ra0 [].
Proof.
  split.
  - split; try reflexivity; [lia|]. apply d_last; [hop_now | cbn; lia | reflexivity].
  - constructor.
Qed.

Lemma rx_seek_lte : seek_lte hi_x ra0 [] ren.
Proof.
  exists [0], 3. cbn. repeat split; try reflexivity; try lia.
  intros j bj cj Hj Hn. destruct j as [|[|j]]; try lia. destruct j; discriminate.
Qed.

Definition rpos0 : ipos := desc_pos [ri2] ra5 [2; 7] [270] (ren :: seek_stack []).

Lemma rx_seek_result : rseek_result Hx hi_x 0 1 5 rpos0.
Proof.
  apply (rs_lte Hx hi_x 0%nat 0 2%nat 0%nat [] ra0 [] ren [ri2] ra5 [2; 7] [2; 7] [270] rx_seek_down rx_seek_lte).
  - apply d_step; [| cbn; lia | reflexivity | reflexivity |].
    + split; [split; [reflexivity | split; [cell_now | reflexivity]] | split; [cbn; lia | cell_now]].
    + apply d_last; [hop_now | cbn; lia | reflexivity].
  - constructor; [reflexivity | constructor].
  - reflexivity.
Qed.

Definition rpos1 : ipos := prior_pos ren 1 1%nat [] [ri1] ra4 [1; 3] [130].

Lemma rx_prior1 : prior_some Hx rpos0 8 [(re2, 9%nat)] ren 11 1 1%nat [] [ri1] ra4 [1; 3] [1; 3] [130].
Proof.
  split.
  - split; [cbn; lia | cell_now].
  - split; try reflexivity.
    + constructor; [|constructor]. split; [cbn; lia | split; [cell_now | reflexivity]].
    + cbn. lia.
    + cell_now.
    + cbn. lia.
    + apply d_step; [| cbn; lia | reflexivity | reflexivity |].
      * split; [split; [reflexivity | split; [cell_now | reflexivity]] | split; [cbn; lia | cell_now]].
      * apply d_last; [hop_now | cbn; lia | reflexivity].
    + constructor; [reflexivity | constructor].
Qed.

Definition rpos2 : ipos := prior_pos re1 1 3%nat [retreat ren 1 1%nat] [] ra3 [1; 1] [110].

Lemma rx_prior2 : prior_some Hx rpos1 15 [] re1 17 1 3%nat [retreat ren 1 1%nat] [] ra3 [1; 1] [1; 1] [110].
Proof.
  split.
  - split; [cbn; lia | cell_now].
  - split; try reflexivity.
    + constructor.
    + cbn. lia.
    + cell_now.
    + cbn. lia.
    + apply d_last; [hop_now | cbn; lia | reflexivity].
    + constructor.
Qed.

Lemma rx_prior3 : prior_none Hx rpos2 19 [(retreat re1 1 3%nat, 20%nat); (retreat ren 1 1%nat, 21%nat)].
Proof.
  split.
  - split; [cbn; lia | cell_now].
  - split; [reflexivity|].
    constructor; [|constructor; [|constructor]]; (split; [cbn; lia | split; [cell_now | reflexivity]]).
Qed.

Definition rds_x : list delivery :=
  [(1%nat, 5%nat, [2; 7], [270]); (8%nat, 12%nat, [1; 3], [130]); (15%nat, 16%nat, [1; 1], [110])].

Lemma rx_scan : riter_scan Hx 0 (UKey false hi_x) rds_x (Some 19%nat).
Proof.
  unfold rds_x.
  apply (ris_seek Hx 0%nat hi_x 0%nat 1%nat 5%nat rpos0 _ (Some 19%nat)); [lia | exact rx_seek_result|].
  apply (rir_prior Hx 5%nat rpos0 8%nat [(re2, 9%nat)] ren 11%nat 1 1%nat [] [ri1] ra4 [1; 3] [1; 3] [130] _ (Some 19%nat));
    [lia | exact rx_prior1|].
  apply (rir_prior Hx 12%nat rpos1 15%nat [] re1 17%nat 1 3%nat [retreat ren 1 1%nat] [] ra3 [1; 1] [1; 1] [110] _ (Some 19%nat));
    [lia | exact rx_prior2|].
  change (Some 19%nat) with (Some (end_moment rpos2 19%nat)).
  eapply (rir_end Hx 16%nat rpos2 19%nat); [lia | exact rx_prior3].
Qed.

(** the writer's key is below the bound of the scan *)
Lemma rx_writer_below : below (UKey false hi_x) [2; 9].
Proof. cbn. unfold lex_le. cbn. discriminate. Qed.
