(** C09d: the reverse try_seek (fwd = false) and try_last of the OLC iterator
    as interval predecessor queries (Olc/IterRevModel.v); uses the lemmas of
    Olc/IterRevProofs.v and the direction-independent ones of Olc/IterSeek.v
    (what the search phase establishes).  Includes the root pointer pointing
    to a leaf (hs = []) and the empty tree. *)
From Coq Require Import List ZArith Bool Arith Lia Sorted.
From Unodb Require Import Base.Lex Lock.LockModel Olc.ReadModel Olc.ReadProofs Olc.IterModel Olc.IterAux
  Olc.IterProofs Olc.IterSeek Olc.IterRevModel Olc.IterRevProofs.
Import ListNotations.
Local Open Scope Z_scope.

(** the empty tree *)
Lemma empty_tree_rquery : forall g u, root g = None -> last_query g u None.
Proof.
  intros g u Hr x _ (v & n & pth & c & R & _). exact (reach_has_root _ _ _ R Hr).
Qed.

(** ** The root pointer points to a leaf *)

(** a one-entry tree: every key of the tree is the key of the root leaf *)
Lemma root_leaf_only : forall g n c k v x, wf_state g ->
  reach g n [] -> hp g n = Some c -> cont c = CLeaf k v -> has_key g x -> x = k.
Proof.
  intros g n c k v x W R Hc Hk [vx Ex].
  destruct (through_leaf g n [] c k v x vx W R Hc Hk Ex) as [E _]; [exists x; reflexivity | exact E].
Qed.

Lemma leafpos_only : forall H pos x, wf_history H -> leafpos_ok H pos ->
  has_key (H (ip_at pos)) x -> x = ip_key pos.
Proof.
  intros H pos x W (_ & (c & Hc & _ & Hk) & _ & Hr) Hx.
  eapply root_leaf_only; [apply W | apply reach_root; exact Hr | exact Hc | exact Hk | exact Hx].
Qed.

Lemma leafpos_entry : forall H pos, leafpos_ok H pos -> entry (H (ip_at pos)) (ip_key pos) (ip_val pos).
Proof.
  intros H pos (_ & (c & Hc & _ & Hk) & _ & Hr). exists (ip_leaf pos), [], c.
  split; [apply reach_root; exact Hr | split; assumption].
Qed.

Lemma descent_nil_path : forall H tl tc n pth a q, descent H tl tc n pth [] a q -> q = pth /\ h_node a = n.
Proof. intros H tl tc n pth a q D. inversion D; subst. split; reflexivity. Qed.

Lemma seek_pos_leaf_ok : forall H rl rw rc n0 a q k v,
  disciplined H -> stays_reachable H -> fullpath_stable H -> wf_history H ->
  root_down H rl rw rc n0 [] a q -> h_cont a = CLeaf k v -> leafpos_ok H (seek_pos [] a k v).
Proof.
  intros H rl rw rc n0 a q k v Hd Hs Hfp W R Hk.
  destruct (root_down_facts H _ _ _ _ _ _ _ Hd Hs Hfp W R) as (_ & _ & _ & _ & Ra & Ho & _).
  destruct R as [_ _ _ _ _ Sd]. destruct (descent_nil_path _ _ _ _ _ _ _ Sd) as [-> _].
  unfold leafpos_ok, seek_pos. cbn [ip_leaf ip_key ip_val ip_word ip_at ip_stack].
  split; [destruct Ho as (_ & Hf & _); exact Hf|].
  split; [rewrite <- Hk; apply hop_lock_cell; exact Ho|].
  split; [reflexivity|]. apply reach_nil_root. exact Ra.
Qed.

Lemma seek_pos_gpos_ok : forall H rl rw rc n0 hs a q k v,
  disciplined H -> stays_reachable H -> fullpath_stable H -> wf_history H ->
  root_down H rl rw rc n0 hs a q -> h_cont a = CLeaf k v -> gpos_ok H (seek_pos hs a k v).
Proof.
  intros H rl rw rc n0 hs a q k v Hd Hs Hfp W R Hk. destruct hs as [|i hs].
  - right. eapply seek_pos_leaf_ok; eassumption.
  - left. eapply seek_pos_ok; try eassumption. discriminate.
Qed.

Lemma seek_stack_cons_ne : forall i hs, seek_stack (i :: hs) <> [].
Proof. intros i hs. unfold seek_stack. cbn. destruct (rev (map ih_e hs)); discriminate. Qed.

Lemma end_moment_leaf : forall a k v t0, end_moment (seek_pos [] a k v) t0 = h_lock a.
Proof. reflexivity. Qed.

Lemma end_moment_inner : forall pos t0, ip_stack pos <> [] -> end_moment pos t0 = t0.
Proof. intros pos t0 Hne. unfold end_moment. destruct (ip_stack pos); [congruence | reflexivity]. Qed.

Lemma down_some_stack_ne : forall H st t0 pops pv tc b' c' rest hs a q k' v',
  down_some H st t0 pops pv tc b' c' rest hs a q k' v' -> st <> [].
Proof. intros H st t0 pops pv tc b' c' rest hs a q k' v' [Nst _ _ _ _ _ _ _ _]. subst st. destruct (map fst pops); discriminate. Qed.

(** ** try_prior / try_next on a root-leaf position can only end *)

(** at the moment the root leaf was read-locked nothing else is in the tree *)
Theorem leafpos_end_query : forall H pos u, wf_history H -> leafpos_ok H pos ->
  ~ below u (ip_key pos) -> last_query (H (ip_at pos)) u None.
Proof.
  intros H pos u W L Hnb x Bx Hx. rewrite (leafpos_only H pos x W L Hx) in Bx. exact (Hnb Bx).
Qed.

(** ** The endings of the reverse seek *)

(** ending 1: the leaf reached is <= hi: atomic at its lock moment *)
Theorem rseek_hit_query : forall H hi rl rw rc n0 hs a q k' v',
  disciplined H -> stays_reachable H -> fullpath_stable H -> wf_history H ->
  seek_down H hi rl rw rc n0 hs a q -> h_cont a = CLeaf k' v' -> lex_le k' hi ->
  (rl <= h_lock a)%nat /\ last_query (H (h_lock a)) (UKey false hi) (Some (k', v')).
Proof.
  intros H hi rl rw rc n0 hs a q k' v' Hd Hs Hfp W S Hk Hle.
  pose proof (seek_down_pre _ _ _ _ _ _ _ _ _ S) as [r1 Ehi]. destruct S as [R _].
  destruct (root_down_facts H _ _ _ _ _ _ _ Hd Hs Hfp W R) as (_ & _ & _ & _ & Ra & Ho & La).
  destruct (hop_lock_cell H a Ho) as (c & Hc & _ & Hkc). rewrite Hk in Hkc.
  split; [exact La|]. cbn. split; [exact Hle|]. split.
  - exists (h_node a), q, c. auto.
  - intros x Bx Lx [vx Ex].
    destruct (wf_leaf _ (W _) _ _ _ _ _ Ra Hc Hkc) as [r2 Ek]. subst hi k'.
    destruct (lex_cut_r _ _ _ _ Lx Bx) as [r Ex'].
    destruct (through_leaf _ _ _ _ _ _ _ _ (W _) Ra Hc Hkc Ex (ex_intro _ r Ex')) as [E _].
    rewrite E in Lx. exact (lex_lt_irrefl _ Lx).
Qed.

(** ending 2: the leaf reached is > hi, then try_prior from that position *)
Theorem rseek_gt_some_query : forall H hi rl rw rc n0 hs a q kr vr t0 pops pv tc b' c' rest hs2 a2 q2 k' v',
  disciplined H -> stays_reachable H -> fullpath_stable H -> wf_history H ->
  seek_down H hi rl rw rc n0 hs a q -> h_cont a = CLeaf kr vr -> lex_lt hi kr ->
  prior_some H (seek_pos hs a kr vr) t0 pops pv tc b' c' rest hs2 a2 q2 k' v' ->
  (rl <= t0 <= h_lock a2)%nat /\ lex_lt k' hi /\ rquery H t0 (h_lock a2) (UKey false hi) (Some (k', v')) /\
  pos_ok H (prior_pos pv b' c' rest hs2 a2 k' v').
Proof.
  intros H hi rl rw rc n0 hs a q kr vr t0 pops pv tc b' c' rest hs2 a2 q2 k' v' Hd Hs Hfp W S Hk Hlt N.
  assert (Hne : hs <> []).
  { intros ->. destruct N as [_ N]. exact (down_some_stack_ne _ _ _ _ _ _ _ _ _ _ _ _ _ _ N eq_refl). }
  pose proof (seek_down_pre _ _ _ _ _ _ _ _ _ S) as Phi. destruct S as [R _].
  destruct (seek_pos_ok H _ _ _ _ _ _ _ kr vr Hd Hs Hfp W R Hk Hne) as [Pok Ep].
  destruct (root_down_facts H _ _ _ _ _ _ _ Hd Hs Hfp W R) as (_ & _ & _ & _ & _ & _ & La).
  rewrite <- Ep in Phi.
  destruct (prior_some_query H _ t0 pops pv tc b' c' rest hs2 a2 q2 k' v' false hi Hd Hs Hfp W Pok N Phi) as (L & Lk & Q).
  { intros x Bx ->. cbn in Bx. exact (lex_lt_not_le _ _ Hlt Bx). }
  destruct (prior_pred_some H _ t0 pops pv tc b' c' rest hs2 a2 q2 k' v' Hd Hs Hfp W Pok N) as (_ & _ & P').
  destruct N as [[Nl _] _]. cbn in Nl.
  split; [lia | split; [exact Lk | split; assumption]].
Qed.

Theorem rseek_gt_none_query : forall H hi rl rw rc n0 hs a q kr vr t0 pops,
  disciplined H -> stays_reachable H -> fullpath_stable H -> wf_history H ->
  seek_down H hi rl rw rc n0 hs a q -> h_cont a = CLeaf kr vr -> lex_lt hi kr ->
  prior_none H (seek_pos hs a kr vr) t0 pops ->
  (rl <= end_moment (seek_pos hs a kr vr) t0)%nat /\
  last_query (H (end_moment (seek_pos hs a kr vr) t0)) (UKey false hi) None.
Proof.
  intros H hi rl rw rc n0 hs a q kr vr t0 pops Hd Hs Hfp W S Hk Hlt N.
  pose proof (seek_down_pre _ _ _ _ _ _ _ _ _ S) as Phi. destruct S as [R _].
  destruct (root_down_facts H _ _ _ _ _ _ _ Hd Hs Hfp W R) as (_ & _ & _ & _ & _ & _ & La).
  destruct hs as [|i hs].
  - rewrite end_moment_leaf. split; [exact La|].
    pose proof (seek_pos_leaf_ok H _ _ _ _ _ _ kr vr Hd Hs Hfp W R Hk) as L.
    apply (leafpos_end_query H (seek_pos [] a kr vr) (UKey false hi) W L).
    cbn. exact (lex_lt_not_le _ _ Hlt).
  - assert (Hne : i :: hs <> []) by discriminate.
    destruct (seek_pos_ok H _ _ _ _ _ _ _ kr vr Hd Hs Hfp W R Hk Hne) as [Pok Ep].
    rewrite end_moment_inner by (cbn [seek_pos ip_stack]; apply seek_stack_cons_ne).
    rewrite <- Ep in Phi. split.
    + destruct N as [[Nl _] _]. cbn in Nl. lia.
    + apply (prior_none_query H _ t0 pops false hi Hd Hs Hfp W Pok N Phi).
      intros x Bx ->. cbn in Bx. exact (lex_lt_not_le _ _ Hlt Bx).
Qed.

(** ending 3: an inner node below which every key is greater than hi *)
Lemma no_lte_dead : forall hi a q, seek_no_lte hi a q -> seek_dead_rev hi a q.
Proof.
  intros hi a q (p & cs & beta & r & Hk & -> & Hall). exists p, cs. split; [exact Hk|].
  intros bx cx r' Hf. apply lex_lt_app. apply lex_lt_app. apply lex_lt_cons. left. eapply Hall. exact Hf.
Qed.

Lemma prefix_lt_dead_rev : forall hi a q, seek_prefix_lt hi a q -> seek_dead_rev hi a q.
Proof.
  intros hi a q (p & cs & c & u & w & p' & r & Hk & -> & -> & Hlt). exists (c ++ u :: p'), cs. split; [exact Hk|].
  intros bx cx r' Hf. apply lex_lt_app. rewrite <- app_assoc. apply lex_lt_app. cbn.
  apply lex_lt_cons. left. exact Hlt.
Qed.

Lemma dead_floor_rev : forall H hi a q, wf_history H -> hop_observed H a ->
  reach (H (h_lock a)) (h_node a) q -> seek_dead_rev hi a q ->
  floor H (h_lock a) (below (UKey false hi)) q.
Proof.
  intros H hi a q W Ho Ra (p & cs & Hk & Hall) x Bx Px [vx Ex].
  destruct (hop_lock_cell H a Ho) as (c & Hc & _ & Hkc). rewrite Hk in Hkc.
  destruct (through_inode _ _ _ _ _ _ _ _ (W _) Ra Hc Hkc Ex Px) as (bx & cx & r & Hf & ->).
  cbn in Bx. exact (lex_lt_not_le _ _ (Hall bx cx r Hf) Bx).
Qed.

Theorem rseek_dead_some_query : forall H hi rl rw rc n0 hs a q pops pv tc b' c' rest hs2 a2 q2 k' v',
  disciplined H -> stays_reachable H -> fullpath_stable H -> wf_history H ->
  seek_down H hi rl rw rc n0 hs a q -> seek_dead_rev hi a q ->
  down_some H (seek_stack hs) (h_lock a) pops pv tc b' c' rest hs2 a2 q2 k' v' ->
  (rl <= h_lock a <= h_lock a2)%nat /\ lex_lt k' hi /\
  rquery H (h_lock a) (h_lock a2) (UKey false hi) (Some (k', v')) /\
  pos_ok H (prior_pos pv b' c' rest hs2 a2 k' v').
Proof.
  intros H hi rl rw rc n0 hs a q pops pv tc b' c' rest hs2 a2 q2 k' v' Hd Hs Hfp W S Dd N.
  pose proof (seek_down_pre _ _ _ _ _ _ _ _ _ S) as Phi. destruct S as [R _].
  destruct (root_down_facts H _ _ _ _ _ _ _ Hd Hs Hfp W R) as (_ & Ok & At & L & Ra & Ho & La).
  pose proof (dead_floor_rev H hi a q W Ho Ra Dd) as F.
  destruct (down_some_query H _ _ _ _ pops pv tc b' c' rest hs2 a2 q2 k' v' (below (UKey false hi)) hi
              Hd Hs Hfp W Ok L N (below_not_gt false hi) Phi F) as (L0 & E' & Lk & Q).
  split; [lia|]. split; [exact Lk|]. split.
  - cbn. split; [apply lex_lt_le; exact Lk|]. split; [|exact Q].
    exists (h_lock a2). split; [lia | exact E'].
  - eapply down_some_pos; eassumption.
Qed.

Theorem rseek_dead_none_query : forall H hi rl rw rc n0 hs a q pops,
  disciplined H -> stays_reachable H -> fullpath_stable H -> wf_history H ->
  seek_down H hi rl rw rc n0 hs a q -> seek_dead_rev hi a q ->
  down_none H (seek_stack hs) (h_lock a) pops ->
  (rl <= h_lock a)%nat /\ last_query (H (h_lock a)) (UKey false hi) None.
Proof.
  intros H hi rl rw rc n0 hs a q pops Hd Hs Hfp W S Dd N.
  pose proof (seek_down_pre _ _ _ _ _ _ _ _ _ S) as Phi. destruct S as [R _].
  destruct (root_down_facts H _ _ _ _ _ _ _ Hd Hs Hfp W R) as (_ & Ok & At & L & Ra & Ho & La).
  pose proof (dead_floor_rev H hi a q W Ho Ra Dd) as F.
  split; [exact La|]. cbn.
  exact (down_none_query H _ _ _ _ pops (below (UKey false hi)) hi Hd Hs Hfp W Ok L N (below_not_gt false hi) Phi F).
Qed.

(** a right-most descent that starts again at an inner node inside that node's
    own section: the delivered key continues the node's key prefix *)
Lemma rightmost_from_inner : forall H a q p cs hs2 a2 q2 k' v',
  disciplined H -> stays_reachable H -> fullpath_stable H -> wf_history H -> hop_observed H a ->
  h_cont a = CInode p cs -> reach (H (h_lock a)) (h_node a) q ->
  descent H (h_lock a) (h_check a) (h_node a) q hs2 a2 q2 -> rightmost hs2 -> h_cont a2 = CLeaf k' v' ->
  hs2 <> [] /\ exists b r, k' = q ++ p ++ b :: r.
Proof.
  intros H a q p cs hs2 a2 q2 k' v' Hd Hs Hfp W Ho Hk Ra D Hl Hk2.
  pose proof (inner_hop_section H a q p cs Hd Hs Hfp Ho Hk Ra) as Sec.
  inversion D as [tl tc n pth a0 Ho2 Hin Hn | tl tc n pth i rest a0 q0 Hseen Hin Hn Hp D'].
  - exfalso. subst. destruct (Sec _ Hin) as [_ (c & Hc & _ & Hkc)].
    destruct (hop_lock_cell H a2 Ho2) as (c2 & Hc2 & _ & Hkc2). rewrite Hn in Hc2. congruence.
  - subst. split; [discriminate|].
    destruct (Sec _ Hin) as [Ri (c & Hc & _ & Hkc)].
    pose proof Hseen as ((_ & (ci & Hci & _ & Hki) & Hnth) & _). rewrite Hn in Hci.
    assert (e_pre (ih_e i) = p) as Ep by congruence.
    inversion Hl as [|i0 l0 Hi0 Hl']; subst.
    assert (G : ihop_good H i) by (apply ihop_is_good; try assumption; rewrite Hn; exact Ri).
    destruct (rightmost_query H Hd Hs Hfp W _ _ _ _ _ _ _ D') with (k' := k') (v' := v') as ([r E] & _ & _); try assumption.
    { intros t Ht. eapply valid_child; [exact W | apply G; exact Ht | exact Hnth]. }
    exists (e_byte (ih_e i)), r. rewrite E. unfold e_cpath. rewrite <- !app_assoc. reflexivity.
Qed.

(** ending 4: the key prefix of the node is smaller than the bytes of hi:
    right-most descent from that node *)
Theorem rseek_prefix_gt_query : forall H hi rl rw rc n0 hs a q hs2 a2 q2 k' v',
  disciplined H -> stays_reachable H -> fullpath_stable H -> wf_history H ->
  seek_down H hi rl rw rc n0 hs a q -> seek_prefix_gt hi a q ->
  descent H (h_lock a) (h_check a) (h_node a) q hs2 a2 q2 -> rightmost hs2 -> h_cont a2 = CLeaf k' v' ->
  (rl <= h_lock a <= h_lock a2)%nat /\ lex_lt k' hi /\
  rquery H (h_lock a) (h_lock a2) (UKey false hi) (Some (k', v')) /\
  pos_ok H (desc_pos hs2 a2 k' v' (seek_stack hs)).
Proof.
  intros H hi rl rw rc n0 hs a q hs2 a2 q2 k' v' Hd Hs Hfp W S (p & cs & c & u & w & p' & r & Hk & Ep & Ehi & Hlt) D Hl Hk2.
  destruct S as [R _].
  destruct (root_down_facts H _ _ _ _ _ _ _ Hd Hs Hfp W R) as (_ & Ok & At & L & Ra & Ho & La).
  pose proof (inner_hop_section H a q p cs Hd Hs Hfp Ho Hk Ra) as Sec.
  assert (Rn : forall t, (h_lock a <= t <= h_check a)%nat -> reach (H t) (h_node a) q) by (intros t Ht; apply Sec; exact Ht).
  destruct (rightmost_from_inner H a q p cs hs2 a2 q2 k' v' Hd Hs Hfp W Ho Hk Ra D Hl Hk2) as (Hne2 & b & r' & Ek').
  destruct (rightmost_query H Hd Hs Hfp W _ _ _ _ _ _ _ D Rn Hl k' v' Hk2) as (_ & E' & Gap).
  destruct (descent_before _ _ _ _ _ _ _ _ D) as [_ B2].
  assert (Lk : lex_lt k' hi).
  { rewrite Ehi, Ek', Ep. apply lex_lt_app. rewrite <- app_assoc. apply lex_lt_app. cbn. apply lex_lt_cons. left. exact Hlt. }
  split; [lia|]. split; [exact Lk|]. split.
  - cbn. split; [apply lex_lt_le; exact Lk|]. split.
    + exists (h_lock a2). split; [lia | exact E'].
    + intros x Bx Lx. apply Gap; [|exact Lx]. cbn in Bx. rewrite Ehi in Bx. rewrite Ek' in Lx.
      eapply lex_cut_r; eassumption.
  - unfold desc_pos. eapply descent_pos_ok with (tl := h_lock a) (tc := h_check a); try eassumption.
    destruct hs2; [congruence|]. cbn. destruct (rev (map ih_e hs2)); discriminate.
Qed.

(** ending 5: no child for the next byte of hi, but one with a smaller byte:
    that entry is pushed, right-most descent below its child *)
Theorem rseek_lte_query : forall H hi rl rw rc n0 hs a q en hs2 a2 q2 k' v',
  disciplined H -> stays_reachable H -> fullpath_stable H -> wf_history H ->
  seek_down H hi rl rw rc n0 hs a q -> seek_lte hi a q en ->
  descent H (h_lock a) (h_check a) (e_child en) (e_cpath en) hs2 a2 q2 -> rightmost hs2 -> h_cont a2 = CLeaf k' v' ->
  (rl <= h_lock a <= h_lock a2)%nat /\ lex_lt k' hi /\
  rquery H (h_lock a) (h_lock a2) (UKey false hi) (Some (k', v')) /\
  pos_ok H (desc_pos hs2 a2 k' v' (en :: seek_stack hs)).
Proof.
  intros H hi rl rw rc n0 hs a q en hs2 a2 q2 k' v' Hd Hs Hfp W S
    (r & beta & Hk & Ehi & Hnth & Hb & Hgr & En & Ep & Ew & Ea) D Hl Hk2.
  destruct S as [R _].
  destruct (root_down_facts H _ _ _ _ _ _ _ Hd Hs Hfp W R) as (_ & Ok & At & L & Ra & Ho & La).
  pose proof (inner_hop_section H a q _ _ Hd Hs Hfp Ho Hk Ra) as Sec.
  assert (V : forall t, (h_lock a <= t <= h_check a)%nat -> valid_at H en t).
  { intros t Ht. destruct (Sec t Ht) as [Rt Ct]. unfold valid_at. rewrite En, Ep, Ew. split; [exact Ct | exact Rt]. }
  assert (Rc : forall t, (h_lock a <= t <= h_check a)%nat -> reach (H t) (e_child en) (e_cpath en)).
  { intros t Ht. eapply valid_child; [exact W | apply V; exact Ht | exact Hnth]. }
  destruct (rightmost_query H Hd Hs Hfp W _ _ _ _ _ _ _ D Rc Hl k' v' Hk2) as ([r' Ek'] & E' & Gap).
  destruct (descent_before _ _ _ _ _ _ _ _ D) as [_ B2].
  pose proof Ho as (Hle & Hfree & _).
  assert (V0 : valid_at H en (h_lock a)) by (apply V; lia).
  assert (Oken : sentry_ok H en).
  { destruct V0 as [C0 R0]. unfold sentry_ok, sentry_seen. rewrite Ea. rewrite Ew at 1.
    split; [split; [exact Hfree | split; [exact C0 | exact Hnth]] | exact R0]. }
  unfold e_cpath in Ek'. rewrite Ep in Ek'. rewrite <- !app_assoc in Ek'. cbn in Ek'.
  assert (Lk : lex_lt k' hi).
  { rewrite Ehi, Ek'. apply lex_lt_app. apply lex_lt_app. apply lex_lt_cons. left. exact Hb. }
  split; [lia|]. split; [exact Lk|]. split.
  - cbn. split; [apply lex_lt_le; exact Lk|]. split.
    + exists (h_lock a2). split; [lia | exact E'].
    + intros x Bx Lx. cbn in Bx.
      assert (Px : is_pre q x) by (rewrite Ehi in Bx; rewrite Ek' in Lx; eapply lex_cut_r; eassumption).
      destruct (is_pre_dec (e_cpath en) x) as [Pc|Pn]; [apply Gap; assumption|].
      exists (h_lock a). split; [lia|]. intros [vx Ex]. rewrite <- Ep in Px.
      destruct (valid_through H en _ x vx W V0 Ex Px) as (bx & cx & rx & Hf & ->).
      destruct (find_child_some_nth _ _ _ Hf) as [j Hj].
      pose proof (valid_sorted H _ _ W V0) as Srt.
      destruct (lt_eq_lt_dec j (e_idx en)) as [[Hlt | ->] | Hgt].
      * pose proof (sorted_nth_lt _ Srt _ _ _ _ Hlt (nth_map_fst _ _ _ _ Hj) (nth_map_fst _ _ _ _ Hnth)) as Hs2.
        rewrite Ek', Ep in Lx. apply lex_lt_app in Lx. apply lex_lt_app in Lx. apply lex_lt_cons in Lx.
        destruct Lx as [?|[? _]]; lia.
      * rewrite Hnth in Hj. injection Hj as <- <-. apply Pn. unfold e_cpath. exists rx.
        rewrite <- !app_assoc. reflexivity.
      * pose proof (Hgr j bx cx Hgt Hj) as Hs1. rewrite Ehi, Ep in Bx.
        apply (lex_lt_not_le _ _) in Bx; [exact Bx|].
        apply lex_lt_app. apply lex_lt_app. apply lex_lt_cons. left. exact Hs1.
  - unfold desc_pos. eapply descent_pos_ok with (tl := h_lock a) (tc := h_check a); try eassumption.
    + destruct (rev (map ih_e hs2)); discriminate.
    + cbn. rewrite En, Ep. repeat split. exact L.
    + constructor; assumption.
    + constructor; [lia | exact At].
Qed.

(** ** try_last: the greatest key (interval query with the bound +infinity) *)
Theorem last_down_query : forall H rl rw rc n0 hs a q k v,
  disciplined H -> stays_reachable H -> fullpath_stable H -> wf_history H ->
  last_down H rl rw rc n0 hs a q k v ->
  (rl <= h_lock a)%nat /\ rquery H rl (h_lock a) UInf (Some (k, v)) /\ gpos_ok H (seek_pos hs a k v).
Proof.
  intros H rl rw rc n0 hs a q k v Hd Hs Hfp W (R & Hl & Hk).
  destruct (root_down_facts H _ _ _ _ _ _ _ Hd Hs Hfp W R) as (R0 & _ & _ & _ & _ & _ & La).
  pose proof R as [_ _ _ _ _ Sd].
  destruct (rightmost_query H Hd Hs Hfp W _ _ _ _ _ _ _ Sd R0 Hl k v Hk) as (_ & E' & Gap).
  split; [exact La|]. split.
  - cbn. split; [exact I|]. split.
    + exists (h_lock a). split; [lia | exact E'].
    + intros x _ Lx. apply Gap; [exists x; reflexivity | exact Lx].
  - eapply seek_pos_gpos_ok; eassumption.
Qed.

(** the tree is empty at the moment the root pointer is read *)
Theorem rseek_empty_query : forall (H : history) rl u, root (H rl) = None -> last_query (H rl) u None.
Proof. intros H rl u Hr. apply empty_tree_rquery. exact Hr. Qed.
