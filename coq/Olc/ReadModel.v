(** C03 (reader side): the lock-coupling descent of olc_db::try_get, stated
    over a history of heaps.

    The shared state at every global moment is a heap of nodes, each with its
    lock word (Lock/LockModel.v: free = multiple of 4, obsolete = 1) and its
    content, plus the root pointer with the root lock word.  A reader is
    described by what it observed: for the root pointer and then for every
    node on its way down ("hop") the moment it read-locked the node, the word
    it saw, the moment its check / read-unlock saw that word again, and the
    content it read in between.  The hops are coupled exactly as in
    olc_art.hpp try_get: the child is read-locked BEFORE the parent's section
    is checked and closed.

    The theorems (Olc/ReadProofs.v) say: if the history obeys the lock
    discipline (the conclusion of C07_snapshot: while a word shows the same
    free value at two moments, the node did not change in between) and the
    writers' rely conditions
      W1  a node that was reachable stays reachable for as long as its word is
          not obsolete (writers mark what they unlink obsolete),
      W2  the bytes leading to an inner node followed by its own key prefix
          never change during the node's life (prefix split cuts what it moves
          into the new parent, collapse prepends what it removes),
    then every node of a valid run is in the tree, on the search path of the
    key, with the content the reader saw, throughout its section; and the
    reader's result is the result of a lookup in the tree as it is at one
    moment between the reader's first and last step (its linearization point).
    Definitions only. *)
From Coq Require Import List ZArith Bool Arith.
From Unodb Require Import Lock.LockModel.
Import ListNotations.
Local Open Scope Z_scope.

Definition nid := nat.
Definition key := list Z.
Definition val := list Z.

Inductive content :=
| CLeaf (k : key) (v : val)
| CInode (prefix : list Z) (children : list (Z * nid)).

Record cell := { word : Z; cont : content }.
Record gstate := { hp : nid -> option cell; root_word : Z; root : option nid }.
Definition history := nat -> gstate.

Fixpoint find_child (b : Z) (cs : list (Z * nid)) : option nid :=
  match cs with
  | [] => None
  | (b', c) :: cs' => if b =? b' then Some c else find_child b cs'
  end.

(** the node's key prefix p matches the key k after d consumed bytes *)
Definition prefix_at (p : list Z) (d : nat) (k : key) : Prop := firstn (length p) (skipn d k) = p.

(** the step a lookup takes at an inner node: the child for the next key byte *)
Definition next_child (p : list Z) (cs : list (Z * nid)) (d : nat) (k : key) : option nid :=
  match nth_error k (d + length p) with
  | Some b => find_child b cs
  | None => None
  end.

(** lookup of k in the tree below node n after d consumed bytes, in one heap *)
Inductive lookup_rel (h : nid -> option cell) (k : key) : nid -> nat -> option val -> Prop :=
| lr_leaf_hit : forall n d c v, h n = Some c -> cont c = CLeaf k v -> lookup_rel h k n d (Some v)
| lr_leaf_miss : forall n d c k' v, h n = Some c -> cont c = CLeaf k' v -> k' <> k -> lookup_rel h k n d None
| lr_prefix_miss : forall n d c p cs, h n = Some c -> cont c = CInode p cs -> ~ prefix_at p d k -> lookup_rel h k n d None
| lr_no_child : forall n d c p cs, h n = Some c -> cont c = CInode p cs -> prefix_at p d k ->
    next_child p cs d k = None -> lookup_rel h k n d None
| lr_step : forall n d c p cs c' r, h n = Some c -> cont c = CInode p cs -> prefix_at p d k ->
    next_child p cs d k = Some c' -> lookup_rel h k c' (d + length p + 1) r -> lookup_rel h k n d r.

Definition lookup (g : gstate) (k : key) (r : option val) : Prop :=
  match root g with
  | None => r = None
  | Some n => lookup_rel (hp g) k n 0 r
  end.

(** n is in the tree of g, reached after consuming the bytes pth *)
Inductive reach (g : gstate) : nid -> list Z -> Prop :=
| reach_root : forall n, root g = Some n -> reach g n []
| reach_child : forall n pth c p cs b c', reach g n pth -> hp g n = Some c -> cont c = CInode p cs ->
    find_child b cs = Some c' -> reach g c' (pth ++ p ++ [b]).

(** ** What a reader observed *)
Record hop := { h_node : nid; h_lock : nat; h_check : nat; h_word : Z; h_cont : content }.

(** the observations of one hop are what the history shows: the word at the
    lock moment and again at the check moment, the content at the lock moment *)
Definition hop_observed (H : history) (a : hop) : Prop :=
  (h_lock a <= h_check a)%nat /\ w_is_free (h_word a) = true /\
  (exists c, hp (H (h_lock a)) (h_node a) = Some c /\ word c = h_word a /\ cont c = h_cont a) /\
  (exists c, hp (H (h_check a)) (h_node a) = Some c /\ word c = h_word a).

(** the decision try_get takes at the node where it stops *)
Inductive stops (k : key) (d : nat) : content -> option val -> Prop :=
| st_hit : forall v, stops k d (CLeaf k v) (Some v)
| st_miss : forall k' v, k' <> k -> stops k d (CLeaf k' v) None
| st_prefix : forall p cs, ~ prefix_at p d k -> stops k d (CInode p cs) None
| st_nochild : forall p cs, prefix_at p d k -> next_child p cs d k = None -> stops k d (CInode p cs) None.

(** hops from depth d on; [tl, tc]: the section of the parent (the previous
    hop, or the root pointer): the first hop of the list is locked inside it *)
Inductive hops_ok (H : history) (k : key) : nat -> nat -> nat -> list hop -> option val -> Prop :=
| ho_last : forall d tl tc a r,
    hop_observed H a -> (tl <= h_lock a <= tc)%nat -> stops k d (h_cont a) r ->
    hops_ok H k d tl tc [a] r
| ho_step : forall d tl tc a b rest p cs r,
    hop_observed H a -> (tl <= h_lock a <= tc)%nat ->
    h_cont a = CInode p cs -> prefix_at p d k -> next_child p cs d k = Some (h_node b) ->
    hops_ok H k (d + length p + 1) (h_lock a) (h_check a) (b :: rest) r ->
    hops_ok H k d tl tc (a :: b :: rest) r.

Record run := { r_lock : nat; r_word : Z; r_check : nat; r_ptr : option nid; r_hops : list hop }.

Definition last_moment (rn : run) : nat := fold_left (fun m a => Nat.max m (h_check a)) (r_hops rn) (r_check rn).

(** a completed try_get for k that returned r *)
Definition valid_run (H : history) (k : key) (rn : run) (r : option val) : Prop :=
  (r_lock rn <= r_check rn)%nat /\ w_is_free (r_word rn) = true /\
  root_word (H (r_lock rn)) = r_word rn /\ root_word (H (r_check rn)) = r_word rn /\
  root (H (r_lock rn)) = r_ptr rn /\
  match r_ptr rn with
  | None => r_hops rn = [] /\ r = None
  | Some n => exists a rest, r_hops rn = a :: rest /\ h_node a = n /\ hops_ok H k 0 (r_lock rn) (r_check rn) (a :: rest) r
  end.

(** ** What the history must satisfy *)

(** lock discipline (what C07_snapshot gives for every lock): a node whose
    word shows the same free value at two moments did not change in between;
    likewise the root pointer under the root lock word *)
Definition disciplined (H : history) : Prop :=
  (forall n t1 t2 c1 c2, (t1 <= t2)%nat ->
     hp (H t1) n = Some c1 -> hp (H t2) n = Some c2 -> word c1 = word c2 -> w_is_free (word c1) = true ->
     forall t, (t1 <= t <= t2)%nat -> hp (H t) n = Some c1) /\
  (forall t1 t2, (t1 <= t2)%nat -> root_word (H t1) = root_word (H t2) -> w_is_free (root_word (H t1)) = true ->
     forall t, (t1 <= t <= t2)%nat -> root (H t) = root (H t1)).

(** W1: reachable nodes stay reachable while they are not obsolete *)
Definition stays_reachable (H : history) : Prop :=
  forall t t' n pth, (t <= t')%nat -> reach (H t) n pth ->
    (forall u, (t <= u <= t')%nat -> exists c, hp (H u) n = Some c /\ w_is_obsolete (word c) = false) ->
    exists pth', reach (H t') n pth'.

(** W2: path bytes ++ own prefix of an inner node never change *)
Definition fullpath_stable (H : history) : Prop :=
  exists fp : nid -> list Z, forall t n pth c p cs,
    reach (H t) n pth -> hp (H t) n = Some c -> cont c = CInode p cs -> pth ++ p = fp n.

(** the depth (number of key bytes consumed before the node) of every hop of a descent starting at depth d *)
Fixpoint hop_depths (d : nat) (l : list hop) : list (hop * nat) :=
  match l with
  | [] => []
  | a :: l' => (a, d) :: hop_depths (match h_cont a with CInode p _ => d + length p + 1 | CLeaf _ _ => d end)%nat l'
  end.
