(** C03: the optimistic read protocol of one index operation, as an acceptor
    of the lock / field events one thread performs between the call and the
    return of one get / insert / remove (harness/olc_sched emits OPBEGIN /
    OPEND markers around them).

    An operation is a sequence of attempts; every attempt starts by
    read-locking the root pointer lock (block [root_blk]) and a failed
    validation abandons the attempt (its reads are discarded).  For the LAST
    attempt -- the one whose result is returned -- the acceptor demands

    R1 (no unvalidated read): every field load from a node is made either
       under the thread's own write guard on that node, or on a node the
       thread allocated itself during this operation or already marked
       obsolete itself, or inside a read section that is validated LATER in
       the same attempt (a successful check / read-unlock, or a successful
       upgrade to the write lock);
    R2 (lock coupling): when a read section is opened while an earlier one of
       this attempt has not yet been validated after that moment, ... i.e.
       every section opened before the last one is validated at some point
       AFTER the next section was opened (the child is locked before the
       parent is released): this is h_lock(child) <= h_check(parent) of
       Olc/ReadModel.v;
    R3: no write guard is held when the operation returns;
    R4 (own versions): every check and every upgrade of a node is made against
       a lock word this thread obtained from a read-lock of THAT node earlier in
       the operation (a version saved for one node is never used to validate
       another one); R4 is also demanded of scans (iterator steps re-validate
       the versions saved on the iterator's stack).

    R1 + R2 are what makes the observations of the attempt a [valid_run] of
    Olc/ReadModel.v (the loads of a hop lie inside its validated section, the
    sections overlap as the hops require).  Definitions only. *)
From Coq Require Import List Bool Arith ZArith.
Import ListNotations.

Definition blk := nat.

Inductive pev :=
| PRLock (n : blk) (ok : bool) (w : Z)    (* try_read_lock observed word w; ok: a section was opened *)
| PCheck (n : blk) (ok : bool) (v : Z)    (* check / try_read_unlock against the saved version v *)
| PUpgrade (n : blk) (ok : bool) (v : Z)  (* try_upgrade_to_write_lock from the saved version v *)
| PUnlock (n : blk)                (* write_unlock *)
| PObsolete (n : blk)              (* write_unlock_and_obsolete *)
| PLoad (n : blk)
| PStore (n : blk)
| PAlloc (n : blk).

Definition root_blk : blk := O.

Definition beq := Nat.eqb.

(** the last attempt: the suffix starting at the last read-lock of the root pointer lock *)
Fixpoint last_attempt_aux (l acc : list pev) : list pev :=
  match l with
  | [] => acc
  | (PRLock n ok _ as e) :: l' => if beq n root_blk then last_attempt_aux l' (e :: l') else last_attempt_aux l' acc
  | _ :: l' => last_attempt_aux l' acc
  end.
Definition last_attempt (l : list pev) : list pev := last_attempt_aux l l.

(** is node n validated (successful check or upgrade) somewhere in l ? *)
Definition validates (n : blk) (e : pev) : bool :=
  match e with
  | PCheck m true _ | PUpgrade m true _ => beq m n
  | _ => false
  end.
Definition validated_later (n : blk) (l : list pev) : bool := existsb (validates n) l.

(** the thread's write guards and its own nodes (allocated in this operation, or marked obsolete by it) *)
Definition sets := (list blk * list blk)%type.
Definition upd (ho : sets) (e : pev) : sets :=
  match e with
  | PUpgrade n true _ => (n :: fst ho, snd ho)
  | PUnlock n => (filter (fun m => negb (beq m n)) (fst ho), snd ho)
  | PObsolete n => (filter (fun m => negb (beq m n)) (fst ho), n :: snd ho)
  | PAlloc n => (fst ho, n :: snd ho)
  | _ => ho
  end.

(** R1 over a suffix *)
Fixpoint loads_covered (ho : sets) (l : list pev) : bool :=
  match l with
  | [] => true
  | e :: l' =>
      match e with
      | PLoad n => existsb (beq n) (fst ho) || existsb (beq n) (snd ho) || validated_later n l'
      | _ => true
      end && loads_covered (upd ho e) l'
  end.

(** R2: every opened section except the last one is validated after the next one was opened *)
Fixpoint coupled (l : list pev) : bool :=
  match l with
  | [] => true
  | PRLock n true _ :: l' =>
      (* the rest after the NEXT successful read-lock must validate n, if there is a next one *)
      (fix after (r : list pev) : bool :=
         match r with
         | [] => true
         | PRLock _ true _ :: r' => validated_later n r'
         | _ :: r' => after r'
         end) l' && coupled l'
  | _ :: l' => coupled l'
  end.

(** R3: write guards held at the end *)
Definition held_at_end (l : list pev) : list blk := fst (fold_left upd l ([], [])).

(** nodes allocated anywhere in the operation (a leaf created by an abandoned attempt is reused by the next) *)
Definition allocs (l : list pev) : list blk := flat_map (fun e => match e with PAlloc n => [n] | _ => [] end) l.

(** R4: saved versions are used only for the node they were obtained from *)
Fixpoint versions_own (seen : list (blk * Z)) (l : list pev) : bool :=
  match l with
  | [] => true
  | PRLock n _ w :: l' => versions_own ((n, w) :: seen) l'
  | PCheck n _ v :: l' | PUpgrade n _ v :: l' =>
      existsb (fun s => beq (fst s) n && Z.eqb (snd s) v) seen && versions_own seen l'
  | _ :: l' => versions_own seen l'
  end.

(** R6 (a pointer is validated before it is followed): olc_art.hpp's own rule
    "a check() is required before acting on [node] by taking the lock".
    After a field load from a node that the thread neither holds nor owns,
    no OTHER node may be read-locked before that node has been validated
    successfully (check / read-unlock / upgrade); a failed validation abandons
    the attempt, and read-locking the root pointer lock starts a new one. *)
Fixpoint ptr_validated (ho : sets) (pending : option blk) (l : list pev) : bool :=
  match l with
  | [] => true
  | e :: l' =>
      let ho' := upd ho e in
      match e with
      | PLoad n =>
          if existsb (beq n) (fst ho) || existsb (beq n) (snd ho) then ptr_validated ho' pending l'
          else ptr_validated ho' (Some n) l'
      | PCheck n true _ | PUpgrade n true _ =>
          ptr_validated ho' (match pending with Some m => if beq m n then None else pending | None => None end) l'
      | PCheck _ false _ | PUpgrade _ false _ => ptr_validated ho' None l'
      | PRLock c ok w =>
          if beq c root_blk then ptr_validated ho' None l'
          else match pending with
               | Some m => if beq m c then ptr_validated ho' (if ok then pending else None) l' else false
               | None => ptr_validated ho' (if negb ok && Z.eqb w 1 then None else pending) l'
               end
      | _ => ptr_validated ho' pending l'
      end
  end.

Definition op_ok (l : list pev) : bool :=
  let a := last_attempt l in
  loads_covered ([], allocs l) a && coupled a && match held_at_end l with [] => true | _ => false end && versions_own [] l
  && ptr_validated ([], allocs l) None l.

(** scans: the iterator's saved versions (R4), and R1 for scans: every field
    load from a node is followed, later in the same scan, by a SUCCESSFUL
    validation of that node (check / read-unlock / upgrade) - or by a failed
    validation somewhere (the iterator step is abandoned and re-done: its reads
    are discarded).  In an execution without any failed validation every load
    of the scan must therefore be validated on its own node. *)
Definition is_failure (e : pev) : bool :=
  match e with
  | PCheck _ false _ | PUpgrade _ false _ => true
  | PRLock _ false w => Z.eqb w 1      (* obsolete: must_restart; a write-locked word is a wait, not a failure *)
  | _ => false
  end.
Fixpoint scan_loads_covered (l : list pev) : bool :=
  match l with
  | [] => true
  | e :: l' =>
      match e with
      | PLoad n => existsb (fun x => validates n x || is_failure x) l'
      | _ => true
      end && scan_loads_covered l'
  end.
Definition scan_ok (l : list pev) : bool := versions_own [] l && scan_loads_covered l && ptr_validated ([], []) None l.
