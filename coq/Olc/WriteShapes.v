(** C03 (writer side): WF consequences, step obligations and the commit shapes S1-S3 of Olc/WriteModel.v. *)
From Coq Require Import List ZArith Bool Arith Lia.
From Unodb Require Import Lock.LockModel Olc.ReadModel Olc.ReadProofs Olc.WriteModel.
Import ListNotations.
Local Open Scope Z_scope.
Local Open Scope nat_scope.

(** ** Heap update *)
Lemma upd_eq : forall h n c, upd h n c n = Some c.
Proof. intros h n c. unfold upd. rewrite Nat.eqb_refl. reflexivity. Qed.

Lemma upd_neq : forall h n c m, m <> n -> upd h n c m = h m.
Proof. intros h n c m Hne. unfold upd. destruct (Nat.eqb_spec m n); [contradiction | reflexivity]. Qed.

Lemma fresh_neq : forall (h : heap) n m c, h n = None -> h m = Some c -> m <> n.
Proof. intros h n m c Hn Hm E. subst m. congruence. Qed.

(** ** Words *)
Lemma bump_free : forall w, w_is_free w = true -> w_is_free (bump w) = true.
Proof.
  unfold w_is_free, bump. intros w Hf. apply Z.eqb_eq in Hf. apply Z.eqb_eq.
  replace (w + 4)%Z with (w + 1 * 4)%Z by lia. rewrite Z.mod_add by lia. exact Hf.
Qed.

Lemma obsolete_not_free : w_is_free 1 = false.
Proof. reflexivity. Qed.

(** ** Lookup and leaves in the tree *)
Definition leaf_in (g : gstate) (k : key) (v : val) : Prop :=
  exists n pth c, reach g n pth /\ hp g n = Some c /\ cont c = CLeaf k v.

Lemma lookup_rel_leaf : forall g k n d r, lookup_rel (hp g) k n d r ->
  forall v pth, r = Some v -> reach g n pth -> leaf_in g k v.
Proof.
  intros g k n d r Hl.
  induction Hl as [n d c v0 Hc Hk | n d c k' v0 Hc Hk Hne | n d c p cs Hc Hk Hnp
                  | n d c p cs Hc Hk Hp Hn | n d c p cs c' r Hc Hk Hp Hn Hl IH];
    intros v pth Er Hr; try discriminate.
  - injection Er as ->. exists n, pth, c. auto.
  - unfold next_child in Hn. destruct (nth_error k (d + length p)) as [b|]; [|discriminate].
    eapply IH; [exact Er|]. eapply reach_child; eassumption.
Qed.

Lemma lookup_leaf_in : forall g k v, lookup g k (Some v) -> leaf_in g k v.
Proof.
  unfold lookup. intros g k v Hl. destruct (root g) as [r|] eqn:Hr; [|discriminate].
  eapply lookup_rel_leaf; [exact Hl | reflexivity | apply reach_root; exact Hr].
Qed.

Lemma firstn_self_len : forall (A : Type) (l k : list A), l = firstn (length l) k -> length l <= length k.
Proof.
  intros A l k E. pose proof (firstn_length (length l) k) as L. rewrite <- E in L. lia.
Qed.

Lemma leaf_in_lookup : forall g k v, WF g -> leaf_in g k v -> lookup g k (Some v).
Proof.
  intros g k v W (n & pth & c & Hr & Hc & Hk).
  pose proof (wf_leaf g W _ _ _ _ _ Hr Hc Hk) as E.
  apply (reach_lookup g k n pth Hr (length pth) E (firstn_self_len _ _ _ E)).
  eapply lr_leaf_hit; eassumption.
Qed.

(** lookup is total on a well-formed heap: every step consumes a key byte *)
Lemma lookup_rel_total : forall g k, WF g ->
  forall fuel d n pth, length k - d < fuel -> reach g n pth -> exists r, lookup_rel (hp g) k n d r.
Proof.
  intros g k W. induction fuel as [|fuel IH]; intros d n pth Hf Hr; [lia|].
  destruct (wf_alloc g W _ _ Hr) as (c & Hc & _).
  destruct (cont c) as [kk v | p cs] eqn:Hk.
  - destruct (key_eq_dec kk k) as [->|Hne].
    + exists (Some v). eapply lr_leaf_hit; eassumption.
    + exists None. eapply lr_leaf_miss; eassumption.
  - destruct (list_eq_dec Z.eq_dec (firstn (length p) (skipn d k)) p) as [Hp|Hnp].
    + destruct (next_child p cs d k) as [c'|] eqn:Hn.
      * pose proof Hn as Hn'. unfold next_child in Hn'.
        destruct (nth_error k (d + length p)) as [b|] eqn:Hb; [|discriminate].
        assert (Hlt : d + length p < length k) by (apply nth_error_Some; congruence).
        destruct (IH (d + length p + 1) c' (pth ++ p ++ [b])) as [r Hl]; [lia | eapply reach_child; eassumption |].
        exists r. eapply lr_step; eassumption.
      * exists None. eapply lr_no_child; eassumption.
    + exists None. eapply lr_prefix_miss; eassumption.
Qed.

Lemma lookup_total : forall g k, WF g -> exists r, lookup g k r.
Proof.
  intros g k W. unfold lookup. destruct (root g) as [r|] eqn:Hr; [|eauto].
  apply (lookup_rel_total g k W (S (length k)) 0 r []); [lia | apply reach_root; exact Hr].
Qed.

(** two well-formed heaps with related leaves have related lookups *)
Lemma lookup_transfer : forall g g' (P : key -> Prop), WF g -> WF g' ->
  (forall k' v', P k' -> (leaf_in g' k' v' <-> leaf_in g k' v')) ->
  forall k' r, P k' -> (lookup g' k' r <-> lookup g k' r).
Proof.
  intros g g' P W W' HL k' r HP.
  assert (S1 : forall v', lookup g' k' (Some v') <-> lookup g k' (Some v')).
  { intros v'. split; intros Hl.
    - apply leaf_in_lookup; [exact W|]. apply HL; [exact HP|]. apply lookup_leaf_in. exact Hl.
    - apply leaf_in_lookup; [exact W'|]. apply HL; [exact HP|]. apply lookup_leaf_in. exact Hl. }
  destruct r as [v'|]; [apply S1|].
  split; intros Hl.
  - destruct (lookup_total g k' W) as [[v'|] Hr]; [|exact Hr].
    apply S1 in Hr. pose proof (lookup_deterministic _ _ _ _ Hl Hr). discriminate.
  - destruct (lookup_total g' k' W') as [[v'|] Hr]; [|exact Hr].
    apply S1 in Hr. pose proof (lookup_deterministic _ _ _ _ Hl Hr). discriminate.
Qed.

(** ** Consequences of well-formedness *)
Lemma edge_intro : forall g n q c p cs b m, reach g n q -> hp g n = Some c -> cont c = CInode p cs ->
  find_child b cs = Some m -> edge g n b m.
Proof. intros. unfold edge. eauto 10. Qed.

Lemma reach_unique : forall g n q1 q2, WF g -> reach g n q1 -> reach g n q2 -> q1 = q2.
Proof.
  intros g n q1 q2 W H1. revert q2.
  induction H1 as [n Hroot | n pth c p cs b c' Hr IH Hc Hk Hf]; intros q2 H2.
  - inversion H2 as [n0 Hroot2 | n0 pth0 c0 p0 cs0 b0 c0' Hr0 Hc0 Hk0 Hf0]; subst; [reflexivity|].
    exfalso. eapply (wf_root g W); [exact Hroot|]. eapply edge_intro; eassumption.
  - inversion H2 as [n0 Hroot2 | n0 pth0 c0 p0 cs0 b0 c0' Hr0 Hc0 Hk0 Hf0]; subst.
    + exfalso. eapply (wf_root g W); [exact Hroot2|]. exact (edge_intro g n pth c p cs b c' Hr Hc Hk Hf).
    + assert (E1 : edge g n b c') by exact (edge_intro g n pth c p cs b c' Hr Hc Hk Hf).
      assert (E2 : edge g n0 b0 c') by exact (edge_intro g n0 pth0 c0 p0 cs0 b0 c' Hr0 Hc0 Hk0 Hf0).
      destruct (wf_parent g W n b n0 b0 c' E1 E2) as [-> ->].
      rewrite (IH _ Hr0). rewrite Hc in Hc0. injection Hc0 as <-. rewrite Hk in Hk0. injection Hk0 as <- <-.
      reflexivity.
Qed.

Lemma leaf_no_edge : forall g n c kk v, hp g n = Some c -> cont c = CLeaf kk v ->
  forall b m, edge g n b m -> False.
Proof. intros g n c kk v Hc Hk b m (q' & c' & p & cs & _ & Hc' & Hk' & _). congruence. Qed.

(** ** What one step of a generated history must satisfy *)

(** (e) cells change only together with their word; nothing is deallocated *)
Definition cell_step (g g' : gstate) : Prop :=
  forall n c, hp g n = Some c -> exists c', hp g' n = Some c' /\
    (c' = c \/ (w_is_free (word c) = true /\ (word c' = bump (word c) \/ word c' = 1%Z))).
Definition root_step (g g' : gstate) : Prop :=
  (root g' = root g /\ root_word g' = root_word g) \/ root_word g' = bump (root_word g).
(** (c) W1 *)
Definition w1_step (g g' : gstate) : Prop :=
  forall n pth, reach g n pth -> (forall c', hp g' n = Some c' -> w_is_obsolete (word c') = false) ->
    exists pth', reach g' n pth'.
(** (d) W2 *)
Definition w2_step (g g' : gstate) : Prop :=
  forall fp, fp_ok g fp -> exists fp', fp_ok g' fp' /\ forall n c, hp g n = Some c -> fp' n = fp n.

Definition step_ok (g g' : gstate) : Prop :=
  WF g' /\ cell_step g g' /\ root_step g g' /\ w1_step g g' /\ w2_step g g'.

Lemma at_inode_extend : forall g k N d cN p cs b, at_inode g k N d cN p cs b ->
  firstn d k ++ p ++ [b] = firstn (d + length p + 1) k /\ d + length p + 1 <= length k.
Proof. intros g k N d cN p cs b (_ & _ & _ & _ & Hp & Hb). apply path_extend; assumption. Qed.

(** ** S1 add_leaf *)
Section AddLeaf.
  Variables (g : gstate) (k : key) (v : val) (N : nid) (d : nat) (cN : cell) (p : list Z)
            (cs : list (Z * nid)) (b : Z) (L : nid) (wl : Z) (cs' : list (Z * nid)).
  Hypothesis W : WF g.
  Hypothesis HA : at_inode g k N d cN p cs b.
  Hypothesis Hnone : find_child b cs = None.
  Hypothesis HL : hp g L = None.
  Hypothesis Hwl : w_is_free wl = true.
  Hypothesis Hcs' : slot_set cs b (Some L) cs'.

  Definition al_st : gstate :=
    set_hp g (upd (upd (hp g) L (mk wl (CLeaf k v))) N (mk (bump (word cN)) (CInode p cs'))).
  Definition al_Q : list Z := firstn d k ++ p ++ [b].

  Lemma al_LN : L <> N.
  Proof. destruct HA as (_ & _ & Hc & _). intros E. subst L. congruence. Qed.

  Lemma al_hp_N : hp al_st N = Some (mk (bump (word cN)) (CInode p cs')).
  Proof. cbn. apply upd_eq. Qed.

  Lemma al_hp_L : hp al_st L = Some (mk wl (CLeaf k v)).
  Proof. cbn. rewrite upd_neq by exact al_LN. apply upd_eq. Qed.

  Lemma al_hp_other : forall m, m <> N -> m <> L -> hp al_st m = hp g m.
  Proof. intros m H1 H2. cbn. rewrite upd_neq by exact H1. apply upd_neq. exact H2. Qed.

  Lemma al_hp_old : forall m c, hp g m = Some c -> m <> N -> hp al_st m = Some c.
  Proof. intros m c Hc Hne. rewrite al_hp_other; [exact Hc | exact Hne | eapply fresh_neq; eassumption]. Qed.

  Lemma al_reach_fwd : forall m q, reach g m q -> reach al_st m q.
  Proof.
    intros m q Hr. induction Hr as [n Hroot | n pth c p0 cs0 b0 c' Hr IH Hc Hk Hf].
    - apply reach_root. exact Hroot.
    - destruct (Nat.eq_dec n N) as [->|Hne].
      + destruct HA as (_ & _ & HcN & HkN & _). rewrite Hc in HcN. injection HcN as ->.
        rewrite Hk in HkN. injection HkN as -> ->.
        eapply reach_child; [exact IH | exact al_hp_N | reflexivity |].
        cbn [cont mk]. rewrite Hcs'. destruct (Z.eqb_spec b0 b) as [->|_]; [congruence | exact Hf].
      + eapply reach_child; [exact IH | apply al_hp_old; eassumption | exact Hk | exact Hf].
  Qed.

  Lemma al_reach_L : reach al_st L al_Q.
  Proof.
    destruct HA as (Hr & _). unfold al_Q.
    eapply reach_child; [apply al_reach_fwd; exact Hr | exact al_hp_N | reflexivity |].
    rewrite Hcs'. rewrite Z.eqb_refl. reflexivity.
  Qed.

  Lemma al_reach_bwd : forall m q, reach al_st m q -> reach g m q \/ (m = L /\ q = al_Q).
  Proof.
    intros m q Hr. induction Hr as [n Hroot | n pth c p0 cs0 b0 c' Hr IH Hc Hk Hf].
    - left. apply reach_root. exact Hroot.
    - destruct IH as [IH | [-> _]].
      + destruct (Nat.eq_dec n N) as [->|Hne].
        * rewrite al_hp_N in Hc. injection Hc as <-. cbn [cont mk] in Hk. injection Hk as <- <-.
          rewrite Hcs' in Hf. destruct HA as (HrN & _ & HcN & HkN & _).
          rewrite (reach_unique g N pth (firstn d k) W IH HrN).
          destruct (Z.eqb_spec b0 b) as [->|_].
          -- injection Hf as <-. right. split; reflexivity.
          -- left. eapply reach_child; eassumption.
        * destruct (wf_alloc g W _ _ IH) as (c0 & Hc0 & _).
          rewrite (al_hp_old n c0 Hc0 Hne) in Hc. injection Hc as <-.
          left. eapply reach_child; eassumption.
      + rewrite al_hp_L in Hc. injection Hc as <-. cbn in Hk. discriminate.
  Qed.

  Lemma al_edge_bwd : forall n b0 m, edge al_st n b0 m ->
    (m <> L /\ edge g n b0 m) \/ (m = L /\ n = N /\ b0 = b).
  Proof.
    intros n b0 m (q & c & p0 & cs0 & Hr & Hc & Hk & Hf).
    destruct (al_reach_bwd _ _ Hr) as [Hr0 | [-> _]].
    - destruct (wf_alloc g W _ _ Hr0) as (c0 & Hc0 & _).
      assert (Hfresh : forall x, edge g n b0 x -> x <> L).
      { intros x (q1 & c1 & p1 & cs1 & Hr1 & Hc1 & Hk1 & Hf1) ->.
        assert (R : reach g L (q1 ++ p1 ++ [b0])) by (eapply reach_child; eassumption).
        destruct (wf_alloc g W _ _ R) as (cl & Hcl & _). congruence. }
      destruct (Nat.eq_dec n N) as [->|Hne].
      + rewrite al_hp_N in Hc. injection Hc as <-. cbn [cont mk] in Hk. injection Hk as <- <-.
        rewrite Hcs' in Hf. destruct HA as (HrN & _ & HcN & HkN & _).
        destruct (Z.eqb_spec b0 b) as [->|_].
        * injection Hf as <-. right. auto.
        * assert (E : edge g N b0 m) by (eapply edge_intro; eassumption).
          left. split; [apply Hfresh; exact E | exact E].
      + rewrite (al_hp_old n c0 Hc0 Hne) in Hc. injection Hc as <-.
        assert (E : edge g n b0 m) by (eapply edge_intro; eassumption).
        left. split; [apply Hfresh; exact E | exact E].
    - rewrite al_hp_L in Hc. injection Hc as <-. cbn in Hk. discriminate.
  Qed.

  Lemma al_Q_firstn : al_Q = firstn (d + length p + 1) k /\ length al_Q = d + length p + 1.
  Proof.
    destruct (at_inode_extend _ _ _ _ _ _ _ _ HA) as [E Hle]. unfold al_Q. rewrite E.
    split; [reflexivity | apply firstn_length_le; exact Hle].
  Qed.

  Lemma al_L_unreach : forall q, reach g L q -> False.
  Proof. intros q Hr. destruct (wf_alloc g W _ _ Hr) as (c & Hc & _). congruence. Qed.

  Lemma al_WF : WF al_st.
  Proof.
    destruct HA as (HrN & _ & HcN & HkN & _). constructor.
    - intros m q Hr. destruct (al_reach_bwd _ _ Hr) as [Hr0 | [-> _]].
      + destruct (wf_alloc g W _ _ Hr0) as (c0 & Hc0 & Hf0).
        destruct (Nat.eq_dec m N) as [->|Hne].
        * rewrite al_hp_N. eexists. split; [reflexivity|]. cbn [word mk]. apply bump_free. congruence.
        * exists c0. split; [apply al_hp_old; assumption | exact Hf0].
      + rewrite al_hp_L. eexists. split; [reflexivity | exact Hwl].
    - intros m q c kk v0 Hr Hc Hk. destruct (al_reach_bwd _ _ Hr) as [Hr0 | [-> ->]].
      + destruct (wf_alloc g W _ _ Hr0) as (c0 & Hc0 & _).
        destruct (Nat.eq_dec m N) as [->|Hne].
        * rewrite al_hp_N in Hc. injection Hc as <-. cbn in Hk. discriminate.
        * rewrite (al_hp_old m c0 Hc0 Hne) in Hc. injection Hc as <-. eapply (wf_leaf g W); eassumption.
      + rewrite al_hp_L in Hc. injection Hc as <-. cbn in Hk. injection Hk as <- <-.
        destruct al_Q_firstn as [E1 E2]. rewrite E2. exact E1.
    - intros n1 b1 n2 b2 m E1 E2.
      destruct (al_edge_bwd _ _ _ E1) as [[Hm1 E1'] | (Hm1 & -> & ->)];
        destruct (al_edge_bwd _ _ _ E2) as [[Hm2 E2'] | (Hm2 & -> & ->)]; try contradiction.
      + eapply (wf_parent g W); eassumption.
      + split; reflexivity.
    - intros r n b0 Hroot E. cbn in Hroot.
      destruct (al_edge_bwd _ _ _ E) as [[_ E'] | (-> & _)].
      + eapply (wf_root g W); eassumption.
      + eapply al_L_unreach. apply reach_root. exact Hroot.
  Qed.

  Lemma al_cell_step : cell_step g al_st.
  Proof.
    destruct HA as (HrN & _ & HcN & HkN & _).
    intros n c Hc. destruct (Nat.eq_dec n N) as [->|Hne].
    - rewrite al_hp_N. eexists. split; [reflexivity|]. right. cbn [word mk].
      rewrite HcN in Hc. injection Hc as <-.
      destruct (wf_alloc g W _ _ HrN) as (c0 & Hc0 & Hf0). split; [congruence | left; reflexivity].
    - exists c. split; [apply al_hp_old; assumption | left; reflexivity].
  Qed.

  Lemma al_w2 : w2_step g al_st.
  Proof.
    destruct HA as (HrN & _ & HcN & HkN & _).
    intros fp Hfp. exists fp. split; [|reflexivity].
    intros n pth c p0 cs0 Hr Hc Hk. destruct (al_reach_bwd _ _ Hr) as [Hr0 | [-> _]].
    - destruct (Nat.eq_dec n N) as [->|Hne].
      + rewrite al_hp_N in Hc. injection Hc as <-. cbn [cont mk] in Hk. injection Hk as <- <-.
        eapply Hfp; eassumption.
      + destruct (wf_alloc g W _ _ Hr0) as (c0 & Hc0 & _).
        rewrite (al_hp_old n c0 Hc0 Hne) in Hc. injection Hc as <-. eapply Hfp; eassumption.
    - rewrite al_hp_L in Hc. injection Hc as <-. cbn in Hk. discriminate.
  Qed.

  Lemma al_step_ok : step_ok g al_st.
  Proof.
    split; [exact al_WF | split; [exact al_cell_step | split; [|split; [|exact al_w2]]]].
    - left. split; reflexivity.
    - intros n pth Hr _. exists pth. apply al_reach_fwd. exact Hr.
  Qed.

  Lemma al_leaves : forall k' v', k' <> k -> (leaf_in al_st k' v' <-> leaf_in g k' v').
  Proof.
    destruct HA as (HrN & _ & HcN & HkN & _).
    intros k' v' Hne. split; intros (n & pth & c & Hr & Hc & Hk).
    - destruct (al_reach_bwd _ _ Hr) as [Hr0 | [-> _]].
      + destruct (Nat.eq_dec n N) as [->|HnN].
        * rewrite al_hp_N in Hc. injection Hc as <-. cbn in Hk. discriminate.
        * destruct (wf_alloc g W _ _ Hr0) as (c0 & Hc0 & _).
          rewrite (al_hp_old n c0 Hc0 HnN) in Hc. injection Hc as <-. exists n, pth, c0. auto.
      + rewrite al_hp_L in Hc. injection Hc as <-. cbn in Hk. injection Hk as E _. congruence.
    - exists n, pth, c. split; [apply al_reach_fwd; exact Hr | split; [|exact Hk]].
      apply al_hp_old; [exact Hc|]. intros ->. congruence.
  Qed.
End AddLeaf.

(** ** Abstract effect from the change of the set of leaves *)
Lemma insert_effect_intro : forall k v g g', WF g -> WF g' ->
  lookup g k None -> lookup g' k (Some v) ->
  (forall k' v', k' <> k -> (leaf_in g' k' v' <-> leaf_in g k' v')) -> insert_effect k v g g'.
Proof.
  intros k v g g' W W' H0 H1 HL. split; [exact H0|].
  intros k' r. destruct (key_eq_dec k' k) as [->|Hne].
  - split; [intros Hl; eapply lookup_deterministic; eassumption | intros ->; exact H1].
  - apply (lookup_transfer g g' (fun x => x <> k) W W' HL k' r Hne).
Qed.

Lemma remove_effect_intro : forall k v g g', WF g -> WF g' ->
  lookup g k (Some v) -> lookup g' k None ->
  (forall k' v', k' <> k -> (leaf_in g' k' v' <-> leaf_in g k' v')) -> remove_effect k g g'.
Proof.
  intros k v g g' W W' H0 H1 HL. split; [eauto|].
  intros k' r. destruct (key_eq_dec k' k) as [->|Hne].
  - split; [intros Hl; eapply lookup_deterministic; eassumption | intros ->; exact H1].
  - apply (lookup_transfer g g' (fun x => x <> k) W W' HL k' r Hne).
Qed.

Lemma at_inode_no_child : forall g k N d cN p cs b, at_inode g k N d cN p cs b ->
  find_child b cs = None -> lookup g k None.
Proof.
  intros g k N d cN p cs b (Hr & Hd & Hc & Hk & Hp & Hb) Hn.
  apply (reach_lookup g k N (firstn d k) Hr d eq_refl Hd).
  eapply lr_no_child; try eassumption. unfold next_child. rewrite Hb. exact Hn.
Qed.

Theorem add_leaf_ok : forall k v g g', WF g -> add_leaf k v g g' -> step_ok g g' /\ insert_effect k v g g'.
Proof.
  intros k v g g' W [N d cN p cs b L wl cs' HA Hnone HL Hwl Hcs' ->].
  fold (al_st g k v N cN p L wl cs').
  assert (W' : WF (al_st g k v N cN p L wl cs')) by (eapply al_WF; eassumption).
  split; [eapply al_step_ok; eassumption|].
  apply insert_effect_intro; [exact W | exact W' | eapply at_inode_no_child; eassumption | |].
  - destruct (al_Q_firstn g k N d cN p cs b HA) as [E1 E2]. unfold al_Q in E1.
    destruct (at_inode_extend _ _ _ _ _ _ _ _ HA) as [_ Hle].
    assert (RL : reach (al_st g k v N cN p L wl cs') L (al_Q k d p b)) by (eapply al_reach_L; eassumption).
    unfold al_Q in RL.
    apply (reach_lookup _ k L _ RL (d + length p + 1) E1 Hle).
    eapply lr_leaf_hit; [eapply al_hp_L; eassumption | reflexivity].
  - eapply al_leaves; eassumption.
Qed.

(** ** S2 remove_leaf *)
Section RemoveLeaf.
  Variables (g : gstate) (k : key) (N : nid) (d : nat) (cN : cell) (p : list Z)
            (cs : list (Z * nid)) (b : Z) (L : nid) (cL : cell) (v : val) (cs' : list (Z * nid)).
  Hypothesis W : WF g.
  Hypothesis HA : at_inode g k N d cN p cs b.
  Hypothesis Hsome : find_child b cs = Some L.
  Hypothesis HcL : hp g L = Some cL.
  Hypothesis HkL : cont cL = CLeaf k v.
  Hypothesis Hcs' : slot_set cs b None cs'.

  Definition rl_st : gstate :=
    set_hp g (upd (upd (hp g) L (mk 1 (cont cL))) N (mk (bump (word cN)) (CInode p cs'))).

  Lemma rl_LN : L <> N.
  Proof. destruct HA as (_ & _ & Hc & Hk & _). intros E. subst L. congruence. Qed.

  Lemma rl_hp_N : hp rl_st N = Some (mk (bump (word cN)) (CInode p cs')).
  Proof. cbn. apply upd_eq. Qed.

  Lemma rl_hp_L : hp rl_st L = Some (mk 1 (cont cL)).
  Proof. cbn. rewrite upd_neq by exact rl_LN. apply upd_eq. Qed.

  Lemma rl_hp_other : forall m, m <> N -> m <> L -> hp rl_st m = hp g m.
  Proof. intros m H1 H2. cbn. rewrite upd_neq by exact H1. apply upd_neq. exact H2. Qed.

  Lemma rl_edge_L : edge g N b L.
  Proof. destruct HA as (Hr & _ & Hc & Hk & _). eapply edge_intro; eassumption. Qed.

  Lemma rl_reach_L : reach g L (firstn d k ++ p ++ [b]).
  Proof. destruct HA as (Hr & _ & Hc & Hk & _). eapply reach_child; eassumption. Qed.

  Lemma rl_inode_not_L : forall n c p0 cs0, hp g n = Some c -> cont c = CInode p0 cs0 -> n <> L.
  Proof. intros n c p0 cs0 Hc Hk ->. congruence. Qed.

  Lemma rl_reach_bwd : forall m q, reach rl_st m q -> reach g m q /\ m <> L.
  Proof.
    intros m q Hr. induction Hr as [n Hroot | n pth c p0 cs0 b0 c' Hr IH Hc Hk Hf].
    - split; [apply reach_root; exact Hroot|]. intros ->.
      eapply (wf_root g W); [exact Hroot | exact rl_edge_L].
    - destruct IH as [IH HnL]. destruct (Nat.eq_dec n N) as [->|Hne].
      + rewrite rl_hp_N in Hc. injection Hc as <-. cbn [cont mk] in Hk. injection Hk as <- <-.
        rewrite Hcs' in Hf. destruct (Z.eqb_spec b0 b) as [->|Hb]; [discriminate|].
        destruct HA as (HrN & _ & HcN & HkN & _).
        split; [eapply reach_child; eassumption|]. intros ->.
        assert (E : edge g N b0 L) by (eapply edge_intro; eassumption).
        destruct (wf_parent g W _ _ _ _ _ E rl_edge_L) as [_ Eb]. contradiction.
      + rewrite (rl_hp_other n Hne HnL) in Hc.
        split; [eapply reach_child; eassumption|]. intros ->.
        assert (E : edge g n b0 L) by (eapply edge_intro; eassumption).
        destruct (wf_parent g W _ _ _ _ _ E rl_edge_L) as [En _]. contradiction.
  Qed.

  Lemma rl_reach_fwd : forall m q, reach g m q -> m <> L -> reach rl_st m q.
  Proof.
    intros m q Hr. induction Hr as [n Hroot | n pth c p0 cs0 b0 c' Hr IH Hc Hk Hf]; intros HmL.
    - apply reach_root. exact Hroot.
    - pose proof (rl_inode_not_L n c p0 cs0 Hc Hk) as HnL. specialize (IH HnL).
      destruct (Nat.eq_dec n N) as [->|Hne].
      + destruct HA as (_ & _ & HcN & HkN & _). rewrite Hc in HcN. injection HcN as ->.
        rewrite Hk in HkN. injection HkN as -> ->.
        eapply reach_child; [exact IH | exact rl_hp_N | reflexivity |].
        rewrite Hcs'. destruct (Z.eqb_spec b0 b) as [->|_]; [congruence | exact Hf].
      + eapply reach_child; [exact IH | rewrite rl_hp_other; eassumption | exact Hk | exact Hf].
  Qed.

  Lemma rl_edge_bwd : forall n b0 m, edge rl_st n b0 m -> edge g n b0 m.
  Proof.
    intros n b0 m (q & c & p0 & cs0 & Hr & Hc & Hk & Hf).
    destruct (rl_reach_bwd _ _ Hr) as [Hr0 HnL]. destruct (Nat.eq_dec n N) as [->|Hne].
    - rewrite rl_hp_N in Hc. injection Hc as <-. cbn [cont mk] in Hk. injection Hk as <- <-.
      rewrite Hcs' in Hf. destruct (Z.eqb_spec b0 b) as [->|Hb]; [discriminate|].
      destruct HA as (HrN & _ & HcN & HkN & _). eapply edge_intro; eassumption.
    - rewrite (rl_hp_other n Hne HnL) in Hc. eapply edge_intro; eassumption.
  Qed.

  Lemma rl_WF : WF rl_st.
  Proof.
    destruct HA as (HrN & _ & HcN & HkN & _). constructor.
    - intros m q Hr. destruct (rl_reach_bwd _ _ Hr) as [Hr0 HmL].
      destruct (wf_alloc g W _ _ Hr0) as (c0 & Hc0 & Hf0).
      destruct (Nat.eq_dec m N) as [->|Hne].
      + rewrite rl_hp_N. eexists. split; [reflexivity|]. cbn [word mk]. apply bump_free. congruence.
      + exists c0. split; [rewrite rl_hp_other; assumption | exact Hf0].
    - intros m q c kk v0 Hr Hc Hk. destruct (rl_reach_bwd _ _ Hr) as [Hr0 HmL].
      destruct (Nat.eq_dec m N) as [->|Hne].
      + rewrite rl_hp_N in Hc. injection Hc as <-. cbn in Hk. discriminate.
      + rewrite (rl_hp_other m Hne HmL) in Hc. eapply (wf_leaf g W); eassumption.
    - intros n1 b1 n2 b2 m E1 E2. apply rl_edge_bwd in E1. apply rl_edge_bwd in E2.
      eapply (wf_parent g W); eassumption.
    - intros r n b0 Hroot E. cbn in Hroot. apply rl_edge_bwd in E. eapply (wf_root g W); eassumption.
  Qed.

  Lemma rl_cell_step : cell_step g rl_st.
  Proof.
    destruct HA as (HrN & _ & HcN & HkN & _).
    intros n c Hc. destruct (Nat.eq_dec n N) as [->|Hne].
    - rewrite rl_hp_N. eexists. split; [reflexivity|]. right. cbn [word mk].
      rewrite HcN in Hc. injection Hc as <-.
      destruct (wf_alloc g W _ _ HrN) as (c0 & Hc0 & Hf0). split; [congruence | left; reflexivity].
    - destruct (Nat.eq_dec n L) as [->|HnL].
      + rewrite rl_hp_L. eexists. split; [reflexivity|]. right. cbn [word mk].
        destruct (wf_alloc g W _ _ rl_reach_L) as (c0 & Hc0 & Hf0). split; [congruence | right; reflexivity].
      + exists c. split; [rewrite rl_hp_other; assumption | left; reflexivity].
  Qed.

  Lemma rl_w2 : w2_step g rl_st.
  Proof.
    destruct HA as (HrN & _ & HcN & HkN & _).
    intros fp Hfp. exists fp. split; [|reflexivity].
    intros n pth c p0 cs0 Hr Hc Hk. destruct (rl_reach_bwd _ _ Hr) as [Hr0 HnL].
    destruct (Nat.eq_dec n N) as [->|Hne].
    - rewrite rl_hp_N in Hc. injection Hc as <-. cbn [cont mk] in Hk. injection Hk as <- <-.
      eapply Hfp; eassumption.
    - rewrite (rl_hp_other n Hne HnL) in Hc. eapply Hfp; eassumption.
  Qed.

  Lemma rl_step_ok : step_ok g rl_st.
  Proof.
    split; [exact rl_WF | split; [exact rl_cell_step | split; [|split; [|exact rl_w2]]]].
    - left. split; reflexivity.
    - intros n pth Hr Hno. exists pth. apply rl_reach_fwd; [exact Hr|]. intros ->.
      specialize (Hno _ rl_hp_L). cbn in Hno. discriminate.
  Qed.

  Lemma rl_leaves : forall k' v', k' <> k -> (leaf_in rl_st k' v' <-> leaf_in g k' v').
  Proof.
    destruct HA as (HrN & _ & HcN & HkN & _).
    intros k' v' Hne. split; intros (n & pth & c & Hr & Hc & Hk).
    - destruct (rl_reach_bwd _ _ Hr) as [Hr0 HnL]. destruct (Nat.eq_dec n N) as [->|HnN].
      + rewrite rl_hp_N in Hc. injection Hc as <-. cbn in Hk. discriminate.
      + rewrite (rl_hp_other n HnN HnL) in Hc. exists n, pth, c. auto.
    - assert (HnL : n <> L) by (intros ->; congruence).
      assert (HnN : n <> N) by (intros ->; congruence).
      exists n, pth, c. split; [apply rl_reach_fwd; assumption | split; [|exact Hk]].
      rewrite rl_hp_other; assumption.
  Qed.

  Lemma rl_before : lookup g k (Some v).
  Proof.
    destruct (at_inode_extend _ _ _ _ _ _ _ _ HA) as [E Hle].
    pose proof rl_reach_L as RL. rewrite E in RL.
    apply (reach_lookup g k L _ RL (d + length p + 1) eq_refl Hle).
    eapply lr_leaf_hit; eassumption.
  Qed.

  Lemma rl_after : lookup rl_st k None.
  Proof.
    apply (at_inode_no_child rl_st k N d (mk (bump (word cN)) (CInode p cs')) p cs' b).
    - destruct HA as (HrN & Hd & HcN & HkN & Hp & Hb).
      split; [apply rl_reach_fwd; [exact HrN | apply not_eq_sym; exact rl_LN]|].
      split; [exact Hd | split; [exact rl_hp_N | split; [reflexivity | split; assumption]]].
    - rewrite Hcs'. rewrite Z.eqb_refl. reflexivity.
  Qed.
End RemoveLeaf.

Theorem remove_leaf_ok : forall k g g', WF g -> remove_leaf k g g' -> step_ok g g' /\ remove_effect k g g'.
Proof.
  intros k g g' W [N d cN p cs b L cL v cs' HA Hsome HcL HkL Hcs' ->].
  fold (rl_st g N cN p L cL cs').
  assert (W' : WF (rl_st g N cN p L cL cs')) by (eapply rl_WF; eassumption).
  split; [eapply rl_step_ok; eassumption|].
  apply (remove_effect_intro k v); [exact W | exact W' | eapply rl_before; eassumption
    | eapply rl_after; eassumption | eapply rl_leaves; eassumption].
Qed.

(** ** S3 root_insert / root_remove *)
Lemma empty_unreach : forall g m q, root g = None -> reach g m q -> False.
Proof. intros g m q Hn Hr. induction Hr as [n Hroot | n pth c p cs b c' Hr IH Hc Hk Hf]; [congruence | exact IH]. Qed.

Lemma WF_empty : forall g, root g = None -> WF g.
Proof.
  intros g Hn. constructor.
  - intros n pth Hr. exfalso. eapply empty_unreach; eassumption.
  - intros n pth c kk v Hr. exfalso. eapply empty_unreach; eassumption.
  - intros n1 b1 n2 b2 m (q & c & p & cs & Hr & _). exfalso. eapply empty_unreach; eassumption.
  - intros r n b Hr. congruence.
Qed.

Section RootInsert.
  Variables (g : gstate) (k : key) (v : val) (L : nid) (wl : Z).
  Hypothesis W : WF g.
  Hypothesis Hroot : root g = None.
  Hypothesis HL : hp g L = None.
  Hypothesis Hwl : w_is_free wl = true.

  Definition ri_st : gstate := set_root g (upd (hp g) L (mk wl (CLeaf k v))) (Some L).

  Lemma ri_hp_L : hp ri_st L = Some (mk wl (CLeaf k v)).
  Proof. cbn. apply upd_eq. Qed.

  Lemma ri_reach : forall m q, reach ri_st m q -> m = L /\ q = [].
  Proof.
    intros m q Hr. induction Hr as [n Hr | n pth c p cs b c' Hr IH Hc Hk Hf].
    - cbn in Hr. injection Hr as <-. auto.
    - destruct IH as [-> _]. rewrite ri_hp_L in Hc. injection Hc as <-. cbn in Hk. discriminate.
  Qed.

  Lemma ri_no_edge : forall n b m, edge ri_st n b m -> False.
  Proof.
    intros n b m (q & c & p & cs & Hr & Hc & Hk & _). destruct (ri_reach _ _ Hr) as [-> _].
    rewrite ri_hp_L in Hc. injection Hc as <-. cbn in Hk. discriminate.
  Qed.

  Lemma ri_WF : WF ri_st.
  Proof.
    constructor.
    - intros n pth Hr. destruct (ri_reach _ _ Hr) as [-> _]. rewrite ri_hp_L. eexists. split; [reflexivity | exact Hwl].
    - intros n pth c kk v0 Hr _ _. destruct (ri_reach _ _ Hr) as [_ ->]. reflexivity.
    - intros n1 b1 n2 b2 m E. exfalso. eapply ri_no_edge; exact E.
    - intros r n b _ E. eapply ri_no_edge; exact E.
  Qed.

  Lemma ri_step_ok : step_ok g ri_st.
  Proof.
    split; [exact ri_WF | split; [|split; [|split]]].
    - intros n c Hc. exists c. split; [|left; reflexivity]. cbn. rewrite upd_neq; [exact Hc | eapply fresh_neq; eassumption].
    - right. reflexivity.
    - intros n pth Hr. exfalso. eapply empty_unreach; eassumption.
    - intros fp _. exists fp. split; [|reflexivity]. intros n pth c p cs Hr Hc Hk.
      exfalso. eapply ri_no_edge with (n := n) (b := 0%Z) (m := n). unfold edge.
      destruct (ri_reach _ _ Hr) as [-> _]. rewrite ri_hp_L in Hc. injection Hc as <-. cbn in Hk. discriminate.
  Qed.

  Lemma ri_effect : insert_effect k v g ri_st.
  Proof.
    apply insert_effect_intro; [exact W | exact ri_WF | | |].
    - unfold lookup. rewrite Hroot. reflexivity.
    - unfold lookup. cbn [root ri_st set_root]. eapply lr_leaf_hit; [exact ri_hp_L | reflexivity].
    - intros k' v' Hne. split; intros (n & pth & c & Hr & Hc & Hk).
      + destruct (ri_reach _ _ Hr) as [-> _]. rewrite ri_hp_L in Hc. injection Hc as <-.
        cbn in Hk. injection Hk as E _. congruence.
      + exfalso. eapply empty_unreach; eassumption.
  Qed.
End RootInsert.

Section RootRemove.
  Variables (g : gstate) (k : key) (L : nid) (cL : cell) (v : val).
  Hypothesis W : WF g.
  Hypothesis Hroot : root g = Some L.
  Hypothesis HcL : hp g L = Some cL.
  Hypothesis HkL : cont cL = CLeaf k v.

  Definition rr_st : gstate := set_root g (upd (hp g) L (mk 1 (cont cL))) None.

  Lemma rr_only_L : forall m q, reach g m q -> m = L.
  Proof.
    intros m q Hr. induction Hr as [n Hr | n pth c p cs b c' Hr IH Hc Hk Hf]; [congruence|].
    subst n. congruence.
  Qed.

  Lemma rr_unreach : forall m q, reach rr_st m q -> False.
  Proof. intros m q. apply empty_unreach. reflexivity. Qed.

  Lemma rr_step_ok : step_ok g rr_st.
  Proof.
    split; [apply WF_empty; reflexivity | split; [|split; [|split]]].
    - intros n c Hc. destruct (Nat.eq_dec n L) as [->|Hne].
      + cbn. rewrite upd_eq. eexists. split; [reflexivity|]. right. cbn [word mk].
        destruct (wf_alloc g W L [] (reach_root g L Hroot)) as (c0 & Hc0 & Hf0).
        split; [congruence | right; reflexivity].
      + exists c. split; [|left; reflexivity]. cbn. rewrite upd_neq; assumption.
    - right. reflexivity.
    - intros n pth Hr Hno. rewrite (rr_only_L _ _ Hr) in Hno.
      specialize (Hno (mk 1 (cont cL))). cbn in Hno. rewrite upd_eq in Hno. specialize (Hno eq_refl). discriminate.
    - intros fp _. exists fp. split; [|reflexivity]. intros n pth c p cs Hr. exfalso. eapply rr_unreach; exact Hr.
  Qed.

  Lemma rr_effect : remove_effect k g rr_st.
  Proof.
    apply (remove_effect_intro k v); [exact W | apply WF_empty; reflexivity | | |].
    - unfold lookup. rewrite Hroot. eapply lr_leaf_hit; eassumption.
    - unfold lookup. reflexivity.
    - intros k' v' Hne. split; intros (n & pth & c & Hr & Hc & Hk).
      + exfalso. eapply rr_unreach; exact Hr.
      + rewrite (rr_only_L _ _ Hr) in Hc. congruence.
  Qed.
End RootRemove.

Theorem root_insert_ok : forall k v g g', WF g -> root_insert k v g g' -> step_ok g g' /\ insert_effect k v g g'.
Proof.
  intros k v g g' W [L wl Hroot HL Hwl ->]. fold (ri_st g k v L wl).
  split; [eapply ri_step_ok; eassumption | eapply ri_effect; eassumption].
Qed.

Theorem root_remove_ok : forall k g g', WF g -> root_remove k g g' -> step_ok g g' /\ remove_effect k g g'.
Proof.
  intros k g g' W [L cL v Hroot HcL HkL ->]. fold (rr_st g L cL).
  split; [eapply rr_step_ok; eassumption | eapply rr_effect; eassumption].
Qed.
