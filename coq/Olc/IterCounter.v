(** C09c: the atomic reading of an iterator step is false -- a checked
    counterexample.  Tree: root 0 = {1 -> node 1, 2 -> node 2}, node 1 =
    {1 -> leaf 3 "11"}, node 2 = {5 -> leaf 4 "25"}.  The iterator stands on
    "11".  try_next re-validates the leaf (moment 1) and node 1 (moment 2),
    pops both.  At moment 3 a writer inserts "12" below node 1, at moment 4
    another writer inserts "20" below node 2.  The root entry is re-validated
    (unchanged), its next child is node 2, the left-most descent delivers
    "20".  All conditions of the step theorem hold, the step is an interval
    successor query, but at no single moment is "20" the successor of "11". *)
From Coq Require Import List ZArith Bool Arith Lia Sorted.
From Unodb Require Import Base.Lex Lock.LockModel Olc.ReadModel Olc.ReadProofs Olc.IterModel Olc.IterAux
  Olc.IterProofs.
Import ListNotations.
Local Open Scope Z_scope.

Definition k0 : list (Z * nid) := [(1, 1%nat); (2, 2%nat)].
Definition k1 : list (Z * nid) := [(1, 3%nat)].
Definition k1' : list (Z * nid) := [(1, 3%nat); (2, 5%nat)].
Definition k2 : list (Z * nid) := [(5, 4%nat)].
Definition k2' : list (Z * nid) := [(0, 6%nat); (5, 4%nat)].

Definition hc0 (n : nid) : option cell :=
  match n with
  | 0%nat => Some {| word := 0; cont := CInode [] k0 |}
  | 1%nat => Some {| word := 0; cont := CInode [] k1 |}
  | 2%nat => Some {| word := 0; cont := CInode [] k2 |}
  | 3%nat => Some {| word := 0; cont := CLeaf [1; 1] [110] |}
  | 4%nat => Some {| word := 0; cont := CLeaf [2; 5] [250] |}
  | _ => None
  end.
Definition hc1 (n : nid) : option cell :=
  match n with
  | 1%nat => Some {| word := 4; cont := CInode [] k1' |}
  | 5%nat => Some {| word := 0; cont := CLeaf [1; 2] [120] |}
  | _ => hc0 n
  end.
Definition hc2 (n : nid) : option cell :=
  match n with
  | 2%nat => Some {| word := 4; cont := CInode [] k2' |}
  | 6%nat => Some {| word := 0; cont := CLeaf [2; 0] [200] |}
  | _ => hc1 n
  end.
Definition mk (h : nid -> option cell) : gstate := {| hp := h; root_word := 0; root := Some 0%nat |}.
Definition Hc : history := fun t => if (t <? 3)%nat then mk hc0 else if (t <? 4)%nat then mk hc1 else mk hc2.

Definition cplace (n : nid) (pth : list Z) : Prop :=
  (n = 0%nat /\ pth = []) \/ (n = 1%nat /\ pth = [1]) \/ (n = 2%nat /\ pth = [2]) \/
  (n = 3%nat /\ pth = [1; 1]) \/ (n = 4%nat /\ pth = [2; 5]) \/ (n = 5%nat /\ pth = [1; 2]) \/
  (n = 6%nat /\ pth = [2; 0]).

Lemma fc_in : forall b cs c, find_child b cs = Some c -> In (b, c) cs.
Proof.
  induction cs as [|[b0 c0] cs IH]; intros c Hf; cbn in Hf; [discriminate|].
  destruct (Z.eqb_spec b b0) as [->|Hne]; [injection Hf as ->; left; reflexivity | right; apply IH; exact Hf].
Qed.

Lemma reach2_place : forall n pth, reach (mk hc2) n pth -> cplace n pth.
Proof.
  intros n pth R. induction R as [n Hr | n pth c p cs b c' R IH Hc Hk Hf].
  - cbn in Hr. injection Hr as <-. left. auto.
  - apply fc_in in Hf. unfold cplace in IH.
    destruct IH as [[-> ->] | [[-> ->] | [[-> ->] | [[-> ->] | [[-> ->] | [[-> ->] | [-> ->]]]]]]];
      cbn in Hc; injection Hc as <-; cbn in Hk; try discriminate; injection Hk as <- <-;
      cbn in Hf; unfold cplace; cbn;
      destruct Hf as [E | [E | []]]; injection E as <- <-; auto 10.
Qed.

Definition grows (h h' : nid -> option cell) : Prop :=
  forall n c p cs b c', h n = Some c -> cont c = CInode p cs -> find_child b cs = Some c' ->
    exists c1 cs1, h' n = Some c1 /\ cont c1 = CInode p cs1 /\ find_child b cs1 = Some c'.

Lemma reach_grows : forall h h', grows h h' -> forall n pth, reach (mk h) n pth -> reach (mk h') n pth.
Proof.
  intros h h' G n pth R. induction R as [n Hr | n pth c p cs b c' R IH Hc Hk Hf].
  - apply reach_root. exact Hr.
  - destruct (G _ _ _ _ _ _ Hc Hk Hf) as (c1 & cs1 & A & B & C). eapply reach_child; eassumption.
Qed.

Lemma grows01 : grows hc0 hc1.
Proof.
  intros n c p cs b c' Hc Hk Hf. destruct n as [|[|n]].
  - exists c, cs. auto.
  - cbn in Hc. injection Hc as <-. cbn in Hk. injection Hk as <- <-.
    eexists. exists k1'. split; [reflexivity | split; [reflexivity|]].
    cbn in Hf |- *. destruct (b =? 1); [exact Hf | discriminate].
  - exists c, cs. split; [|auto]. destruct n as [|[|[|[|n]]]]; try exact Hc. cbn in Hc. discriminate.
Qed.

Lemma grows12 : grows hc1 hc2.
Proof.
  intros n c p cs b c' Hc Hk Hf. destruct n as [|[|[|n]]].
  - exists c, cs. auto.
  - exists c, cs. auto.
  - cbn in Hc. injection Hc as <-. cbn in Hk. injection Hk as <- <-.
    eexists. exists k2'. split; [reflexivity | split; [reflexivity|]].
    cbn in Hf |- *. destruct (b =? 5) eqn:E; [|discriminate].
    apply Z.eqb_eq in E. subst b. exact Hf.
  - exists c, cs. split; [|auto]. destruct n as [|[|[|[|n]]]]; try exact Hc. cbn in Hc. discriminate.
Qed.

Lemma hp_Hc : forall t n, hp (Hc t) n = if (t <? 3)%nat then hc0 n else if (t <? 4)%nat then hc1 n else hc2 n.
Proof. intros t n. unfold Hc. destruct (t <? 3)%nat; [|destruct (t <? 4)%nat]; reflexivity. Qed.

Lemma reach_Hc_2 : forall t n pth, reach (Hc t) n pth -> reach (mk hc2) n pth.
Proof.
  intros t n pth R. unfold Hc in R. destruct (t <? 3)%nat; [|destruct (t <? 4)%nat].
  - apply (reach_grows _ _ grows12). apply (reach_grows _ _ grows01). exact R.
  - apply (reach_grows _ _ grows12). exact R.
  - exact R.
Qed.

Lemma reach_Hc_place : forall t n pth, reach (Hc t) n pth -> cplace n pth.
Proof. intros t n pth R. apply reach2_place. eapply reach_Hc_2. exact R. Qed.

Ltac cplace_cases R :=
  destruct R as [[-> ->] | [[-> ->] | [[-> ->] | [[-> ->] | [[-> ->] | [[-> ->] | [-> ->]]]]]]].

Lemma Hc_wf : wf_history Hc.
Proof.
  assert (S : bytes_sorted k0 /\ bytes_sorted k1 /\ bytes_sorted k1' /\ bytes_sorted k2 /\ bytes_sorted k2').
  { unfold bytes_sorted. cbn. repeat split; repeat constructor; lia. }
  destruct S as (S0 & S1 & S1' & S2 & S2').
  intros t. split.
  - intros n pth c k v R Hc0 Hk. apply reach_Hc_place in R. rewrite hp_Hc in Hc0.
    cplace_cases R; destruct (t <? 3)%nat; try destruct (t <? 4)%nat; cbn in Hc0; try discriminate;
      injection Hc0 as <-; cbn in Hk; try discriminate; injection Hk as <- <-; exists []; reflexivity.
  - intros n pth c p cs R Hc0 Hk. apply reach_Hc_place in R. rewrite hp_Hc in Hc0.
    cplace_cases R; destruct (t <? 3)%nat; try destruct (t <? 4)%nat; cbn in Hc0; try discriminate;
      injection Hc0 as <-; cbn in Hk; try discriminate; injection Hk as <- <-; assumption.
Qed.

Lemma Hc_fullpath : fullpath_stable Hc.
Proof.
  exists (fun n => match n with 1%nat => [1] | 2%nat => [2] | _ => [] end).
  intros t n pth c p cs R Hc0 Hk. apply reach_Hc_place in R. rewrite hp_Hc in Hc0.
  cplace_cases R; destruct (t <? 3)%nat; try destruct (t <? 4)%nat; cbn in Hc0; try discriminate;
    injection Hc0 as <-; cbn in Hk; try discriminate; injection Hk as <- <-; reflexivity.
Qed.

Lemma same01 : forall n c, hc0 n = Some c -> hc1 n = Some c \/ n = 1%nat.
Proof. intros n c Hc0. destruct n as [|[|[|[|[|[|n]]]]]]; cbn in Hc0 |- *; auto; discriminate. Qed.

Lemma same12 : forall n c, hc1 n = Some c -> hc2 n = Some c \/ n = 2%nat.
Proof. intros n c Hc0. destruct n as [|[|[|[|[|[|[|n]]]]]]]; cbn in Hc0 |- *; auto; discriminate. Qed.

Lemma Hc_disciplined : disciplined Hc.
Proof.
  split.
  - intros n t1 t2 c1 c2 Hle Hc1 Hc2 Hw Hfree t Ht. rewrite hp_Hc in *.
    destruct (Nat.ltb_spec t1 3) as [A1|A1]; [|destruct (Nat.ltb_spec t1 4) as [B1|B1]];
    (destruct (Nat.ltb_spec t2 3) as [A2|A2]; [|destruct (Nat.ltb_spec t2 4) as [B2|B2]]);
    (destruct (Nat.ltb_spec t 3) as [A|A]; [|destruct (Nat.ltb_spec t 4) as [B|B]]);
    try lia; try exact Hc1.
    + (* 0,1,1 *) destruct (same01 n c1 Hc1) as [E | ->]; [exact E|].
      cbn in Hc1, Hc2. injection Hc1 as <-. injection Hc2 as <-. cbn in Hw. discriminate.
    + (* 0,2,1 *) destruct (same01 n c1 Hc1) as [E | ->]; [exact E|].
      cbn in Hc1, Hc2. injection Hc1 as <-. injection Hc2 as <-. cbn in Hw. discriminate.
    + (* 0,2,2 *) destruct (same01 n c1 Hc1) as [E | ->].
      * destruct (same12 n c1 E) as [E' | ->]; [exact E'|].
        cbn in Hc1, Hc2. injection Hc1 as <-. injection Hc2 as <-. cbn in Hw. discriminate.
      * cbn in Hc1, Hc2. injection Hc1 as <-. injection Hc2 as <-. cbn in Hw. discriminate.
    + (* 1,2,2 *) destruct (same12 n c1 Hc1) as [E | ->]; [exact E|].
      cbn in Hc1, Hc2. injection Hc1 as <-. injection Hc2 as <-. cbn in Hw. discriminate.
  - intros t1 t2 Hle Hw Hfree t Ht. unfold Hc.
    destruct (t <? 3)%nat; [|destruct (t <? 4)%nat]; (destruct (t1 <? 3)%nat; [|destruct (t1 <? 4)%nat]); reflexivity.
Qed.

Lemma Hc_stays_reachable : stays_reachable Hc.
Proof.
  intros t t' n pth Hle R _. exists pth. unfold Hc in *.
  destruct (Nat.ltb_spec t 3) as [A1|A1]; [|destruct (Nat.ltb_spec t 4) as [B1|B1]];
  (destruct (Nat.ltb_spec t' 3) as [A2|A2]; [|destruct (Nat.ltb_spec t' 4) as [B2|B2]]); try lia; try exact R.
  - apply (reach_grows _ _ grows01). exact R.
  - apply (reach_grows _ _ grows12). apply (reach_grows _ _ grows01). exact R.
  - apply (reach_grows _ _ grows12). exact R.
Qed.

(** ** The step *)

Definition ec1 : sentry := {| e_node := 1%nat; e_pth := [1]; e_pre := []; e_cs := k1; e_idx := 0%nat; e_byte := 1;
                              e_child := 3%nat; e_word := 0; e_at := 0%nat |}.
Definition ec0 : sentry := {| e_node := 0%nat; e_pth := []; e_pre := []; e_cs := k0; e_idx := 0%nat; e_byte := 1;
                              e_child := 1%nat; e_word := 0; e_at := 0%nat |}.
Definition posc : ipos := {| ip_leaf := 3%nat; ip_key := [1; 1]; ip_val := [110]; ip_word := 0; ip_at := 0%nat;
                             ip_stack := [ec1; ec0] |}.
Definition ec2 : sentry := {| e_node := 2%nat; e_pth := [2]; e_pre := []; e_cs := k2'; e_idx := 0%nat; e_byte := 0;
                              e_child := 6%nat; e_word := 4; e_at := 5%nat |}.
Definition ic2 : ihop := {| ih_e := ec2; ih_check := 7%nat |}.
Definition ac : hop := {| h_node := 6%nat; h_lock := 6%nat; h_check := 9%nat; h_word := 0; h_cont := CLeaf [2; 0] [200] |}.

Ltac cell_now := eexists; repeat split; reflexivity.

Lemma reach0_root : reach (Hc 0%nat) 0%nat [].
Proof. apply reach_root. reflexivity. Qed.

Lemma reach0_n1 : reach (Hc 0%nat) 1%nat [1].
Proof.
  apply (reach_child (Hc 0%nat) 0%nat [] {| word := 0; cont := CInode [] k0 |} [] k0 1 1%nat); try reflexivity.
  exact reach0_root.
Qed.

Lemma posc_ok : pos_ok Hc posc.
Proof.
  unfold pos_ok. cbn [ip_word ip_at ip_leaf ip_key ip_val ip_stack posc].
  split; [reflexivity|]. split; [cell_now|]. split; [|split; [|split; [discriminate|]]].
  - constructor; [|constructor; [|constructor]].
    + split; [split; [reflexivity | split; [cell_now | reflexivity]] | exact reach0_n1].
    + split; [split; [reflexivity | split; [cell_now | reflexivity]] | exact reach0_root].
  - repeat constructor.
  - cbn. repeat split; reflexivity.
Qed.

Lemma stepc : next_some Hc posc 1 [(ec1, 2%nat)] ec0 8 2 2%nat [] [ic2] ac [2; 0] [2; 0] [200].
Proof.
  split.
  - split; [cbn; lia | cell_now].
  - split; try reflexivity.
    + constructor; [|constructor]. split; [cbn; lia | split; [cell_now | reflexivity]].
    + cbn. lia.
    + cell_now.
    + apply d_step; [| cbn; lia | reflexivity | reflexivity |].
      * split; [split; [reflexivity | split; [cell_now | reflexivity]] | split; [cbn; lia | cell_now]].
      * apply d_last; [| cbn; lia | reflexivity].
        unfold hop_observed. cbn. split; [lia | split; [reflexivity | split; cell_now]].
    + constructor; [reflexivity | constructor].
Qed.

(** the step is an interval successor query (instance of the theorem) ... *)
Lemma stepc_interval : wquery Hc 1 6 true [1; 1] (Some ([2; 0], [200])).
Proof.
  destruct (next_succ_some Hc posc 1 _ _ _ _ _ _ _ _ _ _ _ Hc_disciplined Hc_stays_reachable Hc_fullpath Hc_wf
              posc_ok stepc) as (_ & Q & _). exact Q.
Qed.

Lemma has12_late : forall T, (4 <= T)%nat -> has_key (Hc T) [1; 2].
Proof.
  intros T HT. exists [120], 5%nat, [1; 2]. eexists.
  assert (E : Hc T = mk hc2).
  { unfold Hc. destruct (Nat.ltb_spec T 3); [lia|]. destruct (Nat.ltb_spec T 4); [lia | reflexivity]. }
  rewrite E. split; [|split; reflexivity].
  apply (reach_child (mk hc2) 1%nat [1] {| word := 4; cont := CInode [] k1' |} [] k1' 2 5%nat); try reflexivity.
  apply (reach_child (mk hc2) 0%nat [] {| word := 0; cont := CInode [] k0 |} [] k0 1 1%nat); try reflexivity.
  apply reach_root. reflexivity.
Qed.

Lemma no20_early : forall T v, (T < 4)%nat -> ~ entry (Hc T) [2; 0] v.
Proof.
  intros T v HT (n & pth & c & R & Hc0 & Hk). apply reach_Hc_place in R. rewrite hp_Hc in Hc0.
  destruct (Nat.ltb_spec T 4); [|lia].
  cplace_cases R; destruct (T <? 3)%nat; cbn in Hc0; try discriminate; injection Hc0 as <-; cbn in Hk; discriminate.
Qed.

(** ... but not an atomic one: at no moment is "20" the successor of "11" *)
Theorem step_not_atomic : forall T, ~ succ_query (Hc T) [1; 1] (Some ([2; 0], [200])).
Proof.
  intros T (_ & E & G). destruct (le_lt_dec 4 T) as [Hge | Hlt].
  - apply (G [1; 2]); [reflexivity | reflexivity | apply has12_late; exact Hge].
  - exact (no20_early T _ Hlt E).
Qed.

Print Assumptions step_not_atomic.
