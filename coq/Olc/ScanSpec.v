(** C09: the abstract scan theorem.  A scan over an index that changes while
    it runs is modelled as a sequence of atomic queries: the first one finds
    the first key >= the bound in the map as it is at some moment t0, each
    later one finds the successor of the previously delivered key in the map
    as it is at a later moment.  (What makes each iterator step such a query
    on the real index is the lock-coupling / re-seek structure of
    olc_db::iterator; that is checked on the implementation, not here.)
    Keys are integers: any totally ordered key space, here the byte-wise
    order transported to Z.  Definitions only. *)
From Coq Require Import List ZArith Bool.
Import ListNotations.
Local Open Scope Z_scope.

Definition kmap := Z -> option Z.           (* key -> value at one moment *)
Definition history := nat -> kmap.          (* the map at every moment *)

(** k is the least key >= lo present in m *)
Definition least_ge (m : kmap) (lo k : Z) : Prop :=
  lo <= k /\ m k <> None /\ forall k', lo <= k' -> k' < k -> m k' = None.

(** a forward scan from [lo]: delivered (moment, key, value) triples.
    [scan_fwd H t lo ds]: starting no earlier than moment t, each delivery is
    the least key >= the current bound at its own moment, carries the value
    the key has at that moment, and the bound then moves just past it. *)
Inductive scan_fwd (H : history) : nat -> Z -> list (nat * Z * Z) -> Prop :=
| sf_nil : forall t lo, scan_fwd H t lo []
| sf_cons : forall t lo t1 k v ds,
    (t <= t1)%nat -> least_ge (H t1) lo k -> H t1 k = Some v ->
    scan_fwd H t1 (k + 1) ds -> scan_fwd H t lo ((t1, k, v) :: ds).

(** the scan ran to completion at moment te: no key >= the final bound exists then *)
Definition exhausted (H : history) (te : nat) (bound : Z) : Prop :=
  forall k, bound <= k -> H te k = None.

Definition keys_of (ds : list (nat * Z * Z)) : list Z := map (fun d => snd (fst d)) ds.
Definition last_moment (t : nat) (ds : list (nat * Z * Z)) : nat := last (map (fun d => fst (fst d)) ds) t.
Definition final_bound (lo : Z) (ds : list (nat * Z * Z)) : Z := last (map (fun d => snd (fst d) + 1) ds) lo.
