(** The oracle of the writer-quiescent snapshot check (tools/p_olc.py, snapshot_check): the expected shape of a
    snapshot is computed by running the sequential model on SOME history that leaves exactly the snapshot's entries.
    That this is THE shape of every well-formed tree with those entries, whatever history - sequential or
    concurrent - produced it, is shape uniqueness composed with the invariant of the model's runs. *)
From Coq Require Import List ZArith Bool Lia.
From Unodb Require Import Base.Lex Art.ArtModel Art.ArtIter Art.ArtSpec Art.ArtInv Art.ArtProofs Art.ArtScanSpec
  Art.ArtShapeProofs.
Import ListNotations.
Local Open Scope Z_scope.

Lemma oracle_run_WF : forall L sz ops t', (1 <= L <= 8)%nat -> Forall (op_ok L) ops ->
  root (run_state sz db0 ops) = Some t' -> WF L t' [].
Proof.
  intros L sz ops t' HL Hops Hroot.
  destruct (run_state_invariant L sz ops HL Hops) as (Hwf & _).
  unfold db_WF in Hwf. rewrite Hroot in Hwf. exact Hwf.
Qed.

Theorem snapshot_oracle_shape : forall L sz ops t t', (1 <= L <= 8)%nat -> Forall (op_ok L) ops ->
  root (run_state sz db0 ops) = Some t' ->
  WF L t [] -> kvs (leaves t) = kvs (leaves t') -> erase t = erase t'.
Proof.
  intros L sz ops t t' HL Hops Hroot Hwf Hkvs.
  apply (shape_unique L t t' [] HL Hwf (oracle_run_WF L sz ops t' HL Hops Hroot) Hkvs).
Qed.

(** two histories with the same final entries: same shape (the form in which the check uses it: one history is
    whatever the concurrent writers did - assumed to leave a well-formed tree -, the other the oracle's inserts) *)
Theorem snapshot_oracle_two_runs : forall L sz1 sz2 ops1 ops2 t1 t2, (1 <= L <= 8)%nat ->
  Forall (op_ok L) ops1 -> Forall (op_ok L) ops2 ->
  root (run_state sz1 db0 ops1) = Some t1 -> root (run_state sz2 db0 ops2) = Some t2 ->
  kvs (leaves t1) = kvs (leaves t2) -> erase t1 = erase t2.
Proof.
  intros L sz1 sz2 ops1 ops2 t1 t2 HL H1 H2 R1 R2 HK.
  apply (snapshot_oracle_shape L sz2 ops2 t1 t2 HL H2 R2 (oracle_run_WF L sz1 ops1 t1 HL H1 R1) HK).
Qed.

(** the check is not vacuous the other way round: a tree with the right entries and results but a node of the wrong
    class (what a skipped shrink leaves behind) is told apart by [erase] *)
Definition k8 (a b : Z) : list Z := [0;0;0;0;0;0;a;b].
Definition ex_sz : sizes := {| sz_leaf := 11; sz4 := 48; sz16 := 160; sz48 := 672; sz256 := 2064 |}.
Definition ex_oracle : list op := [OInsert (k8 0 2) [2]; OInsert (k8 0 3) [3]; OInsert (k8 0 4) [4]; OInsert (k8 0 5) [5]].
Definition ex_history : list op :=
  [OInsert (k8 0 5) [9]; OInsert (k8 0 1) [1]; OInsert (k8 0 3) [3]; OInsert (k8 0 2) [2]; OInsert (k8 0 4) [4];
   ORemove (k8 0 5); OInsert (k8 0 5) [5]; ORemove (k8 0 1)].
Definition ex_unshrunk : node :=
  Inode C16 [0;0;0;0;0;0;0] [(2, Leaf 0 (k8 0 2) [2]); (3, Leaf 0 (k8 0 3) [3]); (4, Leaf 0 (k8 0 4) [4]); (5, Leaf 0 (k8 0 5) [5])].

Lemma ex_ops_ok : Forall (op_ok 8) ex_oracle /\ Forall (op_ok 8) ex_history.
Proof.
  split; repeat constructor; unfold is_byte_z; lia.
Qed.

Lemma ex_roots : exists t1 t2, root (run_state ex_sz db0 ex_history) = Some t1 /\ root (run_state ex_sz db0 ex_oracle) = Some t2 /\
  kvs (leaves t1) = kvs (leaves t2) /\ t1 <> t2 /\ erase t1 = erase t2 /\
  kvs (leaves ex_unshrunk) = kvs (leaves t2) /\ erase ex_unshrunk <> erase t2.
Proof.
  destruct (root (run_state ex_sz db0 ex_history)) as [t1|] eqn:E1; [|vm_compute in E1; discriminate].
  destruct (root (run_state ex_sz db0 ex_oracle)) as [t2|] eqn:E2; [|vm_compute in E2; discriminate].
  exists t1, t2. vm_compute in E1. vm_compute in E2.
  injection E1 as <-. injection E2 as <-.
  repeat split; try (vm_compute; reflexivity); vm_compute; intro H; discriminate H.
Qed.
