(** C03 (writer side, fine-grained): proofs for Olc/FineWrite.v.
    1. the reader theorem for any history whose steps are good steps;
    2. version bumps are good steps, so the view of a fine run is such a history;
    3. a validated run of a history that agrees with the view on free words is
       a validated run of the view (same moments, same observations);
    4. the invariant of the operational model: the heap agrees with the view;
    5. main theorems; the heap itself (contents change only under the lock,
       quiescent heaps have the view's map); the writer's own descent
       establishes the premises of its commit shape in the view. *)
From Coq Require Import List ZArith Bool Arith Lia.
From Unodb Require Import Lock.LockModel Olc.ReadModel Olc.ReadProofs Olc.WriteModel Olc.WriteShapes Olc.WriteProofs Olc.FineWrite.
Import ListNotations.
Local Open Scope Z_scope.
Local Open Scope nat_scope.

(** ** 1. Histories of good steps *)
Section Stepwise.
  Variable V : history.
  Hypothesis SV : stepwise V.

  Lemma stepwise_WF : forall t, WF (V t).
  Proof.
    destruct SV as [[W0 _] Hs]. induction t as [|t IH]; [exact W0|].
    destruct (Hs t) as [E | [W' _]]; [rewrite E; exact IH | exact W'].
  Qed.

  Lemma stepwise_cell_step : forall t, cell_step (V t) (V (S t)).
  Proof.
    intros t. destruct SV as [_ Hs].
    destruct (Hs t) as [E | (_ & C & _)]; [rewrite E; apply cell_step_refl | exact C].
  Qed.

  Lemma stepwise_root_step : forall t, root_step (V t) (V (S t)).
  Proof.
    intros t. destruct SV as [_ Hs].
    destruct (Hs t) as [E | (_ & _ & R & _)]; [rewrite E; apply root_step_refl | exact R].
  Qed.

  Lemma stepwise_disciplined : disciplined V.
  Proof. apply steps_disciplined; [exact stepwise_cell_step | exact stepwise_root_step]. Qed.

  Lemma stepwise_stays_reachable : stays_reachable V.
  Proof.
    intros t t' n pth Hle Hr Hno. induction Hle as [|t' Hle IH]; [eauto|].
    destruct IH as [pth' Hr'].
    { intros u Hu. apply Hno. lia. }
    destruct SV as [_ Hs].
    destruct (Hs t') as [E | (_ & _ & _ & W1 & _)]; [rewrite E; eauto|].
    apply (W1 n pth' Hr'). intros c' Hc'.
    destruct (Hno (S t')) as (c & Hc & Ho); [lia|]. congruence.
  Qed.

  Lemma stepwise_fp_upto : forall T, exists fp, forall t, t <= T -> fp_ok (V t) fp.
  Proof.
    induction T as [|T [fp IH]].
    - destruct SV as [[_ [fp Hfp]] _]. exists fp. intros t Ht. replace t with 0 by lia. exact Hfp.
    - destruct SV as [_ Hs]. destruct (Hs T) as [E | (_ & _ & _ & _ & W2)].
      + exists fp. intros t Ht. destruct (Nat.eq_dec t (S T)) as [->|Hne]; [rewrite E|]; apply IH; lia.
      + destruct (W2 fp (IH T (le_n T))) as (fp' & Hfp' & Hsame). exists fp'.
        intros t Ht. destruct (Nat.eq_dec t (S T)) as [->|Hne]; [exact Hfp'|].
        assert (HtT : t <= T) by lia.
        intros n pth c p cs Hr Hc Hk.
        destruct (alloc_later V stepwise_cell_step n t T c HtT Hc) as (cT & HcT).
        rewrite (Hsame n cT HcT). eapply IH; eassumption.
  Qed.
End Stepwise.

Lemma freeze_stepwise : forall V T, stepwise V -> stepwise (freeze V T).
Proof.
  intros V T [I Hs]. split.
  - unfold freeze. cbn [Nat.min]. exact I.
  - intros t. destruct (le_lt_dec T t) as [Hge | Hlt].
    + left. unfold freeze. rewrite !Nat.min_r by lia. reflexivity.
    + rewrite !freeze_before by lia. apply Hs.
Qed.

Theorem stepwise_reader_linearizable : forall V k rn r, stepwise V -> valid_run V k rn r ->
  exists T, r_lock rn <= T <= last_moment rn /\ lookup (V T) k r.
Proof.
  intros V k rn r SV Hv. set (TT := last_moment rn).
  pose proof (freeze_stepwise V TT SV) as SF.
  assert (F : fullpath_stable (freeze V TT)).
  { destruct (stepwise_fp_upto V SV TT) as [fp Hfp]. exists fp.
    intros t. unfold freeze. apply Hfp. apply Nat.le_min_r. }
  destruct (reader_linearizable (freeze V TT) k rn r (stepwise_disciplined _ SF) (stepwise_stays_reachable _ SF) F
              (freeze_valid_run V k rn r Hv)) as (T & HT & Hl).
  exists T. split; [exact HT|]. rewrite freeze_before in Hl by (unfold TT; lia). exact Hl.
Qed.

Lemma generated_stepwise : forall H, generated H -> stepwise H.
Proof. intros H G. split; [apply G | apply generated_step; exact G]. Qed.

(** ** 2. Version bumps are good steps without effect on the map *)

(** same root pointer, same contents (words may differ) *)
Definition same_conts (g g' : gstate) : Prop :=
  root g' = root g /\ forall n, option_map cont (hp g' n) = option_map cont (hp g n).

Lemma same_conts_sym : forall g g', same_conts g g' -> same_conts g' g.
Proof. intros g g' [R C]. split; [congruence | intros n; symmetry; apply C]. Qed.

Lemma same_conts_cell : forall g g' n c, same_conts g g' -> hp g n = Some c ->
  exists c', hp g' n = Some c' /\ cont c' = cont c.
Proof.
  intros g g' n c [_ C] Hc. specialize (C n). rewrite Hc in C. cbn in C.
  destruct (hp g' n) as [c'|]; [|discriminate]. cbn in C. injection C as E. eauto.
Qed.

Lemma same_conts_reach : forall g g' n q, same_conts g g' -> reach g n q -> reach g' n q.
Proof.
  intros g g' n q S Hr. induction Hr as [n Hroot | n pth c p cs b c' Hr IH Hc Hk Hf].
  - apply reach_root. destruct S as [R _]. congruence.
  - destruct (same_conts_cell g g' n c S Hc) as (c2 & Hc2 & Ek).
    eapply reach_child; [exact IH | exact Hc2 | rewrite Ek; exact Hk | exact Hf].
Qed.

Lemma same_conts_lookup_rel : forall g g' k n d r, same_conts g g' ->
  lookup_rel (hp g) k n d r -> lookup_rel (hp g') k n d r.
Proof.
  intros g g' k n d r S Hl.
  induction Hl as [n d c v Hc Hk | n d c k' v Hc Hk Hne | n d c p cs Hc Hk Hnp
                  | n d c p cs Hc Hk Hp Hn | n d c p cs c' r Hc Hk Hp Hn Hl IH];
    destruct (same_conts_cell g g' n c S Hc) as (c2 & Hc2 & Ek); rewrite <- Ek in Hk.
  - eapply lr_leaf_hit; eassumption.
  - eapply lr_leaf_miss; eassumption.
  - eapply lr_prefix_miss; eassumption.
  - eapply lr_no_child; eassumption.
  - eapply lr_step; eassumption.
Qed.

Lemma same_conts_lookup : forall g g' k r, same_conts g g' -> (lookup g' k r <-> lookup g k r).
Proof.
  intros g g' k r S. pose proof (same_conts_sym g g' S) as S'. unfold lookup.
  pose proof S as [R _]. rewrite R. destruct (root g) as [n|]; [|tauto].
  split; apply same_conts_lookup_rel; assumption.
Qed.

Lemma same_conts_edge : forall g g' n b m, same_conts g g' -> edge g n b m -> edge g' n b m.
Proof.
  intros g g' n b m S (q & c & p & cs & Hr & Hc & Hk & Hf).
  destruct (same_conts_cell g g' n c S Hc) as (c2 & Hc2 & Ek).
  exists q, c2, p, cs. repeat split; [eapply same_conts_reach; eassumption | exact Hc2 | rewrite Ek; exact Hk | exact Hf].
Qed.

(** a step that keeps root pointer and contents, bumps the words of some free nodes *)
Definition bump_like (g g' : gstate) : Prop :=
  same_conts g g' /\ root_step g g' /\
  forall n c, hp g n = Some c -> exists c', hp g' n = Some c' /\
    (c' = c \/ (w_is_free (word c) = true /\ word c' = bump (word c))).

Lemma bump_like_step_ok : forall g g', WF g -> bump_like g g' -> step_ok g g'.
Proof.
  intros g g' W (S & R & B). pose proof (same_conts_sym g g' S) as S'.
  split; [|split; [|split; [exact R | split]]].
  - constructor.
    + intros n pth Hr. apply (same_conts_reach g' g _ _ S') in Hr.
      destruct (wf_alloc g W _ _ Hr) as (c & Hc & Hf).
      destruct (B n c Hc) as (c' & Hc' & [-> | [_ E]]); [eauto|].
      exists c'. split; [exact Hc'|]. rewrite E. apply bump_free. exact Hf.
    + intros n pth c kk v Hr Hc Hk. apply (same_conts_reach g' g _ _ S') in Hr.
      destruct (same_conts_cell g' g n c S' Hc) as (c0 & Hc0 & Ek).
      eapply (wf_leaf g W); [exact Hr | exact Hc0 | rewrite Ek; exact Hk].
    + intros n1 b1 n2 b2 m E1 E2. eapply (wf_parent g W); eapply same_conts_edge; eassumption.
    + intros r n b Hroot E. destruct S as [Er _]. eapply (wf_root g W); [rewrite <- Er; exact Hroot|].
      eapply same_conts_edge; eassumption.
  - intros n c Hc. destruct (B n c Hc) as (c' & Hc' & [-> | [Hf E]]); [eauto|].
    exists c'. split; [exact Hc'|]. right. split; [exact Hf | left; exact E].
  - intros n pth Hr _. exists pth. eapply same_conts_reach; eassumption.
  - intros fp Hfp. exists fp. split; [|reflexivity].
    intros n pth c p cs Hr Hc Hk. apply (same_conts_reach g' g _ _ S') in Hr.
    destruct (same_conts_cell g' g n c S' Hc) as (c0 & Hc0 & Ek).
    eapply Hfp; [exact Hr | exact Hc0 | rewrite Ek; exact Hk].
Qed.

Lemma bump_node_like : forall n g g', bump_node n g g' -> bump_like g g'.
Proof.
  intros n g g' (c & Hc & Hf & ->). split; [split|split].
  - reflexivity.
  - intros m. cbn [hp set_hp]. destruct (Nat.eq_dec m n) as [->|Hne].
    + rewrite upd_eq, Hc. reflexivity.
    + rewrite upd_neq by exact Hne. reflexivity.
  - left. split; reflexivity.
  - intros m cm Hm. cbn [hp set_hp]. destruct (Nat.eq_dec m n) as [->|Hne].
    + rewrite upd_eq. eexists. split; [reflexivity|]. right.
      rewrite Hc in Hm. injection Hm as <-. split; [exact Hf | reflexivity].
    + rewrite upd_neq by exact Hne. eauto.
Qed.

Lemma bump_root_like : forall g g', bump_root g g' -> bump_like g g'.
Proof.
  intros g g' ->. split; [split|split]; cbn.
  - reflexivity.
  - reflexivity.
  - right. reflexivity.
  - intros n c Hc. eauto.
Qed.

Lemma view_step_ok : forall g g', WF g -> view_step g g' -> step_ok g g'.
Proof.
  intros g g' W [k Hc | n Hb | Hb].
  - eapply commit_step_ok; eassumption.
  - apply bump_like_step_ok; [exact W | eapply bump_node_like; exact Hb].
  - apply bump_like_step_ok; [exact W | apply bump_root_like; exact Hb].
Qed.

Lemma view_generated_WF : forall V, view_generated V -> forall t, WF (V t).
Proof.
  intros V [[W0 _] Hs]. induction t as [|t IH]; [exact W0|].
  destruct (Hs t) as [E | Hv]; [rewrite E; exact IH|].
  destruct (view_step_ok _ _ IH Hv) as [W' _]. exact W'.
Qed.

Lemma view_generated_stepwise : forall V, view_generated V -> stepwise V.
Proof.
  intros V G. split; [apply G|]. intros t. destruct G as [I Hs].
  destruct (Hs t) as [E | Hv]; [left; exact E | right].
  apply view_step_ok; [apply view_generated_WF; split; assumption | exact Hv].
Qed.

Lemma generated_view_generated : forall V, generated V -> view_generated V.
Proof.
  intros V [I Hs]. split; [exact I|]. intros t.
  destruct (Hs t) as [E | [k Hc]]; [left; exact E | right; eapply vs_commit; exact Hc].
Qed.

(** the map of the view changes only at commits, there like insert / remove *)
Theorem view_map_steps : forall V, view_generated V -> forall t,
  (forall k r, lookup (V (S t)) k r <-> lookup (V t) k r) \/
  (exists k v, insert_effect k v (V t) (V (S t))) \/
  (exists k, remove_effect k (V t) (V (S t))).
Proof.
  intros V G t. pose proof (view_generated_WF V G t) as W. destruct G as [_ Hs].
  destruct (Hs t) as [E | [k [[v Hc] | Hc] | n Hb | Hb]].
  - left. rewrite E. tauto.
  - right; left. exists k, v. apply (ins_commit_ok k v _ _ W Hc).
  - right; right. exists k. apply (rem_commit_ok k _ _ W Hc).
  - left. intros k r. apply same_conts_lookup. apply (bump_node_like n _ _ Hb).
  - left. intros k r. apply same_conts_lookup. apply (bump_root_like _ _ Hb).
Qed.

(** ** 3. A validated run of H is a validated run of the view *)
Section Transfer.
  Variables H V : history.
  Hypothesis SV : stepwise V.
  Hypothesis AG : agree H V.

  (** a hop on a node that is in the view's tree at its lock moment *)
  Lemma hop_transfer : forall a pth, hop_observed H a -> reach (V (h_lock a)) (h_node a) pth ->
    hop_observed V a.
  Proof.
    intros a pth (Hle & Hf & (c1 & Hc1 & Hw1 & Hk1) & (c2 & Hc2 & Hw2)) Hr.
    destruct AG as [A _].
    destruct (wf_alloc _ (stepwise_WF V SV (h_lock a)) _ _ Hr) as (cv & Hcv & _).
    destruct (A _ _ _ Hcv) as (ch & Hch & Eh). rewrite Hc1 in Hch. injection Hch as <-.
    rewrite Hw1 in Eh. specialize (Eh Hf). subst cv.
    destruct (alloc_later V (stepwise_cell_step V SV) _ _ _ _ Hle Hcv) as (cv2 & Hcv2).
    destruct (A _ _ _ Hcv2) as (ch & Hch & Eh). rewrite Hc2 in Hch. injection Hch as <-.
    rewrite Hw2 in Eh. specialize (Eh Hf). subst cv2.
    repeat split; [exact Hle | exact Hf | exists c1; auto | exists c2; auto].
  Qed.

  (** the child found in a validated section of the view is in the view's tree *)
  Lemma child_in_view : forall a pth p cs d k m t, hop_observed V a -> reach (V (h_lock a)) (h_node a) pth ->
    h_cont a = CInode p cs -> next_child p cs d k = Some m -> h_lock a <= t <= h_check a ->
    exists q, reach (V t) m q.
  Proof.
    intros a pth p cs d k m t Ho Hr Hk Hn Ht.
    pose proof (stepwise_disciplined V SV) as D. pose proof (stepwise_stays_reachable V SV) as S.
    destruct (section_reach V a pth D S Ho Hr t Ht) as [pth' Hr'].
    destruct (section_cell V a D Ho t Ht) as (c & Hc & _ & Ec).
    unfold next_child in Hn. destruct (nth_error k (d + length p)) as [b|]; [|discriminate].
    exists (pth' ++ p ++ [b]). eapply reach_child; [exact Hr' | exact Hc | rewrite Ec; exact Hk | exact Hn].
  Qed.

  Lemma hops_transfer : forall k d tl tc l r, hops_ok H k d tl tc l r ->
    match l with a :: _ => exists pth, reach (V (h_lock a)) (h_node a) pth | [] => True end ->
    hops_ok V k d tl tc l r.
  Proof.
    intros k d tl tc l r Hok.
    induction Hok as [d tl tc a r Ho Hin Hst | d tl tc a b rest p cs r Ho Hin Hk Hp Hn Hok IH]; intros [pth Hr].
    - apply ho_last; [eapply hop_transfer; eassumption | exact Hin | exact Hst].
    - pose proof (hop_transfer a pth Ho Hr) as Ho'.
      eapply ho_step; try eassumption. apply IH.
      destruct (hops_ok_head _ _ _ _ _ _ _ _ Hok) as [_ Hb].
      eapply child_in_view; eassumption.
  Qed.

  Theorem run_transfer : forall k rn r, valid_run H k rn r -> valid_run V k rn r.
  Proof.
    intros k rn r (Hle & Hf & W1 & W2 & Hroot & M). destruct AG as [_ A].
    assert (F1 : w_is_free (root_word (H (r_lock rn))) = true) by (rewrite W1; exact Hf).
    assert (F2 : w_is_free (root_word (H (r_check rn))) = true) by (rewrite W2; exact Hf).
    destruct (A _ F1) as [E1 R1]. destruct (A _ F2) as [E2 _].
    unfold valid_run. repeat (split; [congruence|]).
    destruct (r_ptr rn) as [n|]; [|exact M].
    destruct M as (a & rest & Eh & En & Hok). exists a, rest. split; [exact Eh | split; [exact En|]].
    apply hops_transfer; [exact Hok|]. exists [].
    destruct (hops_ok_head _ _ _ _ _ _ _ _ Hok) as [_ Ha].
    apply reach_root. rewrite En.
    rewrite (root_section V (r_lock rn) (r_check rn) (stepwise_disciplined V SV) Hle) by (try lia; congruence).
    congruence.
  Qed.

  Theorem agree_reader_linearizable : forall k rn r, valid_run H k rn r ->
    exists T, r_lock rn <= T <= last_moment rn /\ lookup (V T) k r.
  Proof. intros k rn r Hv. apply stepwise_reader_linearizable; [exact SV | apply run_transfer; exact Hv]. Qed.
End Transfer.

(** ** 4. The invariant of the operational model *)
Lemma locked_not_free : forall x, w_is_free x = true -> w_is_free (x + 2) = false.
Proof.
  unfold w_is_free. intros x Hf. apply Z.eqb_eq in Hf. apply Z.eqb_neq.
  rewrite Z.add_mod by lia. rewrite Hf. cbn. lia.
Qed.

Lemma unlocked_free : forall x, w_is_free x = true -> w_is_free (x + 2 + 2) = true.
Proof. intros x Hf. replace (x + 2 + 2)%Z with (bump x) by (unfold bump; lia). apply bump_free. exact Hf. Qed.

Lemma set_owner_eq : forall o n x, owner (set_owner o n x) n = x.
Proof. intros o n x. cbn. rewrite Nat.eqb_refl. reflexivity. Qed.

Lemma set_owner_neq : forall o n x m, m <> n -> owner (set_owner o n x) m = owner o m.
Proof. intros o n x m Hne. cbn. destruct (Nat.eqb_spec m n); [contradiction | reflexivity]. Qed.

Record Inv (g : gstate) (o : ghost) : Prop := {
  (* every node of the view is allocated; held by nobody, it is the view's cell (or dead in both) *)
  inv_cell : forall n cv, hp (view o) n = Some cv -> exists ch, hp g n = Some ch /\
      (owner o n = None -> ch = cv \/ (word ch = 1%Z /\ word cv = 1%Z));
  (* a held node shows a locked word *)
  inv_held : forall n w, owner o n = Some w -> exists ch x, hp g n = Some ch /\
      w_is_free x = true /\ word ch = (x + 2)%Z;
  inv_root : rowner o = None -> root_word g = root_word (view o) /\ root g = root (view o);
  inv_rheld : forall w, rowner o = Some w -> exists x, w_is_free x = true /\ root_word g = (x + 2)%Z
}.

Lemma init_inv : forall g o, fine_init g o -> Inv g o.
Proof.
  intros g o (_ & -> & On & Or). constructor.
  - intros n cv Hc. exists cv. auto.
  - intros n w Hw. rewrite On in Hw. discriminate.
  - auto.
  - intros w Hw. rewrite Or in Hw. discriminate.
Qed.

(** the invariant gives the agreement of Level A *)
Lemma inv_agree_cell : forall g o n cv, Inv g o -> hp (view o) n = Some cv ->
  exists ch, hp g n = Some ch /\ (w_is_free (word ch) = true -> ch = cv).
Proof.
  intros g o n cv I Hc. destruct (inv_cell g o I n cv Hc) as (ch & Hch & E). exists ch. split; [exact Hch|].
  intros Hf. destruct (owner o n) as [w|] eqn:Ho.
  - destruct (inv_held g o I n w Ho) as (ch' & x & Hch' & Hx & Ew). rewrite Hch in Hch'. injection Hch' as <-.
    rewrite Ew, (locked_not_free x Hx) in Hf. discriminate.
  - destruct (E eq_refl) as [-> | [E1 _]]; [reflexivity|]. rewrite E1 in Hf. discriminate.
Qed.

Lemma inv_agree_root : forall g o, Inv g o -> w_is_free (root_word g) = true ->
  root_word (view o) = root_word g /\ root (view o) = root g.
Proof.
  intros g o I Hf. destruct (rowner o) as [w|] eqn:Ho.
  - destruct (inv_rheld g o I w Ho) as (x & Hx & Ew). rewrite Ew, (locked_not_free x Hx) in Hf. discriminate.
  - destruct (inv_root g o I Ho). split; congruence.
Qed.

(** one node changes in the heap and (possibly) its holder; the view stays *)
Lemma inv_node : forall g o o' n c',
  Inv g o -> view o' = view o -> rowner o' = rowner o ->
  (forall m, m <> n -> owner o' m = owner o m) ->
  (forall cv, hp (view o) n = Some cv -> owner o' n = None -> c' = cv \/ (word c' = 1%Z /\ word cv = 1%Z)) ->
  (forall w, owner o' n = Some w -> exists x, w_is_free x = true /\ word c' = (x + 2)%Z) ->
  Inv (set_hp g (upd (hp g) n c')) o'.
Proof.
  intros g o o' n c' I Ev Er Eo Hcell Hheld. constructor.
  - intros m cv Hc. rewrite Ev in Hc. cbn [hp set_hp]. destruct (Nat.eq_dec m n) as [->|Hne].
    + rewrite upd_eq. exists c'. split; [reflexivity|]. apply Hcell. exact Hc.
    + rewrite upd_neq by exact Hne. rewrite (Eo m Hne). apply (inv_cell g o I). exact Hc.
  - intros m w Hw. cbn [hp set_hp]. destruct (Nat.eq_dec m n) as [->|Hne].
    + rewrite upd_eq. destruct (Hheld w Hw) as (x & Hx & Ex). exists c', x. auto.
    + rewrite upd_neq by exact Hne. rewrite (Eo m Hne) in Hw. apply (inv_held g o I m w Hw).
  - rewrite Er, Ev. apply (inv_root g o I).
  - intros w. rewrite Er. apply (inv_rheld g o I).
Qed.

(** the root word / pointer changes in the heap and (possibly) the holder of the root lock *)
Lemma inv_rootpart : forall g o g' o',
  Inv g o -> hp g' = hp g -> view o' = view o -> owner o' = owner o ->
  (rowner o' = None -> root_word g' = root_word (view o) /\ root g' = root (view o)) ->
  (forall w, rowner o' = Some w -> exists x, w_is_free x = true /\ root_word g' = (x + 2)%Z) ->
  Inv g' o'.
Proof.
  intros g o g' o' I Eh Ev Eo Hr Hh. constructor.
  - intros n cv. rewrite Ev, Eh, Eo. apply (inv_cell g o I).
  - intros n w. rewrite Eh, Eo. apply (inv_held g o I).
  - rewrite Ev. exact Hr.
  - exact Hh.
Qed.

Lemma inv_commit : forall g o w v', Inv g o -> covers g o w v' -> Inv g (set_view o v').
Proof.
  intros g o w v' I [Cn Cr]. constructor; cbn [view owner rowner set_view].
  - intros n cv Hc. destruct (Cn n) as [E | [Ow | (Hnone & On & Eg)]].
    + rewrite E in Hc. apply (inv_cell g o I). exact Hc.
    + destruct (inv_held g o I n w Ow) as (ch & x & Hch & _). exists ch. split; [exact Hch|].
      intros On. rewrite On in Ow. discriminate.
    + exists cv. split; [congruence | auto].
  - apply (inv_held g o I).
  - intros Or. destruct Cr as [[E1 E2] | Ow]; [|rewrite Or in Ow; discriminate].
    rewrite E1, E2. apply (inv_root g o I Or).
  - apply (inv_rheld g o I).
Qed.

Lemma fine_step_inv : forall g o g' o', Inv g o -> fine_step g o g' o' -> Inv g' o'.
Proof.
  intros g o g' o' I St.
  destruct St as [-> -> | w n c Hc Hf On Hpub -> -> | w n c ct Hc Ow -> -> | n c Hnone On -> ->
                 | n c ct Hc Hw On -> -> | w Hf Or -> -> | w r Ow -> -> | w v' Hv Hcov -> ->
                 | w n c cv Hc Ow Hcv Ek Ew -> -> | w Ow Er Ew -> ->].
  - exact I.
  - (* lock *)
    apply (inv_node g o); try reflexivity; [exact I | apply set_owner_neq | |].
    + intros cv _. rewrite set_owner_eq. discriminate.
    + intros w' _. exists (word c). auto.
  - (* store under the lock *)
    apply (inv_node g o); try reflexivity; [exact I | |].
    + intros cv _ On. rewrite On in Ow. discriminate.
    + intros w' _. destruct (inv_held g o I n w Ow) as (ch & x & Hch & Hx & Ex).
      rewrite Hc in Hch. injection Hch as <-. exists x. auto.
  - (* private *)
    apply (inv_node g o); try reflexivity; [exact I | |].
    + intros cv Hcv. rewrite Hnone in Hcv. discriminate.
    + intros w' Ow. rewrite On in Ow. discriminate.
  - (* dead *)
    apply (inv_node g o); try reflexivity; [exact I | |].
    + intros cv Hcv _. right. split; [reflexivity|].
      destruct (inv_cell g o I n cv Hcv) as (ch & Hch & E). rewrite Hc in Hch. injection Hch as <-.
      destruct (E On) as [<- | [_ E1]]; assumption.
    + intros w' Ow. rewrite On in Ow. discriminate.
  - (* lock root *)
    apply (inv_rootpart g o); try reflexivity; [exact I | |]; cbn.
    + discriminate.
    + intros w' _. exists (root_word g). auto.
  - (* store root *)
    apply (inv_rootpart g o); try reflexivity; [exact I | |]; cbn.
    + intros Or. rewrite Or in Ow. discriminate.
    + apply (inv_rheld g o I).
  - (* commit point *)
    eapply inv_commit; eassumption.
  - (* unlock *)
    apply (inv_node g o); try reflexivity; [exact I | apply set_owner_neq | |].
    + intros cv' Hcv' _. left. congruence.
    + intros w'. rewrite set_owner_eq. discriminate.
  - (* unlock root *)
    apply (inv_rootpart g o); try reflexivity; [exact I | |]; cbn.
    + intros _. split; congruence.
    + discriminate.
Qed.

Section FineRun.
  Variables (H : history) (G : nat -> ghost).
  Hypothesis FR : fine_run H G.

  Lemma fine_run_inv : forall t, Inv (H t) (G t).
  Proof.
    destruct FR as [I0 St]. induction t as [|t IH]; [apply init_inv; exact I0|].
    eapply fine_step_inv; [exact IH | apply St].
  Qed.

  Theorem fine_run_agree : agree H (commit_view G).
  Proof.
    split.
    - intros t n cv Hc. eapply inv_agree_cell; [apply fine_run_inv | exact Hc].
    - intros t Hf. apply inv_agree_root; [apply fine_run_inv | exact Hf].
  Qed.

  Theorem fine_run_view_generated : view_generated (commit_view G).
  Proof.
    destruct FR as [(I0 & _) St]. split; [exact I0|]. intros t. unfold commit_view.
    destruct (St t) as [_ -> | w n c _ _ _ _ _ -> | w n c ct _ _ _ -> | n c _ _ _ ->
                 | n c ct _ _ _ _ -> | w _ _ _ -> | w r _ _ -> | w v' Hv _ _ ->
                 | w n c cv _ _ _ _ _ _ -> | w _ _ _ _ ->]; try (left; reflexivity).
    right. exact Hv.
  Qed.
End FineRun.

(** ** Main theorems *)

(** a completed try_get on a fine-grained history returns the result of a
    lookup in the view at one moment between its first and its last step *)
Theorem fine_reader_linearizable : forall H G k rn r, fine_run H G -> valid_run H k rn r ->
  exists T, r_lock rn <= T <= last_moment rn /\ lookup (commit_view G T) k r.
Proof.
  intros H G k rn r FR Hv.
  apply (agree_reader_linearizable H (commit_view G)); [|apply fine_run_agree; exact FR | exact Hv].
  apply view_generated_stepwise. apply fine_run_view_generated with (H := H). exact FR.
Qed.

(** the reader's observations are observations of the view, moment by moment *)
Theorem fine_run_transfer : forall H G k rn r, fine_run H G -> valid_run H k rn r ->
  valid_run (commit_view G) k rn r.
Proof.
  intros H G k rn r FR Hv. apply (run_transfer H (commit_view G)); [|apply fine_run_agree; exact FR | exact Hv].
  apply view_generated_stepwise. apply fine_run_view_generated with (H := H). exact FR.
Qed.

(** the map of the view changes only at commit points, there like insert / remove *)
Theorem fine_view_map_steps : forall H G, fine_run H G -> forall t,
  (forall k r, lookup (commit_view G (S t)) k r <-> lookup (commit_view G t) k r) \/
  (exists k v, insert_effect k v (commit_view G t) (commit_view G (S t))) \/
  (exists k, remove_effect k (commit_view G t) (commit_view G (S t))).
Proof. intros H G FR. apply view_map_steps. apply fine_run_view_generated with (H := H). exact FR. Qed.

(** the atomic model is the special case: a generated history is its own view *)
Theorem generated_agree_self : forall V, generated V -> view_generated V /\ agree V V.
Proof.
  intros V GV. split; [apply generated_view_generated; exact GV|]. split.
  - intros t n cv Hc. exists cv. auto.
  - intros t _. auto.
Qed.

(** ** The heap itself *)

(** a published node with a free word changes only by being write-locked:
    contents change only under the lock *)
Theorem fine_free_node_step : forall H G, fine_run H G -> forall t n c,
  hp (H t) n = Some c -> hp (commit_view G t) n <> None -> w_is_free (word c) = true ->
  hp (H (S t)) n = Some c \/ hp (H (S t)) n = Some (mk (word c + 2) (cont c)).
Proof.
  intros H G FR t n c Hc Hpub Hf. pose proof (fine_run_inv H G FR t) as I. destruct FR as [_ St].
  unfold commit_view in Hpub.
  assert (Hno : forall w, owner (G t) n = Some w -> False).
  { intros w Ow. destruct (inv_held _ _ I n w Ow) as (ch & x & Hch & Hx & Ex).
    rewrite Hc in Hch. injection Hch as <-. rewrite Ex, (locked_not_free x Hx) in Hf. discriminate. }
  destruct (St t) as [-> _ | w m c0 Hc0 _ _ _ -> _ | w m c0 ct Hc0 Ow -> _ | m c0 Hnone _ -> _
                 | m c0 ct Hc0 Hw _ -> _ | w _ _ -> _ | w r _ -> _ | w v' _ _ -> _
                 | w m c0 cv Hc0 Ow _ _ _ -> _ | w _ _ _ -> _]; cbn [hp set_hp set_rootw set_rootp]; auto;
    destruct (Nat.eq_dec n m) as [->|Hne]; try (rewrite upd_neq by exact Hne; auto).
  - rewrite upd_eq. right. congruence.
  - exfalso. eapply Hno; eassumption.
  - contradiction.
  - rewrite Hc in Hc0. injection Hc0 as <-. rewrite Hw in Hf. discriminate.
  - exfalso. eapply Hno; eassumption.
Qed.

(** where no node of the view's tree is held (in particular when no writer
    is in flight) the heap has the map of the view *)
Lemma inv_lookup_rel : forall g o k, Inv g o -> WF (view o) ->
  (forall n q, reach (view o) n q -> owner o n = None) ->
  forall n d r, lookup_rel (hp (view o)) k n d r -> forall q, reach (view o) n q -> lookup_rel (hp g) k n d r.
Proof.
  intros g o k I W Hq n d r Hl.
  assert (Same : forall m q c, reach (view o) m q -> hp (view o) m = Some c -> hp g m = Some c).
  { intros m q c Hr Hc. destruct (inv_cell g o I m c Hc) as (ch & Hch & E).
    destruct (E (Hq m q Hr)) as [-> | [_ E1]]; [exact Hch|].
    destruct (wf_alloc _ W _ _ Hr) as (c' & Hc' & Hf). rewrite Hc in Hc'. injection Hc' as <-.
    rewrite E1 in Hf. discriminate. }
  induction Hl as [n d c v Hc Hk | n d c k' v Hc Hk Hne | n d c p cs Hc Hk Hnp
                  | n d c p cs Hc Hk Hp Hn | n d c p cs c' r Hc Hk Hp Hn Hl IH]; intros q Hr;
    pose proof (Same n q c Hr Hc) as Hg.
  - eapply lr_leaf_hit; eassumption.
  - eapply lr_leaf_miss; eassumption.
  - eapply lr_prefix_miss; eassumption.
  - eapply lr_no_child; eassumption.
  - pose proof Hn as Hn'. unfold next_child in Hn'. destruct (nth_error k (d + length p)) as [b|]; [|discriminate].
    eapply lr_step; try eassumption. apply (IH (q ++ p ++ [b])). eapply reach_child; eassumption.
Qed.

Theorem fine_quiescent_lookup : forall H G, fine_run H G -> forall t,
  (forall n q, reach (commit_view G t) n q -> owner (G t) n = None) -> rowner (G t) = None ->
  forall k r, lookup (commit_view G t) k r -> lookup (H t) k r.
Proof.
  intros H G FR t Hq Hr k r Hl. pose proof (fine_run_inv H G FR t) as I.
  pose proof (view_generated_WF _ (fine_run_view_generated H G FR) t) as W.
  destruct (inv_root _ _ I Hr) as [_ Er]. unfold lookup, commit_view in *. rewrite Er.
  destruct (root (view (G t))) as [n|] eqn:En; [|exact Hl].
  eapply inv_lookup_rel; [exact I | exact W | exact Hq | exact Hl | apply reach_root; exact En].
Qed.

(** ** What a writer holds is its own: while w holds a node (the root lock),
    the view's cell of the node (the view's root pointer and word) changes
    only at w's own commit points *)
Lemma held_view_step : forall g o g' o' n w, fine_step g o g' o' -> owner o' n = Some w ->
  hp (view o') n = hp (view o) n \/ own_commit g o w o'.
Proof.
  intros g o g' o' n w St Ow.
  destruct St as [_ -> | w0 m c _ _ _ _ _ -> | w0 m c ct _ _ _ -> | m c _ _ _ ->
                 | m c ct _ _ _ _ -> | w0 _ _ _ -> | w0 r _ _ -> | w0 v' Hv Hcov _ ->
                 | w0 m c cv _ _ _ _ _ _ -> | w0 _ _ _ _ ->]; try (left; reflexivity).
  cbn [owner set_view] in Ow. cbn [view set_view].
  destruct (proj1 Hcov n) as [E | [Ow0 | (_ & On & _)]].
  - left. exact E.
  - right. rewrite Ow in Ow0. injection Ow0 as <-. exists v'. auto.
  - rewrite On in Ow. discriminate.
Qed.

Lemma held_root_view_step : forall g o g' o' w, fine_step g o g' o' -> rowner o' = Some w ->
  (root_word (view o') = root_word (view o) /\ root (view o') = root (view o)) \/ own_commit g o w o'.
Proof.
  intros g o g' o' w St Ow.
  destruct St as [_ -> | w0 m c _ _ _ _ _ -> | w0 m c ct _ _ _ -> | m c _ _ _ ->
                 | m c ct _ _ _ _ -> | w0 _ _ _ -> | w0 r _ _ -> | w0 v' Hv Hcov _ ->
                 | w0 m c cv _ _ _ _ _ _ -> | w0 _ _ _ _ ->]; try (left; split; reflexivity).
  cbn [rowner set_view] in Ow. cbn [view set_view].
  destruct (proj2 Hcov) as [E | Ow0].
  - left. exact E.
  - right. rewrite Ow in Ow0. injection Ow0 as <-. exists v'. auto.
Qed.

Lemma hop_depths_In : forall l d0 a d, In (a, d) (hop_depths d0 l) -> In a l.
Proof.
  induction l as [|x l IH]; intros d0 a d HIn; [destruct HIn|].
  cbn [hop_depths] in HIn. destruct HIn as [E | HIn]; [left; congruence | right; eapply IH; exact HIn].
Qed.

Lemma hops_ok_observed : forall H k d tl tc l r, hops_ok H k d tl tc l r -> forall a, In a l -> hop_observed H a.
Proof.
  intros H k d tl tc l r Hok.
  induction Hok as [d tl tc a r Ho Hin Hst | d tl tc a b rest p cs r Ho Hin Hk Hp Hn Hok IH]; intros x Hx.
  - destruct Hx as [<- | []]. exact Ho.
  - destruct Hx as [<- | Hx]; [exact Ho | apply IH; exact Hx].
Qed.

Lemma run_hop_observed : forall H k rn r a, valid_run H k rn r -> In a (r_hops rn) -> hop_observed H a.
Proof.
  intros H k rn r a (_ & _ & _ & _ & _ & M) HIn. destruct (r_ptr rn) as [n|].
  - destruct M as (a0 & rest & Eh & _ & Hok). rewrite Eh in HIn. eapply hops_ok_observed; eassumption.
  - destruct M as [E _]. rewrite E in HIn. destruct HIn.
Qed.

Lemma freeze_valid_run_ge : forall H k rn r TT, valid_run H k rn r -> last_moment rn <= TT ->
  valid_run (freeze H TT) k rn r.
Proof.
  intros H k rn r TT (Hle & Hf & W1 & W2 & Hroot & M) HT.
  destruct (fold_max_ge (r_hops rn) (r_check rn)) as [F1 F2]. fold (last_moment rn) in F1, F2.
  unfold valid_run. rewrite !freeze_before by lia.
  repeat (split; [assumption|]).
  destruct (r_ptr rn) as [n|]; [|exact M].
  destruct M as (a & rest & Eh & En & Hok). exists a, rest. split; [exact Eh | split; [exact En|]].
  apply freeze_hops_ok; [exact Hok|]. rewrite <- Eh. intros x Hx. specialize (F2 x Hx). lia.
Qed.

(** an inner node of a stepwise history that keeps its (free) cell from t1 to
    t2 and is on the path pth at t1 is on the same path at t2 *)
Lemma stepwise_inode_stays : forall V n t1 t2 c p cs pth, stepwise V -> t1 <= t2 ->
  (forall u, t1 <= u <= t2 -> hp (V u) n = Some c) -> w_is_free (word c) = true -> cont c = CInode p cs ->
  reach (V t1) n pth -> reach (V t2) n pth.
Proof.
  intros V n t1 t2 c p cs pth SV Hle Hc Hf Hk Hr.
  destruct (stepwise_stays_reachable V SV t1 t2 n pth Hle Hr) as [pth' Hr'].
  { intros u Hu. exists c. split; [apply Hc; exact Hu | apply free_not_obsolete; exact Hf]. }
  destruct (stepwise_fp_upto V SV t2) as [fp Hfp].
  pose proof (Hfp t1 Hle n pth c p cs Hr (Hc t1 ltac:(lia)) Hk) as E1.
  pose proof (Hfp t2 (le_n _) n pth' c p cs Hr' (Hc t2 ltac:(lia)) Hk) as E2.
  rewrite <- E2 in E1. apply app_inv_tail in E1. subst pth'. exact Hr'.
Qed.

(** ** The writer's own descent.  A writer descends like a reader; its last
    check of an inner node is the successful upgrade CAS (the word is still
    the one it saw).  If from then on it holds the node up to moment T, and
    has not passed a commit point in between, then at T the node is in the
    VIEW's tree on the search path of the key with the cell the writer saw:
    the premise at_inode of the commit shapes holds in the view at the
    writer's commit point. *)
Theorem writer_target_in_view : forall H G k rn r a d p cs w T,
  fine_run H G -> valid_run H k rn r -> In (a, d) (hop_depths 0 (r_hops rn)) ->
  h_cont a = CInode p cs -> h_check a <= T ->
  (forall t, h_check a < t <= T -> owner (G t) (h_node a) = Some w) ->
  (forall t, h_check a <= t < T -> ~ own_commit (H t) (G t) w (G (S t))) ->
  reach (commit_view G T) (h_node a) (firstn d k) /\ d <= length k /\
  exists c, hp (commit_view G T) (h_node a) = Some c /\ word c = h_word a /\ cont c = h_cont a.
Proof.
  intros H G k rn r a d p cs w T FR Hv HIn Hk HT Hown Hnc.
  set (V := commit_view G).
  assert (SV : stepwise V) by (apply view_generated_stepwise; apply fine_run_view_generated with (H := H); exact FR).
  pose proof (run_transfer H V SV (fine_run_agree H G FR) k rn r Hv) as Hv'.
  set (TT := last_moment rn).
  pose proof (freeze_stepwise V TT SV) as SF.
  assert (F : fullpath_stable (freeze V TT)).
  { destruct (stepwise_fp_upto V SV TT) as [fp Hfp]. exists fp.
    intros t. unfold freeze. apply Hfp. apply Nat.le_min_r. }
  pose proof (run_hop_observed V k rn r a Hv' (hop_depths_In _ _ _ _ HIn)) as Ho.
  assert (Hlc : h_lock a <= h_check a) by apply Ho.
  assert (HcT : h_check a <= TT).
  { destruct (fold_max_ge (r_hops rn) (r_check rn)) as [_ F2]. apply F2. eapply hop_depths_In; exact HIn. }
  destruct (hops_on_path (freeze V TT) k rn r (stepwise_disciplined _ SF) (stepwise_stays_reachable _ SF) F
              (freeze_valid_run_ge V k rn r TT Hv' (le_n _)) a d HIn (h_check a) (conj Hlc (le_n _)))
    as (Hr & _ & c & Hc & Ew & Ec).
  rewrite freeze_before in Hr, Hc by exact HcT.
  assert (Hr0 : reach (V (h_check a)) (h_node a) (firstn d k)) by (apply Hr; right; eauto).
  assert (Hf : w_is_free (word c) = true) by (rewrite Ew; apply Ho).
  assert (Hcs : forall u, h_check a <= u <= T -> hp (V u) (h_node a) = Some c).
  { intros u [Hu1 Hu2]. induction Hu1 as [|u Hu1 IH]; [exact Hc|].
    destruct FR as [_ St].
    destruct (held_view_step _ _ _ _ (h_node a) w (St u)) as [E | Hoc].
    - apply Hown. lia.
    - unfold V, commit_view in *. rewrite E. apply IH. lia.
    - exfalso. apply (Hnc u); [lia | exact Hoc]. }
  split; [|split].
  - apply (stepwise_inode_stays V (h_node a) (h_check a) T c p cs); try assumption. congruence.
  - apply (run_hops_good (freeze V TT) k rn r (stepwise_disciplined _ SF) (stepwise_stays_reachable _ SF) F
             (freeze_valid_run_ge V k rn r TT Hv' (le_n _)) a d HIn).
  - exists c. split; [apply Hcs; lia | auto].
Qed.

Corollary writer_at_inode : forall H G k rn r a d p cs b w T,
  fine_run H G -> valid_run H k rn r -> In (a, d) (hop_depths 0 (r_hops rn)) ->
  h_cont a = CInode p cs -> prefix_at p d k -> nth_error k (d + length p) = Some b -> h_check a <= T ->
  (forall t, h_check a < t <= T -> owner (G t) (h_node a) = Some w) ->
  (forall t, h_check a <= t < T -> ~ own_commit (H t) (G t) w (G (S t))) ->
  exists c, at_inode (commit_view G T) k (h_node a) d c p cs b /\ word c = h_word a.
Proof.
  intros H G k rn r a d p cs b w T FR Hv HIn Hk Hp Hb HT Hown Hnc.
  destruct (writer_target_in_view H G k rn r a d p cs w T FR Hv HIn Hk HT Hown Hnc) as (Hr & Hd & c & Hc & Ew & Ec).
  exists c. split; [|exact Ew]. repeat split; try assumption. congruence.
Qed.

(** likewise for the root pointer, when the writer upgrades the root lock *)
Theorem writer_root_in_view : forall H G k rn r w T,
  fine_run H G -> valid_run H k rn r -> r_check rn <= T ->
  (forall t, r_check rn < t <= T -> rowner (G t) = Some w) ->
  (forall t, r_check rn <= t < T -> ~ own_commit (H t) (G t) w (G (S t))) ->
  root (commit_view G T) = r_ptr rn /\ root_word (commit_view G T) = r_word rn.
Proof.
  intros H G k rn r w T FR Hv HT Hown Hnc.
  set (V := commit_view G).
  assert (SV : stepwise V) by (apply view_generated_stepwise; apply fine_run_view_generated with (H := H); exact FR).
  destruct (run_transfer H V SV (fine_run_agree H G FR) k rn r Hv) as (Hle & Hf & W1 & W2 & Hroot & _).
  assert (E0 : root (V (r_check rn)) = r_ptr rn /\ root_word (V (r_check rn)) = r_word rn).
  { split; [|exact W2]. rewrite <- Hroot.
    apply (root_section V (r_lock rn) (r_check rn) (stepwise_disciplined V SV) Hle); [congruence | congruence | lia]. }
  assert (Hs : forall u, r_check rn <= u <= T -> root (V u) = r_ptr rn /\ root_word (V u) = r_word rn).
  { intros u [Hu1 Hu2]. induction Hu1 as [|u Hu1 IH]; [exact E0|].
    destruct FR as [_ St].
    destruct (held_root_view_step _ _ _ _ w (St u)) as [[E1 E2] | Hoc].
    - apply Hown. lia.
    - unfold V, commit_view in *. rewrite E1, E2. apply IH. lia.
    - exfalso. apply (Hnc u); [lia | exact Hoc]. }
  apply Hs. lia.
Qed.

(** any node (leaf or inner) the writer validated and holds since keeps, in
    the view, the cell the writer saw, and is still in the view's tree *)
Theorem writer_held_cell_in_view : forall H G k rn r a d w T,
  fine_run H G -> valid_run H k rn r -> In (a, d) (hop_depths 0 (r_hops rn)) -> h_check a <= T ->
  (forall t, h_check a < t <= T -> owner (G t) (h_node a) = Some w) ->
  (forall t, h_check a <= t < T -> ~ own_commit (H t) (G t) w (G (S t))) ->
  (exists pth, reach (commit_view G T) (h_node a) pth) /\
  exists c, hp (commit_view G T) (h_node a) = Some c /\ word c = h_word a /\ cont c = h_cont a.
Proof.
  intros H G k rn r a d w T FR Hv HIn HT Hown Hnc.
  set (V := commit_view G).
  assert (SV : stepwise V) by (apply view_generated_stepwise; apply fine_run_view_generated with (H := H); exact FR).
  pose proof (run_transfer H V SV (fine_run_agree H G FR) k rn r Hv) as Hv'.
  set (TT := last_moment rn).
  pose proof (freeze_stepwise V TT SV) as SF.
  assert (F : fullpath_stable (freeze V TT)).
  { destruct (stepwise_fp_upto V SV TT) as [fp Hfp]. exists fp.
    intros t. unfold freeze. apply Hfp. apply Nat.le_min_r. }
  pose proof (run_hop_observed V k rn r a Hv' (hop_depths_In _ _ _ _ HIn)) as Ho.
  assert (Hlc : h_lock a <= h_check a) by apply Ho.
  assert (HcT : h_check a <= TT).
  { destruct (fold_max_ge (r_hops rn) (r_check rn)) as [_ F2]. apply F2. eapply hop_depths_In; exact HIn. }
  destruct (hops_on_path (freeze V TT) k rn r (stepwise_disciplined _ SF) (stepwise_stays_reachable _ SF) F
              (freeze_valid_run_ge V k rn r TT Hv' (le_n _)) a d HIn (h_check a) (conj Hlc (le_n _)))
    as (_ & [pth Hr] & c & Hc & Ew & Ec).
  rewrite freeze_before in Hr, Hc by exact HcT.
  assert (Hf : w_is_free (word c) = true) by (rewrite Ew; apply Ho).
  assert (Hcs : forall u, h_check a <= u <= T -> hp (V u) (h_node a) = Some c).
  { intros u [Hu1 Hu2]. induction Hu1 as [|u Hu1 IH]; [exact Hc|].
    destruct FR as [_ St].
    destruct (held_view_step _ _ _ _ (h_node a) w (St u)) as [E | Hoc].
    - apply Hown. lia.
    - unfold V, commit_view in *. rewrite E. apply IH. lia.
    - exfalso. apply (Hnc u); [lia | exact Hoc]. }
  split.
  - apply (stepwise_stays_reachable V SV (h_check a) T (h_node a) pth HT Hr).
    intros u Hu. exists c. split; [apply Hcs; exact Hu | apply free_not_obsolete; exact Hf].
  - exists c. split; [apply Hcs; lia | auto].
Qed.

(** ** The view is the heap with the in-flight writers rolled back or forward *)

(** a node held by nobody has the view's cell (or is dead in both) *)
Theorem fine_unheld_cell : forall H G, fine_run H G -> forall t n cv,
  hp (commit_view G t) n = Some cv -> owner (G t) n = None ->
  exists ch, hp (H t) n = Some ch /\ (ch = cv \/ (word ch = 1%Z /\ word cv = 1%Z)).
Proof.
  intros H G FR t n cv Hc On. destruct (inv_cell _ _ (fine_run_inv H G FR t) n cv Hc) as (ch & Hch & E).
  exists ch. split; [exact Hch | apply E; exact On].
Qed.

(** rolled back: a node locked at moment tl (published, free word) and held
    since by a writer that has not passed a commit point has, in the view,
    the cell it had in the heap just before it was locked *)
Theorem fine_view_rolled_back : forall H G n c w tl T, fine_run H G ->
  hp (H tl) n = Some c -> w_is_free (word c) = true -> hp (commit_view G tl) n <> None -> tl <= T ->
  (forall t, tl < t <= T -> owner (G t) n = Some w) ->
  (forall t, tl <= t < T -> ~ own_commit (H t) (G t) w (G (S t))) ->
  hp (commit_view G T) n = Some c.
Proof.
  intros H G n c w tl T FR Hc Hf Hpub HT Hown Hnc.
  assert (E0 : hp (commit_view G tl) n = Some c).
  { destruct (hp (commit_view G tl) n) as [cv|] eqn:Hcv; [|contradiction].
    destruct (proj1 (fine_run_agree H G FR) tl n cv Hcv) as (ch & Hch & E).
    rewrite Hc in Hch. injection Hch as <-. rewrite (E Hf). reflexivity. }
  induction HT as [|T HT IH]; [exact E0|].
  destruct FR as [F0 St].
  destruct (held_view_step _ _ _ _ n w (St T)) as [E | Hoc].
  - apply Hown. lia.
  - unfold commit_view in *. rewrite E. apply IH; intros t Ht; [apply Hown | apply Hnc]; lia.
  - exfalso. apply (Hnc T); [lia | exact Hoc].
Qed.

(** ** Summary for a fine-grained history without its ghost *)
Theorem fine_generated_reader : forall H, fine_generated H ->
  exists V, view_generated V /\ agree H V /\
    (forall k rn r, valid_run H k rn r ->
       valid_run V k rn r /\ exists T, r_lock rn <= T <= last_moment rn /\ lookup (V T) k r) /\
    (forall t, (forall k r, lookup (V (S t)) k r <-> lookup (V t) k r) \/
               (exists k v, insert_effect k v (V t) (V (S t))) \/
               (exists k, remove_effect k (V t) (V (S t)))).
Proof.
  intros H [G FR]. exists (commit_view G).
  split; [apply fine_run_view_generated with (H := H); exact FR|].
  split; [apply fine_run_agree; exact FR|]. split.
  - intros k rn r Hv. split; [eapply fine_run_transfer; eassumption | eapply fine_reader_linearizable; eassumption].
  - eapply fine_view_map_steps; exact FR.
Qed.

(** without version bumps the view is a generated history of Olc/WriteModel.v *)
Lemma view_commits_only_generated : forall V, view_generated V ->
  (forall t, V (S t) = V t \/ exists k, commit k (V t) (V (S t))) -> generated V.
Proof. intros V [I _] Hs. split; assumption. Qed.

Print Assumptions fine_reader_linearizable.
Print Assumptions fine_view_map_steps.
Print Assumptions writer_at_inode.
Print Assumptions fine_generated_reader.
Print Assumptions writer_held_cell_in_view.
Print Assumptions writer_root_in_view.
Print Assumptions fine_quiescent_lookup.
Print Assumptions fine_view_rolled_back.
