(** Consequences of trace acceptance for the OLC index (per node: the C07
    theorems; globally: a write-guard holder never waits). *)
From Coq Require Import List ZArith Bool Lia.
From Unodb Require Import Lock.LockModel Lock.LockProofs Olc.OlcTrace.
Import ListNotations.
Local Open Scope Z_scope.

Lemma node_accepts_lrun inits tr b s0 :
  node_accepts inits tr = true -> In (b, s0) inits -> exists s, lrun s0 (project b tr) = Some s.
Proof.
  unfold node_accepts. rewrite forallb_forall. intros H Hin. specialize (H _ Hin). cbn [fst snd] in H.
  destruct (lrun s0 (project b tr)) as [s|]; [eauto|discriminate].
Qed.

(** every prefix of an accepted node projection is accepted (the acceptor is prefix-closed) *)
Lemma lrun_prefix s a b s' : lrun s (a ++ b) = Some s' -> exists s1, lrun s a = Some s1 /\ lrun s1 b = Some s'.
Proof. rewrite lrun_app. destruct (lrun s a) as [s1|]; [eauto|discriminate]. Qed.

(** C07_snapshot for an arbitrary node: if the node's state satisfies the
    lock invariant when the section is opened at a free word v and a later
    check sees v again, nothing was written to the node in between *)
Theorem node_snapshot s0 m s2 v :
  LInv s0 -> lw s0 = v -> w_is_free v = true -> lrun s0 m = Some s2 -> lw s2 = v ->
  Forall (fun s => lw s = v /\ lmem s = lmem s0 /\ guards s = []) (lstates s0 m).
Proof. apply snapshot_gen. Qed.

(** the lock invariant is preserved along every accepted node projection *)
Theorem node_inv inits tr b s0 s :
  node_accepts inits tr = true -> In (b, s0) inits -> LInv s0 -> lrun s0 (project b tr) = Some s -> LInv s.
Proof. intros _ _ I H. eapply lrun_inv; eauto. Qed.

(** C14: a thread holding a write guard cannot take a waiting step *)
Lemma held_after_cons held b x tr :
  held_after held ((b, x) :: tr) = held_after (held_after held [(b, x)]) tr.
Proof. destruct x as [| | |? ? [|]| | | |]; reflexivity. Qed.

Lemma no_wait_app_spin held tr b t :
  no_wait_while_holding held (tr ++ [(b, ESpin t)]) =
  no_wait_while_holding held tr && negb (holds_any (held_after held tr) t).
Proof.
  revert held; induction tr as [|[b' x] tr IH]; intros held; cbn [app no_wait_while_holding].
  - cbn. now rewrite andb_true_r.
  - rewrite IH, (held_after_cons held b' x tr). now rewrite andb_assoc.
Qed.

Theorem holder_never_waits inits tr t b :
  olc_trace_ok inits tr = true -> holds_any (held_after [] tr) t = true ->
  olc_trace_ok inits (tr ++ [(b, ESpin t)]) = false.
Proof.
  unfold olc_trace_ok. intros H Hh. apply andb_true_iff in H as [_ H2].
  rewrite no_wait_app_spin, H2, Hh. cbn. apply andb_false_r.
Qed.
