(** C03 (reader side): proofs for Olc/ReadModel.v.

    - lookup is a function of the heap (lookup_deterministic);
    - every hop of a valid run is in the tree with the cell the reader saw
      throughout its section, on the search path of the key at its lock
      moment, and -- for inner nodes -- on that same path throughout the
      section (hops_on_path);
    - the result of the run is the result of a lookup at the moment the last
      hop was locked (reader_linearizable). *)
From Coq Require Import List ZArith Bool Arith Lia.
From Unodb Require Import Lock.LockModel Olc.ReadModel.
Import ListNotations.
Local Open Scope Z_scope.
Local Open Scope nat_scope.

(** ** Lock words *)

Lemma free_not_obsolete : forall v, w_is_free v = true -> w_is_obsolete v = false.
Proof.
  unfold w_is_free, w_is_obsolete. intros v Hf.
  destruct (Z.eqb_spec v 1%Z) as [E|E]; [|reflexivity].
  subst v. cbv in Hf. discriminate.
Qed.

(** ** Lists *)

Lemma firstn_app_exact : forall (A : Type) (a b : list A), firstn (length a) (a ++ b) = a.
Proof. induction a as [|x a IH]; intros b; cbn; [reflexivity | f_equal; apply IH]. Qed.

Lemma skipn_app_exact : forall (A : Type) (a b : list A), skipn (length a) (a ++ b) = b.
Proof. induction a as [|x a IH]; intros b; cbn; [reflexivity | apply IH]. Qed.

Lemma nth_error_app_exact : forall (A : Type) (a b : list A) x, nth_error (a ++ x :: b) (length a) = Some x.
Proof. induction a as [|y a IH]; intros b x; cbn; [reflexivity | apply IH]. Qed.

Lemma path_extend0 : forall (p k : list Z) b,
  firstn (length p) k = p -> nth_error k (length p) = Some b ->
  p ++ [b] = firstn (length p + 1) k /\ length p + 1 <= length k.
Proof.
  induction p as [|x p IH]; intros k b Hp Hn.
  - destruct k as [|y k]; cbn in Hn; [discriminate|]. injection Hn as Hn. subst y.
    cbn. split; [reflexivity | lia].
  - destruct k as [|y k]; cbn in Hn; [discriminate|].
    cbn in Hp. injection Hp as Hx Hp'. subst y.
    destruct (IH k b Hp' Hn) as [E L]. split.
    + cbn. f_equal. exact E.
    + cbn. lia.
Qed.

(** going down one inner node extends the consumed part of the key *)
Lemma path_extend : forall d (k p : list Z) b,
  prefix_at p d k -> nth_error k (d + length p) = Some b ->
  firstn d k ++ p ++ [b] = firstn (d + length p + 1) k /\ d + length p + 1 <= length k.
Proof.
  induction d as [|d IH]; intros k p b Hp Hn.
  - unfold prefix_at in Hp. cbn in Hp. cbn [Nat.add] in *. cbn [firstn app]. apply path_extend0; assumption.
  - destruct k as [|y k]; [cbn in Hn; discriminate|].
    unfold prefix_at in Hp. cbn [skipn] in Hp. cbn [Nat.add nth_error] in Hn.
    destruct (IH k p b Hp Hn) as [E L]. split.
    + cbn [Nat.add firstn app]. f_equal. exact E.
    + cbn [length]. lia.
Qed.

(** conversely, a consumed part that ends with prefix ++ [byte] *)
Lemma path_split : forall d (k pth p : list Z) b,
  firstn d k = pth ++ p ++ [b] -> d <= length k ->
  pth = firstn (length pth) k /\ prefix_at p (length pth) k /\
  nth_error k (length pth + length p) = Some b /\
  d = length pth + length p + 1 /\ length pth <= length k.
Proof.
  intros d k pth p b Hf Hd.
  assert (Hlen : d = length pth + length p + 1).
  { pose proof (firstn_length_le k Hd) as L. rewrite Hf in L. rewrite !app_length in L. cbn in L. lia. }
  pose proof (firstn_skipn d k) as E. rewrite Hf in E.
  remember (skipn d k) as s eqn:Hs. clear Hs Hf Hd.
  subst k. repeat split.
  - rewrite <- app_assoc. symmetry. apply firstn_app_exact.
  - unfold prefix_at. rewrite <- app_assoc. rewrite skipn_app_exact. rewrite <- app_assoc. apply firstn_app_exact.
  - replace ((pth ++ p ++ [b]) ++ s) with ((pth ++ p) ++ b :: s) by (rewrite <- !app_assoc; reflexivity).
    rewrite <- app_length. apply nth_error_app_exact.
  - exact Hlen.
  - rewrite !app_length. lia.
Qed.

(** ** (E) lookup is a function *)

Lemma lookup_rel_fun : forall h k n d r1, lookup_rel h k n d r1 ->
  forall r2, lookup_rel h k n d r2 -> r1 = r2.
Proof.
  intros h k n d r1 H1.
  induction H1 as [n d c v Hc Hk | n d c k' v Hc Hk Hne | n d c p cs Hc Hk Hnp
                  | n d c p cs Hc Hk Hp Hn | n d c p cs c' r Hc Hk Hp Hn Hl IH];
    intros r2 H2; inversion H2 as [n0 d0 c0 v0 Hc0 Hk0 | n0 d0 c0 k0 v0 Hc0 Hk0 Hne0 | n0 d0 c0 p0 cs0 Hc0 Hk0 Hnp0
                  | n0 d0 c0 p0 cs0 Hc0 Hk0 Hp0 Hn0 | n0 d0 c0 p0 cs0 c0' r0 Hc0 Hk0 Hp0 Hn0 Hl0]; subst;
    rewrite Hc in Hc0; injection Hc0 as Hc0; subst c0;
    rewrite Hk in Hk0; try discriminate; injection Hk0 as ?; subst;
    try reflexivity; try contradiction; try congruence.
  apply IH. rewrite Hn in Hn0. injection Hn0 as Hn0. subst. exact Hl0.
Qed.

Theorem lookup_deterministic : forall g k r1 r2, lookup g k r1 -> lookup g k r2 -> r1 = r2.
Proof.
  unfold lookup. intros g k r1 r2 H1 H2. destruct (root g) as [n|].
  - eapply lookup_rel_fun; eassumption.
  - congruence.
Qed.

(** ** (C) a lookup from a node on the search path is a lookup from the root *)

Lemma reach_lookup : forall g k n pth, reach g n pth ->
  forall d, pth = firstn d k -> d <= length k ->
  forall r, lookup_rel (hp g) k n d r -> lookup g k r.
Proof.
  intros g k n pth Hr.
  induction Hr as [n Hroot | n pth c p cs b c' Hr IH Hc Hcont Hf]; intros d Hp Hd r Hl.
  - assert (d = 0) as ->.
    { destruct d as [|d]; [reflexivity|]. destruct k; cbn in Hp, Hd; [lia | discriminate]. }
    unfold lookup. rewrite Hroot. exact Hl.
  - symmetry in Hp. destruct (path_split _ _ _ _ _ Hp Hd) as (P1 & P2 & P3 & P4 & P5).
    apply (IH (length pth) P1 P5 r).
    eapply lr_step.
    + exact Hc.
    + exact Hcont.
    + exact P2.
    + unfold next_child. rewrite P3. exact Hf.
    + rewrite <- P4. exact Hl.
Qed.

(** ** (A) sections are stable *)

Lemma section_cell : forall H a, disciplined H -> hop_observed H a ->
  forall t, h_lock a <= t <= h_check a ->
  exists c, hp (H t) (h_node a) = Some c /\ word c = h_word a /\ cont c = h_cont a.
Proof.
  intros H a [Hd _] (Hle & Hfree & (c1 & Hc1 & Hw1 & Hk1) & (c2 & Hc2 & Hw2)) t Ht.
  exists c1. split; [|split; assumption].
  apply (Hd (h_node a) (h_lock a) (h_check a) c1 c2 Hle Hc1 Hc2); [congruence | rewrite Hw1; exact Hfree | exact Ht].
Qed.

Lemma root_section : forall H t1 t2, disciplined H -> t1 <= t2 ->
  root_word (H t1) = root_word (H t2) -> w_is_free (root_word (H t1)) = true ->
  forall t, t1 <= t <= t2 -> root (H t) = root (H t1).
Proof. intros H t1 t2 [_ Hd] Hle Hw Hf t Ht. eapply Hd; eassumption. Qed.

Lemma section_reach : forall H a pth, disciplined H -> stays_reachable H -> hop_observed H a ->
  reach (H (h_lock a)) (h_node a) pth ->
  forall t, h_lock a <= t <= h_check a -> exists pth', reach (H t) (h_node a) pth'.
Proof.
  intros H a pth Hd Hs Ho Hr t Ht.
  apply (Hs (h_lock a) t (h_node a) pth); [lia | exact Hr |].
  intros u Hu. destruct (section_cell H a Hd Ho u) as (c & Hc & Hw & _); [lia|].
  exists c. split; [exact Hc|]. apply free_not_obsolete. rewrite Hw.
  destruct Ho as (_ & Hfree & _). exact Hfree.
Qed.

Lemma section_reach_inode : forall H a pth p cs,
  disciplined H -> stays_reachable H -> fullpath_stable H -> hop_observed H a ->
  h_cont a = CInode p cs -> reach (H (h_lock a)) (h_node a) pth ->
  forall t, h_lock a <= t <= h_check a -> reach (H t) (h_node a) pth.
Proof.
  intros H a pth p cs Hd Hs [fp Hfp] Ho Hk Hr t Ht.
  destruct (section_reach H a pth Hd Hs Ho Hr t Ht) as [pth' Hr'].
  destruct (section_cell H a Hd Ho t Ht) as (ct & Hct & _ & Hkt).
  assert (Hl : h_lock a <= h_lock a <= h_check a) by lia.
  destruct (section_cell H a Hd Ho _ Hl) as (c0 & Hc0 & _ & Hk0).
  rewrite Hk in Hkt, Hk0.
  pose proof (Hfp _ _ _ _ _ _ Hr Hc0 Hk0) as E0.
  pose proof (Hfp _ _ _ _ _ _ Hr' Hct Hkt) as Et.
  rewrite <- E0 in Et. apply app_inv_tail in Et. subst pth'. exact Hr'.
Qed.

(** ** (B) the hops *)

Definition hop_good (H : history) (k : key) (a : hop) (d : nat) : Prop :=
  forall t, h_lock a <= t <= h_check a ->
    ((t = h_lock a \/ exists p cs, h_cont a = CInode p cs) -> reach (H t) (h_node a) (firstn d k)) /\
    (exists pth, reach (H t) (h_node a) pth) /\
    exists c, hp (H t) (h_node a) = Some c /\ word c = h_word a /\ cont c = h_cont a.

Lemma first_hop_good : forall H k a d,
  disciplined H -> stays_reachable H -> fullpath_stable H -> hop_observed H a ->
  reach (H (h_lock a)) (h_node a) (firstn d k) -> hop_good H k a d.
Proof.
  intros H k a d Hd Hs Hfp Ho Hr t Ht. split; [|split].
  - intros [-> | (p & cs & Hk)]; [exact Hr|].
    eapply section_reach_inode; eassumption.
  - eapply section_reach; eassumption.
  - apply section_cell; assumption.
Qed.

Lemma hops_ok_head : forall H k d tl tc a rest r, hops_ok H k d tl tc (a :: rest) r ->
  hop_observed H a /\ tl <= h_lock a <= tc.
Proof. intros H k d tl tc a rest r Hok. inversion Hok; subst; split; assumption. Qed.

Lemma hop_depths_cons_inode : forall d a l p cs, h_cont a = CInode p cs ->
  hop_depths d (a :: l) = (a, d) :: hop_depths (d + length p + 1) l.
Proof. intros d a l p cs E. cbn [hop_depths]. rewrite E. reflexivity. Qed.

Lemma hops_ok_good : forall H k, disciplined H -> stays_reachable H -> fullpath_stable H ->
  forall d tl tc l r, hops_ok H k d tl tc l r -> d <= length k ->
  match l with a :: _ => reach (H (h_lock a)) (h_node a) (firstn d k) | [] => True end ->
  forall b db, In (b, db) (hop_depths d l) -> hop_good H k b db /\ db <= length k /\ tl <= h_lock b.
Proof.
  intros H k Hd Hs Hfp d tl tc l r Hok.
  induction Hok as [d tl tc a r Ho Hin Hst | d tl tc a b rest p cs r Ho Hin Hk Hp Hn Hok IH];
    intros Hdk Hr x dx HIn.
  - cbn in HIn. destruct HIn as [E|[]]. injection E as <- <-.
    split; [|split; [exact Hdk | lia]]. apply first_hop_good; assumption.
  - rewrite (hop_depths_cons_inode _ _ _ _ _ Hk) in HIn.
    pose proof (first_hop_good H k a d Hd Hs Hfp Ho Hr) as Ga.
    destruct HIn as [E|HIn].
    + injection E as <- <-. split; [exact Ga | split; [exact Hdk | lia]].
    + destruct (hops_ok_head _ _ _ _ _ _ _ _ Hok) as [Hob Hinb].
      unfold next_child in Hn. destruct (nth_error k (d + length p)) as [byte|] eqn:Hnth; [|discriminate].
      destruct (path_extend d k p byte Hp Hnth) as [Epath Elen].
      destruct (Ga (h_lock b) Hinb) as (Rb & _ & (cb & Hcb & _ & Hkb)).
      assert (Rb' : reach (H (h_lock b)) (h_node a) (firstn d k)).
      { apply Rb. right. eauto. }
      rewrite Hk in Hkb.
      assert (Rchild : reach (H (h_lock b)) (h_node b) (firstn (d + length p + 1) k)).
      { rewrite <- Epath. eapply reach_child; eassumption. }
      destruct (IH Elen Rchild x dx HIn) as (G & L1 & L2).
      split; [exact G | split; [exact L1 | lia]].
Qed.

Lemma hops_ok_last : forall H k d tl tc l r, hops_ok H k d tl tc l r ->
  exists a da, In (a, da) (hop_depths d l) /\ In a l /\ stops k da (h_cont a) r /\ h_lock a <= h_check a.
Proof.
  intros H k d tl tc l r Hok.
  induction Hok as [d tl tc a r Ho Hin Hst | d tl tc a b rest p cs r Ho Hin Hk Hp Hn Hok IH].
  - exists a, d. destruct Ho as (Hle & _). cbn. auto.
  - destruct IH as (x & dx & I1 & I2 & St & Le). exists x, dx.
    rewrite (hop_depths_cons_inode _ _ _ _ _ Hk). repeat split.
    + right. exact I1.
    + right. exact I2.
    + exact St.
    + exact Le.
Qed.

Lemma run_hops_good : forall H k rn r,
  disciplined H -> stays_reachable H -> fullpath_stable H -> valid_run H k rn r ->
  forall a d, In (a, d) (hop_depths 0 (r_hops rn)) ->
    hop_good H k a d /\ d <= length k /\ r_lock rn <= h_lock a.
Proof.
  intros H k rn r Hd Hs Hfp (Hle & Hfree & W1 & W2 & Hroot & M) a d HIn.
  destruct (r_ptr rn) as [n|] eqn:Hptr.
  - destruct M as (a0 & rest & Eh & En & Hok). rewrite Eh in HIn.
    destruct (hops_ok_head _ _ _ _ _ _ _ _ Hok) as [_ Hin0].
    eapply hops_ok_good; try eassumption; [lia|].
    cbn [firstn]. apply reach_root.
    rewrite (root_section H (r_lock rn) (r_check rn) Hd Hle); [congruence | congruence | rewrite W1; exact Hfree | exact Hin0].
  - destruct M as [Eh _]. rewrite Eh in HIn. cbn in HIn. contradiction.
Qed.

(** every hop of a valid run is in the tree with the cell the reader saw at
    every moment of its section; it is on the search path of the key (reached
    after exactly the consumed key bytes) at its lock moment, and, if it is an
    inner node, at every moment of its section *)
Theorem hops_on_path : forall H k rn r,
  disciplined H -> stays_reachable H -> fullpath_stable H -> valid_run H k rn r ->
  forall a d, In (a, d) (hop_depths 0 (r_hops rn)) ->
  forall t, h_lock a <= t <= h_check a ->
    ((t = h_lock a \/ exists p cs, h_cont a = CInode p cs) -> reach (H t) (h_node a) (firstn d k)) /\
    (exists pth, reach (H t) (h_node a) pth) /\
    exists c, hp (H t) (h_node a) = Some c /\ word c = h_word a /\ cont c = h_cont a.
Proof.
  intros H k rn r Hd Hs Hfp Hv a d HIn.
  destruct (run_hops_good H k rn r Hd Hs Hfp Hv a d HIn) as (G & _ & _). exact G.
Qed.

(** ** (D) linearization point *)

Lemma fold_max_ge : forall (l : list hop) m,
  m <= fold_left (fun m a => Nat.max m (h_check a)) l m /\
  forall a, In a l -> h_check a <= fold_left (fun m a => Nat.max m (h_check a)) l m.
Proof.
  induction l as [|x l IH]; intros m; cbn [fold_left].
  - split; [lia | intros a []].
  - destruct (IH (Nat.max m (h_check x))) as [I1 I2]. split; [lia|].
    intros a [<- | Ha]; [lia | apply I2; exact Ha].
Qed.

Lemma stops_lookup_rel : forall (h : nid -> option cell) k n d c r,
  h n = Some c -> stops k d (cont c) r -> lookup_rel h k n d r.
Proof.
  intros h k n d c r Hc Hst. remember (cont c) as ct eqn:Hk. symmetry in Hk.
  destruct Hst as [v | k' v Hne | p cs Hnp | p cs Hp Hn].
  - eapply lr_leaf_hit; eassumption.
  - eapply lr_leaf_miss; eassumption.
  - eapply lr_prefix_miss; eassumption.
  - eapply lr_no_child; eassumption.
Qed.

Theorem reader_linearizable : forall H k rn r,
  disciplined H -> stays_reachable H -> fullpath_stable H -> valid_run H k rn r ->
  exists T, r_lock rn <= T <= last_moment rn /\ lookup (H T) k r.
Proof.
  intros H k rn r Hd Hs Hfp Hv.
  pose proof (run_hops_good H k rn r Hd Hs Hfp Hv) as G.
  destruct Hv as (Hle & Hfree & W1 & W2 & Hroot & M).
  destruct (r_ptr rn) as [n|] eqn:Hptr.
  - destruct M as (a0 & rest & Eh & En & Hok).
    destruct (hops_ok_last _ _ _ _ _ _ _ Hok) as (x & dx & I1 & I2 & St & Le).
    rewrite <- Eh in I1, I2.
    destruct (G x dx I1) as (Gx & Ldx & Lx).
    exists (h_lock x). split.
    + split; [exact Lx|]. unfold last_moment.
      destruct (fold_max_ge (r_hops rn) (r_check rn)) as [_ F]. specialize (F x I2). lia.
    + destruct (Gx (h_lock x)) as (R & _ & (c & Hc & _ & Hk)); [lia|].
      apply (reach_lookup (H (h_lock x)) k (h_node x) (firstn dx k)) with (d := dx).
      * apply R. left. reflexivity.
      * reflexivity.
      * exact Ldx.
      * eapply stops_lookup_rel; [exact Hc | rewrite Hk; exact St].
  - destruct M as [Eh ->]. exists (r_lock rn). split.
    + unfold last_moment. rewrite Eh. cbn. lia.
    + unfold lookup. rewrite Hroot. reflexivity.
Qed.

Print Assumptions lookup_deterministic.
Print Assumptions hops_on_path.
Print Assumptions reader_linearizable.
