(** C09d: the REVERSE direction of the OLC iterator (olc_art.hpp, class
    olc_db::iterator: try_prior, try_last, try_right_most_traversal, the
    reverse branches of try_seek, prior() with its re-seek fallback), in the
    framework of Olc/ReadModel.v and Olc/IterModel.v (history of heaps,
    iterator stack, lock-coupled descents).  Definitions only; proofs in
    Olc/IterRevProofs.v, IterRevSeek.v, IterRevScan.v.

    The direction-independent parts of Olc/IterModel.v are reused as they
    are: stack entries [sentry], positions [ipos] / [pos_ok], descents
    [descent], the descent from the root [root_down] and the search phase of
    try_seek [seek_down] (the search phase is the same code for both
    directions).  What is new, mirroring the C++ function by function:

    - [rightmost]: try_right_most_traversal pushes inode->last(), the child
      with the greatest key byte (forward: begin(), index 0);
    - [rpopped_ok] / [down_some] / [down_none]: the loop of try_prior: an
      entry is popped when inode->prior(child_index) is empty, i.e. the child
      index is 0 (forward: no index + 1); the pivot moves to index - 1 and a
      right-most descent follows;
    - the endings of try_seek with fwd = false:
        leaf, cmp_ >= 0 (search key >= leaf key): positioned on the leaf;
        leaf, cmp_ <  0: try_prior() from the leaf;
        key prefix mismatch, search key byte < prefix byte: left-most
          descent, then try_prior() (every key below the node is greater:
          [seek_dead_rev]; the entries pushed by the left-most descent all
          have index 0 and are popped again, they are not part of the
          observations, exactly as the forward model treats the right-most
          descent of its mirror case);
        key prefix mismatch, search key byte > prefix byte: right-most
          descent from the node;
        no child for the key byte, lte_key_byte finds a smaller one: that
          entry is pushed, right-most descent below its child;
        no child for the key byte, lte_key_byte finds nothing: try_prior()
          on the stack (the top entry is the parent's);
    - the upper bound of a reverse query is a key (inclusive for seek,
      exclusive for prior) or +infinity (try_last): [ubound];
    - the result notion: an interval PREDECESSOR query [rquery];
    - positions whose stack holds only a leaf (the root pointer points to a
      leaf: a one-entry tree): [leafpos_ok], and the empty tree. *)
From Coq Require Import List ZArith Bool Arith Sorted.
From Unodb Require Import Base.Lex Lock.LockModel Olc.ReadModel Olc.IterModel.
Import ListNotations.
Local Open Scope Z_scope.

(** ** Upper bounds and predecessor queries *)

Inductive ubound := UInf | UKey (strict : bool) (hi : key).

Definition below (u : ubound) (x : key) : Prop :=
  match u with
  | UInf => True
  | UKey true hi => lex_lt x hi
  | UKey false hi => lex_le x hi
  end.

(** atomic: r is the entry with the greatest key below the bound in g *)
Definition last_query (g : gstate) (u : ubound) (r : option (key * val)) : Prop :=
  match r with
  | Some (k, v) => below u k /\ entry g k v /\ forall x, below u x -> lex_lt k x -> ~ has_key g x
  | None => forall x, below u x -> ~ has_key g x
  end.

Definition pred_query (g : gstate) (k : key) (r : option (key * val)) : Prop := last_query g (UKey true k) r.

(** interval: within the moments [t1, t2] the delivered entry is in the tree
    at some moment, and every key below the bound and above the delivered key
    is absent at some moment; [None]: every key below the bound is absent at
    some moment *)
Definition rquery (H : history) (t1 t2 : nat) (u : ubound) (r : option (key * val)) : Prop :=
  match r with
  | Some (k, v) => below u k /\ (exists T, (t1 <= T <= t2)%nat /\ entry (H T) k v) /\
                   forall x, below u x -> lex_lt k x -> absent_within H t1 t2 x
  | None => forall x, below u x -> absent_within H t1 t2 x
  end.

(** ** try_right_most_traversal: every entry pushed is the last child *)

Definition rightmost (hs : list ihop) : Prop :=
  Forall (fun i => nth_error (e_cs (ih_e i)) (S (e_idx (ih_e i))) = None) hs.

(** ** A successful try_prior *)

(** an entry that was popped because inode->prior(child_index) is empty: its
    word was the saved one again at the check moment (snd p), child index 0 *)
Definition rpopped_ok (H : history) (t0 : nat) (p : sentry * nat) : Prop :=
  (e_at (fst p) <= t0 <= snd p)%nat /\ word_again H (e_node (fst p)) (e_word (fst p)) (snd p) /\
  e_idx (fst p) = 0%nat.

(** the pivot entry after the step: child index - 1 *)
Definition retreat (e : sentry) (b : Z) (c : nid) : sentry :=
  {| e_node := e_node e; e_pth := e_pth e; e_pre := e_pre e; e_cs := e_cs e;
     e_idx := Nat.pred (e_idx e); e_byte := b; e_child := c; e_word := e_word e; e_at := e_at e |}.

(** the loop of try_prior on a stack st of inner entries, started no earlier
    than t0: the entries pops are re-validated, have child index 0 and are
    popped; the pivot pv has a prior child (b', c') and is re-validated until
    tc (its last check is the try_read_unlock in try_right_most_traversal
    after the child was read-locked); right-most descent hs / a below c' *)
Record down_some (H : history) (st : list sentry) (t0 : nat) (pops : list (sentry * nat))
    (pv : sentry) (tc : nat) (b' : Z) (c' : nid) (rest : list sentry)
    (hs : list ihop) (a : hop) (q : list Z) (k' : key) (v' : val) : Prop := {
  dn_stack : st = map fst pops ++ pv :: rest;
  dn_pops : Forall (rpopped_ok H t0) pops;
  dn_pv_t : (e_at pv <= t0 <= tc)%nat;
  dn_pv_w : word_again H (e_node pv) (e_word pv) tc;
  dn_pos : (0 < e_idx pv)%nat;
  dn_prev : nth_error (e_cs pv) (Nat.pred (e_idx pv)) = Some (b', c');
  dn_desc : descent H t0 tc c' (e_pth pv ++ e_pre pv ++ [b']) hs a q;
  dn_right : rightmost hs;
  dn_cont : h_cont a = CLeaf k' v' }.

(** ... every entry is popped: the stack is empty, the iterator is at the end *)
Record down_none (H : history) (st : list sentry) (t0 : nat) (pops : list (sentry * nat)) : Prop := {
  dz_stack : st = map fst pops;
  dz_pops : Forall (rpopped_ok H t0) pops }.

Definition prior_pos (pv : sentry) (b' : Z) (c' : nid) (rest : list sentry)
    (hs : list ihop) (a : hop) (k' : key) (v' : val) : ipos :=
  {| ip_leaf := h_node a; ip_key := k'; ip_val := v'; ip_word := h_word a; ip_at := h_lock a;
     ip_stack := rev (map ih_e hs) ++ retreat pv b' c' :: rest |}.

(** try_prior from a position: the leaf is re-validated and popped, then the loop *)
Definition prior_some (H : history) (pos : ipos) (t0 : nat) (pops : list (sentry * nat))
    (pv : sentry) (tc : nat) (b' : Z) (c' : nid) (rest : list sentry)
    (hs : list ihop) (a : hop) (q : list Z) (k' : key) (v' : val) : Prop :=
  leaf_again H pos t0 /\ down_some H (ip_stack pos) t0 pops pv tc b' c' rest hs a q k' v'.

Definition prior_none (H : history) (pos : ipos) (t0 : nat) (pops : list (sentry * nat)) : Prop :=
  leaf_again H pos t0 /\ down_none H (ip_stack pos) t0 pops.

(** ** try_last: the root pointer section, then a right-most descent to a leaf *)
Definition last_down (H : history) (rl : nat) (rw : Z) (rc : nat) (n0 : nid)
    (hs : list ihop) (a : hop) (q : list Z) (k : key) (v : val) : Prop :=
  root_down H rl rw rc n0 hs a q /\ rightmost hs /\ h_cont a = CLeaf k v.

(** ** The endings of try_seek, fwd = false *)

(** the last node of the search phase is an inner node below which every key
    is greater than hi (then try_prior runs on the stack) *)
Definition seek_dead_rev (hi : key) (a : hop) (q : list Z) : Prop :=
  exists p cs, h_cont a = CInode p cs /\
    forall bx cx r, find_child bx cs = Some cx -> lex_lt hi (q ++ p ++ bx :: r).

(** ... the two ways it arises: no child for the next byte beta of hi and all
    children bytes are greater (lte_key_byte found nothing); the key prefix
    differs from hi at a byte that is greater than the one of hi
    ([seek_prefix_lt] of Olc/IterModel.v: w < u) *)
Definition seek_no_lte (hi : key) (a : hop) (q : list Z) : Prop :=
  exists p cs beta r, h_cont a = CInode p cs /\ hi = q ++ p ++ beta :: r /\
    forall bx cx, find_child bx cs = Some cx -> beta < bx.

(** ending: the key prefix differs from hi at a byte that is smaller than the
    one of hi: [seek_prefix_gt] of Olc/IterModel.v (u < w); right-most descent *)

(** ending: no child for the next byte beta of hi, the last child with a
    smaller byte is at index e_idx en (lte_key_byte scans from the greatest
    byte downwards); the entry pushed for the node *)
Definition seek_lte (hi : key) (a : hop) (q : list Z) (en : sentry) : Prop :=
  exists r beta, h_cont a = CInode (e_pre en) (e_cs en) /\ hi = q ++ e_pre en ++ beta :: r /\
    nth_error (e_cs en) (e_idx en) = Some (e_byte en, e_child en) /\ e_byte en < beta /\
    (forall j bj cj, (e_idx en < j)%nat -> nth_error (e_cs en) j = Some (bj, cj) -> beta < bj) /\
    e_node en = h_node a /\ e_pth en = q /\ e_word en = h_word a /\ e_at en = h_lock a.

(** a successful reverse [seek hi] that positions the iterator: started at rl
    (root pointer read-locked), its query interval [t1, t2], the position.
    [rs_hit] includes the root pointer pointing to a leaf (hs = []). *)
Inductive rseek_result (H : history) (hi : key) : nat -> nat -> nat -> ipos -> Prop :=
| rs_hit : forall rl rw rc n0 hs a q k v,
    seek_down H hi rl rw rc n0 hs a q -> h_cont a = CLeaf k v -> lex_le k hi ->
    rseek_result H hi rl (h_lock a) (h_lock a) (seek_pos hs a k v)
| rs_gt : forall rl rw rc n0 hs a q kr vr t0 pops pv tc b' c' rest hs2 a2 q2 k' v',
    seek_down H hi rl rw rc n0 hs a q -> h_cont a = CLeaf kr vr -> lex_lt hi kr ->
    prior_some H (seek_pos hs a kr vr) t0 pops pv tc b' c' rest hs2 a2 q2 k' v' ->
    rseek_result H hi rl t0 (h_lock a2) (prior_pos pv b' c' rest hs2 a2 k' v')
| rs_dead : forall rl rw rc n0 hs a q pops pv tc b' c' rest hs2 a2 q2 k' v',
    seek_down H hi rl rw rc n0 hs a q -> seek_dead_rev hi a q ->
    down_some H (seek_stack hs) (h_lock a) pops pv tc b' c' rest hs2 a2 q2 k' v' ->
    rseek_result H hi rl (h_lock a) (h_lock a2) (prior_pos pv b' c' rest hs2 a2 k' v')
| rs_prefix : forall rl rw rc n0 hs a q hs2 a2 q2 k' v',
    seek_down H hi rl rw rc n0 hs a q -> seek_prefix_gt hi a q ->
    descent H (h_lock a) (h_check a) (h_node a) q hs2 a2 q2 -> rightmost hs2 -> h_cont a2 = CLeaf k' v' ->
    rseek_result H hi rl (h_lock a) (h_lock a2) (desc_pos hs2 a2 k' v' (seek_stack hs))
| rs_lte : forall rl rw rc n0 hs a q en hs2 a2 q2 k' v',
    seek_down H hi rl rw rc n0 hs a q -> seek_lte hi a q en ->
    descent H (h_lock a) (h_check a) (e_child en) (e_cpath en) hs2 a2 q2 -> rightmost hs2 ->
    h_cont a2 = CLeaf k' v' ->
    rseek_result H hi rl (h_lock a) (h_lock a2) (desc_pos hs2 a2 k' v' (en :: seek_stack hs)).

(** the moment at which "nothing below the bound" holds when try_prior empties
    the stack: the re-validation moment t0 of the leaf - or, when the stack
    held only the leaf (the root pointer pointed to it), the moment the leaf
    was read-locked under the root pointer's section *)
Definition end_moment (pos : ipos) (t0 : nat) : nat :=
  match ip_stack pos with [] => ip_at pos | _ :: _ => t0 end.

(** a successful reverse [seek hi] that ends with an empty stack, decided at moment T *)
Inductive rseek_end (H : history) (hi : key) : nat -> nat -> Prop :=
| re_empty : forall rl, root (H rl) = None -> rseek_end H hi rl rl
| re_gt : forall rl rw rc n0 hs a q kr vr t0 pops,
    seek_down H hi rl rw rc n0 hs a q -> h_cont a = CLeaf kr vr -> lex_lt hi kr ->
    prior_none H (seek_pos hs a kr vr) t0 pops -> rseek_end H hi rl (end_moment (seek_pos hs a kr vr) t0)
| re_dead : forall rl rw rc n0 hs a q pops,
    seek_down H hi rl rw rc n0 hs a q -> seek_dead_rev hi a q ->
    down_none H (seek_stack hs) (h_lock a) pops -> rseek_end H hi rl (h_lock a).

(** ** Positions on a root leaf *)

(** the stack holds only the leaf: it was the target of the root pointer when
    it was read-locked (inside the root pointer's section) *)
Definition leafpos_ok (H : history) (pos : ipos) : Prop :=
  w_is_free (ip_word pos) = true /\
  (exists c, hp (H (ip_at pos)) (ip_leaf pos) = Some c /\ word c = ip_word pos /\
             cont c = CLeaf (ip_key pos) (ip_val pos)) /\
  ip_stack pos = [] /\ root (H (ip_at pos)) = Some (ip_leaf pos).

Definition gpos_ok (H : history) (pos : ipos) : Prop := pos_ok H pos \/ leafpos_ok H pos.

(** ** Reverse scans as chains of interval predecessor queries *)

Inductive rscan (H : history) : nat -> ubound -> list delivery -> Prop :=
| rsc_nil : forall t u, rscan H t u []
| rsc_cons : forall t u t1 t2 k v ds,
    (t <= t1 <= t2)%nat -> rquery H t1 t2 u (Some (k, v)) ->
    rscan H t2 (UKey true k) ds -> rscan H t u ((t1, t2, k, v) :: ds).

(** the bound after the last delivery *)
Definition rfinal_bound (u : ubound) (ds : list delivery) : ubound :=
  last (map (fun d : delivery => UKey true (snd (fst d))) ds) u.

Definition rexhausted (H : history) (t1 t2 : nat) (u : ubound) : Prop := rquery H t1 t2 u None.

(** ** Runs of the iterator, reverse *)

(** [riter_run H t pos ds e]: from position pos, no earlier than t, the calls
    of [prior] delivered ds; each call is a successful try_prior, or (after a
    failed try_prior, which leaves no observation) the fallback of
    olc_db::iterator::prior: seek (fwd = false) to the current key, and one
    more try_prior if that key is still there (match).  e = Some te: the run
    ended with the iterator at the end, decided at te; None: the caller
    stopped (scan_range: the key is no longer above to_key; fn returned true). *)
Inductive riter_run (H : history) : nat -> ipos -> list delivery -> option nat -> Prop :=
| rir_stop : forall t pos, riter_run H t pos [] None
| rir_end : forall t pos t0 pops, (t <= t0)%nat -> prior_none H pos t0 pops ->
    riter_run H t pos [] (Some (end_moment pos t0))
| rir_end_seek : forall t pos rl T, (t <= rl)%nat -> rseek_end H (ip_key pos) rl T -> riter_run H t pos [] (Some T)
| rir_end_seek_eq : forall t pos rl t1 t2 pos1 t0 pops, (t <= rl)%nat ->
    rseek_result H (ip_key pos) rl t1 t2 pos1 -> ip_key pos1 = ip_key pos -> (t2 <= t0)%nat ->
    prior_none H pos1 t0 pops -> riter_run H t pos [] (Some (end_moment pos1 t0))
| rir_prior : forall t pos t0 pops pv tc b' c' rest hs a q k' v' ds e, (t <= t0)%nat ->
    prior_some H pos t0 pops pv tc b' c' rest hs a q k' v' ->
    riter_run H (h_lock a) (prior_pos pv b' c' rest hs a k' v') ds e ->
    riter_run H t pos ((t0, h_lock a, k', v') :: ds) e
| rir_seek_lt : forall t pos rl t1 t2 pos1 ds e, (t <= rl)%nat ->
    rseek_result H (ip_key pos) rl t1 t2 pos1 -> ip_key pos1 <> ip_key pos ->
    riter_run H t2 pos1 ds e ->
    riter_run H t pos ((t1, t2, ip_key pos1, ip_val pos1) :: ds) e
| rir_seek_eq : forall t pos rl t1 t2 pos1 t0 pops pv tc b' c' rest hs a q k' v' ds e, (t <= rl)%nat ->
    rseek_result H (ip_key pos) rl t1 t2 pos1 -> ip_key pos1 = ip_key pos -> (t2 <= t0)%nat ->
    prior_some H pos1 t0 pops pv tc b' c' rest hs a q k' v' ->
    riter_run H (h_lock a) (prior_pos pv b' c' rest hs a k' v') ds e ->
    riter_run H t pos ((t0, h_lock a, k', v') :: ds) e.

(** a whole reverse scan: scan_from(hi, fn, false) / scan_range(hi, to, fn)
    with to < hi start with [seek hi] (bound: <= hi); scan(fn, false) starts
    with try_last (bound: +infinity); then a run *)
Inductive riter_scan (H : history) : nat -> ubound -> list delivery -> option nat -> Prop :=
| ris_end : forall t hi rl T, (t <= rl)%nat -> rseek_end H hi rl T -> riter_scan H t (UKey false hi) [] (Some T)
| ris_seek : forall t hi rl t1 t2 pos ds e, (t <= rl)%nat -> rseek_result H hi rl t1 t2 pos ->
    riter_run H t2 pos ds e -> riter_scan H t (UKey false hi) ((t1, t2, ip_key pos, ip_val pos) :: ds) e
| ris_last_empty : forall t rl, (t <= rl)%nat -> root (H rl) = None -> riter_scan H t UInf [] (Some rl)
| ris_last : forall t rl rw rc n0 hs a q k v ds e, (t <= rl)%nat -> last_down H rl rw rc n0 hs a q k v ->
    riter_run H (h_lock a) (seek_pos hs a k v) ds e ->
    riter_scan H t UInf ((rl, h_lock a, k, v) :: ds) e.

(** scan_range(from = hi, to) with to < hi: the loop runs while it.cmp(to) > 0,
    i.e. while the current key is > to; the positions visited are ds ++ [stop]
    where every key of ds is > to and the key of stop is <= to (not passed to
    fn).  What the caller's fn saw is ds. *)
Definition range_stop (to : key) (ds : list delivery) (stop : delivery) : Prop :=
  Forall (fun k => lex_lt to k) (wkeys ds) /\ lex_le (snd (fst stop)) to.
