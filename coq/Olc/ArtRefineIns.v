(** C03e, insert side: every structural case of ArtModel.insert_go is one
    insert commit shape of Olc/WriteModel.v on a representing heap. *)
From Coq Require Import List ZArith Bool Arith Lia Permutation Sorted.
From Unodb Require Import Base.Lex Art.ArtModel Art.ArtSpec Art.ArtInv Art.ArtLemmas Art.ArtProofs.
From Unodb Require Import Lock.LockModel Olc.ReadModel Olc.WriteModel Olc.WriteShapes Olc.ArtRefine.
Import ListNotations.
Local Open Scope Z_scope.
Local Open Scope nat_scope.

Local Notation AWF := ArtInv.WF.

Lemma free_0 : w_is_free 0%Z = true.
Proof. reflexivity. Qed.

(** ** Key facts from the path of a well-formed node *)
Lemma ext_path_facts : forall pi p b k, ext (pi ++ p ++ [b]) k ->
  ext pi k /\ prefix_at p (length pi) k /\ nth_error k (length pi + length p) = Some b.
Proof.
  intros pi p b k H. rewrite app_assoc in H. apply ext_snoc_inv in H. destruct H as [H1 H2].
  assert (Hpi : ext pi k) by (eapply ext_app_l; exact H1).
  split; [exact Hpi | split].
  - apply (ext_skipn pi p k Hpi). exact H1.
  - rewrite app_length in H2. exact H2.
Qed.

Lemma ext_firstn : forall pi k, ext pi k -> firstn (length pi) k = pi.
Proof. intros pi k H. exact H. Qed.

Lemma nodup_mid_notin : forall (A : Type) (l1 : list (Z * A)) b x l2, NoDup (map fst (l1 ++ (b, x) :: l2)) ->
  ~ In b (map fst l1) /\ ~ In b (map fst l2).
Proof.
  intros A l1 b x l2 H. rewrite map_app in H. cbn [map fst] in H.
  destruct (NoDup_app_inv _ _ _ H) as (_ & H2 & D). inversion H2; subst. split; [|assumption].
  intros HI. apply (D b HI). left. reflexivity.
Qed.

(** ** Inserting a slot *)
Lemma insert_at_slot_set : forall pos b (X : nid) cs, find_child b cs = None ->
  slot_set cs b (Some X) (insert_at pos (b, X) cs).
Proof.
  induction pos as [|pos IH]; intros b X cs Hn x.
  - cbn. destruct (x =? b)%Z; reflexivity.
  - destruct cs as [|[b' c] cs]; cbn.
    + destruct (x =? b)%Z; reflexivity.
    + cbn in Hn. destruct (Z.eqb_spec b b') as [->|Hne]; [discriminate|].
      rewrite (IH b X cs Hn x). destruct (Z.eqb_spec x b') as [->|Hne2]; [|reflexivity].
      destruct (Z.eqb_spec b' b); [congruence | reflexivity].
Qed.

Lemma rep_list_insert : forall h pos b t m im ch cs ids, rep_list h ch cs ids -> rep h t m im ->
  exists ids', rep_list h (insert_at pos (b, t) ch) (insert_at pos (b, m) cs) ids' /\ Permutation ids' (im ++ ids).
Proof.
  intros h pos b t m im. induction pos as [|pos IH]; intros ch cs ids Hl Hr.
  - exists (im ++ ids). split; [constructor; assumption | reflexivity].
  - inversion Hl as [|b' t' m' j1 ch' cs' j2 Hrt Hrl]; subst.
    + exists (im ++ []). split; [cbn; constructor; [exact Hr | constructor] | reflexivity].
    + destruct (IH _ _ _ Hrl Hr) as (ids' & H1 & H2). exists (j1 ++ ids'). split; [cbn; constructor; assumption|].
      rewrite H2. rewrite !app_assoc. apply Permutation_app_tail. apply Permutation_app_comm.
Qed.

(** two children of a fresh N4, heap side *)
Definition two_cs (b1 : Z) (n1 : nid) (b2 : Z) (n2 : nid) : list (Z * nid) :=
  if (b1 <? b2)%Z then [(b1, n1); (b2, n2)] else [(b2, n2); (b1, n1)].

Lemma two_cs_find : forall b1 n1 b2 n2, b1 <> b2 -> forall b0,
  find_child b0 (two_cs b1 n1 b2 n2) = if (b0 =? b2)%Z then Some n2 else if (b0 =? b1)%Z then Some n1 else None.
Proof.
  intros b1 n1 b2 n2 Hne b0. unfold two_cs. destruct (b1 <? b2)%Z; cbn.
  - destruct (Z.eqb_spec b0 b1) as [E1|H1]; destruct (Z.eqb_spec b0 b2) as [E|H2]; try reflexivity. congruence.
  - destruct (Z.eqb_spec b0 b2) as [E2|H2]; destruct (Z.eqb_spec b0 b1) as [E|H1]; reflexivity.
Qed.

Lemma two_children_WF_inv : forall L p pi b1 c1 b2 c2, WFch L pi p (two_children b1 c1 b2 c2) ->
  AWF L c1 (pi ++ p ++ [b1]) /\ AWF L c2 (pi ++ p ++ [b2]).
Proof.
  intros L p pi b1 c1 b2 c2 H. unfold WFch, two_children in H. destruct (b1 <? b2)%Z;
  inversion H as [|x l Hx Hl]; subst; inversion Hl as [|y l' Hy _]; subst; cbn [fst snd] in *; tauto.
Qed.

Lemma two_children_sorted_ne : forall b1 c1 b2 c2, keys_sorted (two_children b1 c1 b2 c2) -> b1 <> b2.
Proof.
  intros b1 c1 b2 c2 H. unfold keys_sorted, two_children in H. destruct (b1 <? b2)%Z; cbn in H;
  inversion H as [|x l _ Hf]; subst; inversion Hf; subst; lia.
Qed.

Lemma rep_two : forall h b1 t1 n1 i1 b2 t2 n2 i2, rep h t1 n1 i1 -> rep h t2 n2 i2 ->
  exists ids, rep_list h (two_children b1 t1 b2 t2) (two_cs b1 n1 b2 n2) ids /\ Permutation ids (i1 ++ i2).
Proof.
  intros h b1 t1 n1 i1 b2 t2 n2 i2 H1 H2. unfold two_children, two_cs. destruct (b1 <? b2)%Z.
  - exists (i1 ++ i2 ++ []). split; [repeat constructor; assumption | rewrite app_nil_r; reflexivity].
  - exists (i2 ++ i1 ++ []). split; [repeat constructor; assumption | rewrite app_nil_r; apply Permutation_app_comm].
Qed.

(** which commit shape each structural event of the sequential insert is *)
Definition ins_shape (e : ev) (k v : list Z) (g g' : gstate) : Prop :=
  match e with
  | ERootLeaf => root_insert k v g g'
  | ELeafSplit => leaf_split k v g g'
  | EPrefixSplit => prefix_split k v g g'
  | EAdd _ => add_leaf k v g g'
  | EGrow _ => replace_ins k v g g'
  | _ => False
  end.

Lemma ins_shape_commit : forall e k v g g', ins_shape e k v g g' -> ins_commit k v g g'.
Proof.
  intros e k v g g' H. destruct e; cbn in H; try contradiction.
  - apply ic_root_insert; exact H.
  - apply ic_leaf_split; exact H.
  - apply ic_prefix_split; exact H.
  - apply ic_add_leaf; exact H.
  - apply ic_replace_ins; exact H.
Qed.


Section Insert.
  Variables (L : nat) (k v : list Z) (id : Z) (g : gstate) (f1 f2 : nid).
  Hypothesis Hk : key_ok L k.
  Hypothesis Hf1 : hp g f1 = None.
  Hypothesis Hf2 : hp g f2 = None.
  Hypothesis Hf12 : f1 <> f2.

  Let fresh := [f1; f2].

  Lemma alloc_not_fresh : forall m c, hp g m = Some c -> m <> f1 /\ m <> f2.
  Proof. intros m c Hc. split; intros ->; congruence. Qed.

  (** S4: leaf split *)
  Lemma ins_leaf_split_case : forall s n pi lid lk lv ids pre b1 b2,
    slot_holds g s n pi -> rep (hp g) (Leaf lid lk lv) n ids -> ext pi k ->
    AWF L (Inode C4 pre (two_children b1 (Leaf lid lk lv) b2 (Leaf id k v))) pi ->
    exists g', leaf_split k v g g' /\
      local_res g s n ids fresh (Inode C4 pre (two_children b1 (Leaf lid lk lv) b2 (Leaf id k v))) g'.
  Proof.
    intros s n pi lid lk lv ids pre b1 b2 Hs Hr Hext HW.
    apply WF_inode in HW. destruct HW as (_ & _ & _ & HS & _ & Hch).
    apply two_children_sorted_ne in HS. apply two_children_WF_inv in Hch. destruct Hch as [W1 W2].
    apply WF_leaf in W1. apply WF_leaf in W2. destruct W1 as [_ E1]. destruct W2 as [_ E2].
    apply ext_path_facts in E1. apply ext_path_facts in E2.
    destruct E1 as (_ & P1 & N1). destruct E2 as (_ & P2 & N2).
    inversion Hr as [id' k' v' n' c Hc Hfree Hcont|]; subst.
    destruct (alloc_not_fresh n c Hc) as [Hn1 Hn2].
    set (h := upd (upd (hp g) f2 (mk 0%Z (CLeaf k v))) f1 (mk 0%Z (CInode pre (two_cs b1 n b2 f2)))).
    exists (redirect g s h f1). split.
    - eapply leaf_split_intro with (s := s) (L0 := n) (d := length pi) (X := f1) (Lk := f2) (px := pre)
        (bl := b1) (bk := b2) (csX := two_cs b1 n b2 f2) (wx := 0%Z) (wl := 0%Z) (h := h) (cL := c) (kL := lk) (vL := lv);
        try assumption; try reflexivity.
      + rewrite (ext_firstn _ _ Hext). exact Hs.
      + apply ext_length. exact Hext.
      + apply two_cs_find. exact HS.
      + eapply redirect_ok. exact Hs.
    - assert (Rn : rep h (Leaf lid lk lv) n [n]).
      { eapply rep_leaf; [|exact Hfree | exact Hcont]. unfold h. rewrite !upd_neq by assumption. exact Hc. }
      assert (Rk : rep h (Leaf id k v) f2 [f2]).
      { eapply rep_leaf with (c := mk 0%Z (CLeaf k v)); [|reflexivity | reflexivity].
        unfold h. rewrite upd_neq by (intros E; apply Hf12; symmetry; exact E). apply upd_eq. }
      destruct (rep_two h b1 _ _ _ b2 _ _ _ Rn Rk) as (idsX & RX & PX).
      exists h, f1, (f1 :: idsX). split; [|split; [|split; [|split]]].
      + eapply rep_inode with (cl := mk 0%Z (CInode pre (two_cs b1 n b2 f2))); [apply upd_eq | reflexivity | reflexivity | exact RX].
      + apply (Permutation_NoDup (l := f1 :: [n] ++ [f2])); [constructor; symmetry; exact PX|].
        cbn. repeat constructor; cbn; intuition congruence.
      + intros x [<- | Hx]; [left; reflexivity|]. apply (Permutation_in _ PX) in Hx. cbn in *. intuition.
      + intros m Hm1 Hm2. unfold h. rewrite !upd_neq; [reflexivity | |]; intros ->; apply Hm2; cbn; tauto.
      + right. reflexivity.
  Qed.

  Lemma ids_not_fresh : forall ch cs ids m, rep_list (hp g) ch cs ids -> In m ids -> m <> f1 /\ m <> f2.
  Proof.
    intros ch cs ids m Hl Hm. pose proof (rep_list_alloc _ _ _ _ _ Hl Hm) as Ha.
    split; intros ->; congruence.
  Qed.

  Lemma NoDup_fresh_wrap : forall ids : list nid, NoDup ids -> (forall x, In x ids -> x <> f1 /\ x <> f2) ->
    NoDup (f1 :: ids ++ [f2]).
  Proof.
    intros ids Hnd Hne. constructor.
    - intros HI. apply in_app_or in HI. destruct HI as [HI | [E | []]]; [apply (proj1 (Hne f1 HI)); reflexivity | congruence].
    - apply NoDup_app_intro; [exact Hnd | repeat constructor; intros [] |].
      intros x Hx [<- | []]. apply (proj2 (Hne _ Hx)). reflexivity.
  Qed.

  (** S6: prefix split *)
  Lemma ins_prefix_split_case : forall s n pi c p1 sb p2 ch ids nb,
    slot_holds g s n pi -> rep (hp g) (Inode c (p1 ++ sb :: p2) ch) n ids -> NoDup ids -> ext pi k ->
    AWF L (Inode C4 p1 (two_children sb (Inode c p2 ch) nb (Leaf id k v))) pi ->
    exists g', prefix_split k v g g' /\
      local_res g s n ids fresh (Inode C4 p1 (two_children sb (Inode c p2 ch) nb (Leaf id k v))) g'.
  Proof.
    intros s n pi c p1 sb p2 ch ids nb Hs Hr Hnd Hext HW.
    apply WF_inode in HW. destruct HW as (_ & _ & _ & HS & _ & Hch).
    apply two_children_sorted_ne in HS. apply two_children_WF_inv in Hch. destruct Hch as [_ W2].
    apply WF_leaf in W2. destruct W2 as [_ E2]. apply ext_path_facts in E2. destruct E2 as (_ & P2 & N2).
    inversion Hr as [|c' p' ch' n' cl cs ids0 Hc Hfree Hcont Hl]; subst.
    destruct (alloc_not_fresh n cl Hc) as [Hn1 Hn2].
    inversion Hnd as [|x l Hnin Hnd0]; subst.
    set (h := upd (upd (upd (hp g) f2 (mk 0%Z (CLeaf k v))) f1 (mk 0%Z (CInode p1 (two_cs sb n nb f2)))) n
                  (mk (bump (word cl)) (CInode p2 cs))).
    assert (Hf21 : f2 <> f1) by (intros E; apply Hf12; symmetry; exact E).
    exists (redirect g s h f1). split.
    - eapply prefix_split_intro with (s := s) (N := n) (d := length pi) (cN := cl) (p1 := p1) (bn := sb) (p2 := p2)
        (cs := cs) (bk := nb) (X := f1) (wx := 0%Z) (csX := two_cs sb n nb f2) (Lk := f2) (wl := 0%Z) (h := h);
        try assumption; try reflexivity.
      + rewrite (ext_firstn _ _ Hext). exact Hs.
      + apply ext_length. exact Hext.
      + intros E. apply HS. symmetry. exact E.
      + apply two_cs_find. exact HS.
      + eapply redirect_ok. exact Hs.
    - assert (Rn : rep h (Inode c p2 ch) n (n :: ids0)).
      { eapply rep_inode with (cl := mk (bump (word cl)) (CInode p2 cs)); [apply upd_eq | apply bump_free; exact Hfree | reflexivity |].
        eapply rep_list_ext; [exact Hl|]. intros m Hm. destruct (ids_not_fresh _ _ _ _ Hl Hm) as [A1 A2].
        unfold h. rewrite !upd_neq; [reflexivity | assumption | assumption | intros ->; contradiction]. }
      assert (Rk : rep h (Leaf id k v) f2 [f2]).
      { eapply rep_leaf with (c := mk 0%Z (CLeaf k v)); [|reflexivity | reflexivity].
        unfold h. rewrite upd_neq by (intros E; apply Hn2; symmetry; exact E). rewrite upd_neq by exact Hf21. apply upd_eq. }
      destruct (rep_two h sb _ _ _ nb _ _ _ Rn Rk) as (idsX & RX & PX).
      exists h, f1, (f1 :: idsX). split; [|split; [|split; [|split]]].
      + eapply rep_inode with (cl := mk 0%Z (CInode p1 (two_cs sb n nb f2))); [|reflexivity | reflexivity | exact RX].
        unfold h. rewrite upd_neq by (intros E; apply Hn1; symmetry; exact E). apply upd_eq.
      + apply (Permutation_NoDup (l := f1 :: (n :: ids0) ++ [f2])); [constructor; symmetry; exact PX|].
        apply NoDup_fresh_wrap; [exact Hnd|]. intros x [<- | Hx]; [split; assumption | eapply ids_not_fresh; eassumption].
      + intros x [<- | Hx]; [left; reflexivity|]. apply (Permutation_in _ PX) in Hx. apply in_app_or in Hx.
        destruct Hx as [Hx | [<- | []]]; [right; right; exact Hx | right; left; reflexivity].
      + intros m Hm1 Hm2. unfold h. rewrite !upd_neq; [reflexivity | | |].
        * intros ->; apply Hm2; cbn; tauto.
        * intros ->; apply Hm2; cbn; tauto.
        * intros ->; apply Hm1; left; reflexivity.
      + right. reflexivity.
  Qed.


  Lemma find_child_none_heap : forall ch cs ids b, rep_list (hp g) ch cs ids ->
    ArtModel.find_child ch b 0 = None -> find_child b cs = None.
  Proof.
    intros ch cs ids b Hl Hn. apply find_child_None_iff. rewrite (rep_list_keys _ _ _ _ Hl).
    eapply find_child_none. exact Hn.
  Qed.

  (** S1: add to a non-full node *)
  Lemma ins_add_case : forall s n pi c c2 p ch ids b pos,
    slot_holds g s n pi -> rep (hp g) (Inode c p ch) n ids -> NoDup ids ->
    ext (pi ++ p ++ [b]) k -> ArtModel.find_child ch b 0 = None ->
    exists g', add_leaf k v g g' /\
      local_res g s n ids fresh (Inode c2 p (insert_at pos (b, Leaf id k v) ch)) g'.
  Proof.
    intros s n pi c c2 p ch ids b pos Hs Hr Hnd Hext Hnone.
    apply ext_path_facts in Hext. destruct Hext as (Hpi & Hpre & Hnth).
    inversion Hr as [|c' p' ch' n' cl cs ids0 Hc Hfree Hcont Hl]; subst.
    destruct (alloc_not_fresh n cl Hc) as [Hn1 Hn2].
    inversion Hnd as [|x l Hnin Hnd0]; subst.
    pose proof (find_child_none_heap _ _ _ _ Hl Hnone) as Hnone'.
    set (cs' := insert_at pos (b, f1) cs).
    set (h := upd (upd (hp g) f1 (mk 0%Z (CLeaf k v))) n (mk (bump (word cl)) (CInode p cs'))).
    exists (set_hp g h). split.
    - eapply add_leaf_intro with (N := n) (d := length pi) (cN := cl) (p := p) (cs := cs) (b := b) (L := f1) (wl := 0%Z) (cs' := cs');
        try assumption; try reflexivity.
      + repeat split; try assumption.
        * rewrite (ext_firstn _ _ Hpi). eapply slot_holds_reach. exact Hs.
        * apply ext_length. exact Hpi.
      + apply insert_at_slot_set. exact Hnone'.
    - assert (Rl : rep_list h ch cs ids0).
      { eapply rep_list_ext; [exact Hl|]. intros m Hm. destruct (ids_not_fresh _ _ _ _ Hl Hm) as [A1 A2].
        unfold h. rewrite !upd_neq; [reflexivity | assumption | intros ->; contradiction]. }
      assert (Rk : rep h (Leaf id k v) f1 [f1]).
      { eapply rep_leaf with (c := mk 0%Z (CLeaf k v)); [|reflexivity | reflexivity].
        unfold h. rewrite upd_neq by (intros E; apply Hn1; symmetry; exact E). apply upd_eq. }
      destruct (rep_list_insert h pos b _ _ _ _ _ _ Rl Rk) as (ids' & RX & PX).
      exists h, n, (n :: ids'). split; [|split; [|split; [|split]]].
      + eapply rep_inode with (cl := mk (bump (word cl)) (CInode p cs')); [apply upd_eq | apply bump_free; exact Hfree | reflexivity | exact RX].
      + apply (Permutation_NoDup (l := n :: [f1] ++ ids0)); [constructor; symmetry; exact PX|].
        constructor; [intros [E | HI]; [congruence | contradiction]|].
        constructor; [|exact Hnd0]. intros HI. apply (proj1 (ids_not_fresh _ _ _ _ Hl HI)). reflexivity.
      + intros x [<- | Hx]; [right; right; left; reflexivity|]. apply (Permutation_in _ PX) in Hx.
        destruct Hx as [<- | Hx]; [left; reflexivity | right; right; right; exact Hx].
      + intros m Hm1 Hm2. unfold h. rewrite !upd_neq; [reflexivity | |].
        * intros ->; apply Hm2; cbn; tauto.
        * intros ->; apply Hm1; left; reflexivity.
      + left. split; reflexivity.
  Qed.


  (** S5: grow into a fresh copy *)
  Lemma ins_grow_case : forall s n pi c c2 p ch ids b pos,
    slot_holds g s n pi -> rep (hp g) (Inode c p ch) n ids -> NoDup ids ->
    ext (pi ++ p ++ [b]) k -> ArtModel.find_child ch b 0 = None ->
    exists g', replace_ins k v g g' /\
      local_res g s n ids fresh (Inode c2 p (insert_at pos (b, Leaf id k v) ch)) g'.
  Proof.
    intros s n pi c c2 p ch ids b pos Hs Hr Hnd Hext Hnone.
    apply ext_path_facts in Hext. destruct Hext as (Hpi & Hpre & Hnth).
    inversion Hr as [|c' p' ch' n' cl cs ids0 Hc Hfree Hcont Hl]; subst.
    destruct (alloc_not_fresh n cl Hc) as [Hn1 Hn2].
    inversion Hnd as [|x l Hnin Hnd0]; subst.
    pose proof (find_child_none_heap _ _ _ _ Hl Hnone) as Hnone'.
    assert (Hf21 : f2 <> f1) by (intros E; apply Hf12; symmetry; exact E).
    set (cs' := insert_at pos (b, f2) cs).
    set (h := upd (upd (upd (hp g) f2 (mk 0%Z (CLeaf k v))) f1 (mk 0%Z (CInode p cs'))) n (mk 1%Z (cont cl))).
    exists (redirect g s h f1). split.
    - eapply replace_ins_intro with (s := s) (N := n) (d := length pi) (cN := cl) (p := p) (cs := cs) (b := b)
        (N' := f1) (wn := 0%Z) (cs' := cs') (L := f2) (wl := 0%Z) (h := h);
        try assumption; try reflexivity.
      + repeat split; try assumption.
        * rewrite (ext_firstn _ _ Hpi). exact Hs.
        * apply ext_length. exact Hpi.
      + apply insert_at_slot_set. exact Hnone'.
      + eapply redirect_ok. exact Hs.
    - assert (Rl : rep_list h ch cs ids0).
      { eapply rep_list_ext; [exact Hl|]. intros m Hm. destruct (ids_not_fresh _ _ _ _ Hl Hm) as [A1 A2].
        unfold h. rewrite !upd_neq; [reflexivity | assumption | assumption | intros ->; contradiction]. }
      assert (Rk : rep h (Leaf id k v) f2 [f2]).
      { eapply rep_leaf with (c := mk 0%Z (CLeaf k v)); [|reflexivity | reflexivity].
        unfold h. rewrite upd_neq by (intros E; apply Hn2; symmetry; exact E). rewrite upd_neq by exact Hf21. apply upd_eq. }
      destruct (rep_list_insert h pos b _ _ _ _ _ _ Rl Rk) as (ids' & RX & PX).
      exists h, f1, (f1 :: ids'). split; [|split; [|split; [|split]]].
      + eapply rep_inode with (cl := mk 0%Z (CInode p cs')); [|reflexivity | reflexivity | exact RX].
        unfold h. rewrite upd_neq by (intros E; apply Hn1; symmetry; exact E). apply upd_eq.
      + apply (Permutation_NoDup (l := f1 :: [f2] ++ ids0)); [constructor; symmetry; exact PX|].
        constructor; [intros [E | HI]; [congruence | apply (proj1 (ids_not_fresh _ _ _ _ Hl HI)); reflexivity]|].
        constructor; [|exact Hnd0]. intros HI. apply (proj2 (ids_not_fresh _ _ _ _ Hl HI)). reflexivity.
      + intros x [<- | Hx]; [left; reflexivity|]. apply (Permutation_in _ PX) in Hx.
        destruct Hx as [<- | Hx]; [right; left; reflexivity | right; right; right; exact Hx].
      + intros m Hm1 Hm2. unfold h. rewrite !upd_neq; [reflexivity | | |].
        * intros ->; apply Hm2; cbn; tauto.
        * intros ->; apply Hm2; cbn; tauto.
        * intros ->; apply Hm1; left; reflexivity.
      + right. reflexivity.
  Qed.


  Hypothesis HL : 1 <= L <= 8.

  Lemma byte_at_Ok : forall l i b, byte_at l i = Ok b -> nth_error l i = Some b.
  Proof. intros l i b H. unfold byte_at in H. destruct (nth_error l i); [injection H as ->; reflexivity | discriminate]. Qed.

  (** the result of a successful insert_go is well-formed (from ArtProofs) *)
  Lemma ins_go_WF : forall fuel t pi t' e, AWF L t pi -> ext pi k -> L - length pi < fuel ->
    insert_go fuel t k v id (length pi) = Ok (Some (t', e)) -> AWF L t' pi.
  Proof.
    intros fuel t pi t' e HW Hext Hfuel Hins.
    pose proof (insert_go_correct L k v id HL Hk fuel t pi HW Hext Hfuel) as IC.
    destruct (assoc k (leaves t)); [rewrite IC in Hins; discriminate|].
    destruct IC as (n' & e' & E & HW' & _). rewrite E in Hins. injection Hins as <- <-. exact HW'.
  Qed.

  Lemma ins_go_leaf : forall fuel lid lk lv pi s n ids t' e,
    slot_holds g s n pi -> rep (hp g) (Leaf lid lk lv) n ids -> AWF L (Leaf lid lk lv) pi -> ext pi k ->
    L - length pi < fuel ->
    insert_go fuel (Leaf lid lk lv) k v id (length pi) = Ok (Some (t', e)) ->
    exists g', ins_shape e k v g g' /\ local_res g s n ids fresh t' g'.
  Proof.
    intros fuel lid lk lv pi s n ids t' e Hs Hr HW Hext Hfuel Hins.
    pose proof (ins_go_WF _ _ _ _ _ HW Hext Hfuel Hins) as HW'.
    destruct fuel as [|f]; [lia|]. cbn [insert_go] in Hins.
    assert (E : (if length k <? length pi then Err Oob else
                 if length lk <? length pi then Err Oob else
                 b1 <- byte_at lk (common_pad prefix_capacity (skipn (length pi) lk) (skipn (length pi) k) + length pi) ;;
                 b2 <- byte_at (skipn (length pi) k) (common_pad prefix_capacity (skipn (length pi) lk) (skipn (length pi) k)) ;;
                 Ok (Some (Inode C4 (firstn (common_pad prefix_capacity (skipn (length pi) lk) (skipn (length pi) k)) (pad8 (skipn (length pi) lk)))
                                 (two_children b1 (Leaf lid lk lv) b2 (Leaf id k v)), ELeafSplit))) = Ok (Some (t', e))).
    { destruct (lex_compare k lk); [discriminate | exact Hins | exact Hins]. }
    clear Hins.
    destruct (length k <? length pi); [discriminate|]. destruct (length lk <? length pi); [discriminate|].
    destruct (byte_at lk _) as [b1|]; [|discriminate]. cbn [bind] in E.
    destruct (byte_at _ _) as [b2|]; [|discriminate]. cbn [bind] in E.
    injection E as <- <-. cbn [ins_shape].
    eapply ins_leaf_split_case; eassumption.
  Qed.


  Lemma ins_go_commit : forall fuel t pi s n ids t' e,
    slot_holds g s n pi -> rep (hp g) t n ids -> NoDup ids -> AWF L t pi -> ext pi k ->
    L - length pi < fuel ->
    insert_go fuel t k v id (length pi) = Ok (Some (t', e)) ->
    exists g', ins_shape e k v g g' /\ local_res g s n ids fresh t' g'.
  Proof.
    induction fuel as [|f IH]; intros t pi s n ids t' e Hs Hr Hnd HW Hext Hfuel Hins; [lia|].
    destruct t as [lid lk lv | c p ch]; [eapply ins_go_leaf; eassumption|].
    pose proof (ins_go_WF _ _ _ _ _ HW Hext Hfuel Hins) as HW'.
    destruct (inode_prelude L k c p ch pi Hk HW Hext) as (Hlt & Hrem & [(Hsl & _) | (Hsl & b & Hb & Hbyte & Hext' & _)]).
    - (* prefix split *)
      cbn [insert_go] in Hins. rewrite Hlt in Hins. apply Nat.ltb_lt in Hsl. rewrite Hsl in Hins.
      destruct (byte_at p _) as [sb|] eqn:Esb; [|discriminate]. cbn [bind] in Hins.
      destruct (byte_at k _) as [nb|] eqn:Enb; [|discriminate]. cbn [bind] in Hins.
      injection Hins as <- <-. cbn [ins_shape].
      apply byte_at_Ok in Esb. apply nth_error_decomp in Esb.
      rewrite Esb in Hr. eapply ins_prefix_split_case; eassumption.
    - cbn [insert_go] in Hins. rewrite Hlt in Hins.
      assert (Hsl' : (shared_len p (skipn (length pi) k) <? length p) = false) by (apply Nat.ltb_ge; lia).
      rewrite Hsl' in Hins. unfold byte_at in Hins at 1. rewrite Hb in Hins. cbn [bind] in Hins.
      destruct (ArtModel.find_child ch b 0) as [[i c']|] eqn:Hfc.
      + (* descend *)
        apply find_child_some in Hfc. destruct Hfc as (l1 & l2 & -> & ->). cbn [Nat.add] in Hins.
        destruct (child_of_WF _ _ _ _ _ _ _ _ HW) as [_ Hc'].
        assert (Hlen : length pi + length p < L) by (apply WF_inode in HW; tauto).
        replace (S (length pi + length p)) with (length (pi ++ p ++ [b])) in Hins by (rewrite !app_length; cbn; lia).
        destruct (insert_go f c' k v id (length (pi ++ p ++ [b]))) as [[[c'' e']|]|] eqn:Hrec; try discriminate.
        cbn [bind] in Hins. injection Hins as <- <-. rewrite replace_nth_mid.
        inversion Hr as [|c0 p0 ch0 n0 cl cs ids0 Hc Hfree Hcont Hl]; subst.
        destruct (rep_list_mid _ _ _ _ _ _ _ Hl) as (cs1 & m & cs2 & i1 & im & i2 & -> & -> & Hlen1 & R1 & Rm & R2).
        assert (Hkeys : NoDup (map fst (cs1 ++ (b, m) :: cs2))).
        { rewrite (rep_list_keys _ _ _ _ Hl). apply ssorted_nodup. apply WF_inode in HW. tauto. }
        destruct (nodup_mid_notin _ _ _ _ _ Hkeys) as [Hnb1 _].
        assert (Hndm : NoDup im).
        { inversion Hnd as [|x l _ Hnd0]; subst. apply NoDup_app_inv in Hnd0. destruct Hnd0 as (_ & Hnd0 & _).
          apply NoDup_app_inv in Hnd0. tauto. }
        destruct (IH c' (pi ++ p ++ [b]) (SChild n b) m im c'' e') as (g' & Hshape & Hres); try assumption.
        * eapply slot_holds_child; [exact Hs | exact Hc | exact Hcont | apply find_child_mid; exact Hnb1].
        * rewrite !app_length. cbn. lia.
        * exists g'. split; [exact Hshape|].
          eapply local_lift; try eassumption.
          intros x [<- | [<- | []]]; assumption.
      + (* add here *)
        destruct (cls_eqb c C256).
        * injection Hins as <- <-. cbn [ins_shape]. eapply ins_add_case; eassumption.
        * destruct (Nat.eqb (length ch) (cap c)); injection Hins as <- <-; cbn [ins_shape];
            [eapply ins_grow_case | eapply ins_add_case]; eassumption.
  Qed.

End Insert.

(** ** From a local result at the root slot to [represents] *)
Lemma local_res_root : forall g n ids fresh t' g' bound,
  ReadModel.root g = Some n ->
  (forall m, In m ids -> hp g m <> None) ->
  (forall m, bound <= m -> hp g m = None) -> (forall f, In f fresh -> f < bound + 2) ->
  local_res g SRoot n ids fresh t' g' ->
  (forall m, bound + 2 <= m -> hp g' m = None) /\
  exists n' ids', ReadModel.root g' = Some n' /\ rep (hp g') t' n' ids' /\ NoDup ids'.
Proof.
  intros g n ids fresh t' g' bound Hroot Halloc Hb Hfr (h' & n' & ids' & Hr & Hnd & Hincl & Hframe & Hg').
  assert (Hb' : forall m, bound + 2 <= m -> h' m = None).
  { intros m Hm. rewrite Hframe; [apply Hb; lia | |].
    - intros HI. apply (Halloc m HI). apply Hb. lia.
    - intros HI. apply Hfr in HI. lia. }
  destruct Hg' as [[-> ->] | ->]; cbn.
  - split; [exact Hb'|]. exists n, ids'. repeat split; assumption.
  - split; [exact Hb'|]. exists n', ids'. repeat split; assumption.
Qed.

(** the structural event of a successful insert (what the statistics count) *)
Definition insert_event (d : db) (k v : list Z) : option ev :=
  match ArtModel.root d with
  | None => Some ERootLeaf
  | Some n => match insert_go (fuel_for k) n k v (next_id d) 0 with Ok (Some (_, e)) => Some e | _ => None end
  end.

Theorem insert_refines_shape : forall L sz d k v d' g, 1 <= L <= 8 ->
  represents g d -> db_WF L d -> key_ok L k ->
  db_insert sz d k v = Ok (d', true) ->
  exists e g', insert_event d k v = Some e /\ ins_shape e k v g g' /\ represents g' d'.
Proof.
  intros L sz d k v d' g HL [[bound Hb] Hroot] HW Hk Hins. unfold db_insert in Hins. unfold db_WF in HW.
  unfold insert_event.
  destruct (ArtModel.root d) as [t|] eqn:Hrt.
  - destruct Hroot as (n & ids & Hrg & Hr & Hnd).
    destruct (insert_go (fuel_for k) t k v (next_id d) 0) as [[[t' e]|]|] eqn:Hgo; cbn [bind] in Hins; try discriminate.
    injection Hins as <-.
    destruct (ins_go_commit L k v (next_id d) g bound (S bound) Hk (Hb _ (le_n _)) (Hb _ (le_S _ _ (le_n _))) (n_Sn _) HL
                (fuel_for k) t [] SRoot n ids t' e) as (g' & Hshape & Hres); try assumption.
    + cbn. split; [exact Hrg | reflexivity].
    + apply ext_nil.
    + eapply fuel_ok. exact Hk.
    + exists e, g'. split; [reflexivity | split; [exact Hshape|]].
      assert (Ha : forall m, In m ids -> hp g m <> None) by (intros m Hm; eapply rep_alloc; eassumption).
      assert (Hfr : forall f, In f [bound; S bound] -> f < bound + 2) by (intros f [<- | [<- | []]]; lia).
      destruct (local_res_root g n ids _ t' g' bound Hrg Ha Hb Hfr Hres) as [Hb' Hrep'].
      split; [exists (bound + 2); exact Hb' | cbn; exact Hrep'].
  - injection Hins as <-. set (h := upd (hp g) bound (mk 0%Z (CLeaf k v))).
    exists ERootLeaf, (set_root g h (Some bound)). split; [reflexivity | split].
    + eapply root_insert_intro with (L := bound) (wl := 0%Z); [exact Hroot | apply Hb; lia | reflexivity | reflexivity].
    + split.
      * exists (S bound). intros m Hm. cbn. unfold h. rewrite upd_neq by lia. apply Hb. lia.
      * cbn. exists bound, [bound]. split; [reflexivity | split; [|repeat constructor; intros []]].
        eapply rep_leaf with (c := mk 0%Z (CLeaf k v)); [apply upd_eq | reflexivity | reflexivity].
Qed.

Theorem insert_refines : forall L sz d k v d' g, 1 <= L <= 8 ->
  represents g d -> db_WF L d -> key_ok L k ->
  db_insert sz d k v = Ok (d', true) ->
  exists g', ins_commit k v g g' /\ represents g' d'.
Proof.
  intros L sz d k v d' g HL Hrep HW Hk Hins.
  destruct (insert_refines_shape L sz d k v d' g HL Hrep HW Hk Hins) as (e & g' & _ & Hs & Hr).
  exists g'. split; [eapply ins_shape_commit; exact Hs | exact Hr].
Qed.

Theorem insert_present : forall sz d k v d', db_insert sz d k v = Ok (d', false) -> d' = d.
Proof.
  intros sz d k v d' H. unfold db_insert in H. destruct (ArtModel.root d); [|discriminate].
  destruct (insert_go _ _ _ _ _ _) as [[[t' e]|]|]; cbn [bind] in H; try discriminate. injection H as <-. reflexivity.
Qed.
