(** C03 (writer side, fine-grained): the operational model of Olc/FineWrite.v
    can run -- on the tree ex_g2 of Olc/WriteExample.v (inner node 1 with
    prefix [1] over the leaves 0 and 2) writer A inserts [1;4] in three
    phases: it builds the private leaf 3, write-locks node 1, stores the new
    children, passes its commit point (add_leaf), unlocks node 1.  At the same
    time writer B write-locks leaf 0 and releases it unchanged (a version
    bump); B locks after A and unlocks after A, its commit point comes first.
    One reader completes before the locked period, one after it. *)
From Coq Require Import List ZArith Bool Arith Lia.
From Unodb Require Import Lock.LockModel Olc.ReadModel Olc.ReadProofs Olc.WriteModel Olc.WriteShapes Olc.WriteProofs Olc.WriteExample Olc.FineWrite Olc.FineWriteProofs.
Import ListNotations.
Local Open Scope Z_scope.

Lemma step_ok_init_ok : forall g g', init_ok g -> step_ok g g' -> init_ok g'.
Proof.
  intros g g' [_ [fp Hfp]] (W' & _ & _ & _ & W2). split; [exact W'|].
  destruct (W2 fp Hfp) as (fp' & Hfp' & _). exists fp'. exact Hfp'.
Qed.

Lemma ex_g2_init_ok : init_ok ex_g2.
Proof.
  assert (I0 : init_ok ex_g0) by (apply init_ok_empty; reflexivity).
  assert (I1 : init_ok ex_g1).
  { apply (step_ok_init_ok _ _ I0). apply (ins_commit_ok _ _ _ _ (proj1 I0) ex_step1). }
  apply (step_ok_init_ok _ _ I1). apply (ins_commit_ok _ _ _ _ (proj1 I1) ex_step2).
Qed.

Definition fx_k : key := [1; 4].
Definition fx_v : val := [30].
Definition fx_cs : list (Z * nid) := (4, 3%nat) :: ex_csX.
Definition fx_wA : wid := 7%nat.
Definition fx_wB : wid := 8%nat.
Definition fx_leaf3 : cell := mk 0 (CLeaf fx_k fx_v).

(** the heaps *)
Definition fx_s1 : gstate := set_hp ex_g2 (upd (hp ex_g2) 3%nat fx_leaf3).
Definition fx_s2 : gstate := set_hp fx_s1 (upd (hp fx_s1) 1%nat (mk (0 + 2) (CInode [1] ex_csX))).
Definition fx_s3 : gstate := set_hp fx_s2 (upd (hp fx_s2) 0%nat (mk (0 + 2) (CLeaf ex_k1 ex_v1))).
Definition fx_s4 : gstate := set_hp fx_s3 (upd (hp fx_s3) 1%nat (mk (0 + 2) (CInode [1] fx_cs))).
Definition fx_s7 : gstate := set_hp fx_s4 (upd (hp fx_s4) 1%nat (mk (bump 0) (CInode [1] fx_cs))).
Definition fx_s8 : gstate := set_hp fx_s7 (upd (hp fx_s7) 0%nat (mk (bump 0) (CLeaf ex_k1 ex_v1))).

(** the views: after B's commit point (a bump of leaf 0), after A's (add_leaf) *)
Definition fx_vB : gstate := set_hp ex_g2 (upd (hp ex_g2) 0%nat (mk (bump 0) (CLeaf ex_k1 ex_v1))).
Definition fx_vAB : gstate :=
  set_hp fx_vB (upd (upd (hp fx_vB) 3%nat fx_leaf3) 1%nat (mk (bump 0) (CInode [1] fx_cs))).

(** the ghosts *)
Definition fx_o0 : ghost := {| owner := fun _ => None; rowner := None; view := ex_g2 |}.
Definition fx_o2 : ghost := set_owner fx_o0 1%nat (Some fx_wA).
Definition fx_o3 : ghost := set_owner fx_o2 0%nat (Some fx_wB).
Definition fx_o5 : ghost := set_view fx_o3 fx_vB.
Definition fx_o6 : ghost := set_view fx_o5 fx_vAB.
Definition fx_o7 : ghost := set_owner fx_o6 1%nat None.
Definition fx_o8 : ghost := set_owner fx_o7 0%nat None.

Definition fx_H : history := fun t =>
  match t with
  | 0%nat => ex_g2 | 1%nat => fx_s1 | 2%nat => fx_s2 | 3%nat => fx_s3 | 4%nat => fx_s4
  | 5%nat => fx_s4 | 6%nat => fx_s4 | 7%nat => fx_s7 | _ => fx_s8
  end.
Definition fx_G : nat -> ghost := fun t =>
  match t with
  | 0%nat => fx_o0 | 1%nat => fx_o0 | 2%nat => fx_o2 | 3%nat => fx_o3 | 4%nat => fx_o3
  | 5%nat => fx_o5 | 6%nat => fx_o6 | 7%nat => fx_o7 | _ => fx_o8
  end.

Lemma fx_commitB : bump_node 0%nat ex_g2 fx_vB.
Proof. exists (mk 0 (CLeaf ex_k1 ex_v1)). repeat split. Qed.

Lemma fx_coversB : covers fx_s4 fx_o3 fx_wB fx_vB.
Proof.
  split; [|left; split; reflexivity].
  intros n. destruct (Nat.eq_dec n 0) as [->|H0]; [right; left; reflexivity|].
  left. cbn [hp set_hp fx_vB fx_o3 fx_o2 set_owner view fx_o0]. rewrite !upd_neq by assumption. reflexivity.
Qed.

Lemma fx_commitA : commit fx_k fx_vB fx_vAB.
Proof.
  left. exists fx_v. apply ic_add_leaf.
  eapply add_leaf_intro with (N := 1%nat) (d := 0%nat) (cN := mk 0 (CInode [1] ex_csX)) (p := [1]) (cs := ex_csX)
    (b := 4) (L := 3%nat) (wl := 0) (cs' := fx_cs); try reflexivity.
  - repeat split; try reflexivity; [apply reach_root; reflexivity | cbn; lia].
  - intros b'. reflexivity.
Qed.

Lemma fx_coversA : covers fx_s4 fx_o5 fx_wA fx_vAB.
Proof.
  split; [|left; split; reflexivity].
  intros n. destruct (Nat.eq_dec n 1) as [->|H1]; [right; left; reflexivity|].
  destruct (Nat.eq_dec n 3) as [->|H3]; [right; right; repeat split; reflexivity|].
  left. cbn [hp set_hp fx_vAB fx_o5 fx_o3 fx_o2 set_owner set_view view fx_o0]. rewrite !upd_neq by assumption. reflexivity.
Qed.

Theorem fx_fine_run : fine_run fx_H fx_G.
Proof.
  split.
  - split; [exact ex_g2_init_ok | repeat split].
  - intros t. destruct t as [|[|[|[|[|[|[|[|t]]]]]]]]; cbn [fx_H fx_G].
    + apply fs_private with (n := 3%nat) (c := fx_leaf3); reflexivity.
    + apply fs_lock with (w := fx_wA) (n := 1%nat) (c := mk 0 (CInode [1] ex_csX)); try reflexivity. discriminate.
    + apply fs_lock with (w := fx_wB) (n := 0%nat) (c := mk 0 (CLeaf ex_k1 ex_v1)); try reflexivity. discriminate.
    + apply fs_store with (w := fx_wA) (n := 1%nat) (c := mk (0 + 2) (CInode [1] ex_csX)) (ct := CInode [1] fx_cs); reflexivity.
    + apply fs_commit with (w := fx_wB) (v' := fx_vB); try reflexivity; [|exact fx_coversB].
      eapply vs_bump. exact fx_commitB.
    + apply fs_commit with (w := fx_wA) (v' := fx_vAB); try reflexivity; [|exact fx_coversA].
      eapply vs_commit. exact fx_commitA.
    + apply fs_unlock with (w := fx_wA) (n := 1%nat) (c := mk (0 + 2) (CInode [1] fx_cs)) (cv := mk (bump 0) (CInode [1] fx_cs));
        try reflexivity. left. reflexivity.
    + apply fs_unlock with (w := fx_wB) (n := 0%nat) (c := mk (0 + 2) (CLeaf ex_k1 ex_v1)) (cv := mk (bump 0) (CLeaf ex_k1 ex_v1));
        try reflexivity. left. reflexivity.
    + apply fs_stutter; reflexivity.
Qed.

(** two writers are in flight at once *)
Lemma fx_two_in_flight : owner (fx_G 4%nat) 1%nat = Some fx_wA /\ owner (fx_G 4%nat) 0%nat = Some fx_wB.
Proof. split; reflexivity. Qed.

(** in between the heap is not the tree of any view: at moment 4 node 1 is
    write-locked and already shows the new slot while the view is still the
    old tree *)
Lemma fx_locked : exists c, hp (fx_H 4%nat) 1%nat = Some c /\ w_is_free (word c) = false /\
  cont c = CInode [1] fx_cs /\ commit_view fx_G 4%nat = ex_g2.
Proof. eexists. repeat split; reflexivity. Qed.

(** reader A: try_get [1;4] with all its sections in [0, 1], before node 1 is locked: not found *)
Definition fx_runA : run :=
  {| r_lock := 0; r_word := 8; r_check := 1; r_ptr := Some 1%nat;
     r_hops := [ {| h_node := 1%nat; h_lock := 0; h_check := 1; h_word := 0; h_cont := CInode [1] ex_csX |} ] |}.

Lemma fx_validA : valid_run fx_H fx_k fx_runA None.
Proof.
  unfold valid_run. cbn [fx_runA r_lock r_check r_word r_ptr r_hops].
  repeat split; try reflexivity; try lia.
  eexists _, _. repeat split. apply ho_last.
  - repeat split; cbn; try lia; eexists; repeat split; reflexivity.
  - cbn. lia.
  - apply st_nochild; reflexivity.
Qed.

(** reader B: try_get [1;4] with all its sections in [7, 9], after node 1 is unlocked
    (leaf 0 is still locked by writer B at moment 7: it is not on the path): found *)
Definition fx_runB : run :=
  {| r_lock := 7; r_word := 8; r_check := 7; r_ptr := Some 1%nat;
     r_hops := [ {| h_node := 1%nat; h_lock := 7; h_check := 9; h_word := 4; h_cont := CInode [1] fx_cs |};
                 {| h_node := 3%nat; h_lock := 8; h_check := 9; h_word := 0; h_cont := CLeaf fx_k fx_v |} ] |}.

Lemma fx_validB : valid_run fx_H fx_k fx_runB (Some fx_v).
Proof.
  unfold valid_run. cbn [fx_runB r_lock r_check r_word r_ptr r_hops].
  repeat split; try reflexivity; try lia.
  eexists _, _. repeat split. eapply ho_step with (p := [1]) (cs := fx_cs); try reflexivity.
  - repeat split; cbn; try lia; eexists; repeat split; reflexivity.
  - cbn. lia.
  - apply ho_last.
    + repeat split; cbn; try lia; eexists; repeat split; reflexivity.
    + cbn. lia.
    + apply st_hit.
Qed.

(** no validated section of node 1 can straddle the locked period: a section
    that opens before the lock (word 0) closes before it *)
Lemma fx_no_straddle : forall a, hop_observed fx_H a -> h_node a = 1%nat -> (h_lock a <= 1)%nat -> (h_check a <= 1)%nat.
Proof.
  intros a (Hle & Hf & (c1 & Hc1 & Hw1 & _) & (c2 & Hc2 & Hw2)) En Hl. rewrite En in *.
  assert (E0 : h_word a = 0).
  { destruct (h_lock a) as [|[|l]]; [| |lia]; cbn in Hc1; injection Hc1 as <-; symmetry; exact Hw1. }
  destruct (h_check a) as [|[|[|[|[|[|[|[|[|u]]]]]]]]]; try lia; cbn in Hc2; injection Hc2 as <-; rewrite E0 in Hw2; discriminate.
Qed.

(** the theorem applied: both readers are linearizable in the view *)
Lemma fx_readers_linearizable :
  (exists T, (0 <= T <= 1)%nat /\ lookup (commit_view fx_G T) fx_k None) /\
  (exists T, (7 <= T <= 9)%nat /\ lookup (commit_view fx_G T) fx_k (Some fx_v)).
Proof.
  split.
  - destruct (fine_reader_linearizable fx_H fx_G fx_k fx_runA None fx_fine_run fx_validA) as (T & HT & Hl).
    exists T. split; [exact HT | exact Hl].
  - destruct (fine_reader_linearizable fx_H fx_G fx_k fx_runB (Some fx_v) fx_fine_run fx_validB) as (T & HT & Hl).
    exists T. split; [exact HT | exact Hl].
Qed.
Print Assumptions fx_readers_linearizable.
