(** C09d, second part: the FORWARD iterator of Olc/IterModel.v extended to a
    root pointer that points to a leaf (a one-entry tree) or is null (the
    empty tree).  Definitions only; proofs in Olc/IterLeaf.v.  (The reverse
    model, Olc/IterRevModel.v, has these cases built in.)

    olc_art.hpp: try_first / try_left_most_traversal on a root leaf push
    only the leaf; try_seek's loop reaches the leaf with an empty stack and
    compares; try_next pops the re-validated leaf, "falls through loop if
    just a root leaf since stack now empty" and reports the end.  A position
    on a root leaf is [leafpos_ok] of Olc/IterRevModel.v; [next_none] with no
    pops is exactly that try_next. *)
From Coq Require Import List ZArith Bool Arith Sorted.
From Unodb Require Import Base.Lex Lock.LockModel Olc.ReadModel Olc.IterModel Olc.IterRevModel.
Import ListNotations.
Local Open Scope Z_scope.

(** forward seek, including the search phase ending on the root leaf *)
Inductive seek_result0 (H : history) (lo : key) : nat -> nat -> nat -> ipos -> Prop :=
| sr0_inner : forall rl t1 t2 pos, seek_result H lo rl t1 t2 pos -> seek_result0 H lo rl t1 t2 pos
| sr0_leaf_hit : forall rl rw rc n0 a q k v,
    seek_down H lo rl rw rc n0 [] a q -> h_cont a = CLeaf k v -> lex_le lo k ->
    seek_result0 H lo rl (h_lock a) (h_lock a) (seek_pos [] a k v).

(** ... the root leaf is smaller than lo: try_next pops it, the stack is
    empty; decided at the moment the leaf was read-locked *)
Inductive seek_end0 (H : history) (lo : key) : nat -> nat -> Prop :=
| se0_inner : forall rl T, seek_end H lo rl T -> seek_end0 H lo rl T
| se0_leaf_lt : forall rl rw rc n0 a q kr vr t0 pops,
    seek_down H lo rl rw rc n0 [] a q -> h_cont a = CLeaf kr vr -> lex_lt kr lo ->
    next_none H (seek_pos [] a kr vr) t0 pops -> seek_end0 H lo rl (h_lock a).

(** runs of [next] from positions that may be on a root leaf ([end_moment]:
    Olc/IterRevModel.v) *)
Inductive iter_run0 (H : history) : nat -> ipos -> list delivery -> option nat -> Prop :=
| ir0_stop : forall t pos, iter_run0 H t pos [] None
| ir0_end : forall t pos t0 pops, (t <= t0)%nat -> next_none H pos t0 pops ->
    iter_run0 H t pos [] (Some (end_moment pos t0))
| ir0_end_seek : forall t pos rl T, (t <= rl)%nat -> seek_end0 H (ip_key pos) rl T -> iter_run0 H t pos [] (Some T)
| ir0_end_seek_eq : forall t pos rl t1 t2 pos1 t0 pops, (t <= rl)%nat ->
    seek_result0 H (ip_key pos) rl t1 t2 pos1 -> ip_key pos1 = ip_key pos -> (t2 <= t0)%nat ->
    next_none H pos1 t0 pops -> iter_run0 H t pos [] (Some (end_moment pos1 t0))
| ir0_next : forall t pos t0 pops pv tc b' c' rest hs a q k' v' ds e, (t <= t0)%nat ->
    next_some H pos t0 pops pv tc b' c' rest hs a q k' v' ->
    iter_run0 H (h_lock a) (next_pos pv b' c' rest hs a k' v') ds e ->
    iter_run0 H t pos ((t0, h_lock a, k', v') :: ds) e
| ir0_seek_gt : forall t pos rl t1 t2 pos1 ds e, (t <= rl)%nat ->
    seek_result0 H (ip_key pos) rl t1 t2 pos1 -> ip_key pos1 <> ip_key pos ->
    iter_run0 H t2 pos1 ds e ->
    iter_run0 H t pos ((t1, t2, ip_key pos1, ip_val pos1) :: ds) e
| ir0_seek_eq : forall t pos rl t1 t2 pos1 t0 pops pv tc b' c' rest hs a q k' v' ds e, (t <= rl)%nat ->
    seek_result0 H (ip_key pos) rl t1 t2 pos1 -> ip_key pos1 = ip_key pos -> (t2 <= t0)%nat ->
    next_some H pos1 t0 pops pv tc b' c' rest hs a q k' v' ->
    iter_run0 H (h_lock a) (next_pos pv b' c' rest hs a k' v') ds e ->
    iter_run0 H t pos ((t0, h_lock a, k', v') :: ds) e.

(** a whole forward scan: scan_from / scan_range start with [seek lo];
    scan(fn) starts with try_first (bound: the empty key, the least one) *)
Inductive iter_scan0 (H : history) : nat -> key -> list delivery -> option nat -> Prop :=
| is0_end : forall t lo rl T, (t <= rl)%nat -> seek_end0 H lo rl T -> iter_scan0 H t lo [] (Some T)
| is0_seek : forall t lo rl t1 t2 pos ds e, (t <= rl)%nat -> seek_result0 H lo rl t1 t2 pos ->
    iter_run0 H t2 pos ds e -> iter_scan0 H t lo ((t1, t2, ip_key pos, ip_val pos) :: ds) e
| is0_first_empty : forall t rl, (t <= rl)%nat -> root (H rl) = None -> iter_scan0 H t [] [] (Some rl)
| is0_first : forall t rl rw rc n0 hs a q k v ds e, (t <= rl)%nat -> first_down H rl rw rc n0 hs a q k v ->
    iter_run0 H (h_lock a) (seek_pos hs a k v) ds e ->
    iter_scan0 H t [] ((rl, h_lock a, k, v) :: ds) e.
