(** C03 (writer side): the atomic commits of olc_db insert / remove as
    relations between heaps of Olc/ReadModel.v, the well-formedness invariant
    they maintain, and the histories they generate.  Definitions only. *)
From Coq Require Import List ZArith Bool Arith.
From Unodb Require Import Lock.LockModel Olc.ReadModel.
Import ListNotations.
Local Open Scope Z_scope.

(** ** Heap update, version bump *)
Definition heap := nid -> option cell.
Definition upd (h : heap) (n : nid) (c : cell) : heap :=
  fun m => if Nat.eqb m n then Some c else h m.
Definition bump (w : Z) : Z := w + 4.
Definition mk (w : Z) (ct : content) : cell := {| word := w; cont := ct |}.

(** ** Well-formedness *)

(** n is in the tree, is an inner node, and its slot for byte b holds m *)
Definition edge (g : gstate) (n : nid) (b : Z) (m : nid) : Prop :=
  exists q c p cs, reach g n q /\ hp g n = Some c /\ cont c = CInode p cs /\ find_child b cs = Some m.

Record WF (g : gstate) : Prop := {
  (* nodes in the tree are allocated and their word is free *)
  wf_alloc : forall n pth, reach g n pth -> exists c, hp g n = Some c /\ w_is_free (word c) = true;
  (* a leaf sits on the search path of its own key *)
  wf_leaf : forall n pth c kk v, reach g n pth -> hp g n = Some c -> cont c = CLeaf kk v ->
      pth = firstn (length pth) kk;
  (* a tree, not a DAG: at most one slot holds a given node; no slot holds the root *)
  wf_parent : forall n1 b1 n2 b2 m, edge g n1 b1 m -> edge g n2 b2 m -> n1 = n2 /\ b1 = b2;
  wf_root : forall r n b, root g = Some r -> edge g n b r -> False
}.

(** the children list cs' is cs with the slot of byte b set to o *)
Definition slot_set (cs : list (Z * nid)) (b : Z) (o : option nid) (cs' : list (Z * nid)) : Prop :=
  forall b', find_child b' cs' = if b' =? b then o else find_child b' cs.

(** what the writer's descent for k established about inner node N: it is in
    the tree at depth d on the search path of k, its prefix matches, b is the
    next key byte *)
Definition at_inode (g : gstate) (k : key) (N : nid) (d : nat) (cN : cell) (p : list Z) (cs : list (Z * nid)) (b : Z) : Prop :=
  reach g N (firstn d k) /\ (d <= length k)%nat /\ hp g N = Some cN /\ cont cN = CInode p cs /\
  prefix_at p d k /\ nth_error k (d + length p) = Some b.

(** ** Commit shapes.  Every shape bumps the word of each node whose content
    it changes and sets the word of each node it unlinks to 1. *)

Definition set_hp (g : gstate) (h : heap) : gstate :=
  {| hp := h; root_word := root_word g; root := root g |}.
Definition set_root (g : gstate) (h : heap) (r : option nid) : gstate :=
  {| hp := h; root_word := bump (root_word g); root := r |}.

(** S1 add_leaf: inner node N gets the new slot (b, fresh leaf L) *)
Inductive add_leaf (k : key) (v : val) (g g' : gstate) : Prop :=
| add_leaf_intro : forall N d cN p cs b L wl cs',
    at_inode g k N d cN p cs b -> find_child b cs = None ->
    hp g L = None -> w_is_free wl = true -> slot_set cs b (Some L) cs' ->
    g' = set_hp g (upd (upd (hp g) L (mk wl (CLeaf k v))) N (mk (bump (word cN)) (CInode p cs'))) ->
    add_leaf k v g g'.

(** S2 remove_leaf: inner node N loses the slot of the leaf L with key k; L obsolete *)
Inductive remove_leaf (k : key) (g g' : gstate) : Prop :=
| remove_leaf_intro : forall N d cN p cs b L cL v cs',
    at_inode g k N d cN p cs b -> find_child b cs = Some L ->
    hp g L = Some cL -> cont cL = CLeaf k v -> slot_set cs b None cs' ->
    g' = set_hp g (upd (upd (hp g) L (mk 1 (cont cL))) N (mk (bump (word cN)) (CInode p cs'))) ->
    remove_leaf k g g'.

(** S3 root_insert / root_remove: empty tree <-> single leaf *)
Inductive root_insert (k : key) (v : val) (g g' : gstate) : Prop :=
| root_insert_intro : forall L wl,
    root g = None -> hp g L = None -> w_is_free wl = true ->
    g' = set_root g (upd (hp g) L (mk wl (CLeaf k v))) (Some L) ->
    root_insert k v g g'.

Inductive root_remove (k : key) (g g' : gstate) : Prop :=
| root_remove_intro : forall L cL v,
    root g = Some L -> hp g L = Some cL -> cont cL = CLeaf k v ->
    g' = set_root g (upd (hp g) L (mk 1 (cont cL))) None ->
    root_remove k g g'.

(** ** Slots: the root pointer or the slot of byte bP of inner node P *)
Inductive slot := SRoot | SChild (P : nid) (bP : Z).

(** slot s holds node O, which is therefore in the tree at path Q *)
Definition slot_holds (g : gstate) (s : slot) (O : nid) (Q : list Z) : Prop :=
  match s with
  | SRoot => root g = Some O /\ Q = []
  | SChild P bP => exists pthP cP pP csP, reach g P pthP /\ hp g P = Some cP /\ cont cP = CInode pP csP /\
      find_child bP csP = Some O /\ Q = pthP ++ pP ++ [bP]
  end.

(** g' is g with heap h and slot s redirected to X; the root word resp. the
    word of P is bumped *)
Definition slot_redirect (g : gstate) (s : slot) (h : heap) (X : nid) (g' : gstate) : Prop :=
  match s with
  | SRoot => g' = set_root g h (Some X)
  | SChild P bP => exists cP pP csP csP', hp g P = Some cP /\ cont cP = CInode pP csP /\
      slot_set csP bP (Some X) csP' /\
      g' = set_hp g (upd h P (mk (bump (word cP)) (CInode pP csP')))
  end.

(** S4 leaf_split: the slot holding leaf L0 (key kL, differs from k first at
    depth d + |px|) is redirected to a fresh inner node X over L0 and a fresh
    leaf Lk; L0 is not touched *)
Inductive leaf_split (k : key) (v : val) (g g' : gstate) : Prop :=
| leaf_split_intro : forall s L0 d cL kL vL X wx px csX bl bk Lk wl h,
    slot_holds g s L0 (firstn d k) -> (d <= length k)%nat ->
    hp g L0 = Some cL -> cont cL = CLeaf kL vL ->
    prefix_at px d k -> prefix_at px d kL ->
    nth_error k (d + length px) = Some bk -> nth_error kL (d + length px) = Some bl -> bl <> bk ->
    (forall b0, find_child b0 csX = if b0 =? bk then Some Lk else if b0 =? bl then Some L0 else None) ->
    hp g X = None -> hp g Lk = None -> X <> Lk -> w_is_free wx = true -> w_is_free wl = true ->
    h = upd (upd (hp g) Lk (mk wl (CLeaf k v))) X (mk wx (CInode px csX)) ->
    slot_redirect g s h X g' ->
    leaf_split k v g g'.

(** what the writer's descent established about the node N held by slot s *)
Definition at_slot_inode (g : gstate) (k : key) (s : slot) (N : nid) (d : nat) (cN : cell) (p : list Z)
    (cs : list (Z * nid)) (b : Z) : Prop :=
  slot_holds g s N (firstn d k) /\ (d <= length k)%nat /\ hp g N = Some cN /\ cont cN = CInode p cs /\
  prefix_at p d k /\ nth_error k (d + length p) = Some b.

(** S5 replace (growth): the slot holding inner node N is redirected to a fresh
    copy N' with the same prefix and the children of N plus the fresh leaf L; N obsolete *)
Inductive replace_ins (k : key) (v : val) (g g' : gstate) : Prop :=
| replace_ins_intro : forall s N d cN p cs b N' wn cs' L wl h,
    at_slot_inode g k s N d cN p cs b -> find_child b cs = None ->
    hp g N' = None -> hp g L = None -> N' <> L -> w_is_free wn = true -> w_is_free wl = true ->
    slot_set cs b (Some L) cs' ->
    h = upd (upd (upd (hp g) L (mk wl (CLeaf k v))) N' (mk wn (CInode p cs'))) N (mk 1 (cont cN)) ->
    slot_redirect g s h N' g' ->
    replace_ins k v g g'.

(** S5 replace (shrink): ... the children of N minus the leaf L with key k; N and L obsolete *)
Inductive replace_rem (k : key) (g g' : gstate) : Prop :=
| replace_rem_intro : forall s N d cN p cs b N' wn cs' L cL v h,
    at_slot_inode g k s N d cN p cs b -> find_child b cs = Some L ->
    hp g L = Some cL -> cont cL = CLeaf k v ->
    hp g N' = None -> w_is_free wn = true ->
    slot_set cs b None cs' ->
    h = upd (upd (upd (hp g) L (mk 1 (cont cL))) N' (mk wn (CInode p cs'))) N (mk 1 (cont cN)) ->
    slot_redirect g s h N' g' ->
    replace_rem k g g'.

(** S6 prefix_split: the prefix p1 ++ bn :: p2 of inner node N differs from k
    at its byte bn; the slot holding N is redirected to a fresh inner node X
    with prefix p1 over N and the fresh leaf Lk; N keeps its children, its
    prefix is cut to p2 *)
Inductive prefix_split (k : key) (v : val) (g g' : gstate) : Prop :=
| prefix_split_intro : forall s N d cN p1 bn p2 cs bk X wx csX Lk wl h,
    slot_holds g s N (firstn d k) -> (d <= length k)%nat ->
    hp g N = Some cN -> cont cN = CInode (p1 ++ bn :: p2) cs ->
    prefix_at p1 d k -> nth_error k (d + length p1) = Some bk -> bk <> bn ->
    (forall b0, find_child b0 csX = if b0 =? bk then Some Lk else if b0 =? bn then Some N else None) ->
    hp g X = None -> hp g Lk = None -> X <> Lk -> w_is_free wx = true -> w_is_free wl = true ->
    h = upd (upd (upd (hp g) Lk (mk wl (CLeaf k v))) X (mk wx (CInode p1 csX))) N
            (mk (bump (word cN)) (CInode p2 cs)) ->
    slot_redirect g s h X g' ->
    prefix_split k v g g'.

(** S7 collapse: inner node N has exactly two children, the leaf L with key k
    and C; the slot holding N is redirected to C; if C is an inner node, the
    prefix of N and the byte of C are prepended to its prefix; N and L obsolete *)
Inductive collapse (k : key) (g g' : gstate) : Prop :=
| collapse_intro : forall s N d cN p cs b L cL v bc C cC cC' h,
    at_slot_inode g k s N d cN p cs b ->
    (forall b0, find_child b0 cs = if b0 =? b then Some L else if b0 =? bc then Some C else None) -> bc <> b ->
    hp g L = Some cL -> cont cL = CLeaf k v -> hp g C = Some cC ->
    ((exists kc vc, cont cC = CLeaf kc vc /\ cC' = cC) \/
     (exists pc csC, cont cC = CInode pc csC /\ cC' = mk (bump (word cC)) (CInode (p ++ bc :: pc) csC))) ->
    h = upd (upd (upd (hp g) L (mk 1 (cont cL))) N (mk 1 (cont cN))) C cC' ->
    slot_redirect g s h C g' ->
    collapse k g g'.

(** ** Commits and generated histories *)

(* COMMITS-BEGIN *)
Inductive ins_commit (k : key) (v : val) (g g' : gstate) : Prop :=
| ic_add_leaf : add_leaf k v g g' -> ins_commit k v g g'
| ic_root_insert : root_insert k v g g' -> ins_commit k v g g'
| ic_leaf_split : leaf_split k v g g' -> ins_commit k v g g'
| ic_replace_ins : replace_ins k v g g' -> ins_commit k v g g'
| ic_prefix_split : prefix_split k v g g' -> ins_commit k v g g'.

Inductive rem_commit (k : key) (g g' : gstate) : Prop :=
| rc_remove_leaf : remove_leaf k g g' -> rem_commit k g g'
| rc_root_remove : root_remove k g g' -> rem_commit k g g'
| rc_replace_rem : replace_rem k g g' -> rem_commit k g g'
| rc_collapse : collapse k g g' -> rem_commit k g g'.
(* COMMITS-END *)

Definition commit (k : key) (g g' : gstate) : Prop :=
  (exists v, ins_commit k v g g') \/ rem_commit k g g'.

(** every moment is a stutter or one commit.  Fresh ids are ids that are not
    allocated; nothing is ever deallocated, so ids are never reused. *)
Definition fp_ok (g : gstate) (fp : nid -> list Z) : Prop :=
  forall n pth c p cs, reach g n pth -> hp g n = Some c -> cont c = CInode p cs -> pth ++ p = fp n.
(** the initial tree: well-formed, and its (finitely many) inner nodes have their full paths tabulated *)
Definition init_ok (g : gstate) : Prop := WF g /\ exists fp, fp_ok g fp.

Definition generated (H : history) : Prop :=
  init_ok (H O) /\ forall t, H (S t) = H t \/ exists k, commit k (H t) (H (S t)).

(** the history that stops changing at moment T *)
Definition freeze (H : history) (T : nat) : history := fun t => H (Nat.min t T).

(** the abstract effect of a commit on the map *)
Definition key_eq_dec : forall a b : key, {a = b} + {a <> b} := list_eq_dec Z.eq_dec.

Definition insert_effect (k : key) (v : val) (g g' : gstate) : Prop :=
  lookup g k None /\
  forall k' r, lookup g' k' r <-> (if key_eq_dec k' k then r = Some v else lookup g k' r).

Definition remove_effect (k : key) (g g' : gstate) : Prop :=
  (exists v, lookup g k (Some v)) /\
  forall k' r, lookup g' k' r <-> (if key_eq_dec k' k then r = None else lookup g k' r).
