(** C09: proofs of the abstract scan theorem (see Olc/ScanSpec.v). *)
From Coq Require Import List ZArith Bool Sorted Lia.
From Unodb Require Import Olc.ScanSpec.
Import ListNotations.
Local Open Scope Z_scope.

(** * small list facts *)

Lemma last_cons_default : forall (A : Type) (l : list A) (a d : A),
  last (a :: l) d = last l a.
Proof.
  intros A l. induction l as [|b l IH]; intros a d.
  - reflexivity.
  - change (last (a :: b :: l) d) with (last (b :: l) d).
    rewrite (IH b d), (IH b a). reflexivity.
Qed.

Lemma final_bound_cons : forall lo t1 k v ds,
  final_bound lo ((t1, k, v) :: ds) = final_bound (k + 1) ds.
Proof.
  intros lo t1 k v ds. unfold final_bound.
  cbn [map fst snd]. apply last_cons_default.
Qed.

Lemma last_moment_cons : forall t t1 k v ds,
  last_moment t ((t1, k, v) :: ds) = last_moment t1 ds.
Proof.
  intros t t1 k v ds. unfold last_moment.
  cbn [map fst snd]. apply last_cons_default.
Qed.

Lemma keys_of_cons : forall t1 k v ds,
  keys_of ((t1, k, v) :: ds) = k :: keys_of ds.
Proof. reflexivity. Qed.

(** * moments are non-decreasing along a scan *)

Lemma scan_last_moment_ge : forall H t lo ds,
  scan_fwd H t lo ds -> (t <= last_moment t ds)%nat.
Proof.
  intros H t lo ds S.
  induction S as [t lo | t lo t1 k v ds Ht Hl Hv S IH].
  - unfold last_moment. cbn. lia.
  - rewrite last_moment_cons. lia.
Qed.

(** * ordered and bounded *)

Theorem scan_ordered_bounded : forall H t lo ds, scan_fwd H t lo ds ->
  StronglySorted Z.lt (keys_of ds) /\ Forall (fun k => lo <= k) (keys_of ds).
Proof.
  intros H t lo ds S.
  induction S as [t lo | t lo t1 k v ds Ht Hl Hv S [IHs IHb]].
  - split; constructor.
  - rewrite keys_of_cons. destruct Hl as [Hlo _]. split.
    + constructor; [exact IHs|].
      eapply Forall_impl; [|exact IHb]. intros a Ha. cbv beta in Ha. lia.
    + constructor; [exact Hlo|].
      eapply Forall_impl; [|exact IHb]. intros a Ha. cbv beta in Ha. lia.
Qed.

(** * delivered values were held *)

Theorem scan_values_held : forall H t lo ds, scan_fwd H t lo ds ->
  Forall (fun d => (t <= fst (fst d))%nat /\ H (fst (fst d)) (snd (fst d)) = Some (snd d)) ds.
Proof.
  intros H t lo ds S.
  induction S as [t lo | t lo t1 k v ds Ht Hl Hv S IH].
  - constructor.
  - constructor.
    + cbn [fst snd]. split; [exact Ht|exact Hv].
    + eapply Forall_impl; [|exact IH].
      intros d [Hd1 Hd2]. split; [lia|exact Hd2].
Qed.

(** * no phantoms *)

Theorem scan_no_phantom : forall H t lo ds k, scan_fwd H t lo ds ->
  (forall t', H t' k = None) -> ~ In k (keys_of ds).
Proof.
  intros H t lo ds k S Habs Hin.
  pose proof (scan_values_held H t lo ds S) as HV.
  unfold keys_of in Hin. apply in_map_iff in Hin.
  destruct Hin as [d [Hk Hd]].
  rewrite Forall_forall in HV. destruct (HV d Hd) as [_ Hval].
  rewrite Hk, Habs in Hval. discriminate.
Qed.

(** * completeness *)

Theorem scan_complete_prefix : forall H t lo ds k,
  scan_fwd H t lo ds -> lo <= k -> k < final_bound lo ds ->
  (forall t', (t <= t' <= last_moment t ds)%nat -> H t' k <> None) -> In k (keys_of ds).
Proof.
  intros H t lo ds k S.
  induction S as [t lo | t lo t1 k1 v ds Ht Hl Hv S IH]; intros Hlo Hfb Hst.
  - unfold final_bound in Hfb. cbn in Hfb. lia.
  - rewrite keys_of_cons.
    rewrite final_bound_cons in Hfb.
    pose proof (scan_last_moment_ge H t1 (k1 + 1) ds S) as Hmono.
    assert (Hst' : forall t', (t <= t' <= last_moment t1 ds)%nat -> H t' k <> None).
    { intros t' Ht'. apply Hst. rewrite last_moment_cons. exact Ht'. }
    destruct Hl as [Hlo1 [Hpres Hleast]].
    destruct (Z_lt_le_dec k k1) as [Hlt|Hge].
    + exfalso. apply (Hst' t1); [lia|]. apply Hleast; assumption.
    + destruct (Z.eq_dec k k1) as [Heq|Hne].
      * left. symmetry. exact Heq.
      * right. apply IH; [lia|exact Hfb|].
        intros t' Ht'. apply Hst'. lia.
Qed.

Theorem scan_complete : forall H t lo ds te k,
  scan_fwd H t lo ds -> (last_moment t ds <= te)%nat -> exhausted H te (final_bound lo ds) ->
  lo <= k -> (forall t', (t <= t' <= te)%nat -> H t' k <> None) -> In k (keys_of ds).
Proof.
  intros H t lo ds te k S Hte Hex Hlo Hst.
  pose proof (scan_last_moment_ge H t lo ds S) as Hmono.
  destruct (Z_lt_le_dec k (final_bound lo ds)) as [Hlt|Hge].
  - apply (scan_complete_prefix H t lo ds k S Hlo Hlt).
    intros t' Ht'. apply Hst. lia.
  - exfalso. apply (Hst te); [lia|]. apply Hex. exact Hge.
Qed.
