(** C03 (writer side): the commit shapes can fire -- a concrete run
    empty -> root_insert k1 -> leaf_split k2 (at the root slot) -> collapse k2. *)
From Coq Require Import List ZArith Bool Arith Lia.
From Unodb Require Import Lock.LockModel Olc.ReadModel Olc.ReadProofs Olc.WriteModel Olc.WriteShapes Olc.WriteProofs.
Import ListNotations.
Local Open Scope Z_scope.

Definition ex_k1 : key := [1; 2].
Definition ex_k2 : key := [1; 3].
Definition ex_v1 : val := [10].
Definition ex_v2 : val := [20].
Definition ex_csX : list (Z * nid) := [(2, 0%nat); (3, 2%nat)].
Definition ex_g0 : gstate := {| hp := fun _ => None; root_word := 0; root := None |}.
Definition ex_g1 : gstate := set_root ex_g0 (upd (hp ex_g0) 0%nat (mk 0 (CLeaf ex_k1 ex_v1))) (Some 0%nat).
Definition ex_h2 : heap := upd (upd (hp ex_g1) 2%nat (mk 0 (CLeaf ex_k2 ex_v2))) 1%nat (mk 0 (CInode [1] ex_csX)).
Definition ex_g2 : gstate := set_root ex_g1 ex_h2 (Some 1%nat).
Definition ex_h3 : heap :=
  upd (upd (upd (hp ex_g2) 2%nat (mk 1 (CLeaf ex_k2 ex_v2))) 1%nat (mk 1 (CInode [1] ex_csX))) 0%nat (mk 0 (CLeaf ex_k1 ex_v1)).
Definition ex_g3 : gstate := set_root ex_g2 ex_h3 (Some 0%nat).

Lemma ex_csX_spec : forall b0, find_child b0 ex_csX = if b0 =? 3 then Some 2%nat else if b0 =? 2 then Some 0%nat else None.
Proof.
  intros b0. cbn. destruct (Z.eqb_spec b0 2) as [->|H2]; [reflexivity|]. destruct (Z.eqb_spec b0 3); reflexivity.
Qed.

Lemma ex_step1 : ins_commit ex_k1 ex_v1 ex_g0 ex_g1.
Proof. apply ic_root_insert. eapply root_insert_intro with (L := 0%nat) (wl := 0); reflexivity. Qed.

Lemma ex_step2 : ins_commit ex_k2 ex_v2 ex_g1 ex_g2.
Proof.
  apply ic_leaf_split.
  eapply leaf_split_intro with (s := SRoot) (L0 := 0%nat) (d := 0%nat) (kL := ex_k1) (vL := ex_v1) (X := 1%nat)
    (wx := 0) (px := [1]) (csX := ex_csX) (bl := 2) (bk := 3) (Lk := 2%nat) (wl := 0) (h := ex_h2);
    try reflexivity; try (cbn; lia); try exact ex_csX_spec; try discriminate.
  cbn. auto.
Qed.

Lemma ex_step3 : rem_commit ex_k2 ex_g2 ex_g3.
Proof.
  apply rc_collapse.
  eapply collapse_intro with (s := SRoot) (N := 1%nat) (d := 0%nat) (cN := mk 0 (CInode [1] ex_csX)) (p := [1]) (cs := ex_csX) (b := 3) (L := 2%nat)
    (cL := mk 0 (CLeaf ex_k2 ex_v2)) (v := ex_v2) (bc := 2) (C := 0%nat) (cC := mk 0 (CLeaf ex_k1 ex_v1)) (cC' := mk 0 (CLeaf ex_k1 ex_v1)) (h := ex_h3);
    try reflexivity; try exact ex_csX_spec; try discriminate.
  - repeat split; try reflexivity. cbn. lia.
  - left. exists ex_k1, ex_v1. auto.
Qed.

Theorem ex_run : lookup ex_g2 ex_k1 (Some ex_v1) /\ lookup ex_g2 ex_k2 (Some ex_v2) /\
                 lookup ex_g3 ex_k1 (Some ex_v1) /\ lookup ex_g3 ex_k2 None.
Proof.
  assert (W0 : WF ex_g0) by (apply WF_empty; reflexivity).
  destruct (ins_commit_ok _ _ _ _ W0 ex_step1) as [(W1 & _) [_ E1]].
  destruct (ins_commit_ok _ _ _ _ W1 ex_step2) as [(W2 & _) [_ E2]].
  destruct (rem_commit_ok _ _ _ W2 ex_step3) as [(W3 & _) [_ E3]].
  assert (L1 : lookup ex_g1 ex_k1 (Some ex_v1)).
  { apply E1. destruct (key_eq_dec ex_k1 ex_k1); [reflexivity | contradiction]. }
  assert (L21 : lookup ex_g2 ex_k1 (Some ex_v1)).
  { apply E2. destruct (key_eq_dec ex_k1 ex_k2); [discriminate | exact L1]. }
  assert (L22 : lookup ex_g2 ex_k2 (Some ex_v2)).
  { apply E2. destruct (key_eq_dec ex_k2 ex_k2); [reflexivity | contradiction]. }
  repeat split; [exact L21 | exact L22 | |].
  - apply E3. destruct (key_eq_dec ex_k1 ex_k2); [discriminate | exact L21].
  - apply E3. destruct (key_eq_dec ex_k2 ex_k2); [reflexivity | contradiction].
Qed.

(** prefix_split at the root slot (k3 differs from the root's prefix [1] at its
    first byte), then collapse with an inner surviving child *)
Definition ex_k3 : key := [5; 6].
Definition ex_v3 : val := [30].
Definition ex_csY : list (Z * nid) := [(1, 1%nat); (5, 4%nat)].
Definition ex_h4 : heap :=
  upd (upd (upd (hp ex_g2) 4%nat (mk 0 (CLeaf ex_k3 ex_v3))) 3%nat (mk 0 (CInode [] ex_csY))) 1%nat
      (mk (bump 0) (CInode [] ex_csX)).
Definition ex_g4 : gstate := set_root ex_g2 ex_h4 (Some 3%nat).
Definition ex_h5 : heap :=
  upd (upd (upd (hp ex_g4) 4%nat (mk 1 (CLeaf ex_k3 ex_v3))) 3%nat (mk 1 (CInode [] ex_csY))) 1%nat
      (mk (bump (bump 0)) (CInode ([] ++ 1 :: []) ex_csX)).
Definition ex_g5 : gstate := set_root ex_g4 ex_h5 (Some 1%nat).

Lemma ex_csY_spec : forall b0, find_child b0 ex_csY = if b0 =? 5 then Some 4%nat else if b0 =? 1 then Some 1%nat else None.
Proof.
  intros b0. cbn. destruct (Z.eqb_spec b0 1) as [->|H2]; [reflexivity|]. destruct (Z.eqb_spec b0 5); reflexivity.
Qed.

Lemma ex_step4 : ins_commit ex_k3 ex_v3 ex_g2 ex_g4.
Proof.
  apply ic_prefix_split.
  eapply prefix_split_intro with (s := SRoot) (N := 1%nat) (d := 0%nat) (cN := mk 0 (CInode [1] ex_csX)) (p1 := [])
    (bn := 1) (p2 := []) (cs := ex_csX) (bk := 5) (X := 3%nat) (wx := 0) (csX := ex_csY) (Lk := 4%nat) (wl := 0) (h := ex_h4);
    try reflexivity; try (cbn; lia); try exact ex_csY_spec; try discriminate.
  cbn. auto.
Qed.

Lemma ex_step5 : rem_commit ex_k3 ex_g4 ex_g5.
Proof.
  apply rc_collapse.
  eapply collapse_intro with (s := SRoot) (N := 3%nat) (d := 0%nat) (cN := mk 0 (CInode [] ex_csY)) (p := []) (cs := ex_csY)
    (b := 5) (L := 4%nat) (cL := mk 0 (CLeaf ex_k3 ex_v3)) (v := ex_v3) (bc := 1) (C := 1%nat)
    (cC := mk (bump 0) (CInode [] ex_csX)) (cC' := mk (bump (bump 0)) (CInode ([] ++ 1 :: []) ex_csX)) (h := ex_h5);
    try reflexivity; try exact ex_csY_spec; try discriminate.
  - repeat split; try reflexivity. cbn. lia.
  - right. exists [], ex_csX. auto.
Qed.

Theorem ex_run2 : lookup ex_g4 ex_k3 (Some ex_v3) /\ lookup ex_g5 ex_k3 None /\ lookup ex_g5 ex_k1 (Some ex_v1) /\ lookup ex_g5 ex_k2 (Some ex_v2).
Proof.
  assert (W0 : WF ex_g0) by (apply WF_empty; reflexivity).
  destruct (ins_commit_ok _ _ _ _ W0 ex_step1) as [(W1 & _) _].
  destruct (ins_commit_ok _ _ _ _ W1 ex_step2) as [(W2 & _) _].
  destruct (ins_commit_ok _ _ _ _ W2 ex_step4) as [(W4 & _) [_ E4]].
  destruct (rem_commit_ok _ _ _ W4 ex_step5) as [_ [_ E5]].
  destruct ex_run as (L21 & L22 & _).
  repeat split.
  - apply E4. destruct (key_eq_dec ex_k3 ex_k3); [reflexivity | contradiction].
  - apply E5. destruct (key_eq_dec ex_k3 ex_k3); [reflexivity | contradiction].
  - apply E5. destruct (key_eq_dec ex_k1 ex_k3); [discriminate|].
    apply E4. destruct (key_eq_dec ex_k1 ex_k3); [discriminate | exact L21].
  - apply E5. destruct (key_eq_dec ex_k2 ex_k3); [discriminate|].
    apply E4. destruct (key_eq_dec ex_k2 ex_k3); [discriminate | exact L22].
Qed.
Print Assumptions ex_run.
Print Assumptions ex_run2.
