(** C03 (writer side, fine-grained): a writer does not change the heap
    atomically.  It write-locks the nodes it is going to change or unlink
    (word w free -> w + 2, one node at a time, by a CAS on the word it saw),
    stores into nodes it holds write-locked or into private (not yet
    published) nodes, one field at a time, and unlocks (w + 2 -> w + 4, or 1
    for unlinked nodes).  Several writers may be in flight on disjoint nodes.

    The model carries a ghost: who holds which node, and the VIEW -- the heap
    in which every in-flight writer is either rolled back entirely or rolled
    forward entirely.  A writer's COMMIT POINT is a ghost step, taken at a
    moment at which it holds every (already published) node the commit
    changes (two-phase locking: after its last lock, before its first
    unlock): the view takes one atomic commit of Olc/WriteModel.v.  Unlocking
    a node publishes exactly the view's cell.

    Olc/FineWriteProofs.v: the view is a history of atomic steps, the fine
    history agrees with it on every node whose word is free, and therefore a
    validated reader of the fine history is a validated reader of the view.
    Definitions only. *)
From Coq Require Import List ZArith Bool Arith.
From Unodb Require Import Lock.LockModel Olc.ReadModel Olc.WriteModel Olc.WriteShapes.
Import ListNotations.
Local Open Scope Z_scope.

Definition wid := nat.

(** ** Level A: what a reader needs *)

(** the steps of the view: atomic commits, and version bumps without a change
    (a writer that locked a node and released it unchanged, e.g. after a
    failed upgrade of another lock, still bumps the version) *)
Definition bump_node (n : nid) (g g' : gstate) : Prop :=
  exists c, hp g n = Some c /\ w_is_free (word c) = true /\
    g' = set_hp g (upd (hp g) n (mk (bump (word c)) (cont c))).
Definition bump_root (g g' : gstate) : Prop :=
  g' = {| hp := hp g; root_word := bump (root_word g); root := root g |}.

Inductive view_step (g g' : gstate) : Prop :=
| vs_commit : forall k, commit k g g' -> view_step g g'
| vs_bump : forall n, bump_node n g g' -> view_step g g'
| vs_bump_root : bump_root g g' -> view_step g g'.

Definition view_generated (V : history) : Prop :=
  init_ok (V O) /\ forall t, V (S t) = V t \/ view_step (V t) (V (S t)).

(** all a reader theorem needs of a history: every step is a stutter or a good step *)
Definition stepwise (V : history) : Prop :=
  init_ok (V O) /\ forall t, V (S t) = V t \/ step_ok (V t) (V (S t)).

(** the fine history H agrees with the view V wherever a word is free: every
    node of the view is allocated in H, and if its word in H is free, its
    cell is the view's; likewise the root pointer under a free root word.
    Nodes that are not (yet) in the view are not constrained at all. *)
Definition agree (H V : history) : Prop :=
  (forall t n cv, hp (V t) n = Some cv ->
     exists ch, hp (H t) n = Some ch /\ (w_is_free (word ch) = true -> ch = cv)) /\
  (forall t, w_is_free (root_word (H t)) = true ->
     root_word (V t) = root_word (H t) /\ root (V t) = root (H t)).

(** ** Level B: the operational model *)

(** ghost: which writer holds node n write-locked, which holds the root
    pointer lock, and the view *)
Record ghost := { owner : nid -> option wid; rowner : option wid; view : gstate }.

Definition set_owner (o : ghost) (n : nid) (x : option wid) : ghost :=
  {| owner := fun m => if Nat.eqb m n then x else owner o m; rowner := rowner o; view := view o |}.
Definition set_rowner (o : ghost) (x : option wid) : ghost :=
  {| owner := owner o; rowner := x; view := view o |}.
Definition set_view (o : ghost) (v : gstate) : ghost :=
  {| owner := owner o; rowner := rowner o; view := v |}.
Definition set_rootw (g : gstate) (w : Z) : gstate :=
  {| hp := hp g; root_word := w; root := root g |}.
Definition set_rootp (g : gstate) (r : option nid) : gstate :=
  {| hp := hp g; root_word := root_word g; root := r |}.

(** what writer w must hold for the view to go from v to v': every node whose
    cell changes is held by w, or is a private node (not in the view, held by
    nobody) that is already complete in the heap; the root pointer and its
    word change only under w's root lock *)
Definition covers (g : gstate) (o : ghost) (w : wid) (v' : gstate) : Prop :=
  (forall n, hp v' n = hp (view o) n \/ owner o n = Some w \/
             (hp (view o) n = None /\ owner o n = None /\ hp g n = hp v' n)) /\
  ((root_word v' = root_word (view o) /\ root v' = root (view o)) \/ rowner o = Some w).

(* FINE-STEPS-BEGIN *)
Inductive fine_step (g : gstate) (o : ghost) (g' : gstate) (o' : ghost) : Prop :=
| fs_stutter : g' = g -> o' = o -> fine_step g o g' o'
(* try_upgrade_to_write_lock succeeds: the word is the free value seen; only published nodes *)
| fs_lock : forall w n c, hp g n = Some c -> w_is_free (word c) = true -> owner o n = None ->
    hp (view o) n <> None ->
    g' = set_hp g (upd (hp g) n (mk (word c + 2) (cont c))) -> o' = set_owner o n (Some w) ->
    fine_step g o g' o'
(* a store into a node held write-locked: any content, the word stays *)
| fs_store : forall w n c ct, hp g n = Some c -> owner o n = Some w ->
    g' = set_hp g (upd (hp g) n (mk (word c) ct)) -> o' = o ->
    fine_step g o g' o'
(* allocation of / any store into a private node: not in the view, held by nobody *)
| fs_private : forall n c, hp (view o) n = None -> owner o n = None ->
    g' = set_hp g (upd (hp g) n c) -> o' = o ->
    fine_step g o g' o'
(* a store into an obsolete node (Lock/LockModel.v allows it: the node is dead) *)
| fs_dead : forall n c ct, hp g n = Some c -> word c = 1 -> owner o n = None ->
    g' = set_hp g (upd (hp g) n (mk 1 ct)) -> o' = o ->
    fine_step g o g' o'
| fs_lock_root : forall w, w_is_free (root_word g) = true -> rowner o = None ->
    g' = set_rootw g (root_word g + 2) -> o' = set_rowner o (Some w) ->
    fine_step g o g' o'
| fs_store_root : forall w r, rowner o = Some w ->
    g' = set_rootp g r -> o' = o ->
    fine_step g o g' o'
(* the commit point of writer w: a ghost step, the heap does not change *)
| fs_commit : forall w v', view_step (view o) v' -> covers g o w v' ->
    g' = g -> o' = set_view o v' ->
    fine_step g o g' o'
(* write_unlock / write_unlock_and_obsolete: the word goes to + 2 or to 1; the
   stores are complete: the cell published is the view's *)
| fs_unlock : forall w n c cv, hp g n = Some c -> owner o n = Some w ->
    hp (view o) n = Some cv -> cont cv = cont c -> (word cv = word c + 2 \/ word cv = 1) ->
    g' = set_hp g (upd (hp g) n cv) -> o' = set_owner o n None ->
    fine_step g o g' o'
| fs_unlock_root : forall w, rowner o = Some w ->
    root (view o) = root g -> root_word (view o) = root_word g + 2 ->
    g' = set_rootw g (root_word g + 2) -> o' = set_rowner o None ->
    fine_step g o g' o'.
(* FINE-STEPS-END *)

(** initially nobody holds anything and the heap is the view *)
Definition fine_init (g : gstate) (o : ghost) : Prop :=
  init_ok (view o) /\ g = view o /\ (forall n, owner o n = None) /\ rowner o = None.

Definition fine_run (H : history) (G : nat -> ghost) : Prop :=
  fine_init (H O) (G O) /\ forall t, fine_step (H t) (G t) (H (S t)) (G (S t)).

Definition fine_generated (H : history) : Prop := exists G, fine_run H G.

(** the view of a run *)
Definition commit_view (G : nat -> ghost) : history := fun t => view (G t).

(** the step from (g, o) to o' is a commit point attributable to writer w *)
Definition own_commit (g : gstate) (o : ghost) (w : wid) (o' : ghost) : Prop :=
  exists v', view_step (view o) v' /\ covers g o w v' /\ o' = set_view o v'.
