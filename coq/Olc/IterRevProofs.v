(** C09d: proofs for Olc/IterRevModel.v: a successful try_prior from any
    stack depth is an interval PREDECESSOR query.

    The direction-independent lemmas of Olc/IterProofs.v (entries go through
    the nodes on their path, stack entries stay valid between the read and
    the re-validation, descents, the stack a descent builds, the current leaf
    at its re-validation) are used as they are.  The direction-dependent
    ones are redone with the order flipped: the right-most descent
    (rightmost_query), the pops at child index 0 (rpop_floor), the pivot
    moving to index - 1 (rpivot_query), together (rpops_pivot_query,
    rpops_end_query), the loop of try_prior on a linked stack
    (down_some_query, down_none_query, down_some_pos), from a position
    (prior_some_query, prior_none_query, prior_pred_some, prior_pred_none).

    A byte-complement mirror (b -> 255 - b) was NOT used: the model compares
    variable-length byte strings, a proper prefix is smaller than its
    extensions in both the original and the complemented order, so the
    complement is not an order anti-isomorphism on the bounds and on the
    keys the queries quantify over (a search key may be a proper prefix of a
    key of the tree), and the leaf comparison of the reverse seek is not the
    mirror image of the forward one there. *)
From Coq Require Import List ZArith Bool Arith Lia Sorted.
From Unodb Require Import Base.Lex Lock.LockModel Olc.ReadModel Olc.ReadProofs Olc.IterModel Olc.IterAux
  Olc.IterProofs Olc.IterRevModel.
Import ListNotations.
Local Open Scope Z_scope.

(** ** Order *)

(** a key between two keys that share the prefix p has the prefix p (lower end strict) *)
Lemma lex_cut_r : forall p a b x, lex_lt (p ++ a) x -> lex_le x (p ++ b) -> exists r, x = p ++ r.
Proof.
  induction p as [|u p IH]; intros a b x Hlo Hhi.
  - exists x. reflexivity.
  - destruct x as [|y x].
    + exfalso. unfold lex_lt in Hlo. cbn in Hlo. discriminate.
    + cbn [app] in Hlo, Hhi. apply lex_lt_cons in Hlo. apply lex_le_cons in Hhi.
      assert (u = y) as -> by (destruct Hlo as [?|[? _]]; destruct Hhi as [?|[? _]]; lia).
      destruct Hlo as [?|[_ Hlo]]; [lia|]. destruct Hhi as [?|[_ Hhi]]; [lia|].
      destruct (IH a b x Hlo Hhi) as [r ->]. exists r. reflexivity.
Qed.

Lemma below_not_gt : forall s hi x, below (UKey s hi) x -> ~ lex_lt hi x.
Proof.
  intros [|] hi x; cbn.
  - intros L L'. exact (lex_lt_irrefl _ (lex_lt_trans _ _ _ L L')).
  - intros Hle L. exact (lex_lt_not_le _ _ L Hle).
Qed.

Lemma lt_below : forall s hi x, lex_lt x hi -> below (UKey s hi) x.
Proof. intros [|] hi x L; cbn; [exact L | apply lex_lt_le; exact L]. Qed.

Lemma below_le : forall s hi x, below (UKey s hi) x -> lex_le x hi.
Proof. intros [|] hi x; cbn; [apply lex_lt_le | auto]. Qed.

(** ** Sorted children: the last child *)

Lemma child_last_eq : forall cs i b c bx cx, bytes_sorted cs ->
  nth_error cs i = Some (b, c) -> nth_error cs (S i) = None -> find_child bx cs = Some cx ->
  (bx = b /\ cx = c) \/ bx < b.
Proof.
  intros cs i b c bx cx Hs Hi Hn Hf.
  pose proof (child_le_last _ _ _ _ _ _ Hs Hi Hn Hf) as Hle.
  destruct (Z.eq_dec bx b) as [->|Hne]; [left | right; lia].
  split; [reflexivity|]. rewrite (find_child_nth _ _ _ _ Hs Hi) in Hf. injection Hf as ->. reflexivity.
Qed.

(** ** The right-most descent *)

(** the delivered leaf is below the start node, it is in the tree at its lock
    moment, and every greater key below the start node is absent at the lock
    moment of one of the hops *)
Lemma rightmost_query : forall H, disciplined H -> stays_reachable H -> fullpath_stable H -> wf_history H ->
  forall tl tc n pth hs a q, descent H tl tc n pth hs a q ->
  (forall t, (tl <= t <= tc)%nat -> reach (H t) n pth) -> rightmost hs ->
  forall k' v', h_cont a = CLeaf k' v' ->
  is_pre pth k' /\ entry (H (h_lock a)) k' v' /\
  forall x, is_pre pth x -> lex_lt k' x -> exists T, (tl <= T <= h_lock a)%nat /\ ~ has_key (H T) x.
Proof.
  intros H Hd Hs Hfp W tl tc n pth hs a q D.
  induction D as [tl tc n pth a Ho Hin Hn | tl tc n pth i rest a q Hseen Hin Hn Hp D IH];
    intros R Hl k' v' Hk.
  - destruct (hop_lock_cell H a Ho) as (c & Hc & _ & Hkc). rewrite Hk in Hkc.
    assert (Ra : reach (H (h_lock a)) (h_node a) pth) by (subst n; apply R; exact Hin).
    split; [|split].
    + eapply wf_leaf; [apply W | exact Ra | exact Hc | exact Hkc].
    + exists (h_node a), pth, c. auto.
    + intros x Px Lx. exists (h_lock a). split; [lia|]. intros [vx Ex].
      destruct (through_leaf _ _ _ _ _ _ _ _ (W _) Ra Hc Hkc Ex Px) as [-> _].
      exact (lex_lt_irrefl _ Lx).
  - assert (G : ihop_good H i).
    { apply ihop_is_good; try assumption. rewrite Hn, Hp. apply R. exact Hin. }
    destruct G as [_ G]. inversion Hl as [|i0 l0 Hi0 Hl']; subst i0 l0.
    pose proof Hseen as ((_ & _ & Hnth) & Hle & _).
    destruct (IH) with (k' := k') (v' := v') as (P' & E' & Gap); try assumption.
    { intros t Ht. eapply valid_child; [exact W | apply G; exact Ht | exact Hnth]. }
    unfold e_cpath in P'. rewrite <- Hp.
    split; [|split].
    + eapply is_pre_app_l. exact P'.
    + exact E'.
    + intros x Px Lx. destruct (is_pre_dec (e_cpath (ih_e i)) x) as [Pc|Pn].
      * destruct (Gap x Pc Lx) as (T & HT & A). exists T. split; [lia | exact A].
      * exists (e_at (ih_e i)). split.
        { destruct (descent_good H Hd Hs Hfp W _ _ _ _ _ _ _ D) as (_ & _ & _ & L4).
          - intros t Ht. eapply valid_child; [exact W | apply G; exact Ht | exact Hnth].
          - lia. }
        intros [vx Ex]. assert (V : valid_at H (ih_e i) (e_at (ih_e i))) by (apply G; lia).
        destruct (valid_through H _ _ x vx W V Ex Px) as (bx & cx & r & Hf & ->).
        destruct (child_last_eq _ _ _ _ _ _ (valid_sorted H _ _ W V) Hnth Hi0 Hf) as [[-> ->] | Hlt].
        -- apply Pn. unfold e_cpath. exists r. rewrite <- !app_assoc. reflexivity.
        -- destruct P' as [r' ->]. rewrite <- !app_assoc in Lx.
           apply lex_lt_app in Lx. apply lex_lt_app in Lx. cbn in Lx.
           apply lex_lt_cons in Lx. destruct Lx as [?|[? _]]; lia.
Qed.

(** ** The pops *)

Definition rexhausted_e (e : sentry) : Prop :=
  nth_error (e_cs e) (e_idx e) = Some (e_byte e, e_child e) /\ e_idx e = 0%nat.

(** kw: a key at the current position; the keys of A are not above it *)
Lemma rpop_floor : forall H T0 (A : key -> Prop) kw, wf_history H ->
  (forall x, A x -> ~ lex_lt kw x) ->
  forall es n q, Forall (fun e => valid_at H e T0) es -> Forall rexhausted_e es -> chain n q es ->
  is_pre q kw -> floor H T0 A q -> floor H T0 A (end_path q es).
Proof.
  intros H T0 A kw W HA. induction es as [|e es IH]; intros n q V X C Pk F; cbn in *; [exact F|].
  inversion V as [|e0 l0 Ve V']; subst e0 l0. inversion X as [|e0 l0 [Xn Xl] X']; subst e0 l0.
  destruct C as (_ & Eq & C).
  apply (IH (e_node e) (e_pth e)); try assumption.
  - rewrite <- Eq in Pk. unfold e_cpath in Pk. eapply is_pre_app_l. exact Pk.
  - intros x Ax Px [vx Ex].
    destruct (valid_through H e T0 x vx W Ve Ex Px) as (bx & cx & r & Hf & ->).
    rewrite Xl in Xn.
    destruct (child_ge_first _ _ _ _ _ (valid_sorted H _ _ W Ve) Xn Hf) as [[-> ->] | Hlt].
    + apply (F _ Ax); [|exists vx; exact Ex]. rewrite <- Eq. unfold e_cpath.
      exists r. rewrite <- !app_assoc. reflexivity.
    + apply (HA _ Ax). rewrite <- Eq in Pk. destruct Pk as [r' ->]. unfold e_cpath.
      rewrite <- !app_assoc. apply lex_lt_app. apply lex_lt_app. cbn. apply lex_lt_cons. left. exact Hlt.
Qed.

(** ** The pivot *)

Lemma rpivot_query : forall H T0 tend (A : key -> Prop) kw pv b' c' k', wf_history H ->
  (forall x, A x -> ~ lex_lt kw x) -> (T0 <= tend)%nat ->
  valid_at H pv T0 ->
  nth_error (e_cs pv) (e_idx pv) = Some (e_byte pv, e_child pv) ->
  (0 < e_idx pv)%nat -> nth_error (e_cs pv) (Nat.pred (e_idx pv)) = Some (b', c') ->
  is_pre (e_cpath pv) kw -> floor H T0 A (e_cpath pv) ->
  is_pre (e_pth pv ++ e_pre pv ++ [b']) k' ->
  (forall x, is_pre (e_pth pv ++ e_pre pv ++ [b']) x -> lex_lt k' x ->
     exists T, (T0 <= T <= tend)%nat /\ ~ has_key (H T) x) ->
  b' < e_byte pv /\
  forall x, A x -> is_pre (e_pth pv) x -> lex_lt k' x -> exists T, (T0 <= T <= tend)%nat /\ ~ has_key (H T) x.
Proof.
  intros H T0 tend A kw pv b' c' k' W HA Hle V Hn Hpos Hn' Pk F Pk' Gap.
  pose proof (valid_sorted H _ _ W V) as Srt.
  assert (Hn2 : nth_error (e_cs pv) (S (Nat.pred (e_idx pv))) = Some (e_byte pv, e_child pv)).
  { replace (S (Nat.pred (e_idx pv))) with (e_idx pv) by lia. exact Hn. }
  split.
  { destruct (child_gap _ _ _ _ _ _ _ _ Srt Hn' Hn2 (find_child_nth _ _ _ _ Srt Hn)) as [L _]. exact L. }
  intros x Ax Px Lx.
  destruct (is_pre_dec (e_pth pv ++ e_pre pv ++ [b']) x) as [Pc|Pn]; [apply Gap; assumption|].
  exists T0. split; [lia|]. intros [vx Ex].
  destruct (valid_through H pv T0 x vx W V Ex Px) as (bx & cx & r & Hf & ->).
  destruct (child_gap _ _ _ _ _ _ _ _ Srt Hn' Hn2 Hf) as [Lb [Hlt | [[-> ->] | [[-> ->] | Hgt]]]].
  - destruct Pk' as [r' ->]. rewrite <- !app_assoc in Lx.
    apply lex_lt_app in Lx. apply lex_lt_app in Lx. cbn in Lx. apply lex_lt_cons in Lx.
    destruct Lx as [?|[? _]]; lia.
  - apply Pn. exists r. rewrite <- !app_assoc. reflexivity.
  - apply (F _ Ax); [|exists vx; exact Ex]. unfold e_cpath. exists r. rewrite <- !app_assoc. reflexivity.
  - apply (HA _ Ax). destruct Pk as [r' ->]. unfold e_cpath. rewrite <- !app_assoc.
    apply lex_lt_app. apply lex_lt_app. cbn. apply lex_lt_cons. left. exact Hgt.
Qed.

Lemma rpopped_valid : forall H t0 (pops : list (sentry * nat)),
  disciplined H -> stays_reachable H -> fullpath_stable H ->
  Forall (sentry_ok H) (map fst pops) -> Forall (rpopped_ok H t0) pops ->
  Forall (fun e => valid_at H e t0) (map fst pops) /\ Forall rexhausted_e (map fst pops).
Proof.
  intros H t0 pops Hd Hs Hfp. induction pops as [|[e tc] pops IH]; intros Ok Pp; cbn.
  - split; constructor.
  - inversion Ok as [|e0 l0 Oe Ok']; subst. inversion Pp as [|p0 l0 (Ht & Hw & Hx) Pp']; subst. cbn in *.
    destruct (IH Ok' Pp') as [I1 I2]. split; constructor; try assumption.
    + apply (sentry_at H e tc Hd Hs Hfp Oe); [lia | exact Hw | lia].
    + split; [|exact Hx]. destruct Oe as [(_ & _ & Hn) _]. exact Hn.
Qed.

(** ** Pops, pivot and right-most descent together *)

Lemma rpops_pivot_query : forall H, disciplined H -> stays_reachable H -> fullpath_stable H -> wf_history H ->
  forall T0 (A : key -> Prop) kw n0 q0 pops pv tc b' c' hs a q k' v',
  (forall x, A x -> ~ lex_lt kw x) -> is_pre q0 kw -> floor H T0 A q0 ->
  Forall (sentry_ok H) (map fst pops) -> Forall (rpopped_ok H T0) pops ->
  sentry_ok H pv -> (e_at pv <= T0 <= tc)%nat -> word_again H (e_node pv) (e_word pv) tc ->
  chain n0 q0 (map fst pops ++ [pv]) ->
  (0 < e_idx pv)%nat -> nth_error (e_cs pv) (Nat.pred (e_idx pv)) = Some (b', c') ->
  descent H T0 tc c' (e_pth pv ++ e_pre pv ++ [b']) hs a q -> rightmost hs -> h_cont a = CLeaf k' v' ->
  (T0 <= h_lock a)%nat /\ entry (H (h_lock a)) k' v' /\ lex_lt k' kw /\
  forall x, A x -> lex_lt k' x -> exists T, (T0 <= T <= h_lock a)%nat /\ ~ has_key (H T) x.
Proof.
  intros H Hd Hs Hfp W T0 A kw n0 q0 pops pv tc b' c' hs a q k' v' HA Pk F Ok Pp Okv Htv Hwv C Hpos Hn' D Hl Hk.
  destruct (rpopped_valid H T0 pops Hd Hs Hfp Ok Pp) as [Vp Xp].
  assert (Vv : forall t, (e_at pv <= t <= tc)%nat -> valid_at H pv t).
  { intros t Ht. apply (sentry_at H pv tc Hd Hs Hfp Okv); [lia | exact Hwv | exact Ht]. }
  destruct (chain_app _ _ _ _ C) as [Cp Cv]. cbn in Cv. destruct Cv as (_ & Ecp & _).
  pose proof (chain_end_pre _ _ _ Cp) as Pq. rewrite <- Ecp in Pq.
  assert (Pkv : is_pre (e_cpath pv) kw) by (eapply is_pre_trans; eassumption).
  assert (Fv : floor H T0 A (e_cpath pv)).
  { rewrite Ecp. eapply rpop_floor; eassumption. }
  assert (Rc : forall t, (T0 <= t <= tc)%nat -> reach (H t) c' (e_pth pv ++ e_pre pv ++ [b'])).
  { intros t Ht. eapply valid_child_nth; [exact W | apply Vv; lia | exact Hn']. }
  destruct (rightmost_query H Hd Hs Hfp W _ _ _ _ _ _ _ D Rc Hl k' v' Hk) as (Pk' & Ek' & Gap).
  destruct (descent_good H Hd Hs Hfp W _ _ _ _ _ _ _ D Rc) as (_ & _ & _ & Lt0).
  destruct Okv as [(_ & _ & Hn) _].
  destruct (rpivot_query H T0 (h_lock a) A kw pv b' c' k' W HA Lt0 (Vv T0 ltac:(lia)) Hn Hpos Hn' Pkv Fv Pk' Gap) as [Lb Q].
  assert (Lkk : lex_lt k' kw).
  { destruct Pkv as [r1 ->]. destruct Pk' as [r2 ->]. unfold e_cpath. rewrite <- !app_assoc.
    apply lex_lt_app. apply lex_lt_app. cbn. apply lex_lt_cons. left. exact Lb. }
  repeat split; try assumption.
  intros x Ax Lx. apply Q; try assumption.
  assert (Pv : is_pre (e_pth pv) kw) by (unfold e_cpath in Pkv; eapply is_pre_app_l; exact Pkv).
  destruct Pv as [r1 E1]. destruct Pk' as [r2 E2]. rewrite <- app_assoc in E2.
  subst kw k'. eapply lex_cut_r; [exact Lx | apply not_lt_le; apply HA; exact Ax].
Qed.

(** pops down to the bottom of the stack: nothing of A is in the tree at T0 *)
Lemma rpops_end_query : forall H, disciplined H -> stays_reachable H -> fullpath_stable H -> wf_history H ->
  forall T0 (A : key -> Prop) kw n0 q0 pops,
  (forall x, A x -> ~ lex_lt kw x) -> is_pre q0 kw -> floor H T0 A q0 ->
  Forall (sentry_ok H) (map fst pops) -> Forall (rpopped_ok H T0) pops ->
  linked n0 q0 (map fst pops) ->
  forall x, A x -> ~ has_key (H T0) x.
Proof.
  intros H Hd Hs Hfp W T0 A kw n0 q0 pops HA Pk F Ok Pp L x Ax.
  destruct (rpopped_valid H T0 pops Hd Hs Hfp Ok Pp) as [Vp Xp].
  rewrite <- (app_nil_r (map fst pops)) in L. destruct (linked_app _ _ _ _ L) as [C E]. cbn in E.
  pose proof (rpop_floor H T0 A kw W HA _ _ _ Vp Xp C Pk F) as F'. rewrite E in F'.
  apply F'; [exact Ax | exists x; reflexivity].
Qed.

(** ** The new position *)

Lemma retreat_ok : forall H pv b' c', sentry_ok H pv ->
  nth_error (e_cs pv) (Nat.pred (e_idx pv)) = Some (b', c') -> sentry_ok H (retreat pv b' c').
Proof.
  intros H pv b' c' [(Hf & Hc & _) R] Hn. unfold sentry_ok, sentry_seen, retreat. cbn.
  repeat split; assumption.
Qed.

Lemma rtop_valid : forall H t0 pops pv tc, disciplined H -> stays_reachable H -> fullpath_stable H ->
  Forall (sentry_ok H) (map fst pops) -> Forall (rpopped_ok H t0) pops ->
  sentry_ok H pv -> (e_at pv <= t0 <= tc)%nat -> word_again H (e_node pv) (e_word pv) tc ->
  forall e l, map fst pops ++ [pv] = e :: l -> valid_at H e t0.
Proof.
  intros H t0 pops pv tc Hd Hs Hfp Ok Pp Okv Htv Hwv e l E.
  destruct (rpopped_valid H t0 pops Hd Hs Hfp Ok Pp) as [Vp _].
  destruct pops as [|[e1 t1] pops]; cbn in E; injection E as <- _.
  - apply (sentry_at H pv tc Hd Hs Hfp Okv); [lia | exact Hwv | lia].
  - inversion Vp; assumption.
Qed.

(** ** The loop of try_prior on a linked stack *)

(** the generic statement: A is the set of keys asked for (below the bound),
    kw a key below the path q0 of the current child of the top entry such
    that no key of A is above kw, and no key of A is in the tree below q0 at t0 *)
Theorem down_some_query : forall H st n0 q0 t0 pops pv tc b' c' rest hs a q k' v' (A : key -> Prop) kw,
  disciplined H -> stays_reachable H -> fullpath_stable H -> wf_history H ->
  Forall (sentry_ok H) st -> linked n0 q0 st ->
  down_some H st t0 pops pv tc b' c' rest hs a q k' v' ->
  (forall x, A x -> ~ lex_lt kw x) -> is_pre q0 kw -> floor H t0 A q0 ->
  (t0 <= h_lock a)%nat /\ entry (H (h_lock a)) k' v' /\ lex_lt k' kw /\
  forall x, A x -> lex_lt k' x -> absent_within H t0 (h_lock a) x.
Proof.
  intros H st n0 q0 t0 pops pv tc b' c' rest hs a q k' v' A kw Hd Hs Hfp W Hok Hlink N HA Pk F.
  destruct N as [Nst Npp Nt Nw Np Nn Nd Nlm Nc].
  rewrite Nst, stack_split in Hok, Hlink.
  apply Forall_app in Hok. destruct Hok as [Hok _]. apply Forall_app in Hok. destruct Hok as [Okp Okv].
  inversion Okv as [|e0 l0 Okv' _]; subst e0 l0.
  destruct (linked_app _ _ _ _ Hlink) as [C _].
  exact (rpops_pivot_query H Hd Hs Hfp W t0 A kw _ _ pops pv tc b' c' hs a q k' v'
              HA Pk F Okp Npp Okv' Nt Nw C Np Nn Nd Nlm Nc).
Qed.

Theorem down_none_query : forall H st n0 q0 t0 pops (A : key -> Prop) kw,
  disciplined H -> stays_reachable H -> fullpath_stable H -> wf_history H ->
  Forall (sentry_ok H) st -> linked n0 q0 st -> down_none H st t0 pops ->
  (forall x, A x -> ~ lex_lt kw x) -> is_pre q0 kw -> floor H t0 A q0 ->
  forall x, A x -> ~ has_key (H t0) x.
Proof.
  intros H st n0 q0 t0 pops A kw Hd Hs Hfp W Hok Hlink [Nst Npp] HA Pk F.
  rewrite Nst in Hok, Hlink.
  exact (rpops_end_query H Hd Hs Hfp W t0 A kw _ _ pops HA Pk F Hok Npp Hlink).
Qed.

(** the position after the loop satisfies the stack invariant *)
Theorem down_some_pos : forall H st n0 q0 t0 pops pv tc b' c' rest hs a q k' v',
  disciplined H -> stays_reachable H -> fullpath_stable H -> wf_history H ->
  Forall (sentry_ok H) st -> Forall (fun e => (e_at e <= t0)%nat) st -> linked n0 q0 st ->
  down_some H st t0 pops pv tc b' c' rest hs a q k' v' ->
  pos_ok H (prior_pos pv b' c' rest hs a k' v').
Proof.
  intros H st n0 q0 t0 pops pv tc b' c' rest hs a q k' v' Hd Hs Hfp W Hok Hat Hlink N.
  destruct N as [Nst Npp Nt Nw Np Nn Nd Nlm Nc].
  rewrite Nst in Hok, Hlink, Hat.
  apply Forall_app in Hok. destruct Hok as [_ Hok]. inversion Hok as [|e0 l0 Okv Okr]; subst e0 l0.
  apply Forall_app in Hat. destruct Hat as [_ Hat]. inversion Hat as [|e0 l0 Atv Atr]; subst e0 l0.
  destruct (linked_app _ _ _ _ Hlink) as [_ Lv]. cbn in Lv. destruct Lv as (_ & _ & Lr).
  unfold prior_pos. eapply descent_pos_ok with (tl := t0) (tc := tc); try eassumption.
  - intros t Ht. eapply valid_child_nth; [exact W | | exact Nn].
    apply (sentry_at H pv tc Hd Hs Hfp Okv); [lia | exact Nw | lia].
  - destruct (rev (map ih_e hs)); discriminate.
  - cbn. repeat split. exact Lr.
  - constructor; [apply retreat_ok; assumption | exact Okr].
  - constructor; [cbn; lia | exact Atr].
Qed.

Lemma down_some_top_valid : forall H st t0 pops pv tc b' c' rest hs a q k' v',
  disciplined H -> stays_reachable H -> fullpath_stable H -> Forall (sentry_ok H) st ->
  down_some H st t0 pops pv tc b' c' rest hs a q k' v' -> exists e l, st = e :: l /\ valid_at H e t0.
Proof.
  intros H st t0 pops pv tc b' c' rest hs a q k' v' Hd Hs Hfp Hok [Nst Npp Nt Nw Np Nn Nd Nlm Nc].
  rewrite Nst, stack_split in Hok |- *. apply Forall_app in Hok. destruct Hok as [Hok _].
  apply Forall_app in Hok. destruct Hok as [Okp Okv]. inversion Okv as [|e0 l0 Okv' _]; subst e0 l0.
  destruct (map fst pops ++ [pv]) as [|e l] eqn:Etop; [destruct (map fst pops); discriminate|].
  exists e, (l ++ rest). split; [reflexivity|].
  exact (rtop_valid H t0 pops pv tc Hd Hs Hfp Okp Npp Okv' Nt Nw e l Etop).
Qed.

Lemma down_none_top_valid : forall H st t0 pops,
  disciplined H -> stays_reachable H -> fullpath_stable H -> Forall (sentry_ok H) st -> st <> [] ->
  down_none H st t0 pops -> exists e l, st = e :: l /\ valid_at H e t0.
Proof.
  intros H st t0 pops Hd Hs Hfp Hok Hne [Nst Npp].
  destruct st as [|e l]; [congruence|]. exists e, l. split; [reflexivity|].
  destruct (rpopped_valid H t0 pops Hd Hs Hfp) as [Vp _]; [rewrite <- Nst; exact Hok | exact Npp |].
  rewrite <- Nst in Vp. inversion Vp; assumption.
Qed.

(** ** try_prior from a position *)

(** a successful try_prior that delivers a leaf, as an interval query for any
    bound (s, hi) that lies at the current position: hi below the path of the
    current leaf, the current key not asked for.  (For [prior]: the bound is
    the current key, strict; after a reverse [seek] that landed on a greater
    leaf: the search key, not strict.) *)
Theorem prior_some_query : forall H pos t0 pops pv tc b' c' rest hs a q k' v' s hi,
  disciplined H -> stays_reachable H -> fullpath_stable H -> wf_history H -> pos_ok H pos ->
  prior_some H pos t0 pops pv tc b' c' rest hs a q k' v' ->
  is_pre (ip_path pos) hi -> (forall x, below (UKey s hi) x -> x <> ip_key pos) ->
  (t0 <= h_lock a)%nat /\ lex_lt k' hi /\ rquery H t0 (h_lock a) (UKey s hi) (Some (k', v')).
Proof.
  intros H pos t0 pops pv tc b' c' rest hs a q k' v' s hi Hd Hs Hfp W Pok [Nl N] Phi Hne.
  pose proof Pok as (_ & _ & Hok & _ & _ & Hlink).
  destruct (down_some_top_valid H _ _ _ _ _ _ _ _ _ _ _ _ _ Hd Hs Hfp Hok N) as (e & l & Est & Ve).
  destruct (leaf_floor H pos t0 e l (below (UKey s hi)) Hd W Pok Nl Est Ve Hne) as [_ F].
  assert (Eq0 : ip_path pos = e_cpath e) by (unfold ip_path; rewrite Est; reflexivity).
  rewrite <- Eq0 in F.
  destruct (down_some_query H _ _ _ t0 pops pv tc b' c' rest hs a q k' v' (below (UKey s hi)) hi
              Hd Hs Hfp W Hok Hlink N (below_not_gt s hi) Phi F) as (L0 & E' & Lk & Q).
  split; [exact L0|]. split; [exact Lk|]. cbn [rquery]. split; [apply lt_below; exact Lk|]. split.
  - exists (h_lock a). split; [lia | exact E'].
  - exact Q.
Qed.

Theorem prior_none_query : forall H pos t0 pops s hi,
  disciplined H -> stays_reachable H -> fullpath_stable H -> wf_history H -> pos_ok H pos ->
  prior_none H pos t0 pops ->
  is_pre (ip_path pos) hi -> (forall x, below (UKey s hi) x -> x <> ip_key pos) ->
  last_query (H t0) (UKey s hi) None.
Proof.
  intros H pos t0 pops s hi Hd Hs Hfp W Pok [Nl N] Phi Hne.
  pose proof Pok as (_ & _ & Hok & _ & Hnil & Hlink).
  destruct (down_none_top_valid H _ _ _ Hd Hs Hfp Hok Hnil N) as (e & l & Est & Ve).
  destruct (leaf_floor H pos t0 e l (below (UKey s hi)) Hd W Pok Nl Est Ve Hne) as [_ F].
  assert (Eq0 : ip_path pos = e_cpath e) by (unfold ip_path; rewrite Est; reflexivity).
  rewrite <- Eq0 in F.
  exact (down_none_query H (ip_stack pos) _ _ t0 pops (below (UKey s hi)) hi Hd Hs Hfp W Hok Hlink N
           (below_not_gt s hi) Phi F).
Qed.

Lemma gt_neq : forall a b, lex_lt b a -> b <> a.
Proof. intros a b L ->. exact (lex_lt_irrefl _ L). Qed.

(** [prior] from key k: the interval predecessor query *)
Theorem prior_pred_some : forall H pos t0 pops pv tc b' c' rest hs a q k' v',
  disciplined H -> stays_reachable H -> fullpath_stable H -> wf_history H -> pos_ok H pos ->
  prior_some H pos t0 pops pv tc b' c' rest hs a q k' v' ->
  (t0 <= h_lock a)%nat /\ rquery H t0 (h_lock a) (UKey true (ip_key pos)) (Some (k', v')) /\
  pos_ok H (prior_pos pv b' c' rest hs a k' v').
Proof.
  intros H pos t0 pops pv tc b' c' rest hs a q k' v' Hd Hs Hfp W Pok N.
  pose proof Pok as (_ & _ & Hok & Hat & _ & Hlink). pose proof N as [Nl Nu].
  destruct (down_some_top_valid H _ _ _ _ _ _ _ _ _ _ _ _ _ Hd Hs Hfp Hok Nu) as (e & l & Est & Ve).
  destruct (leaf_floor H pos t0 e l (fun _ => False) Hd W Pok Nl Est Ve) as [Pk _]; [intros x []|].
  assert (Eq0 : ip_path pos = e_cpath e) by (unfold ip_path; rewrite Est; reflexivity).
  rewrite <- Eq0 in Pk.
  destruct (prior_some_query H pos t0 pops pv tc b' c' rest hs a q k' v' true (ip_key pos)
              Hd Hs Hfp W Pok N Pk (gt_neq _)) as (L & _ & Q).
  split; [exact L | split; [exact Q|]].
  apply (down_some_pos H (ip_stack pos) (ip_leaf pos) (ip_path pos) t0 pops pv tc b' c' rest hs a q k' v'
           Hd Hs Hfp W Hok); [|exact Hlink | exact Nu].
  destruct Nl as [Nl _]. eapply Forall_impl; [|exact Hat]. cbv beta. intros x Hx. lia.
Qed.

Theorem prior_pred_none : forall H pos t0 pops,
  disciplined H -> stays_reachable H -> fullpath_stable H -> wf_history H -> pos_ok H pos ->
  prior_none H pos t0 pops -> pred_query (H t0) (ip_key pos) None.
Proof.
  intros H pos t0 pops Hd Hs Hfp W Pok N.
  pose proof Pok as (_ & _ & Hok & _ & Hne & _). pose proof N as [Nl Nu].
  destruct (down_none_top_valid H _ _ _ Hd Hs Hfp Hok Hne Nu) as (e & l & Est & Ve).
  destruct (leaf_floor H pos t0 e l (fun _ => False) Hd W Pok Nl Est Ve) as [Pk _]; [intros x []|].
  assert (Eq0 : ip_path pos = e_cpath e) by (unfold ip_path; rewrite Est; reflexivity).
  rewrite <- Eq0 in Pk.
  exact (prior_none_query H pos t0 pops true (ip_key pos) Hd Hs Hfp W Pok N Pk (gt_neq _)).
Qed.
