(** C14 (progress accounting, whole index): over every accepted trace of the
    OLC index (Olc/OlcTrace.v) a thread is sent back only because some thread
    acquired the write lock of that very node after the section was opened,
    and in a period in which nobody acquires a write lock, entered with no
    write guard held, no read-lock waits and every validation succeeds: an
    operation running alone is never restarted and never waits - it needs no
    help from the threads that ran before it. *)
From Coq Require Import List ZArith Lia Bool.
From Unodb Require Import Lock.LockModel Lock.LockProofs Lock.LockProgress Olc.OlcTrace Olc.OlcProofs Olc.Deadlock.
Import ListNotations.
Local Open Scope Z_scope.

Lemma project_app b a c : project b (a ++ c) = project b a ++ project b c.
Proof. unfold project. now rewrite filter_app, map_app. Qed.

(** ** a failed check / upgrade in an accepted trace is charged to a write
    acquisition of the same node between the opening of the section and the failure *)
Theorem failed_check_charged_node inits tr b s0 pre t v mid obs post :
  node_accepts inits tr = true -> inits_ok inits -> In (b, s0) inits ->
  project b tr = pre ++ ERLock t v :: mid ++ ECheck t v obs :: post ->
  w_is_free v = true -> obs <> v ->
  exists t' v', In (EUpgrade t' v' true) mid.
Proof.
  intros A Hi Hin P F N. destruct (Hi _ _ Hin) as (I0 & _).
  destruct (node_accepts_lrun _ _ _ _ A Hin) as (s & R). rewrite P in R.
  replace (pre ++ ERLock t v :: mid ++ ECheck t v obs :: post)
    with ((pre ++ [ERLock t v]) ++ (mid ++ [ECheck t v obs]) ++ post) in R
    by (rewrite <- !app_assoc; cbn [app]; reflexivity).
  apply lrun_prefix in R as (s1 & R1 & R2). apply lrun_prefix in R2 as (s2 & R2 & _).
  exact (failed_check_charged_gen s0 pre t v s1 mid obs s2 I0 R1 F R2 N).
Qed.

Theorem failed_upgrade_charged_node inits tr b s0 pre t v mid post :
  node_accepts inits tr = true -> inits_ok inits -> In (b, s0) inits ->
  project b tr = pre ++ ERLock t v :: mid ++ EUpgrade t v false :: post ->
  w_is_free v = true ->
  exists t' v', In (EUpgrade t' v' true) mid.
Proof.
  intros A Hi Hin P F. destruct (Hi _ _ Hin) as (I0 & _).
  destruct (node_accepts_lrun _ _ _ _ A Hin) as (s & R). rewrite P in R.
  replace (pre ++ ERLock t v :: mid ++ EUpgrade t v false :: post)
    with ((pre ++ [ERLock t v]) ++ (mid ++ [EUpgrade t v false]) ++ post) in R
    by (rewrite <- !app_assoc; cbn [app]; reflexivity).
  apply lrun_prefix in R as (s1 & R1 & R2). apply lrun_prefix in R2 as (s2 & R2 & _).
  exact (failed_upgrade_charged_gen s0 pre t v s1 mid s2 I0 R1 F R2).
Qed.

(** the acquisition is another thread's when the thread itself did not
    acquire that node in between (a reader never does) *)
Corollary failed_check_charged_other inits tr b s0 pre t v mid obs post :
  node_accepts inits tr = true -> inits_ok inits -> In (b, s0) inits ->
  project b tr = pre ++ ERLock t v :: mid ++ ECheck t v obs :: post ->
  w_is_free v = true -> obs <> v ->
  (forall v', ~ In (EUpgrade t v' true) mid) ->
  exists t' v', t' <> t /\ In (EUpgrade t' v' true) mid.
Proof.
  intros A Hi Hin P F N Own.
  destruct (failed_check_charged_node _ _ _ _ _ _ _ _ _ _ A Hi Hin P F N) as (t' & v' & H).
  exists t', v'. split; [|exact H]. intros ->. exact (Own _ H).
Qed.

(** ** a period without write acquisition, entered with no guard held *)
Definition quiet_g (tr : list gev) : bool := forallb (fun e => negb (is_upgrade_ok (snd e))) tr.

Lemma quiet_project b tr : quiet_g tr = true -> quiet (project b tr) = true.
Proof.
  unfold quiet_g, quiet, project. rewrite !forallb_forall. intros H e He.
  apply in_map_iff in He as ((b' & e') & <- & Hin). apply filter_In in Hin as (Hin & _).
  exact (H _ Hin).
Qed.

Theorem quiet_suffix inits pre suf b s0 :
  olc_trace_ok inits (pre ++ suf) = true -> inits_ok inits -> In (b, s0) inits ->
  held_after [] pre = [] -> quiet_g suf = true ->
  exists w, w_is_write_locked w = false /\
    (forall a t obs c, project b suf = a ++ ERLock t obs :: c -> obs = w) /\
    (forall a t v obs c, project b suf = a ++ ECheck t v obs :: c -> obs = w) /\
    (forall a t v c, project b suf = a ++ EUpgrade t v false :: c -> v <> w).
Proof.
  intros Hok Hi Hin Hh Q. destruct (Hi _ _ Hin) as (I0 & G0).
  unfold olc_trace_ok in Hok. apply andb_true_iff in Hok as [A _].
  destruct (node_accepts_lrun _ _ _ _ A Hin) as (s & R). rewrite project_app in R.
  apply lrun_prefix in R as (s1 & R1 & R2).
  pose proof (lrun_inv _ _ _ I0 R1) as I1.
  assert (G1 : guards s1 = []).
  { destruct (guards s1) as [|u g] eqn:E; [reflexivity|exfalso].
    assert (X : In (b, u) (held_after [] pre)).
    { apply (guards_are_held b pre [] s0 s1 I0); [rewrite G0; intros ? []|exact R1|rewrite E; now left]. }
    now rewrite Hh in X. }
  destruct (quiet_period s1 (project b suf) s I1 G1 (quiet_project b suf Q) R2) as (P1 & P2 & P3).
  exists (lw s1). split.
  - destruct I1 as (_ & [(_ & [M|M])|(u & Gu & _)]).
    + unfold w_is_write_locked. apply Z.eqb_neq. lia.
    + rewrite M. reflexivity.
    + rewrite Gu in G1. discriminate.
  - split; [|split].
    + intros a t obs c E. exact (proj1 (P1 _ _ _ _ E)).
    + exact P2.
    + exact P3.
Qed.

(** hence: in such a period every section that is opened validates *)
Corollary quiet_sections_validate inits pre suf b s0 a t v m obs c :
  olc_trace_ok inits (pre ++ suf) = true -> inits_ok inits -> In (b, s0) inits ->
  held_after [] pre = [] -> quiet_g suf = true ->
  project b suf = a ++ ERLock t v :: m ++ ECheck t v obs :: c ->
  obs = v /\ w_is_write_locked v = false.
Proof.
  intros Hok Hi Hin Hh Q E.
  destruct (quiet_suffix _ _ _ _ _ Hok Hi Hin Hh Q) as (w & Wl & P1 & P2 & _).
  pose proof (P1 _ _ _ _ E) as ->.
  replace (a ++ ERLock t w :: m ++ ECheck t w obs :: c) with ((a ++ ERLock t w :: m) ++ ECheck t w obs :: c) in E
    by (rewrite <- app_assoc; reflexivity).
  pose proof (P2 _ _ _ _ _ E) as ->. auto.
Qed.
