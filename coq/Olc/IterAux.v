(** C09c: auxiliary facts for Olc/IterProofs.v: byte-wise order against a
    common prefix, sorted children lists, and "the nodes reachable along the
    bytes of one key form a chain" (trie determinism). *)
From Coq Require Import List ZArith Bool Arith Lia Sorted.
From Unodb Require Import Base.Lex Lock.LockModel Olc.ReadModel Olc.ReadProofs Olc.IterModel.
Import ListNotations.
Local Open Scope Z_scope.

(** ** Order *)

Lemma lex_le_refl : forall a, lex_le a a.
Proof. intros a. unfold lex_le. rewrite lex_compare_refl. discriminate. Qed.

Lemma lex_lt_le : forall a b, lex_lt a b -> lex_le a b.
Proof. unfold lex_lt, lex_le. intros a b E. rewrite E. discriminate. Qed.

Lemma lex_le_cases : forall a b, lex_le a b -> a = b \/ lex_lt a b.
Proof.
  unfold lex_le, lex_lt. intros a b Hn. destruct (lex_compare a b) eqn:E.
  - left. apply lex_compare_eq. exact E.
  - right. reflexivity.
  - contradiction.
Qed.

Lemma lex_le_lt_trans : forall a b c, lex_le a b -> lex_lt b c -> lex_lt a c.
Proof. intros a b c Hab Hbc. destruct (lex_le_cases a b Hab) as [->|L]; [exact Hbc | eapply lex_lt_trans; eassumption]. Qed.

Lemma lex_lt_not_le : forall a b, lex_lt a b -> ~ lex_le b a.
Proof.
  intros a b L Hle. destruct (lex_le_cases b a Hle) as [->|L'].
  - exact (lex_lt_irrefl _ L).
  - exact (lex_lt_irrefl _ (lex_lt_trans _ _ _ L L')).
Qed.

Lemma lex_lt_cons : forall u a v b, lex_lt (u :: a) (v :: b) <-> u < v \/ (u = v /\ lex_lt a b).
Proof.
  intros u a v b. unfold lex_lt. cbn. destruct (Z.compare_spec u v) as [E|L|G]; split; intros Hx.
  - right. split; assumption.
  - destruct Hx as [Hx|[_ Hx]]; [lia | exact Hx].
  - left. exact L.
  - reflexivity.
  - discriminate.
  - destruct Hx as [Hx|[Hx _]]; lia.
Qed.

Lemma lex_le_cons : forall u a v b, lex_le (u :: a) (v :: b) <-> u < v \/ (u = v /\ lex_le a b).
Proof.
  intros u a v b. unfold lex_le. cbn. destruct (Z.compare_spec u v) as [E|L|G]; split; intros Hx.
  - right. split; assumption.
  - destruct Hx as [Hx|[_ Hx]]; [lia | exact Hx].
  - left. exact L.
  - discriminate.
  - contradiction.
  - destruct Hx as [Hx|[Hx _]]; lia.
Qed.

Lemma above_cons : forall s u a v b, above s (u :: a) (v :: b) <-> u < v \/ (u = v /\ above s a b).
Proof. intros [|] u a v b; cbn [above]; [apply lex_lt_cons | apply lex_le_cons]. Qed.

Lemma above_app : forall s p a b, above s (p ++ a) (p ++ b) <-> above s a b.
Proof.
  intros [|] p a b; cbn [above]; unfold lex_lt, lex_le; rewrite lex_compare_app_same; reflexivity.
Qed.

Lemma lex_lt_app : forall p a b, lex_lt (p ++ a) (p ++ b) <-> lex_lt a b.
Proof. intros p a b. unfold lex_lt. rewrite lex_compare_app_same. reflexivity. Qed.

Lemma above_nil_not : forall s u a, ~ above s (u :: a) [].
Proof. intros [|] u a; cbn; unfold lex_lt, lex_le; cbn; [discriminate | intros Hx; apply Hx; reflexivity]. Qed.

Lemma above_le : forall s a b, above s a b -> lex_le a b.
Proof. intros [|] a b; cbn; [apply lex_lt_le | auto]. Qed.

(** a key between two keys that share the prefix p has the prefix p *)
Lemma lex_cut : forall p a b x, lex_le (p ++ a) x -> lex_lt x (p ++ b) -> exists r, x = p ++ r.
Proof.
  induction p as [|u p IH]; intros a b x Hlo Hhi.
  - exists x. reflexivity.
  - destruct x as [|y x].
    + exfalso. unfold lex_le in Hlo. cbn in Hlo. apply Hlo. reflexivity.
    + cbn [app] in Hlo, Hhi. apply lex_le_cons in Hlo. apply lex_lt_cons in Hhi.
      assert (u = y) as -> by (destruct Hlo as [?|[? _]]; destruct Hhi as [?|[? _]]; lia).
      destruct Hlo as [?|[_ Hlo]]; [lia|]. destruct Hhi as [?|[_ Hhi]]; [lia|].
      destruct (IH a b x Hlo Hhi) as [r ->]. exists r. reflexivity.
Qed.

(** ** Sorted children *)

Lemma sorted_nth_lt : forall (l : list Z), StronglySorted Z.lt l ->
  forall i j a b, (i < j)%nat -> nth_error l i = Some a -> nth_error l j = Some b -> a < b.
Proof.
  intros l S. induction S as [|x l S IH F]; intros i j a b Hij Hi Hj.
  - destruct i; discriminate.
  - destruct j as [|j]; [lia|]. cbn in Hj. destruct i as [|i].
    + cbn in Hi. injection Hi as <-. rewrite Forall_forall in F. apply F. eapply nth_error_In. exact Hj.
    + cbn in Hi. apply (IH i j); [lia | assumption | assumption].
Qed.

Lemma nth_map_fst : forall (cs : list (Z * nid)) i b c,
  nth_error cs i = Some (b, c) -> nth_error (map fst cs) i = Some b.
Proof. intros cs i b c E. rewrite nth_error_map, E. reflexivity. Qed.

Lemma find_child_some_nth : forall cs b c, find_child b cs = Some c -> exists i, nth_error cs i = Some (b, c).
Proof.
  induction cs as [|[b0 c0] cs IH]; intros b c Hf; cbn in Hf; [discriminate|].
  destruct (Z.eqb_spec b b0) as [->|Hne].
  - injection Hf as ->. exists 0%nat. reflexivity.
  - destruct (IH b c Hf) as [i Hi]. exists (S i). exact Hi.
Qed.

Lemma find_child_nth : forall cs i b c, bytes_sorted cs -> nth_error cs i = Some (b, c) -> find_child b cs = Some c.
Proof.
  induction cs as [|[b0 c0] cs IH]; intros i b c Hs Hn.
  - destruct i; discriminate.
  - destruct i as [|i]; cbn in Hn.
    + injection Hn as -> ->. cbn. rewrite Z.eqb_refl. reflexivity.
    + cbn. unfold bytes_sorted in Hs. cbn in Hs. inversion Hs as [|x l S F]; subst.
      assert (b0 < b).
      { rewrite Forall_forall in F. apply F. apply in_map_iff. exists (b, c). split; [reflexivity|].
        eapply nth_error_In. exact Hn. }
      destruct (Z.eqb_spec b b0); [lia|]. apply (IH i); assumption.
Qed.

(** the bytes of the children relative to the index taken *)
Lemma child_le_last : forall cs i b c bx cx, bytes_sorted cs ->
  nth_error cs i = Some (b, c) -> nth_error cs (S i) = None -> find_child bx cs = Some cx -> bx <= b.
Proof.
  intros cs i b c bx cx Hs Hi Hn Hf. destruct (find_child_some_nth _ _ _ Hf) as [j Hj].
  assert (j <= i)%nat.
  { destruct (le_lt_dec j i); [assumption|]. exfalso.
    assert (nth_error cs j <> None) as Hx by congruence. apply nth_error_Some in Hx.
    apply nth_error_None in Hn. lia. }
  destruct (Nat.eq_dec j i) as [->|Hne]; [rewrite Hi in Hj; injection Hj as -> _; lia|].
  pose proof (sorted_nth_lt _ Hs j i bx b ltac:(lia) (nth_map_fst _ _ _ _ Hj) (nth_map_fst _ _ _ _ Hi)). lia.
Qed.

Lemma child_gap : forall cs i b c b' c' bx cx, bytes_sorted cs ->
  nth_error cs i = Some (b, c) -> nth_error cs (S i) = Some (b', c') -> find_child bx cs = Some cx ->
  b < b' /\ (bx < b \/ (bx = b /\ cx = c) \/ (bx = b' /\ cx = c') \/ b' < bx).
Proof.
  intros cs i b c b' c' bx cx Hs Hi Hn Hf. destruct (find_child_some_nth _ _ _ Hf) as [j Hj].
  assert (L : forall x y u v cu cv, (x < y)%nat -> nth_error cs x = Some (u, cu) -> nth_error cs y = Some (v, cv) -> u < v).
  { intros x y u v cu cv Hlt A B. exact (sorted_nth_lt _ Hs x y u v Hlt (nth_map_fst _ _ _ _ A) (nth_map_fst _ _ _ _ B)). }
  split; [apply (L i (S i) b b' c c'); [lia|exact Hi|exact Hn]|].
  destruct (lt_eq_lt_dec j i) as [[Hlt | ->] | Hgt].
  - left. apply (L j i _ _ _ _ Hlt Hj Hi).
  - right. left. rewrite Hi in Hj. injection Hj as -> ->. auto.
  - destruct (Nat.eq_dec j (S i)) as [->|Hne].
    + right. right. left. rewrite Hn in Hj. injection Hj as -> ->. auto.
    + right. right. right. apply (L (S i) j _ _ _ _ ltac:(lia) Hn Hj).
Qed.

Lemma child_ge_first : forall cs b c bx cx, bytes_sorted cs ->
  nth_error cs 0 = Some (b, c) -> find_child bx cs = Some cx -> (bx = b /\ cx = c) \/ b < bx.
Proof.
  intros cs b c bx cx Hs H0 Hf. destruct (find_child_some_nth _ _ _ Hf) as [j Hj].
  destruct j as [|j].
  - left. rewrite H0 in Hj. injection Hj as -> ->. auto.
  - right. apply (sorted_nth_lt _ Hs 0 (S j) b bx ltac:(lia) (nth_map_fst _ _ _ _ H0) (nth_map_fst _ _ _ _ Hj)).
Qed.

(** ** Prefixes *)

Lemma is_pre_app_l : forall a b x, is_pre (a ++ b) x -> is_pre a x.
Proof. intros a b x [r ->]. exists (b ++ r). rewrite app_assoc. reflexivity. Qed.

Lemma is_pre_same_len : forall a b x, is_pre a x -> is_pre b x -> length a = length b -> a = b.
Proof.
  intros a b x [r ->] [r' E] L.
  assert (firstn (length a) (a ++ r) = firstn (length b) (b ++ r')) by (rewrite L, E; reflexivity).
  rewrite !firstn_app_exact in H. exact H.
Qed.

Lemma is_pre_refl_app : forall a r, is_pre a (a ++ r).
Proof. intros a r. exists r. reflexivity. Qed.

(** ** Descendants; the nodes reachable along the bytes of one key form a chain *)

Inductive desc (g : gstate) (n : nid) (pth : list Z) : nid -> list Z -> Prop :=
| desc_refl : desc g n pth n pth
| desc_step : forall m q c p cs b c', desc g n pth m q -> hp g m = Some c -> cont c = CInode p cs ->
    find_child b cs = Some c' -> desc g n pth c' (q ++ p ++ [b]).

Lemma desc_ext : forall g n pth m q, desc g n pth m q -> exists e, q = pth ++ e.
Proof.
  intros g n pth m q D. induction D as [|m q c p cs b c' D [e ->] Hc Hk Hf].
  - exists []. rewrite app_nil_r. reflexivity.
  - exists (e ++ p ++ [b]). rewrite <- app_assoc. reflexivity.
Qed.

Lemma desc_head : forall g n pth m q, desc g n pth m q ->
  (m = n /\ q = pth) \/
  exists c p cs b c', hp g n = Some c /\ cont c = CInode p cs /\ find_child b cs = Some c' /\
    desc g c' (pth ++ p ++ [b]) m q.
Proof.
  intros g n pth m q D. induction D as [|m q c p cs b c' D IH Hc Hk Hf].
  - left. split; reflexivity.
  - right. destruct IH as [[-> ->] | (c0 & p0 & cs0 & b0 & c0' & A1 & A2 & A3 & A4)].
    + exists c, p, cs, b, c'. repeat split; try assumption. apply desc_refl.
    + exists c0, p0, cs0, b0, c0'. repeat split; try assumption. eapply desc_step; eassumption.
Qed.

Lemma reach_nil_root : forall g n, reach g n [] -> root g = Some n.
Proof.
  intros g n R. inversion R as [n0 Hr | n0 pth c p cs b c' R0 Hc Hk Hf E]; subst; [exact Hr|].
  exfalso. destruct pth; [destruct p|]; discriminate.
Qed.

Lemma len3 : forall (a p : list Z) b, length (a ++ p ++ [b]) = (length a + length p + 1)%nat.
Proof. intros. rewrite !app_length. cbn. lia. Qed.

Lemma chain_aux : forall g x N n1 q1 n2 q2, (length q1 + length q2 < N)%nat ->
  reach g n1 q1 -> reach g n2 q2 -> is_pre q1 x -> is_pre q2 x -> (length q1 <= length q2)%nat ->
  desc g n1 q1 n2 q2.
Proof.
  intros g x N. induction N as [|N IH]; intros n1 q1 n2 q2 HN R1 R2 P1 P2 L; [lia|].
  inversion R2 as [n0 Hr2 | m2 pth2 c2 p2 cs2 b2 c2' R2' Hc2 Hk2 Hf2 E2]; subst.
  - assert (q1 = []) as -> by (destruct q1; [reflexivity | cbn in L; lia]).
    apply reach_nil_root in R1. assert (n1 = n2) as -> by congruence. apply desc_refl.
  - rewrite len3 in L, HN.
    assert (P2' : is_pre pth2 x) by (eapply is_pre_app_l; exact P2).
    destruct (le_lt_dec (length q1) (length pth2)) as [Hle|Hgt].
    + eapply desc_step; try eassumption. apply IH; try assumption. lia.
    + inversion R1 as [n0 Hr1 | m1 pth1 c1 p1 cs1 b1 c1' R1' Hc1 Hk1 Hf1 E1]; subst; [cbn in Hgt; lia|].
      rewrite len3 in L, HN, Hgt.
      assert (P1' : is_pre pth1 x) by (eapply is_pre_app_l; exact P1).
      destruct (le_lt_dec (length pth1) (length pth2)) as [Hle'|Hgt'].
      * assert (D : desc g m1 pth1 m2 pth2) by (apply IH; try assumption; lia).
        destruct (desc_head _ _ _ _ _ D) as [[-> ->] | (c0 & p0 & cs0 & b0 & c0' & A1 & A2 & A3 & A4)].
        -- rewrite Hc1 in Hc2. injection Hc2 as ->. rewrite Hk1 in Hk2. injection Hk2 as -> ->.
           assert (E : pth1 ++ p2 ++ [b1] = pth1 ++ p2 ++ [b2]).
           { eapply is_pre_same_len; try eassumption. rewrite !len3. reflexivity. }
           apply app_inv_head in E. apply app_inv_head in E. injection E as ->.
           rewrite Hf1 in Hf2. injection Hf2 as ->. apply desc_refl.
        -- exfalso. rewrite Hc1 in A1. injection A1 as <-. rewrite Hk1 in A2. injection A2 as <- <-.
           destruct (desc_ext _ _ _ _ _ A4) as [e Ee]. rewrite Ee in Hgt.
           rewrite app_length, len3 in Hgt. lia.
      * exfalso. assert (D : desc g m2 pth2 m1 pth1) by (apply IH; try assumption; lia).
        destruct (desc_head _ _ _ _ _ D) as [[-> ->] | (c0 & p0 & cs0 & b0 & c0' & A1 & A2 & A3 & A4)]; [lia|].
        rewrite Hc2 in A1. injection A1 as <-. rewrite Hk2 in A2. injection A2 as <- <-.
        destruct (desc_ext _ _ _ _ _ A4) as [e Ee]. rewrite Ee in L, Hgt.
        rewrite app_length, len3 in L. lia.
Qed.

(** two nodes of one tree state reached along prefixes of one key: the one
    with the shorter path is an ancestor of the other *)
Lemma reach_chain : forall g x n1 q1 n2 q2,
  reach g n1 q1 -> reach g n2 q2 -> is_pre q1 x -> is_pre q2 x -> (length q1 <= length q2)%nat ->
  desc g n1 q1 n2 q2.
Proof. intros g x n1 q1 n2 q2. apply (chain_aux g x (S (length q1 + length q2))). lia. Qed.
