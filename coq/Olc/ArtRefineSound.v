(** C03e, adequacy of the representation relation: a lookup in a heap that
    represents the sequential tree returns what the sequential get returns. *)
From Coq Require Import List ZArith Bool Arith Lia.
From Unodb Require Import Base.Lex Art.ArtModel Art.ArtSpec Art.ArtInv Art.ArtLemmas Art.ArtProofs.
From Unodb Require Import Lock.LockModel Olc.ReadModel Olc.WriteModel Olc.WriteShapes.
From Unodb Require Import Olc.ArtRefine Olc.ArtRefineIns.
Import ListNotations.
Local Open Scope nat_scope.

Local Notation AWF := ArtInv.WF.

Lemma rep_lookup : forall L k h, key_ok L k -> forall fuel t pi n ids,
  rep h t n ids -> AWF L t pi -> ext pi k -> L - length pi < fuel ->
  lookup_rel h k n (length pi) (option_map snd (assoc k (leaves t))).
Proof.
  intros L k h Hk. induction fuel as [|f IH]; intros t pi n ids Hr HW Hext Hfuel; [lia|].
  destruct t as [lid lk lv | c p ch].
  - destruct (rep_root_cell _ _ _ _ Hr) as (cL & HcL & _ & HkL & _). cbn [leaves assoc].
    destruct (list_Z_eq_dec k lk) as [<- | Hne].
    + rewrite lex_eqb_refl. cbn. eapply lr_leaf_hit; eassumption.
    + rewrite (lex_eqb_neq _ _ Hne). cbn. eapply lr_leaf_miss; [exact HcL | exact HkL |]. intros E. apply Hne. symmetry. exact E.
  - destruct (rep_root_cell _ _ _ _ Hr) as (cl & Hc & _ & cs & ids0 & Hcont & Hl & _).
    destruct (inode_prelude L k c p ch pi Hk HW Hext) as (Hlt & Hrem & [(Hsl & Hass) | (Hsl & b & Hb & Hbyte & Hext' & Hass)]); rewrite Hass.
    + cbn. eapply lr_prefix_miss; [exact Hc | exact Hcont |]. intros Hp. apply (shared_len_full p _ Hrem) in Hp. lia.
    + destruct (ext_path_facts _ _ _ _ Hext') as (_ & Hpre & _).
      destruct (ArtModel.find_child ch b 0) as [[i c']|] eqn:Hfc.
      * apply find_child_some in Hfc. destruct Hfc as (l1 & l2 & -> & _).
        destruct (rep_list_mid _ _ _ _ _ _ _ Hl) as (cs1 & m & cs2 & i1 & im & i2 & -> & _ & _ & _ & Rm & _).
        assert (Hkeys : NoDup (map fst (cs1 ++ (b, m) :: cs2))).
        { rewrite (rep_list_keys _ _ _ _ Hl). apply ssorted_nodup. apply WF_inode in HW. tauto. }
        destruct (nodup_mid_notin _ _ _ _ _ Hkeys) as [Hnb1 _].
        destruct (child_of_WF _ _ _ _ _ _ _ _ HW) as [_ Hc'].
        assert (Hlen : length pi + length p < L) by (apply WF_inode in HW; tauto).
        eapply lr_step; [exact Hc | exact Hcont | exact Hpre | |].
        -- unfold next_child. rewrite Hb. apply find_child_mid. exact Hnb1.
        -- replace (length pi + length p + 1) with (length (pi ++ p ++ [b])) by (rewrite !app_length; cbn; lia).
           eapply IH; [exact Rm | exact Hc' | exact Hext' |]. rewrite !app_length. cbn. lia.
      * cbn. eapply lr_no_child; [exact Hc | exact Hcont | exact Hpre |].
        unfold next_child. rewrite Hb. apply find_child_None_iff. rewrite (rep_list_keys _ _ _ _ Hl).
        eapply find_child_none. exact Hfc.
Qed.

(** the heap lookup of a represented index is the sequential get *)
Theorem represents_lookup : forall L g d k, represents g d -> db_WF L d -> key_ok L k ->
  exists r, db_get d k = Ok r /\ lookup g k (option_map snd r).
Proof.
  intros L g d k [_ Hroot] HW Hk. exists (assoc k (db_leaves d)). split; [eapply db_get_correct; eassumption|].
  unfold lookup, db_leaves, db_WF in *. destruct (ArtModel.root d) as [t|].
  - destruct Hroot as (n & ids & -> & Hr & _).
    apply (rep_lookup L k (hp g) Hk (fuel_for k) t [] n ids Hr HW (ext_nil k)). eapply fuel_ok. exact Hk.
  - rewrite Hroot. reflexivity.
Qed.
