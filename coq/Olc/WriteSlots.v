(** C03 (writer side): redirecting a slot (root pointer or child slot) to a
    fresh node -- the part common to the commit shapes S4-S7. *)
From Coq Require Import List ZArith Bool Arith Lia.
From Unodb Require Import Lock.LockModel Olc.ReadModel Olc.ReadProofs Olc.WriteModel Olc.WriteShapes.
Import ListNotations.
Local Open Scope Z_scope.
Local Open Scope nat_scope.

Lemma app_self_nil : forall (A : Type) (q r : list A), q = q ++ r -> r = [].
Proof.
  intros A q r E. assert (L : length q = length (q ++ r)) by (rewrite <- E; reflexivity).
  rewrite app_length in L. destruct r; [reflexivity | cbn in L; lia].
Qed.

Lemma no_self_edge : forall g n b, WF g -> edge g n b n -> False.
Proof.
  intros g n b W (q & c & p & cs & Hr & Hc & Hk & Hf).
  assert (R : reach g n (q ++ p ++ [b])) by (eapply reach_child; eassumption).
  pose proof (reach_unique g n _ _ W Hr R) as E. apply app_self_nil in E.
  destruct p; discriminate.
Qed.

Lemma edge_reach : forall g n b m, edge g n b m -> exists q, reach g m q.
Proof. intros g n b m (q & c & p & cs & Hr & Hc & Hk & Hf). eexists. eapply reach_child; eassumption. Qed.

(** ** What holding a slot means in a well-formed tree *)
Section SlotHolds.
  Variables (g : gstate) (s : slot) (O : nid) (Q : list Z).
  Hypothesis W : WF g.
  Hypothesis Hs : slot_holds g s O Q.

  Lemma sh_reach : reach g O Q.
  Proof.
    destruct s as [|P bP]; cbn in Hs.
    - destruct Hs as [Hr ->]. apply reach_root. exact Hr.
    - destruct Hs as (pthP & cP & pP & csP & Hr & Hc & Hk & Hf & ->). eapply reach_child; eassumption.
  Qed.

  Lemma sh_edge_in : forall n b0, edge g n b0 O -> s = SChild n b0.
  Proof.
    intros n b0 E. destruct s as [|P bP]; cbn in Hs.
    - destruct Hs as [Hr _]. exfalso. eapply (wf_root g W); eassumption.
    - destruct Hs as (pthP & cP & pP & csP & Hr & Hc & Hk & Hf & _).
      assert (E' : edge g P bP O) by (eapply edge_intro; eassumption).
      destruct (wf_parent g W _ _ _ _ _ E E') as [-> ->]. reflexivity.
  Qed.

  Lemma sh_root : root g = Some O -> s = SRoot.
  Proof.
    intros Hr. destruct s as [|P bP]; [reflexivity|]. cbn in Hs. exfalso.
    destruct Hs as (pthP & cP & pP & csP & HrP & Hc & Hk & Hf & _).
    eapply (wf_root g W); [exact Hr | eapply edge_intro; eassumption].
  Qed.

  Lemma sh_P_ne_O : forall P bP, s = SChild P bP -> P <> O.
  Proof.
    intros P bP -> ->. cbn in Hs. destruct Hs as (pthP & cP & pP & csP & HrP & Hc & Hk & Hf & _).
    eapply (no_self_edge g O bP W). eapply edge_intro; eassumption.
  Qed.

  Lemma sh_P_reach : forall P bP, s = SChild P bP -> exists pthP, reach g P pthP.
  Proof. intros P bP ->. cbn in Hs. destruct Hs as (pthP & _ & _ & _ & HrP & _). eauto. Qed.
End SlotHolds.

(** ** Redirecting the slot *)
Section Redirect.
  Variables (g : gstate) (s : slot) (O : nid) (Q : list Z) (h : heap) (X : nid) (g' : gstate).
  Hypothesis W : WF g.
  Hypothesis Hs : slot_holds g s O Q.
  Hypothesis Hrd : slot_redirect g s h X g'.
  Hypothesis HX : hp g X = None.
  (* the shape-specific part of the commit does not touch P *)
  Hypothesis HhP : forall P bP, s = SChild P bP -> h P = hp g P.

  Lemma rd_X_ne_O : X <> O.
  Proof. intros ->. destruct (wf_alloc g W _ _ (sh_reach g s O Q Hs)) as (c & Hc & _). congruence. Qed.

  Lemma rd_hp : forall n, (forall bP, s <> SChild n bP) -> hp g' n = h n.
  Proof.
    intros n Hn. destruct s as [|P bP]; cbn in Hrd.
    - subst g'. reflexivity.
    - destruct Hrd as (cP & pP & csP & csP' & _ & _ & _ & ->). cbn.
      apply upd_neq. intros ->. apply (Hn bP). reflexivity.
  Qed.

  Lemma rd_root_new : forall r', root g' = Some r' ->
    (s = SRoot /\ r' = X) \/ (s <> SRoot /\ root g = Some r' /\ r' <> O).
  Proof.
    intros r' Hr. destruct s as [|P bP] eqn:Es; cbn in Hrd.
    - subst g'. cbn in Hr. injection Hr as <-. left. auto.
    - destruct Hrd as (cP & pP & csP & csP' & _ & _ & _ & ->). cbn in Hr.
      right. split; [discriminate | split; [exact Hr|]]. intros ->.
      pose proof (sh_root g (SChild P bP) O Q W Hs Hr). discriminate.
  Qed.

  Lemma rd_root_old : forall r, root g = Some r -> r <> O -> root g' = Some r.
  Proof.
    intros r Hr Hne. destruct s as [|P bP]; cbn in Hrd, Hs.
    - destruct Hs as [Hr' _]. congruence.
    - destruct Hrd as (cP & pP & csP & csP' & _ & _ & _ & ->). exact Hr.
  Qed.

  Lemma rd_root_step : root_step g g'.
  Proof.
    destruct s as [|P bP]; cbn in Hrd.
    - subst g'. right. reflexivity.
    - destruct Hrd as (cP & pP & csP & csP' & _ & _ & _ & ->). left. split; reflexivity.
  Qed.

  (** a step in g' out of a node of g that the shape-specific part left alone *)
  Lemma rd_step_old : forall n pth c c1 p1 cs1 b0 c',
    reach g n pth -> hp g n = Some c -> h n = Some c ->
    hp g' n = Some c1 -> cont c1 = CInode p1 cs1 -> find_child b0 cs1 = Some c' ->
    (c' = X /\ pth ++ p1 ++ [b0] = Q /\ s = SChild n b0) \/
    (c' <> O /\ edge g n b0 c' /\ reach g c' (pth ++ p1 ++ [b0])).
  Proof.
    intros n pth c c1 p1 cs1 b0 c' Hr Hc Hh Hc1 Hk1 Hf.
    assert (Old : forall cs0, cont c = CInode p1 cs0 -> find_child b0 cs0 = Some c' -> s <> SChild n b0 ->
              c' <> O /\ edge g n b0 c' /\ reach g c' (pth ++ p1 ++ [b0])).
    { intros cs0 Hk0 Hf0 Hns.
      assert (E : edge g n b0 c') by (eapply edge_intro; eassumption).
      split; [|split; [exact E | eapply reach_child; eassumption]].
      intros ->. apply Hns. eapply sh_edge_in; eassumption. }
    destruct s as [|P bP] eqn:Es; cbn in Hrd, Hs.
    - subst g'. cbn in Hc1. rewrite Hh in Hc1. injection Hc1 as <-. right. eapply Old; [eassumption .. | discriminate].
    - destruct Hrd as (cP & pP & csP & csP' & HcP & HkP & Hset & ->). cbn in Hc1.
      destruct (Nat.eq_dec n P) as [->|Hne].
      + rewrite upd_eq in Hc1. injection Hc1 as <-. cbn [cont mk] in Hk1. injection Hk1 as <- <-.
        rewrite Hc in HcP. injection HcP as <-. rewrite Hset in Hf.
        destruct (Z.eqb_spec b0 bP) as [->|Hb].
        * injection Hf as <-. left. split; [reflexivity | split; [|reflexivity]].
          destruct Hs as (pthP & cP & pP' & csP0 & HrP & HcP' & HkP' & Hf' & ->).
          rewrite (reach_unique g P pth pthP W Hr HrP). congruence.
        * right. eapply Old; [eassumption .. |]. intros E. injection E as E. congruence.
      + rewrite upd_neq in Hc1 by exact Hne. rewrite Hh in Hc1. injection Hc1 as <-.
        right. eapply Old; [eassumption .. |]. intros E. injection E as E _. congruence.
  Qed.

  (** an old step that does not go to O is still there in g' *)
  Lemma rd_fwd_old : forall n c p0 cs0 b0 c',
    hp g n = Some c -> h n = Some c -> cont c = CInode p0 cs0 -> find_child b0 cs0 = Some c' -> c' <> O ->
    exists c1 cs1, hp g' n = Some c1 /\ cont c1 = CInode p0 cs1 /\ find_child b0 cs1 = Some c'.
  Proof.
    intros n c p0 cs0 b0 c' Hc Hh Hk Hf Hne.
    destruct s as [|P bP] eqn:Es; cbn in Hrd, Hs.
    - subst g'. exists c, cs0. cbn. auto.
    - destruct Hrd as (cP & pP & csP & csP' & HcP & HkP & Hset & ->). cbn.
      destruct (Nat.eq_dec n P) as [->|HnP].
      + rewrite upd_eq. rewrite Hc in HcP. injection HcP as <-. rewrite Hk in HkP. injection HkP as <- <-.
        eexists. exists csP'. split; [reflexivity | split; [reflexivity|]]. rewrite Hset.
        destruct (Z.eqb_spec b0 bP) as [->|Hb]; [|exact Hf].
        destruct Hs as (pthP & cP & pP' & csP0 & HrP & HcP' & HkP' & Hf' & _). congruence.
      + rewrite upd_neq by exact HnP. exists c, cs0. auto.
  Qed.

  Lemma rd_X : (forall P bP pthP, s = SChild P bP -> reach g P pthP -> reach g' P pthP) -> reach g' X Q.
  Proof.
    intros Hfwd. destruct s as [|P bP] eqn:Es; cbn in Hrd, Hs.
    - subst g'. destruct Hs as [_ ->]. apply reach_root. reflexivity.
    - destruct Hrd as (cP & pP & csP & csP' & HcP & HkP & Hset & Eg).
      destruct Hs as (pthP & cP' & pP' & csP0 & HrP & HcP' & HkP' & Hf' & ->).
      rewrite HcP in HcP'. injection HcP' as <-. rewrite HkP in HkP'. injection HkP' as <- <-.
      eapply reach_child; [eapply Hfwd; [reflexivity | exact HrP] | subst g'; cbn; apply upd_eq | reflexivity |].
      rewrite Hset. rewrite Z.eqb_refl. reflexivity.
  Qed.

  Lemma rd_cell_step :
    (forall n c, hp g n = Some c -> exists c', h n = Some c' /\
       (c' = c \/ (w_is_free (word c) = true /\ (word c' = bump (word c) \/ word c' = 1%Z)))) ->
    cell_step g g'.
  Proof.
    intros Hh n c Hc. destruct s as [|P bP] eqn:Es; cbn in Hrd.
    - subst g'. apply Hh. exact Hc.
    - destruct Hrd as (cP & pP & csP & csP' & HcP & HkP & Hset & ->). cbn.
      destruct (Nat.eq_dec n P) as [->|Hne].
      + rewrite upd_eq. eexists. split; [reflexivity|]. right. cbn [word mk].
        rewrite Hc in HcP. injection HcP as <-.
        destruct (sh_P_reach g _ O Q Hs P bP eq_refl) as [pthP HrP].
        destruct (wf_alloc g W _ _ HrP) as (c0 & Hc0 & Hf0). split; [congruence | left; reflexivity].
      + rewrite upd_neq by exact Hne. apply Hh. exact Hc.
  Qed.

  (** P is an inner node with a free word in g' *)
  Lemma rd_P_cell : forall P bP, s = SChild P bP ->
    exists c1 p1 cs1, hp g' P = Some c1 /\ cont c1 = CInode p1 cs1 /\ w_is_free (word c1) = true /\
      exists c0 cs0, hp g P = Some c0 /\ cont c0 = CInode p1 cs0.
  Proof.
    intros P bP Es. rewrite Es in Hrd, Hs. cbn in Hrd.
    destruct Hrd as (cP & pP & csP & csP' & HcP & HkP & Hset & ->).
    destruct (sh_P_reach g _ O Q Hs P bP eq_refl) as [pthP HrP].
    destruct (wf_alloc g W _ _ HrP) as (c0 & Hc0 & Hf0). rewrite HcP in Hc0. injection Hc0 as <-.
    eexists. exists pP, csP'. split; [cbn; apply upd_eq | split; [reflexivity | split]].
    - cbn [word mk]. apply bump_free. exact Hf0.
    - eauto.
  Qed.

  (** the cell in g' of a node of g that the shape-specific part left alone *)
  Lemma rd_old_cell : forall n pth c, reach g n pth -> hp g n = Some c -> h n = Some c ->
    exists c1, hp g' n = Some c1 /\ w_is_free (word c1) = true /\
      (c1 = c \/ exists p1 cs0 cs1, cont c = CInode p1 cs0 /\ cont c1 = CInode p1 cs1).
  Proof.
    intros n pth c Hr Hc Hh.
    destruct (wf_alloc g W _ _ Hr) as (c0 & Hc0 & Hf0). rewrite Hc in Hc0. injection Hc0 as <-.
    assert (D : s = SRoot \/ exists P bP, s = SChild P bP) by (clear; destruct s; eauto).
    destruct D as [Es | (P & bP & Es)].
    - exists c. split; [rewrite rd_hp; [exact Hh | rewrite Es; discriminate] | split; [exact Hf0 | left; reflexivity]].
    - destruct (Nat.eq_dec n P) as [->|Hne].
      + destruct (rd_P_cell P bP Es) as (c1 & p1 & cs1 & Hc1 & Hk1 & Hf1 & c0 & cs0 & Hc0 & Hk0).
        exists c1. split; [exact Hc1 | split; [exact Hf1 | right]].
        rewrite Hc in Hc0. injection Hc0 as <-. eauto.
      + exists c. split; [rewrite rd_hp; [exact Hh | rewrite Es; intros b E; injection E as E _; congruence]
                          | split; [exact Hf0 | left; reflexivity]].
  Qed.

  Lemma rd_root_X : s = SRoot -> root g' = Some X.
  Proof. intros Es. rewrite Es in Hrd. cbn in Hrd. subst g'. reflexivity. Qed.

  Lemma rd_P_slot : forall P bP, s = SChild P bP ->
    exists c1 p1 cs1, hp g' P = Some c1 /\ cont c1 = CInode p1 cs1 /\ find_child bP cs1 = Some X /\
      exists c0 cs0, hp g P = Some c0 /\ cont c0 = CInode p1 cs0.
  Proof.
    intros P bP Es. rewrite Es in Hrd. cbn in Hrd.
    destruct Hrd as (cP & pP & csP & csP' & HcP & HkP & Hset & ->).
    eexists. exists pP, csP'. split; [cbn; apply upd_eq | split; [reflexivity | split]].
    - rewrite Hset. rewrite Z.eqb_refl. reflexivity.
    - eauto.
  Qed.

  (** in g' the slot holds X at the path where it held O in g, once the parent is known to be there *)
  Lemma rd_slot_step : forall n pth c p0 cs0 b0, reach g n pth -> hp g n = Some c -> cont c = CInode p0 cs0 ->
    find_child b0 cs0 = Some O -> reach g' n pth -> reach g' X (pth ++ p0 ++ [b0]).
  Proof.
    intros n pth c p0 cs0 b0 Hr Hc Hk Hf Hr'.
    assert (E : edge g n b0 O) by (eapply edge_intro; eassumption).
    pose proof (sh_edge_in g s O Q W Hs n b0 E) as Es.
    destruct (rd_P_slot n b0 Es) as (c1 & p1 & cs1 & Hc1 & Hk1 & Hf1 & c0 & cs0' & Hc0 & Hk0).
    rewrite Hc in Hc0. injection Hc0 as <-. rewrite Hk in Hk0. injection Hk0 as <- <-.
    eapply reach_child; eassumption.
  Qed.
End Redirect.

Lemma sh_P_inode : forall g s O Q P bP, slot_holds g s O Q -> s = SChild P bP ->
  exists pthP c p0 cs0, reach g P pthP /\ hp g P = Some c /\ cont c = CInode p0 cs0.
Proof.
  intros g s O Q P bP Hs ->. cbn in Hs. destruct Hs as (pthP & cP & pP & csP & Hr & Hc & Hk & _). eauto 8.
Qed.

Lemma no_two_cycle : forall g a b1 c b2, WF g -> edge g a b1 c -> edge g c b2 a -> False.
Proof.
  intros g a b1 c b2 W (qa & ca & pa & csa & Hra & Hca & Hka & Hfa) (qc & cc & pc & csc & Hrc & Hcc & Hkc & Hfc).
  assert (R1 : reach g c (qa ++ pa ++ [b1])) by (eapply reach_child; eassumption).
  rewrite (reach_unique g c _ _ W Hrc R1) in Hrc.
  assert (R2 : reach g a ((qa ++ pa ++ [b1]) ++ pc ++ [b2])) by (eapply reach_child; eassumption).
  pose proof (reach_unique g a _ _ W Hra R2) as E. rewrite <- app_assoc in E. apply app_self_nil in E.
  destruct pa; discriminate.
Qed.

Lemma firstn_app_prefix : forall (a r kk : list Z), a ++ r = firstn (length (a ++ r)) kk -> a = firstn (length a) kk.
Proof.
  intros a r kk E. assert (E' : firstn (length a) (a ++ r) = firstn (length a) (firstn (length (a ++ r)) kk)) by (rewrite <- E; reflexivity).
  rewrite firstn_app_exact in E'. rewrite firstn_firstn in E'.
  rewrite Nat.min_l in E' by (rewrite app_length; lia). exact E'.
Qed.

Lemma sh_edge : forall g s O Q P bP, slot_holds g s O Q -> s = SChild P bP -> edge g P bP O.
Proof.
  intros g s O Q P bP Hs ->. cbn in Hs. destruct Hs as (pthP & cP & pP & csP & Hr & Hc & Hk & Hf & _).
  eapply edge_intro; eassumption.
Qed.
