(** C03 (writer side): commit shape S5 replace (growth and shrink). *)
From Coq Require Import List ZArith Bool Arith Lia.
From Unodb Require Import Lock.LockModel Olc.ReadModel Olc.ReadProofs Olc.WriteModel Olc.WriteShapes Olc.WriteSlots.
Import ListNotations.
Local Open Scope Z_scope.
Local Open Scope nat_scope.

Section ReplaceIns.
  Variables (g g' : gstate) (k : key) (v : val) (s : slot) (N : nid) (d : nat) (cN : cell) (p : list Z)
            (cs : list (Z * nid)) (b : Z) (N' : nid) (wn : Z) (cs' : list (Z * nid)) (L : nid) (wl : Z).
  Hypothesis W : WF g.
  Hypothesis HA : at_slot_inode g k s N d cN p cs b.
  Hypothesis Hnone : find_child b cs = None.
  Hypothesis HN' : hp g N' = None.
  Hypothesis HL : hp g L = None.
  Hypothesis HNL : N' <> L.
  Hypothesis Hwn : w_is_free wn = true.
  Hypothesis Hwl : w_is_free wl = true.
  Hypothesis Hcs' : slot_set cs b (Some L) cs'.

  Definition pi_h : heap :=
    upd (upd (upd (hp g) L (mk wl (CLeaf k v))) N' (mk wn (CInode p cs'))) N (mk 1 (cont cN)).
  Hypothesis Hrd : slot_redirect g s pi_h N' g'.
  Definition pi_Q : list Z := firstn d k.

  Lemma pi_Hs : slot_holds g s N pi_Q.
  Proof. destruct HA as (Hs & _). exact Hs. Qed.

  Lemma pi_reach_N : reach g N pi_Q.
  Proof. exact (sh_reach g s N _ pi_Hs). Qed.

  Lemma pi_cN : hp g N = Some cN /\ cont cN = CInode p cs.
  Proof. destruct HA as (_ & _ & Hc & Hk & _). auto. Qed.

  Lemma pi_h_old : forall n c, hp g n = Some c -> n <> N -> pi_h n = Some c.
  Proof.
    intros n c Hc Hne. unfold pi_h. rewrite upd_neq by exact Hne.
    rewrite !upd_neq; [exact Hc | eapply fresh_neq; eassumption ..].
  Qed.

  Lemma pi_hP : forall P bP, s = SChild P bP -> pi_h P = hp g P.
  Proof.
    intros P bP Es. destruct (sh_P_reach g s N _ pi_Hs P bP Es) as [pthP HrP].
    destruct (wf_alloc g W _ _ HrP) as (c & Hc & _). rewrite Hc. apply pi_h_old; [exact Hc|].
    eapply (sh_P_ne_O g s N _ W pi_Hs). exact Es.
  Qed.

  Lemma pi_rd_hp : forall n, (forall bP, s <> SChild n bP) -> hp g' n = pi_h n.
  Proof. eapply rd_hp; first [eassumption | exact pi_Hs | exact pi_hP]. Qed.

  Lemma pi_not_P : forall n, hp g n = None \/ n = N -> forall bP, s <> SChild n bP.
  Proof.
    intros n Hn bP Es. destruct Hn as [Hn | ->].
    - destruct (sh_P_reach g s N _ pi_Hs n bP Es) as [pthP HrP].
      destruct (wf_alloc g W _ _ HrP) as (c & Hc & _). congruence.
    - eapply (sh_P_ne_O g s N _ W pi_Hs); [exact Es | reflexivity].
  Qed.

  Lemma pi_N_ne : N <> N' /\ N <> L.
  Proof. destruct pi_cN as [Hc _]. split; intros E; rewrite E in Hc; congruence. Qed.

  Lemma pi_hp_N' : hp g' N' = Some (mk wn (CInode p cs')).
  Proof.
    destruct pi_N_ne as [E1 _]. rewrite pi_rd_hp by (apply pi_not_P; left; exact HN').
    unfold pi_h. rewrite upd_neq by (apply not_eq_sym; exact E1). apply upd_eq.
  Qed.

  Lemma pi_hp_L : hp g' L = Some (mk wl (CLeaf k v)).
  Proof.
    destruct pi_N_ne as [_ E2]. rewrite pi_rd_hp by (apply pi_not_P; left; exact HL).
    unfold pi_h. rewrite upd_neq by (apply not_eq_sym; exact E2).
    rewrite upd_neq by (apply not_eq_sym; exact HNL). apply upd_eq.
  Qed.

  Lemma pi_hp_N : hp g' N = Some (mk 1 (cont cN)).
  Proof. rewrite pi_rd_hp by (apply pi_not_P; right; reflexivity). unfold pi_h. apply upd_eq. Qed.

  Lemma pi_root_new : forall r', root g' = Some r' ->
    (s = SRoot /\ r' = N') \/ (s <> SRoot /\ root g = Some r' /\ r' <> N).
  Proof. eapply rd_root_new; first [eassumption | exact pi_Hs | exact pi_hP]. Qed.

  Lemma pi_step_old : forall n pth c c1 p1 cs1 b0 c',
    reach g n pth -> hp g n = Some c -> pi_h n = Some c ->
    hp g' n = Some c1 -> cont c1 = CInode p1 cs1 -> find_child b0 cs1 = Some c' ->
    (c' = N' /\ pth ++ p1 ++ [b0] = pi_Q /\ s = SChild n b0) \/
    (c' <> N /\ edge g n b0 c' /\ reach g c' (pth ++ p1 ++ [b0])).
  Proof. eapply rd_step_old; first [eassumption | exact pi_Hs | exact pi_hP]. Qed.

  Lemma pi_fwd_old : forall n c p0 cs0 b0 c',
    hp g n = Some c -> pi_h n = Some c -> cont c = CInode p0 cs0 -> find_child b0 cs0 = Some c' -> c' <> N ->
    exists c1 cs1, hp g' n = Some c1 /\ cont c1 = CInode p0 cs1 /\ find_child b0 cs1 = Some c'.
  Proof. eapply rd_fwd_old; first [eassumption | exact pi_Hs | exact pi_hP]. Qed.

  Lemma pi_old_cell : forall n pth c, reach g n pth -> hp g n = Some c -> n <> N ->
    exists c1, hp g' n = Some c1 /\ w_is_free (word c1) = true /\
      (c1 = c \/ exists p1 cs0 cs1, cont c = CInode p1 cs0 /\ cont c1 = CInode p1 cs1).
  Proof.
    intros n pth c Hr Hc Hne. eapply rd_old_cell; first [eassumption | exact pi_Hs | exact pi_hP | apply pi_h_old; assumption].
  Qed.

  Definition pi_new (m : nid) (q : list Z) : Prop :=
    (m = N' /\ q = pi_Q) \/ (m = L /\ q = pi_Q ++ p ++ [b]).

  Lemma pi_reach_bwd : forall m q, reach g' m q -> (reach g m q /\ m <> N) \/ pi_new m q.
  Proof.
    destruct pi_cN as [HcN HkN].
    intros m q Hr. induction Hr as [n Hroot | n pth c p0 cs0 b0 c' Hr IH Hc Hk Hf].
    - destruct (pi_root_new n Hroot) as [[Es ->] | (_ & Hr0 & Hne0)].
      + right. left. split; [reflexivity|]. pose proof pi_Hs as Hs'. rewrite Es in Hs'. cbn in Hs'.
        destruct Hs' as [_ E]. symmetry. exact E.
      + left. split; [apply reach_root; exact Hr0 | exact Hne0].
    - destruct IH as [[Hr0 HnN] | [[-> ->] | [-> _]]].
      + destruct (wf_alloc g W _ _ Hr0) as (c0 & Hc0 & _).
        destruct (pi_step_old n pth c0 c p0 cs0 b0 c' Hr0 Hc0 (pi_h_old n c0 Hc0 HnN) Hc Hk Hf)
          as [(-> & E & _) | (Hne0 & _ & Hr1)]; [right; left; auto | left; auto].
      + rewrite pi_hp_N' in Hc. injection Hc as <-. cbn [cont mk] in Hk. injection Hk as <- <-.
        rewrite Hcs' in Hf. destruct (Z.eqb_spec b0 b) as [->|_].
        * injection Hf as <-. right. right. auto.
        * left. split; [eapply reach_child; [exact pi_reach_N | eassumption ..]|].
          intros ->. eapply (no_self_edge g N b0 W). eapply edge_intro; [exact pi_reach_N | eassumption ..].
      + rewrite pi_hp_L in Hc. injection Hc as <-. cbn in Hk. discriminate.
  Qed.

  Lemma pi_slot_step : forall n pth c p0 cs0 b0, reach g n pth -> hp g n = Some c -> cont c = CInode p0 cs0 ->
    find_child b0 cs0 = Some N -> reach g' n pth -> reach g' N' (pth ++ p0 ++ [b0]).
  Proof. eapply rd_slot_step; first [eassumption | exact pi_Hs | exact pi_hP]. Qed.

  Lemma pi_reach_fwd : forall m q, reach g m q -> (m <> N -> reach g' m q) /\ (m = N -> reach g' N' q).
  Proof.
    destruct pi_cN as [HcN HkN].
    intros m q Hr. induction Hr as [n Hroot | n pth c p0 cs0 b0 c' Hr IH Hc Hk Hf].
    - split.
      + intros Hne. apply reach_root. eapply rd_root_old; first [eassumption | exact pi_Hs | exact pi_hP].
      + intros ->. apply reach_root. eapply rd_root_X; first [eassumption | exact pi_Hs | exact pi_hP | idtac].
        exact (sh_root g s N _ W pi_Hs Hroot).
    - destruct IH as [IH1 IH2]. destruct (Nat.eq_dec n N) as [->|HnN].
      + rewrite HcN in Hc. injection Hc as <-. rewrite HkN in Hk. injection Hk as <- <-.
        assert (R : reach g' c' (pth ++ p ++ [b0])).
        { eapply reach_child; [exact (IH2 eq_refl) | exact pi_hp_N' | reflexivity |].
          rewrite Hcs'. destruct (Z.eqb_spec b0 b) as [->|_]; [congruence | exact Hf]. }
        split; [intros _; exact R|]. intros ->. exfalso.
        eapply (no_self_edge g N b0 W). eapply edge_intro; eassumption.
      + specialize (IH1 HnN). destruct (Nat.eq_dec c' N) as [->|Hc'N].
        * split; [intros E; contradiction | intros _]. eapply pi_slot_step; eassumption.
        * split; [intros _ | intros E; contradiction].
          destruct (pi_fwd_old n c p0 cs0 b0 c' Hc (pi_h_old n c Hc HnN) Hk Hf Hc'N) as (c1 & cs1 & Hc1 & Hk1 & Hf1).
          eapply reach_child; eassumption.
  Qed.

  Lemma pi_reach_N' : reach g' N' pi_Q.
  Proof. apply (pi_reach_fwd N pi_Q pi_reach_N). reflexivity. Qed.

  Lemma pi_reach_L : reach g' L (pi_Q ++ p ++ [b]).
  Proof.
    eapply reach_child; [exact pi_reach_N' | exact pi_hp_N' | reflexivity |].
    rewrite Hcs'. rewrite Z.eqb_refl. reflexivity.
  Qed.

  Lemma pi_path_k : pi_Q ++ p ++ [b] = firstn (d + length p + 1) k /\ d + length p + 1 <= length k.
  Proof. destruct HA as (_ & _ & _ & _ & Hp & Hb). unfold pi_Q. apply path_extend; assumption. Qed.

  Lemma pi_unreach_fresh : forall n q, hp g n = None -> reach g n q -> False.
  Proof. intros n q Hn Hr. destruct (wf_alloc g W _ _ Hr) as (c & Hc & _). congruence. Qed.

  Lemma pi_edge_bwd : forall n b0 m, edge g' n b0 m ->
    (edge g n b0 m /\ m <> N /\ n <> N) \/ (m = N' /\ s = SChild n b0) \/
    (n = N' /\ ((b0 = b /\ m = L) \/ (edge g N b0 m /\ m <> N))).
  Proof.
    destruct pi_cN as [HcN HkN].
    intros n b0 m (q & c & p0 & cs0 & Hr & Hc & Hk & Hf).
    destruct (pi_reach_bwd _ _ Hr) as [[Hr0 HnN] | [[-> _] | [-> _]]].
    - destruct (wf_alloc g W _ _ Hr0) as (c0 & Hc0 & _).
      destruct (pi_step_old n q c0 c p0 cs0 b0 m Hr0 Hc0 (pi_h_old n c0 Hc0 HnN) Hc Hk Hf)
        as [(-> & _ & Es) | (Hne0 & E & _)]; [right; left; auto | left; auto].
    - rewrite pi_hp_N' in Hc. injection Hc as <-. cbn [cont mk] in Hk. injection Hk as <- <-.
      rewrite Hcs' in Hf. right. right. split; [reflexivity|]. destruct (Z.eqb_spec b0 b) as [->|_].
      + injection Hf as <-. left. auto.
      + right. assert (E : edge g N b0 m) by (eapply edge_intro; [exact pi_reach_N | eassumption ..]).
        split; [exact E|]. intros ->. eapply no_self_edge; eassumption.
    - rewrite pi_hp_L in Hc. injection Hc as <-. cbn in Hk. discriminate.
  Qed.

  Lemma pi_old_target : forall n b0 m, edge g n b0 m -> m <> N' /\ m <> L.
  Proof.
    intros n b0 m E. destruct (edge_reach _ _ _ _ E) as [q Hr].
    split; intros ->; [exact (pi_unreach_fresh N' q HN' Hr) | exact (pi_unreach_fresh L q HL Hr)].
  Qed.

  Lemma pi_wf_parent : forall n1 b1 n2 b2 m, edge g' n1 b1 m -> edge g' n2 b2 m -> n1 = n2 /\ b1 = b2.
  Proof.
    intros n1 b1 n2 b2 m E1 E2.
    destruct (pi_edge_bwd _ _ _ E1) as [(A1 & M1 & N1) | [[M1 S1] | [X1 [[B1 M1] | [A1 M1]]]]];
      destruct (pi_edge_bwd _ _ _ E2) as [(A2 & M2 & N2) | [[M2 S2] | [X2 [[B2 M2] | [A2 M2]]]]];
      try (destruct (pi_old_target _ _ _ A1) as [T1 T1']); try (destruct (pi_old_target _ _ _ A2) as [T2 T2']);
      try (destruct (wf_parent g W _ _ _ _ _ A1 A2) as [P1 P2]);
      subst; try contradiction; try congruence; try (split; congruence).
  Qed.

  Lemma pi_wf_root : forall r n b0, root g' = Some r -> edge g' n b0 r -> False.
  Proof.
    intros r n b0 Hroot E.
    destruct (pi_root_new r Hroot) as [[Es ->] | (Hns & Hr0 & Hne0)];
      destruct (pi_edge_bwd _ _ _ E) as [(A1 & M1 & N1) | [[M1 S1] | [X1 [[B1 M1] | [A1 M1]]]]];
      try (destruct (pi_old_target _ _ _ A1) as [T1 T1']);
      try (exact (wf_root g W _ _ _ Hr0 A1));
      subst; try contradiction; try congruence.
    - eapply pi_unreach_fresh; [exact HN' | apply reach_root; exact Hr0].
    - eapply pi_unreach_fresh; [exact HL | apply reach_root; exact Hr0].
  Qed.

  Lemma pi_WF : WF g'.
  Proof.
    constructor; [| | exact pi_wf_parent | exact pi_wf_root].
    - intros m q Hr. destruct (pi_reach_bwd _ _ Hr) as [[Hr0 HnN] | [[-> _] | [-> _]]].
      + destruct (wf_alloc g W _ _ Hr0) as (c0 & Hc0 & _).
        destruct (pi_old_cell m q c0 Hr0 Hc0 HnN) as (c1 & Hc1 & Hf1 & _). eauto.
      + rewrite pi_hp_N'. eexists. split; [reflexivity | exact Hwn].
      + rewrite pi_hp_L. eexists. split; [reflexivity | exact Hwl].
    - intros m q c kk v0 Hr Hc Hk. destruct (pi_reach_bwd _ _ Hr) as [[Hr0 HnN] | [[-> _] | [-> ->]]].
      + destruct (wf_alloc g W _ _ Hr0) as (c0 & Hc0 & _).
        destruct (pi_old_cell m q c0 Hr0 Hc0 HnN) as (c1 & Hc1 & _ & [-> | (p1 & cs0 & cs1 & _ & Hk1)]);
          rewrite Hc1 in Hc; injection Hc as <-; [|congruence].
        eapply (wf_leaf g W); eassumption.
      + rewrite pi_hp_N' in Hc. injection Hc as <-. cbn in Hk. discriminate.
      + rewrite pi_hp_L in Hc. injection Hc as <-. cbn in Hk. injection Hk as <- <-.
        destruct pi_path_k as [E Hle]. rewrite E. rewrite firstn_length_le by exact Hle. reflexivity.
  Qed.

  Lemma pi_step_ok : step_ok g g'.
  Proof.
    destruct pi_cN as [HcN HkN].
    split; [exact pi_WF | split; [|split; [|split]]].
    - eapply rd_cell_step; first [eassumption | exact pi_Hs | exact pi_hP | idtac].
      intros n c Hc. destruct (Nat.eq_dec n N) as [->|HnN].
      + unfold pi_h. rewrite upd_eq. eexists. split; [reflexivity|]. right. cbn [word mk].
        destruct (wf_alloc g W _ _ pi_reach_N) as (c0 & Hc0 & Hf0). split; [congruence | right; reflexivity].
      + exists c. split; [apply pi_h_old; assumption | left; reflexivity].
    - eapply rd_root_step; first [eassumption | exact pi_Hs | exact pi_hP].
    - intros n pth Hr Hno. exists pth. apply (pi_reach_fwd n pth Hr). intros ->.
      specialize (Hno _ pi_hp_N). cbn in Hno. discriminate.
    - intros fp Hfp. exists (fun n => if Nat.eqb n N' then fp N else fp n). split.
      + intros n pth c p1 cs1 Hr Hc Hk.
        destruct (pi_reach_bwd _ _ Hr) as [[Hr0 HnN] | [[-> ->] | [-> _]]].
        * destruct (wf_alloc g W _ _ Hr0) as (c0 & Hc0 & _).
          destruct (Nat.eqb_spec n N') as [->|_]; [congruence|].
          destruct (pi_old_cell n pth c0 Hr0 Hc0 HnN) as (c1 & Hc1 & _ & [-> | (p2 & cs0 & cs2 & Hk0 & Hk1)]);
            rewrite Hc1 in Hc; injection Hc as <-.
          -- eapply Hfp; eassumption.
          -- rewrite Hk in Hk1. injection Hk1 as <- <-. eapply Hfp; eassumption.
        * rewrite Nat.eqb_refl. rewrite pi_hp_N' in Hc. injection Hc as <-. cbn in Hk. injection Hk as <- _.
          eapply Hfp; [exact pi_reach_N | eassumption ..].
        * rewrite pi_hp_L in Hc. injection Hc as <-. cbn in Hk. discriminate.
      + intros n c Hc. destruct (Nat.eqb_spec n N') as [->|_]; [congruence | reflexivity].
  Qed.

  Lemma pi_leaves : forall k' v', k' <> k -> (leaf_in g' k' v' <-> leaf_in g k' v').
  Proof.
    destruct pi_cN as [HcN HkN].
    intros k' v' Hnk. split; intros (n & pth & c & Hr & Hc & Hk).
    - destruct (pi_reach_bwd _ _ Hr) as [[Hr0 HnN] | [[-> _] | [-> _]]].
      + destruct (wf_alloc g W _ _ Hr0) as (c0 & Hc0 & _).
        destruct (pi_old_cell n pth c0 Hr0 Hc0 HnN) as (c1 & Hc1 & _ & [-> | (p2 & cs0 & cs2 & Hk0 & Hk1)]);
          rewrite Hc1 in Hc; injection Hc as <-; [|congruence].
        exists n, pth, c0. auto.
      + rewrite pi_hp_N' in Hc. injection Hc as <-. cbn in Hk. discriminate.
      + rewrite pi_hp_L in Hc. injection Hc as <-. cbn in Hk. injection Hk as E _. congruence.
    - assert (HnN : n <> N) by (intros ->; congruence).
      exists n, pth, c. split; [apply (pi_reach_fwd n pth Hr); exact HnN | split; [|exact Hk]].
      destruct (pi_old_cell n pth c Hr Hc HnN) as (c1 & Hc1 & _ & [-> | (p2 & cs0 & cs2 & Hk0 & Hk1)]); [exact Hc1 | congruence].
  Qed.

  Lemma pi_effect : insert_effect k v g g'.
  Proof.
    destruct pi_cN as [HcN HkN]. destruct HA as (_ & Hd & _ & _ & Hp & Hb).
    apply insert_effect_intro; [exact W | exact pi_WF | | | exact pi_leaves].
    - apply (reach_lookup g k N pi_Q pi_reach_N d eq_refl Hd).
      eapply lr_no_child; try eassumption. unfold next_child. rewrite Hb. exact Hnone.
    - destruct pi_path_k as [E Hle].
      apply (reach_lookup g' k L _ pi_reach_L (d + length p + 1) E Hle).
      eapply lr_leaf_hit; [exact pi_hp_L | reflexivity].
  Qed.
End ReplaceIns.

Theorem replace_ins_ok : forall k v g g', WF g -> replace_ins k v g g' -> step_ok g g' /\ insert_effect k v g g'.
Proof.
  intros k v g g' W [s N d cN p cs b N' wn cs' L wl h HA Hnone HN' HL HNL Hwn Hwl Hcs' -> Hrd].
  split; [eapply (pi_step_ok g g' k v s N d cN p cs b N' wn cs' L wl); eassumption
         | eapply (pi_effect g g' k v s N d cN p cs b N' wn cs' L wl); eassumption].
Qed.

Section ReplaceRem.
  Variables (g g' : gstate) (k : key) (s : slot) (N : nid) (d : nat) (cN : cell) (p : list Z)
            (cs : list (Z * nid)) (b : Z) (N' : nid) (wn : Z) (cs' : list (Z * nid)) (L : nid) (cL : cell) (v : val).
  Hypothesis W : WF g.
  Hypothesis HA : at_slot_inode g k s N d cN p cs b.
  Hypothesis Hsome : find_child b cs = Some L.
  Hypothesis HcL : hp g L = Some cL.
  Hypothesis HkL : cont cL = CLeaf k v.
  Hypothesis HN' : hp g N' = None.
  Hypothesis Hwn : w_is_free wn = true.
  Hypothesis Hcs' : slot_set cs b None cs'.

  Definition pr_h : heap :=
    upd (upd (upd (hp g) L (mk 1 (cont cL))) N' (mk wn (CInode p cs'))) N (mk 1 (cont cN)).
  Hypothesis Hrd : slot_redirect g s pr_h N' g'.
  Definition pr_Q : list Z := firstn d k.

  Lemma pr_Hs : slot_holds g s N pr_Q.
  Proof. destruct HA as (Hs & _). exact Hs. Qed.

  Lemma pr_reach_N : reach g N pr_Q.
  Proof. exact (sh_reach g s N _ pr_Hs). Qed.

  Lemma pr_cN : hp g N = Some cN /\ cont cN = CInode p cs.
  Proof. destruct HA as (_ & _ & Hc & Hk & _). auto. Qed.

  Lemma pr_edge_L : edge g N b L.
  Proof. destruct pr_cN as [Hc Hk]. eapply edge_intro; [exact pr_reach_N | eassumption ..]. Qed.

  Lemma pr_reach_L : reach g L (pr_Q ++ p ++ [b]).
  Proof. destruct pr_cN as [Hc Hk]. eapply reach_child; [exact pr_reach_N | eassumption ..]. Qed.

  Lemma pr_ne : N <> N' /\ L <> N' /\ L <> N.
  Proof.
    destruct pr_cN as [Hc Hk]. split; [|split].
    - intros E. rewrite E in Hc. congruence.
    - intros E. rewrite E in HcL. congruence.
    - intros E. rewrite E in HcL. congruence.
  Qed.

  Lemma pr_h_old : forall n c, hp g n = Some c -> n <> N -> n <> L -> pr_h n = Some c.
  Proof.
    intros n c Hc H1 H2. unfold pr_h. rewrite upd_neq by exact H1.
    rewrite upd_neq by (eapply fresh_neq; eassumption). rewrite upd_neq by exact H2. exact Hc.
  Qed.

  Lemma pr_inode_ne_L : forall n c p0 cs0, hp g n = Some c -> cont c = CInode p0 cs0 -> n <> L.
  Proof. intros n c p0 cs0 Hc Hk ->. congruence. Qed.

  Lemma pr_hP : forall P bP, s = SChild P bP -> pr_h P = hp g P.
  Proof.
    intros P bP Es. destruct (sh_P_inode g s N _ P bP pr_Hs Es) as (pthP & c & p0 & cs0 & _ & Hc & Hk).
    rewrite Hc. apply pr_h_old; [exact Hc | | eapply pr_inode_ne_L; eassumption].
    eapply (sh_P_ne_O g s N _ W pr_Hs). exact Es.
  Qed.

  Lemma pr_rd_hp : forall n, (forall bP, s <> SChild n bP) -> hp g' n = pr_h n.
  Proof. eapply rd_hp; first [eassumption | exact pr_Hs | exact pr_hP]. Qed.

  Lemma pr_not_P : forall n, hp g n = None \/ n = N \/ n = L -> forall bP, s <> SChild n bP.
  Proof.
    intros n Hn bP Es. destruct (sh_P_inode g s N _ n bP pr_Hs Es) as (pthP & c & p0 & cs0 & _ & Hc & Hk).
    destruct Hn as [Hn | [-> | ->]]; [congruence | | congruence].
    eapply (sh_P_ne_O g s N _ W pr_Hs); [exact Es | reflexivity].
  Qed.

  Lemma pr_hp_N' : hp g' N' = Some (mk wn (CInode p cs')).
  Proof.
    destruct pr_ne as [E1 _]. rewrite pr_rd_hp by (apply pr_not_P; left; exact HN').
    unfold pr_h. rewrite upd_neq by (apply not_eq_sym; exact E1). apply upd_eq.
  Qed.

  Lemma pr_hp_L : hp g' L = Some (mk 1 (cont cL)).
  Proof.
    destruct pr_ne as (_ & E2 & E3). rewrite pr_rd_hp by (apply pr_not_P; right; right; reflexivity).
    unfold pr_h. rewrite upd_neq by exact E3. rewrite upd_neq by exact E2. apply upd_eq.
  Qed.

  Lemma pr_hp_N : hp g' N = Some (mk 1 (cont cN)).
  Proof. rewrite pr_rd_hp by (apply pr_not_P; right; left; reflexivity). unfold pr_h. apply upd_eq. Qed.

  Lemma pr_root_new : forall r', root g' = Some r' ->
    (s = SRoot /\ r' = N') \/ (s <> SRoot /\ root g = Some r' /\ r' <> N).
  Proof. eapply rd_root_new; first [eassumption | exact pr_Hs | exact pr_hP]. Qed.

  Lemma pr_step_old : forall n pth c c1 p1 cs1 b0 c',
    reach g n pth -> hp g n = Some c -> pr_h n = Some c ->
    hp g' n = Some c1 -> cont c1 = CInode p1 cs1 -> find_child b0 cs1 = Some c' ->
    (c' = N' /\ pth ++ p1 ++ [b0] = pr_Q /\ s = SChild n b0) \/
    (c' <> N /\ edge g n b0 c' /\ reach g c' (pth ++ p1 ++ [b0])).
  Proof. eapply rd_step_old; first [eassumption | exact pr_Hs | exact pr_hP]. Qed.

  Lemma pr_fwd_old : forall n c p0 cs0 b0 c',
    hp g n = Some c -> pr_h n = Some c -> cont c = CInode p0 cs0 -> find_child b0 cs0 = Some c' -> c' <> N ->
    exists c1 cs1, hp g' n = Some c1 /\ cont c1 = CInode p0 cs1 /\ find_child b0 cs1 = Some c'.
  Proof. eapply rd_fwd_old; first [eassumption | exact pr_Hs | exact pr_hP]. Qed.

  Lemma pr_old_cell : forall n pth c, reach g n pth -> hp g n = Some c -> n <> N -> n <> L ->
    exists c1, hp g' n = Some c1 /\ w_is_free (word c1) = true /\
      (c1 = c \/ exists p1 cs0 cs1, cont c = CInode p1 cs0 /\ cont c1 = CInode p1 cs1).
  Proof.
    intros n pth c Hr Hc H1 H2. eapply rd_old_cell; first [eassumption | exact pr_Hs | exact pr_hP | apply pr_h_old; assumption].
  Qed.

  Lemma pr_slot_step : forall n pth c p0 cs0 b0, reach g n pth -> hp g n = Some c -> cont c = CInode p0 cs0 ->
    find_child b0 cs0 = Some N -> reach g' n pth -> reach g' N' (pth ++ p0 ++ [b0]).
  Proof. eapply rd_slot_step; first [eassumption | exact pr_Hs | exact pr_hP]. Qed.

  (** an edge of g into L is the slot b of N *)
  Lemma pr_into_L : forall n b0, edge g n b0 L -> n = N /\ b0 = b.
  Proof. intros n b0 E. exact (wf_parent g W _ _ _ _ _ E pr_edge_L). Qed.

  Lemma pr_reach_bwd : forall m q, reach g' m q -> (reach g m q /\ m <> N /\ m <> L) \/ (m = N' /\ q = pr_Q).
  Proof.
    destruct pr_cN as [HcN HkN].
    intros m q Hr. induction Hr as [n Hroot | n pth c p0 cs0 b0 c' Hr IH Hc Hk Hf].
    - destruct (pr_root_new n Hroot) as [[Es ->] | (_ & Hr0 & Hne0)].
      + right. split; [reflexivity|]. pose proof pr_Hs as Hs'. rewrite Es in Hs'. cbn in Hs'.
        destruct Hs' as [_ E]. symmetry. exact E.
      + left. split; [apply reach_root; exact Hr0 | split; [exact Hne0|]]. intros ->.
        eapply (wf_root g W); [exact Hr0 | exact pr_edge_L].
    - destruct IH as [(Hr0 & HnN & HnL) | [-> ->]].
      + destruct (wf_alloc g W _ _ Hr0) as (c0 & Hc0 & _).
        destruct (pr_step_old n pth c0 c p0 cs0 b0 c' Hr0 Hc0 (pr_h_old n c0 Hc0 HnN HnL) Hc Hk Hf)
          as [(-> & E & _) | (Hne0 & E & Hr1)]; [right; auto | left].
        split; [exact Hr1 | split; [exact Hne0|]]. intros ->. destruct (pr_into_L _ _ E) as [En _]. contradiction.
      + rewrite pr_hp_N' in Hc. injection Hc as <-. cbn [cont mk] in Hk. injection Hk as <- <-.
        rewrite Hcs' in Hf. destruct (Z.eqb_spec b0 b) as [->|Hb]; [discriminate|].
        assert (E : edge g N b0 c') by (eapply edge_intro; [exact pr_reach_N | eassumption ..]).
        left. split; [eapply reach_child; [exact pr_reach_N | eassumption ..] | split].
        * intros ->. eapply no_self_edge; eassumption.
        * intros ->. destruct (pr_into_L _ _ E) as [_ Eb]. contradiction.
  Qed.

  Lemma pr_reach_fwd : forall m q, reach g m q ->
    (m <> N -> m <> L -> reach g' m q) /\ (m = N -> reach g' N' q).
  Proof.
    destruct pr_cN as [HcN HkN].
    intros m q Hr. induction Hr as [n Hroot | n pth c p0 cs0 b0 c' Hr IH Hc Hk Hf].
    - split.
      + intros Hne _. apply reach_root. eapply rd_root_old; first [eassumption | exact pr_Hs | exact pr_hP].
      + intros ->. apply reach_root. eapply rd_root_X; first [eassumption | exact pr_Hs | exact pr_hP | idtac].
        exact (sh_root g s N _ W pr_Hs Hroot).
    - destruct IH as [IH1 IH2]. destruct (Nat.eq_dec n N) as [->|HnN].
      + rewrite HcN in Hc. injection Hc as <-. rewrite HkN in Hk. injection Hk as <- <-.
        split.
        * intros _ Hc'L. eapply reach_child; [exact (IH2 eq_refl) | exact pr_hp_N' | reflexivity |].
          rewrite Hcs'. destruct (Z.eqb_spec b0 b) as [->|_]; [congruence | exact Hf].
        * intros ->. exfalso. eapply (no_self_edge g N b0 W). eapply edge_intro; eassumption.
      + pose proof (pr_inode_ne_L n c p0 cs0 Hc Hk) as HnL. specialize (IH1 HnN HnL).
        destruct (Nat.eq_dec c' N) as [->|Hc'N].
        * split; [intros E; contradiction | intros _]. eapply pr_slot_step; eassumption.
        * split; [intros _ _ | intros E; contradiction].
          destruct (pr_fwd_old n c p0 cs0 b0 c' Hc (pr_h_old n c Hc HnN HnL) Hk Hf Hc'N) as (c1 & cs1 & Hc1 & Hk1 & Hf1).
          eapply reach_child; eassumption.
  Qed.

  Lemma pr_reach_N' : reach g' N' pr_Q.
  Proof. apply (pr_reach_fwd N pr_Q pr_reach_N). reflexivity. Qed.

  Lemma pr_unreach_fresh : forall n q, hp g n = None -> reach g n q -> False.
  Proof. intros n q Hn Hr. destruct (wf_alloc g W _ _ Hr) as (c & Hc & _). congruence. Qed.

  Lemma pr_edge_bwd : forall n b0 m, edge g' n b0 m ->
    (edge g n b0 m /\ m <> N /\ n <> N) \/ (m = N' /\ s = SChild n b0) \/
    (n = N' /\ edge g N b0 m /\ m <> N).
  Proof.
    destruct pr_cN as [HcN HkN].
    intros n b0 m (q & c & p0 & cs0 & Hr & Hc & Hk & Hf).
    destruct (pr_reach_bwd _ _ Hr) as [(Hr0 & HnN & HnL) | [-> _]].
    - destruct (wf_alloc g W _ _ Hr0) as (c0 & Hc0 & _).
      destruct (pr_step_old n q c0 c p0 cs0 b0 m Hr0 Hc0 (pr_h_old n c0 Hc0 HnN HnL) Hc Hk Hf)
        as [(-> & _ & Es) | (Hne0 & E & _)]; [right; left; auto | left; auto].
    - rewrite pr_hp_N' in Hc. injection Hc as <-. cbn [cont mk] in Hk. injection Hk as <- <-.
      rewrite Hcs' in Hf. destruct (Z.eqb_spec b0 b) as [->|_]; [discriminate|].
      right. right. assert (E : edge g N b0 m) by (eapply edge_intro; [exact pr_reach_N | eassumption ..]).
      split; [reflexivity | split; [exact E|]]. intros ->. eapply no_self_edge; eassumption.
  Qed.

  Lemma pr_old_target : forall n b0 m, edge g n b0 m -> m <> N'.
  Proof. intros n b0 m E. destruct (edge_reach _ _ _ _ E) as [q Hr]. intros ->. exact (pr_unreach_fresh N' q HN' Hr). Qed.

  Lemma pr_wf_parent : forall n1 b1 n2 b2 m, edge g' n1 b1 m -> edge g' n2 b2 m -> n1 = n2 /\ b1 = b2.
  Proof.
    intros n1 b1 n2 b2 m E1 E2.
    destruct (pr_edge_bwd _ _ _ E1) as [(A1 & M1 & N1) | [[M1 S1] | (X1 & A1 & M1)]];
      destruct (pr_edge_bwd _ _ _ E2) as [(A2 & M2 & N2) | [[M2 S2] | (X2 & A2 & M2)]];
      try (pose proof (pr_old_target _ _ _ A1) as T1); try (pose proof (pr_old_target _ _ _ A2) as T2);
      try (destruct (wf_parent g W _ _ _ _ _ A1 A2) as [P1 P2]);
      subst; try contradiction; try congruence; try (split; congruence).
  Qed.

  Lemma pr_wf_root : forall r n b0, root g' = Some r -> edge g' n b0 r -> False.
  Proof.
    intros r n b0 Hroot E.
    destruct (pr_root_new r Hroot) as [[Es ->] | (Hns & Hr0 & Hne0)];
      destruct (pr_edge_bwd _ _ _ E) as [(A1 & M1 & N1) | [[M1 S1] | (X1 & A1 & M1)]];
      try (pose proof (pr_old_target _ _ _ A1) as T1);
      try (exact (wf_root g W _ _ _ Hr0 A1));
      subst; try contradiction; try congruence.
    eapply pr_unreach_fresh; [exact HN' | apply reach_root; exact Hr0].
  Qed.

  Lemma pr_WF : WF g'.
  Proof.
    constructor; [| | exact pr_wf_parent | exact pr_wf_root].
    - intros m q Hr. destruct (pr_reach_bwd _ _ Hr) as [(Hr0 & HnN & HnL) | [-> _]].
      + destruct (wf_alloc g W _ _ Hr0) as (c0 & Hc0 & _).
        destruct (pr_old_cell m q c0 Hr0 Hc0 HnN HnL) as (c1 & Hc1 & Hf1 & _). eauto.
      + rewrite pr_hp_N'. eexists. split; [reflexivity | exact Hwn].
    - intros m q c kk v0 Hr Hc Hk. destruct (pr_reach_bwd _ _ Hr) as [(Hr0 & HnN & HnL) | [-> _]].
      + destruct (wf_alloc g W _ _ Hr0) as (c0 & Hc0 & _).
        destruct (pr_old_cell m q c0 Hr0 Hc0 HnN HnL) as (c1 & Hc1 & _ & [-> | (p1 & cs0 & cs1 & _ & Hk1)]);
          rewrite Hc1 in Hc; injection Hc as <-; [|congruence].
        eapply (wf_leaf g W); eassumption.
      + rewrite pr_hp_N' in Hc. injection Hc as <-. cbn in Hk. discriminate.
  Qed.

  Lemma pr_step_ok : step_ok g g'.
  Proof.
    destruct pr_cN as [HcN HkN]. destruct pr_ne as (E1 & E2 & E3).
    split; [exact pr_WF | split; [|split; [|split]]].
    - eapply rd_cell_step; first [eassumption | exact pr_Hs | exact pr_hP | idtac].
      intros n c Hc. destruct (Nat.eq_dec n N) as [->|HnN]; [|destruct (Nat.eq_dec n L) as [->|HnL]].
      + unfold pr_h. rewrite upd_eq. eexists. split; [reflexivity|]. right. cbn [word mk].
        destruct (wf_alloc g W _ _ pr_reach_N) as (c0 & Hc0 & Hf0). split; [congruence | right; reflexivity].
      + unfold pr_h. rewrite upd_neq by exact E3. rewrite upd_neq by exact E2. rewrite upd_eq.
        eexists. split; [reflexivity|]. right. cbn [word mk].
        destruct (wf_alloc g W _ _ pr_reach_L) as (c0 & Hc0 & Hf0). split; [congruence | right; reflexivity].
      + exists c. split; [apply pr_h_old; assumption | left; reflexivity].
    - eapply rd_root_step; first [eassumption | exact pr_Hs | exact pr_hP].
    - intros n pth Hr Hno. exists pth. apply (pr_reach_fwd n pth Hr).
      + intros ->. specialize (Hno _ pr_hp_N). cbn in Hno. discriminate.
      + intros ->. specialize (Hno _ pr_hp_L). cbn in Hno. discriminate.
    - intros fp Hfp. exists (fun n => if Nat.eqb n N' then fp N else fp n). split.
      + intros n pth c p1 cs1 Hr Hc Hk.
        destruct (pr_reach_bwd _ _ Hr) as [(Hr0 & HnN & HnL) | [-> ->]].
        * destruct (wf_alloc g W _ _ Hr0) as (c0 & Hc0 & _).
          destruct (Nat.eqb_spec n N') as [->|_]; [congruence|].
          destruct (pr_old_cell n pth c0 Hr0 Hc0 HnN HnL) as (c1 & Hc1 & _ & [-> | (p2 & cs0 & cs2 & Hk0 & Hk1)]);
            rewrite Hc1 in Hc; injection Hc as <-.
          -- eapply Hfp; eassumption.
          -- rewrite Hk in Hk1. injection Hk1 as <- <-. eapply Hfp; eassumption.
        * rewrite Nat.eqb_refl. rewrite pr_hp_N' in Hc. injection Hc as <-. cbn in Hk. injection Hk as <- _.
          eapply Hfp; [exact pr_reach_N | eassumption ..].
      + intros n c Hc. destruct (Nat.eqb_spec n N') as [->|_]; [congruence | reflexivity].
  Qed.

  Lemma pr_leaves : forall k' v', k' <> k -> (leaf_in g' k' v' <-> leaf_in g k' v').
  Proof.
    destruct pr_cN as [HcN HkN].
    intros k' v' Hnk. split; intros (n & pth & c & Hr & Hc & Hk).
    - destruct (pr_reach_bwd _ _ Hr) as [(Hr0 & HnN & HnL) | [-> _]].
      + destruct (wf_alloc g W _ _ Hr0) as (c0 & Hc0 & _).
        destruct (pr_old_cell n pth c0 Hr0 Hc0 HnN HnL) as (c1 & Hc1 & _ & [-> | (p2 & cs0 & cs2 & Hk0 & Hk1)]);
          rewrite Hc1 in Hc; injection Hc as <-; [|congruence].
        exists n, pth, c0. auto.
      + rewrite pr_hp_N' in Hc. injection Hc as <-. cbn in Hk. discriminate.
    - assert (HnN : n <> N) by (intros ->; congruence).
      assert (HnL : n <> L) by (intros ->; congruence).
      exists n, pth, c. split; [apply (pr_reach_fwd n pth Hr); assumption | split; [|exact Hk]].
      destruct (pr_old_cell n pth c Hr Hc HnN HnL) as (c1 & Hc1 & _ & [-> | (p2 & cs0 & cs2 & Hk0 & Hk1)]); [exact Hc1 | congruence].
  Qed.

  Lemma pr_effect : remove_effect k g g'.
  Proof.
    destruct pr_cN as [HcN HkN]. destruct HA as (_ & Hd & _ & _ & Hp & Hb).
    apply (remove_effect_intro k v); [exact W | exact pr_WF | | | exact pr_leaves].
    - destruct (path_extend d k p b Hp Hb) as [E Hle]. pose proof pr_reach_L as RL. unfold pr_Q in RL. rewrite E in RL.
      apply (reach_lookup g k L _ RL (d + length p + 1) eq_refl Hle). eapply lr_leaf_hit; eassumption.
    - apply (reach_lookup g' k N' pr_Q pr_reach_N' d eq_refl Hd).
      eapply lr_no_child; [exact pr_hp_N' | reflexivity | exact Hp |].
      unfold next_child. rewrite Hb. rewrite Hcs'. rewrite Z.eqb_refl. reflexivity.
  Qed.
End ReplaceRem.

Theorem replace_rem_ok : forall k g g', WF g -> replace_rem k g g' -> step_ok g g' /\ remove_effect k g g'.
Proof.
  intros k g g' W [s N d cN p cs b N' wn cs' L cL v h HA Hsome HcL HkL HN' Hwn Hcs' -> Hrd].
  split; [eapply (pr_step_ok g g' k s N d cN p cs b N' wn cs' L cL v); eassumption
         | eapply (pr_effect g g' k s N d cN p cs b N' wn cs' L cL v); eassumption].
Qed.
