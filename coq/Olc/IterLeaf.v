(** C09d, second part: the root pointer points to a leaf or is null - proofs
    for Olc/IterLeafModel.v (forward) and the shared facts about positions on
    a root leaf (both directions). *)
From Coq Require Import List ZArith Bool Arith Lia Sorted.
From Unodb Require Import Base.Lex Lock.LockModel Olc.ReadModel Olc.ReadProofs Olc.IterModel Olc.IterAux
  Olc.IterProofs Olc.IterSeek Olc.IterScan Olc.IterRevModel Olc.IterRevProofs Olc.IterRevSeek Olc.IterRevScan
  Olc.IterLeafModel.
Import ListNotations.
Local Open Scope Z_scope.

(** ** A one-entry tree answers every query with its entry, atomically *)

Theorem leafpos_first_some : forall H pos s lo, wf_history H -> leafpos_ok H pos ->
  above s lo (ip_key pos) -> first_query (H (ip_at pos)) s lo (Some (ip_key pos, ip_val pos)).
Proof.
  intros H pos s lo W L A. cbn. split; [exact A|]. split; [apply leafpos_entry; exact L|].
  intros x _ Lx Hx. rewrite (leafpos_only H pos x W L Hx) in Lx. exact (lex_lt_irrefl _ Lx).
Qed.

Theorem leafpos_first_none : forall H pos s lo, wf_history H -> leafpos_ok H pos ->
  ~ above s lo (ip_key pos) -> first_query (H (ip_at pos)) s lo None.
Proof.
  intros H pos s lo W L Hna x Ax Hx. rewrite (leafpos_only H pos x W L Hx) in Ax. exact (Hna Ax).
Qed.

Theorem leafpos_last_some : forall H pos u, wf_history H -> leafpos_ok H pos ->
  below u (ip_key pos) -> last_query (H (ip_at pos)) u (Some (ip_key pos, ip_val pos)).
Proof.
  intros H pos u W L B. cbn. split; [exact B|]. split; [apply leafpos_entry; exact L|].
  intros x _ Lx Hx. rewrite (leafpos_only H pos x W L Hx) in Lx. exact (lex_lt_irrefl _ Lx).
Qed.

(** ** try_next / try_prior on a root leaf can only report the end *)

Lemma up_some_stack_ne : forall H st t0 pops pv tc b' c' rest hs a q k' v',
  up_some H st t0 pops pv tc b' c' rest hs a q k' v' -> st <> [].
Proof. intros H st t0 pops pv tc b' c' rest hs a q k' v' [Nst _ _ _ _ _ _ _]. subst st. destruct (map fst pops); discriminate. Qed.

Theorem leafpos_no_next : forall H pos t0 pops pv tc b' c' rest hs a q k' v', leafpos_ok H pos ->
  ~ next_some H pos t0 pops pv tc b' c' rest hs a q k' v'.
Proof.
  intros H pos t0 pops pv tc b' c' rest hs a q k' v' (_ & _ & E & _) [_ N].
  exact (up_some_stack_ne _ _ _ _ _ _ _ _ _ _ _ _ _ _ N E).
Qed.

Theorem leafpos_no_prior : forall H pos t0 pops pv tc b' c' rest hs a q k' v', leafpos_ok H pos ->
  ~ prior_some H pos t0 pops pv tc b' c' rest hs a q k' v'.
Proof.
  intros H pos t0 pops pv tc b' c' rest hs a q k' v' (_ & _ & E & _) [_ N].
  exact (down_some_stack_ne _ _ _ _ _ _ _ _ _ _ _ _ _ _ N E).
Qed.

Lemma gnext_some_pos : forall H pos t0 pops pv tc b' c' rest hs a q k' v', gpos_ok H pos ->
  next_some H pos t0 pops pv tc b' c' rest hs a q k' v' -> pos_ok H pos.
Proof.
  intros H pos t0 pops pv tc b' c' rest hs a q k' v' [P | L] N; [exact P|].
  exfalso. exact (leafpos_no_next _ _ _ _ _ _ _ _ _ _ _ _ _ _ L N).
Qed.

(** the end after a root leaf is decided at the moment the leaf was
    read-locked: the tree was that one entry then *)
Theorem gnext_none_end : forall H pos t t0 pops,
  disciplined H -> stays_reachable H -> fullpath_stable H -> wf_history H -> gpos_ok H pos ->
  (t <= ip_at pos)%nat -> (t <= t0)%nat -> next_none H pos t0 pops ->
  (t <= end_moment pos t0)%nat /\ succ_query (H (end_moment pos t0)) (ip_key pos) None.
Proof.
  intros H pos t t0 pops Hd Hs Hfp W [P | L] Hat Ht0 N.
  - pose proof P as (_ & _ & _ & _ & Hne & _). rewrite end_moment_inner by exact Hne.
    split; [exact Ht0|]. exact (next_succ_none H pos t0 pops Hd Hs Hfp W P N).
  - pose proof L as (_ & _ & E & _). unfold end_moment. rewrite E. split; [exact Hat|].
    apply (leafpos_first_none H pos true (ip_key pos) W L). cbn. apply lex_lt_irrefl.
Qed.

(** ** try_first / try_last on a root leaf *)

Theorem first_down_gpos : forall H rl rw rc n0 hs a q k v,
  disciplined H -> stays_reachable H -> fullpath_stable H -> wf_history H ->
  first_down H rl rw rc n0 hs a q k v -> gpos_ok H (seek_pos hs a k v).
Proof. intros H rl rw rc n0 hs a q k v Hd Hs Hfp W (R & _ & Hk). eapply seek_pos_gpos_ok; eassumption. Qed.

Theorem first_leaf_atomic : forall H rl rw rc n0 a q k v,
  disciplined H -> stays_reachable H -> fullpath_stable H -> wf_history H ->
  first_down H rl rw rc n0 [] a q k v ->
  (rl <= h_lock a)%nat /\ leafpos_ok H (seek_pos [] a k v) /\
  first_query (H (h_lock a)) false [] (Some (k, v)).
Proof.
  intros H rl rw rc n0 a q k v Hd Hs Hfp W (R & _ & Hk).
  destruct (root_down_facts H _ _ _ _ _ _ _ Hd Hs Hfp W R) as (_ & _ & _ & _ & _ & _ & La).
  pose proof (seek_pos_leaf_ok H _ _ _ _ _ _ k v Hd Hs Hfp W R Hk) as L.
  split; [exact La|]. split; [exact L|].
  apply (leafpos_first_some H (seek_pos [] a k v) false [] W L). cbn. apply lex_le_nil.
Qed.

Theorem last_leaf_atomic : forall H rl rw rc n0 a q k v,
  disciplined H -> stays_reachable H -> fullpath_stable H -> wf_history H ->
  last_down H rl rw rc n0 [] a q k v ->
  (rl <= h_lock a)%nat /\ leafpos_ok H (seek_pos [] a k v) /\
  last_query (H (h_lock a)) UInf (Some (k, v)).
Proof.
  intros H rl rw rc n0 a q k v Hd Hs Hfp W (R & _ & Hk).
  destruct (root_down_facts H _ _ _ _ _ _ _ Hd Hs Hfp W R) as (_ & _ & _ & _ & _ & _ & La).
  pose proof (seek_pos_leaf_ok H _ _ _ _ _ _ k v Hd Hs Hfp W R Hk) as L.
  split; [exact La|]. split; [exact L|].
  apply (leafpos_last_some H (seek_pos [] a k v) UInf W L). exact I.
Qed.

(** ** try_seek on a root leaf, both directions *)

Theorem seek_leaf_query : forall H x rl rw rc n0 a q k v,
  disciplined H -> stays_reachable H -> fullpath_stable H -> wf_history H ->
  seek_down H x rl rw rc n0 [] a q -> h_cont a = CLeaf k v ->
  (rl <= h_lock a)%nat /\ leafpos_ok H (seek_pos [] a k v) /\
  (lex_le x k -> first_query (H (h_lock a)) false x (Some (k, v))) /\
  (lex_lt k x -> first_query (H (h_lock a)) false x None) /\
  (lex_le k x -> last_query (H (h_lock a)) (UKey false x) (Some (k, v))) /\
  (lex_lt x k -> last_query (H (h_lock a)) (UKey false x) None).
Proof.
  intros H x rl rw rc n0 a q k v Hd Hs Hfp W [R _] Hk.
  destruct (root_down_facts H _ _ _ _ _ _ _ Hd Hs Hfp W R) as (_ & _ & _ & _ & _ & _ & La).
  pose proof (seek_pos_leaf_ok H _ _ _ _ _ _ k v Hd Hs Hfp W R Hk) as L.
  split; [exact La|]. split; [exact L|]. split; [|split; [|split]].
  - intros Hle. exact (leafpos_first_some H (seek_pos [] a k v) false x W L Hle).
  - intros Hlt. apply (leafpos_first_none H (seek_pos [] a k v) false x W L). cbn. exact (lex_lt_not_le _ _ Hlt).
  - intros Hle. exact (leafpos_last_some H (seek_pos [] a k v) (UKey false x) W L Hle).
  - intros Hlt. apply (leafpos_end_query H (seek_pos [] a k v) (UKey false x) W L). cbn. exact (lex_lt_not_le _ _ Hlt).
Qed.

(** ** The forward seek and runs with root leaves *)

Lemma seek_result_at : forall H lo rl t1 t2 pos, seek_result H lo rl t1 t2 pos -> t2 = ip_at pos.
Proof. intros H lo rl t1 t2 pos S. destruct S; reflexivity. Qed.

Theorem seek_result0_ok : forall H, disciplined H -> stays_reachable H -> fullpath_stable H -> wf_history H ->
  forall lo rl t1 t2 pos, seek_result0 H lo rl t1 t2 pos ->
  (rl <= t1 <= t2)%nat /\ t2 = ip_at pos /\ gpos_ok H pos /\
  wquery H t1 t2 false lo (Some (ip_key pos, ip_val pos)).
Proof.
  intros H Hd Hs Hfp W lo rl t1 t2 pos S.
  destruct S as [rl t1 t2 pos S | rl rw rc n0 a q k v S1 S2 S3].
  - destruct (seek_result_ok H Hd Hs Hfp W _ _ _ _ _ S) as (L & P & Q).
    split; [exact L|]. split; [eapply seek_result_at; exact S|]. split; [left; exact P | exact Q].
  - destruct (seek_leaf_query H lo _ _ _ _ _ _ k v Hd Hs Hfp W S1 S2) as (La & L & Q & _).
    split; [lia|]. split; [reflexivity|]. split; [right; exact L|].
    apply first_query_wquery. exact (Q S3).
Qed.

Theorem seek_end0_ok : forall H, disciplined H -> stays_reachable H -> fullpath_stable H -> wf_history H ->
  forall lo rl T, seek_end0 H lo rl T -> (rl <= T)%nat /\ first_query (H T) false lo None.
Proof.
  intros H Hd Hs Hfp W lo rl T S.
  destruct S as [rl T S | rl rw rc n0 a q kr vr t0 pops S1 S2 S3 S4].
  - exact (seek_end_ok H Hd Hs Hfp W _ _ _ S).
  - destruct (seek_leaf_query H lo _ _ _ _ _ _ kr vr Hd Hs Hfp W S1 S2) as (La & _ & _ & Q & _).
    split; [exact La | exact (Q S3)].
Qed.

Theorem iter_run0_wscan : forall H, disciplined H -> stays_reachable H -> fullpath_stable H -> wf_history H ->
  forall t pos ds e, iter_run0 H t pos ds e -> gpos_ok H pos -> (t <= ip_at pos)%nat ->
  wscan H t true (ip_key pos) ds /\ run_end H t true (ip_key pos) ds e.
Proof.
  intros H Hd Hs Hfp W t pos ds e R.
  induction R as [t pos | t pos t0 pops Ht N | t pos rl T Ht S | t pos rl t1 t2 pos1 t0 pops Ht S Ek Ht2 N
                 | t pos t0 pops pv tc b' c' rest hs a q k' v' ds e Ht N R IH
                 | t pos rl t1 t2 pos1 ds e Ht S Hne R IH
                 | t pos rl t1 t2 pos1 t0 pops pv tc b' c' rest hs a q k' v' ds e Ht S Ek Ht2 N R IH]; intros Pok Hat.
  - split; [constructor | intros te E; discriminate].
  - split; [constructor|]. intros te E. injection E as <-.
    destruct (gnext_none_end H pos t t0 pops Hd Hs Hfp W Pok Hat Ht N) as [L Q].
    split; [exact L|]. apply (first_query_wquery H _ true (ip_key pos) None). exact Q.
  - split; [constructor|]. intros te E. injection E as <-.
    destruct (seek_end0_ok H Hd Hs Hfp W _ _ _ S) as [L Q]. split; [unfold wlast_moment; cbn; lia|].
    apply (first_query_wquery H T true (ip_key pos) None). apply first_query_none_strict. exact Q.
  - split; [constructor|]. intros te E. injection E as <-.
    destruct (seek_result0_ok H Hd Hs Hfp W _ _ _ _ _ S) as (L & Eat & P1 & _).
    destruct (gnext_none_end H pos1 t t0 pops Hd Hs Hfp W P1 ltac:(lia) ltac:(lia) N) as [L' Q].
    split; [exact L'|].
    apply (first_query_wquery H _ true (ip_key pos) None). rewrite <- Ek. exact Q.
  - pose proof (gnext_some_pos H _ _ _ _ _ _ _ _ _ _ _ _ _ Pok N) as Pok'.
    destruct (next_succ_some H pos t0 pops pv tc b' c' rest hs a q k' v' Hd Hs Hfp W Pok' N) as (L & Q & P').
    destruct (IH (or_introl P') (le_n _)) as [S' E']. cbn [ip_key next_pos] in S', E'. split.
    + apply ws_cons; [lia | exact Q | exact S'].
    + intros te E. rewrite wlast_moment_cons, wfinal_bound_cons. exact (E' te E).
  - destruct (seek_result0_ok H Hd Hs Hfp W _ _ _ _ _ S) as (L & Eat & P1 & Q).
    destruct (IH P1 ltac:(lia)) as [S' E']. split.
    + apply ws_cons; [lia | apply wquery_strict; assumption | exact S'].
    + intros te E. rewrite wlast_moment_cons, wfinal_bound_cons. exact (E' te E).
  - destruct (seek_result0_ok H Hd Hs Hfp W _ _ _ _ _ S) as (L & Eat & P1 & _).
    pose proof (gnext_some_pos H _ _ _ _ _ _ _ _ _ _ _ _ _ P1 N) as P1'.
    destruct (next_succ_some H pos1 t0 pops pv tc b' c' rest hs a q k' v' Hd Hs Hfp W P1' N) as (L' & Q & P').
    destruct (IH (or_introl P') (le_n _)) as [S' E']. cbn [ip_key next_pos] in S', E'. rewrite Ek in Q. split.
    + apply ws_cons; [lia | exact Q | exact S'].
    + intros te E. rewrite wlast_moment_cons, wfinal_bound_cons. exact (E' te E).
Qed.

Theorem iter_scan0_wscan : forall H, disciplined H -> stays_reachable H -> fullpath_stable H -> wf_history H ->
  forall t lo ds e, iter_scan0 H t lo ds e -> wscan H t false lo ds /\ run_end H t false lo ds e.
Proof.
  intros H Hd Hs Hfp W t lo ds e S.
  destruct S as [t lo rl T Ht S | t lo rl t1 t2 pos ds e Ht S R | t rl Ht Hr | t rl rw rc n0 hs a q k v ds e Ht S R].
  - split; [constructor|]. intros te E. injection E as <-.
    destruct (seek_end0_ok H Hd Hs Hfp W _ _ _ S) as [L Q]. split; [unfold wlast_moment; cbn; lia|].
    apply (first_query_wquery H T false lo None). exact Q.
  - destruct (seek_result0_ok H Hd Hs Hfp W _ _ _ _ _ S) as (L & Eat & P1 & Q).
    destruct (iter_run0_wscan H Hd Hs Hfp W _ _ _ _ R P1 ltac:(lia)) as [S' E']. split.
    + apply ws_cons; [lia | exact Q | exact S'].
    + intros te E. rewrite wlast_moment_cons, wfinal_bound_cons. exact (E' te E).
  - split; [constructor|]. intros te E. injection E as <-. split; [unfold wlast_moment; cbn; lia|].
    apply (first_query_wquery H rl false [] None). apply empty_tree_query. exact Hr.
  - destruct (first_down_query H _ _ _ _ _ _ _ _ _ Hd Hs Hfp W S) as (L & Q & _).
    pose proof (first_down_gpos H _ _ _ _ _ _ _ _ _ Hd Hs Hfp W S) as P1.
    destruct (iter_run0_wscan H Hd Hs Hfp W _ _ _ _ R P1 (le_n _)) as [S' E']. cbn [ip_key seek_pos] in S', E'. split.
    + apply ws_cons; [lia | exact Q | exact S'].
    + intros te E. rewrite wlast_moment_cons, wfinal_bound_cons. exact (E' te E).
Qed.

(** ** End to end: a forward scan, root leaves and the empty tree included *)
Theorem iter_scan0_c09 : forall H, disciplined H -> stays_reachable H -> fullpath_stable H -> wf_history H ->
  forall t lo ds e, iter_scan0 H t lo ds e ->
  StronglySorted lex_lt (wkeys ds) /\ Forall (lex_le lo) (wkeys ds) /\
  Forall (fun d : delivery => let '(t1, t2, k, v) := d in
            (t <= t1)%nat /\ exists T, (t1 <= T <= t2)%nat /\ entry (H T) k v) ds /\
  (forall k, (forall t', ~ has_key (H t') k) -> ~ In k (wkeys ds)) /\
  (forall k, lex_le lo k -> ~ above (fst (wfinal_bound false lo ds)) (snd (wfinal_bound false lo ds)) k ->
     (forall t', (t <= t' <= wlast_moment t ds)%nat -> has_key (H t') k) -> In k (wkeys ds)) /\
  (forall te k, e = Some te -> lex_le lo k ->
     (forall t', (t <= t' <= te)%nat -> has_key (H t') k) -> In k (wkeys ds)).
Proof.
  intros H Hd Hs Hfp W t lo ds e S.
  destruct (iter_scan0_wscan H Hd Hs Hfp W t lo ds e S) as [Sc En].
  destruct (wscan_ordered_bounded H t false lo ds Sc) as [O B].
  split; [exact O|]. split; [exact B|]. split; [exact (wscan_values_held H t false lo ds Sc)|].
  split; [intros k Hk; exact (wscan_no_phantom H t false lo ds k Sc Hk)|]. split.
  - intros k Ak Hfb Hst. exact (wscan_complete_prefix H t false lo ds k Sc Ak Hfb Hst).
  - intros te k Ee Ak Hst. destruct (En te Ee) as [Hl Hx].
    apply (wscan_complete H t false lo ds te te k Sc); [lia | exact Hx | exact Ak | exact Hst].
Qed.
