(** C09c: one step of the OLC iterator (olc_art.hpp, class olc_db::iterator,
    forward direction) as a successor query on the tree, in the framework of
    Olc/ReadModel.v (history of heaps, hops, disciplined / W1 / W2).

    What is modelled (definitions only; proofs in Olc/IterProofs.v):
    - the set of (key, value) entries of a tree state and its shape
      assumption [wf_state];
    - the iterator stack: inner-node entries with the saved word (version),
      the moment they were read, the child index / key byte taken;
    - the observations of a successful [try_next]: re-validation moments of
      the popped entries, the pivot entry with its next child, the hops of
      the left-most descent below that child (lock-coupled);
    - the observations of a successful forward [try_seek];
    - the result notion: an INTERVAL successor query [wquery].

    The atomic statement ("the delivered key is the successor in the tree as
    it is at ONE moment") is FALSE for this iterator: the entries of the
    stack are re-validated at different moments, and an entry that was popped
    is not protected afterwards (see the counterexample in the header of
    Olc/IterProofs.v).  What does hold, and what the scan theorems need, is:
    the delivered entry is in the tree at a moment of the step, and every key
    strictly between the bound and the delivered key is absent from the tree
    at SOME moment of the step. *)
From Coq Require Import List ZArith Bool Arith Sorted.
From Unodb Require Import Base.Lex Lock.LockModel Olc.ReadModel.
Import ListNotations.
Local Open Scope Z_scope.

(** ** Entries of a tree state, order on keys *)

Definition entry (g : gstate) (k : key) (v : val) : Prop :=
  exists n pth c, reach g n pth /\ hp g n = Some c /\ cont c = CLeaf k v.

Definition has_key (g : gstate) (k : key) : Prop := exists v, entry g k v.

(** q is a prefix of x *)
Definition is_pre (q x : list Z) : Prop := exists r, x = q ++ r.

Definition lex_le (a b : list Z) : Prop := lex_compare a b <> Gt.

Definition bytes_sorted (cs : list (Z * nid)) : Prop := StronglySorted Z.lt (map fst cs).

(** the shape of the trie: the key of a reachable leaf extends the bytes
    consumed on the way to it; the children of a reachable inner node are in
    strictly increasing key-byte order.  (It follows that no key of the tree
    is a proper prefix of another one, see [entry_leaf_unique].) *)
Record wf_state (g : gstate) : Prop := {
  wf_leaf : forall n pth c k v, reach g n pth -> hp g n = Some c -> cont c = CLeaf k v -> is_pre pth k;
  wf_sorted : forall n pth c p cs, reach g n pth -> hp g n = Some c -> cont c = CInode p cs -> bytes_sorted cs
}.

Definition wf_history (H : history) : Prop := forall t, wf_state (H t).

(** ** Atomic queries (for reference) *)

(** r is the entry with the least key > k (strict) / >= k in g *)
Definition above (strict : bool) (lo x : key) : Prop := if strict then lex_lt lo x else lex_le lo x.

Definition first_query (g : gstate) (strict : bool) (lo : key) (r : option (key * val)) : Prop :=
  match r with
  | Some (k, v) => above strict lo k /\ entry g k v /\ forall x, above strict lo x -> lex_lt x k -> ~ has_key g x
  | None => forall x, above strict lo x -> ~ has_key g x
  end.

Definition succ_query (g : gstate) (k : key) (r : option (key * val)) : Prop := first_query g true k r.

(** ** Interval queries: what one iterator step is *)

(** within the moments [t1, t2]: the delivered entry is in the tree at some
    moment, and every key above the bound and below the delivered key is
    absent at some moment; [None]: every key above the bound is absent at
    some moment *)
Definition absent_within (H : history) (t1 t2 : nat) (x : key) : Prop :=
  exists T, (t1 <= T <= t2)%nat /\ ~ has_key (H T) x.

Definition wquery (H : history) (t1 t2 : nat) (strict : bool) (lo : key) (r : option (key * val)) : Prop :=
  match r with
  | Some (k, v) => above strict lo k /\ (exists T, (t1 <= T <= t2)%nat /\ entry (H T) k v) /\
                   forall x, above strict lo x -> lex_lt x k -> absent_within H t1 t2 x
  | None => forall x, above strict lo x -> absent_within H t1 t2 x
  end.

(** ** The iterator stack *)

(** an inner-node entry of the stack (olc_db::iterator::stack_entry): the
    node, the bytes consumed before it, what was read from it (key prefix,
    children, the child index / key byte / child taken), the saved word
    (stack_entry::version) and the moment [e_at] at which that was read *)
Record sentry := {
  e_node : nid; e_pth : list Z; e_pre : list Z; e_cs : list (Z * nid);
  e_idx : nat; e_byte : Z; e_child : nid; e_word : Z; e_at : nat }.

(** the bytes consumed before the child taken *)
Definition e_cpath (e : sentry) : list Z := e_pth e ++ e_pre e ++ [e_byte e].

Definition sentry_seen (H : history) (e : sentry) : Prop :=
  w_is_free (e_word e) = true /\
  (exists c, hp (H (e_at e)) (e_node e) = Some c /\ word c = e_word e /\ cont c = CInode (e_pre e) (e_cs e)) /\
  nth_error (e_cs e) (e_idx e) = Some (e_byte e, e_child e).

(** invariant of an entry: it was seen, and the node was in the tree at its path then *)
Definition sentry_ok (H : history) (e : sentry) : Prop :=
  sentry_seen H e /\ reach (H (e_at e)) (e_node e) (e_pth e).

(** the word of the entry's node is the saved one again at moment t *)
Definition word_again (H : history) (n : nid) (w : Z) (t : nat) : Prop :=
  exists c, hp (H t) n = Some c /\ word c = w.

(** top entry first; each entry's child taken is the node above it; the
    bottom entry is at the empty path (it was the root) *)
Fixpoint linked (n : nid) (q : list Z) (st : list sentry) : Prop :=
  match st with
  | [] => q = []
  | e :: st' => e_child e = n /\ e_cpath e = q /\ linked (e_node e) (e_pth e) st'
  end.

(** a position of the iterator: the current leaf on top of inner entries *)
Record ipos := {
  ip_leaf : nid; ip_key : key; ip_val : val; ip_word : Z; ip_at : nat;
  ip_stack : list sentry }.

Definition ip_path (pos : ipos) : list Z :=
  match ip_stack pos with [] => [] | e :: _ => e_cpath e end.

Definition pos_ok (H : history) (pos : ipos) : Prop :=
  w_is_free (ip_word pos) = true /\
  (exists c, hp (H (ip_at pos)) (ip_leaf pos) = Some c /\ word c = ip_word pos /\
             cont c = CLeaf (ip_key pos) (ip_val pos)) /\
  Forall (sentry_ok H) (ip_stack pos) /\
  Forall (fun e => (e_at e <= ip_at pos)%nat) (ip_stack pos) /\
  ip_stack pos <> [] /\
  linked (ip_leaf pos) (ip_path pos) (ip_stack pos).

(** ** Lock-coupled descents that push entries *)

(** an inner hop of a descent: the entry pushed, and the moment its section
    was checked / closed (after the child was read-locked) *)
Record ihop := { ih_e : sentry; ih_check : nat }.

Definition ihop_seen (H : history) (i : ihop) : Prop :=
  sentry_seen H (ih_e i) /\ (e_at (ih_e i) <= ih_check i)%nat /\
  word_again H (e_node (ih_e i)) (e_word (ih_e i)) (ih_check i).

(** [descent H tl tc n pth hs a q]: inside the parent's section [tl, tc],
    starting at node n (consumed bytes pth), the inner hops hs were pushed,
    and the last node read-locked is hop a, at consumed bytes q.  Which child
    each hop takes is left open here (left-most: index 0; seek: by key byte). *)
Inductive descent (H : history) : nat -> nat -> nid -> list Z -> list ihop -> hop -> list Z -> Prop :=
| d_last : forall tl tc n pth a,
    hop_observed H a -> (tl <= h_lock a <= tc)%nat -> h_node a = n ->
    descent H tl tc n pth [] a pth
| d_step : forall tl tc n pth i rest a q,
    ihop_seen H i -> (tl <= e_at (ih_e i) <= tc)%nat ->
    e_node (ih_e i) = n -> e_pth (ih_e i) = pth ->
    descent H (e_at (ih_e i)) (ih_check i) (e_child (ih_e i)) (e_cpath (ih_e i)) rest a q ->
    descent H tl tc n pth (i :: rest) a q.

Definition leftmost (hs : list ihop) : Prop := Forall (fun i => e_idx (ih_e i) = 0%nat) hs.

(** ** A successful try_next *)

(** an entry that was popped because it has no further child: its word was
    the saved one again at the check moment (snd p) *)
Definition popped_ok (H : history) (t0 : nat) (p : sentry * nat) : Prop :=
  (e_at (fst p) <= t0 <= snd p)%nat /\ word_again H (e_node (fst p)) (e_word (fst p)) (snd p) /\
  nth_error (e_cs (fst p)) (S (e_idx (fst p))) = None.

(** the pivot entry after the step: next child index / byte / child *)
Definition advance (e : sentry) (b : Z) (c : nid) : sentry :=
  {| e_node := e_node e; e_pth := e_pth e; e_pre := e_pre e; e_cs := e_cs e;
     e_idx := S (e_idx e); e_byte := b; e_child := c; e_word := e_word e; e_at := e_at e |}.

(** the loop of try_next on a stack st of inner entries, started no earlier
    than t0: the entries pops are re-validated, have no further child and are
    popped; the pivot pv has a next child (b', c') and is re-validated until
    tc (its last check is the try_read_unlock in try_left_most_traversal
    after the child was read-locked); left-most descent hs / a below c' *)
Record up_some (H : history) (st : list sentry) (t0 : nat) (pops : list (sentry * nat))
    (pv : sentry) (tc : nat) (b' : Z) (c' : nid) (rest : list sentry)
    (hs : list ihop) (a : hop) (q : list Z) (k' : key) (v' : val) : Prop := {
  us_stack : st = map fst pops ++ pv :: rest;
  us_pops : Forall (popped_ok H t0) pops;
  us_pv_t : (e_at pv <= t0 <= tc)%nat;
  us_pv_w : word_again H (e_node pv) (e_word pv) tc;
  us_next : nth_error (e_cs pv) (S (e_idx pv)) = Some (b', c');
  us_desc : descent H t0 tc c' (e_pth pv ++ e_pre pv ++ [b']) hs a q;
  us_left : leftmost hs;
  us_cont : h_cont a = CLeaf k' v' }.

(** ... every entry is popped: the stack is empty, the iterator is at the end *)
Record up_none (H : history) (st : list sentry) (t0 : nat) (pops : list (sentry * nat)) : Prop := {
  un_stack : st = map fst pops;
  un_pops : Forall (popped_ok H t0) pops }.

Definition next_pos (pv : sentry) (b' : Z) (c' : nid) (rest : list sentry)
    (hs : list ihop) (a : hop) (k' : key) (v' : val) : ipos :=
  {| ip_leaf := h_node a; ip_key := k'; ip_val := v'; ip_word := h_word a; ip_at := h_lock a;
     ip_stack := rev (map ih_e hs) ++ advance pv b' c' :: rest |}.

(** the leaf was re-validated at t0 (rehydrate_read_lock(version).check()) *)
Definition leaf_again (H : history) (pos : ipos) (t0 : nat) : Prop :=
  (ip_at pos <= t0)%nat /\ word_again H (ip_leaf pos) (ip_word pos) t0.

(** try_next from a position: the leaf is re-validated and popped, then the loop *)
Definition next_some (H : history) (pos : ipos) (t0 : nat) (pops : list (sentry * nat))
    (pv : sentry) (tc : nat) (b' : Z) (c' : nid) (rest : list sentry)
    (hs : list ihop) (a : hop) (q : list Z) (k' : key) (v' : val) : Prop :=
  leaf_again H pos t0 /\ up_some H (ip_stack pos) t0 pops pv tc b' c' rest hs a q k' v'.

Definition next_none (H : history) (pos : ipos) (t0 : nat) (pops : list (sentry * nat)) : Prop :=
  leaf_again H pos t0 /\ up_none H (ip_stack pos) t0 pops.

(** ** A successful forward try_seek / try_first *)

(** a descent from the root: the root pointer section [rl, rc] (word rw, the
    root pointer n0 read in it), then a lock-coupled descent from n0.  a is
    the last node read-locked, q the bytes consumed before it. *)
Record root_down (H : history) (rl : nat) (rw : Z) (rc : nat) (n0 : nid)
    (hs : list ihop) (a : hop) (q : list Z) : Prop := {
  sd_le : (rl <= rc)%nat;
  sd_free : w_is_free rw = true;
  sd_w1 : root_word (H rl) = rw;
  sd_w2 : root_word (H rc) = rw;
  sd_root : root (H rl) = Some n0;
  sd_desc : descent H rl rc n0 [] hs a q }.

(** the search phase of try_seek: the descent follows the bytes of lo: every
    entry pushed has matched its key prefix and taken the child for the next
    byte of lo *)
Definition seek_down (H : history) (lo : key) (rl : nat) (rw : Z) (rc : nat) (n0 : nid)
    (hs : list ihop) (a : hop) (q : list Z) : Prop :=
  root_down H rl rw rc n0 hs a q /\ Forall (fun i => is_pre (e_cpath (ih_e i)) lo) hs.

(** try_first: the root pointer section, then a left-most descent to a leaf *)
Definition first_down (H : history) (rl : nat) (rw : Z) (rc : nat) (n0 : nid)
    (hs : list ihop) (a : hop) (q : list Z) (k : key) (v : val) : Prop :=
  root_down H rl rw rc n0 hs a q /\ leftmost hs /\ h_cont a = CLeaf k v.

Definition seek_stack (hs : list ihop) : list sentry := rev (map ih_e hs).

(** the position when the search phase ended on a leaf *)
Definition seek_pos (hs : list ihop) (a : hop) (k : key) (v : val) : ipos :=
  {| ip_leaf := h_node a; ip_key := k; ip_val := v; ip_word := h_word a; ip_at := h_lock a;
     ip_stack := seek_stack hs |}.

(** the position after a second, left-most descent hs2 / a2 on top of [below] *)
Definition desc_pos (hs2 : list ihop) (a2 : hop) (k : key) (v : val) (below : list sentry) : ipos :=
  {| ip_leaf := h_node a2; ip_key := k; ip_val := v; ip_word := h_word a2; ip_at := h_lock a2;
     ip_stack := rev (map ih_e hs2) ++ below |}.

(** ending: the last node is an inner node below which every key is smaller
    than lo (then try_next runs on the stack; the right-most descent that the
    implementation performs first in the prefix case only pushes entries that
    are popped again and is not part of the observations) *)
Definition seek_dead (lo : key) (a : hop) (q : list Z) : Prop :=
  exists p cs, h_cont a = CInode p cs /\
    forall bx cx r, find_child bx cs = Some cx -> lex_lt (q ++ p ++ bx :: r) lo.

(** ... the two ways it arises: no child for the next byte beta of lo and all
    children bytes are smaller (gte_key_byte found nothing); the key prefix
    differs from lo at a byte that is smaller than the one of lo *)
Definition seek_no_gte (lo : key) (a : hop) (q : list Z) : Prop :=
  exists p cs beta r, h_cont a = CInode p cs /\ lo = q ++ p ++ beta :: r /\
    forall bx cx, find_child bx cs = Some cx -> bx < beta.

Definition seek_prefix_gt (lo : key) (a : hop) (q : list Z) : Prop :=
  exists p cs c u w p' r, h_cont a = CInode p cs /\ p = c ++ u :: p' /\ lo = q ++ c ++ w :: r /\ u < w.

(** ending: the key prefix differs from lo at a byte that is greater *)
Definition seek_prefix_lt (lo : key) (a : hop) (q : list Z) : Prop :=
  exists p cs c u w p' r, h_cont a = CInode p cs /\ p = c ++ u :: p' /\ lo = q ++ c ++ w :: r /\ w < u.

(** ending: no child for the next byte beta of lo, the first child with a
    greater byte is (b', c') at index i; the entry pushed for the node *)
Definition seek_gte (lo : key) (a : hop) (q : list Z) (en : sentry) : Prop :=
  exists r beta, h_cont a = CInode (e_pre en) (e_cs en) /\ lo = q ++ e_pre en ++ beta :: r /\
    nth_error (e_cs en) (e_idx en) = Some (e_byte en, e_child en) /\ beta < e_byte en /\
    (forall j bj cj, (j < e_idx en)%nat -> nth_error (e_cs en) j = Some (bj, cj) -> bj < beta) /\
    e_node en = h_node a /\ e_pth en = q /\ e_word en = h_word a /\ e_at en = h_lock a.

(** ** Scans as chains of interval queries (byte-string keys) *)

(** deliveries: (first moment, last moment, key, value) of each step *)
Definition delivery := (nat * nat * key * val)%type.

Inductive wscan (H : history) : nat -> bool -> key -> list delivery -> Prop :=
| ws_nil : forall t s lo, wscan H t s lo []
| ws_cons : forall t s lo t1 t2 k v ds,
    (t <= t1 <= t2)%nat -> wquery H t1 t2 s lo (Some (k, v)) ->
    wscan H t2 true k ds -> wscan H t s lo ((t1, t2, k, v) :: ds).

Definition wkeys (ds : list delivery) : list key := map (fun d => snd (fst d)) ds.
Definition wlast_moment (t : nat) (ds : list delivery) : nat := last (map (fun d => snd (fst (fst d))) ds) t.
(** the bound after the last delivery *)
Definition wfinal_bound (s : bool) (lo : key) (ds : list delivery) : bool * key :=
  last (map (fun d => (true, snd (fst d))) ds) (s, lo).

(** the scan ran to completion: an interval query for the final bound found nothing *)
Definition wexhausted (H : history) (t1 t2 : nat) (b : bool * key) : Prop :=
  wquery H t1 t2 (fst b) (snd b) None.

(** ** Runs of the iterator *)

(** a successful forward [seek lo] that positions the iterator: started at
    rl (root pointer read-locked), its query interval [t1, t2], the position *)
Inductive seek_result (H : history) (lo : key) : nat -> nat -> nat -> ipos -> Prop :=
| sr_hit : forall rl rw rc n0 hs a q k v,
    seek_down H lo rl rw rc n0 hs a q -> h_cont a = CLeaf k v -> lex_le lo k -> hs <> [] ->
    seek_result H lo rl (h_lock a) (h_lock a) (seek_pos hs a k v)
| sr_lt : forall rl rw rc n0 hs a q kr vr t0 pops pv tc b' c' rest hs2 a2 q2 k' v',
    seek_down H lo rl rw rc n0 hs a q -> h_cont a = CLeaf kr vr -> lex_lt kr lo -> hs <> [] ->
    next_some H (seek_pos hs a kr vr) t0 pops pv tc b' c' rest hs2 a2 q2 k' v' ->
    seek_result H lo rl t0 (h_lock a2) (next_pos pv b' c' rest hs2 a2 k' v')
| sr_dead : forall rl rw rc n0 hs a q pops pv tc b' c' rest hs2 a2 q2 k' v',
    seek_down H lo rl rw rc n0 hs a q -> seek_dead lo a q ->
    up_some H (seek_stack hs) (h_lock a) pops pv tc b' c' rest hs2 a2 q2 k' v' ->
    seek_result H lo rl (h_lock a) (h_lock a2) (next_pos pv b' c' rest hs2 a2 k' v')
| sr_prefix : forall rl rw rc n0 hs a q hs2 a2 q2 k' v',
    seek_down H lo rl rw rc n0 hs a q -> seek_prefix_lt lo a q ->
    descent H (h_lock a) (h_check a) (h_node a) q hs2 a2 q2 -> leftmost hs2 -> h_cont a2 = CLeaf k' v' ->
    seek_result H lo rl (h_lock a) (h_lock a2) (desc_pos hs2 a2 k' v' (seek_stack hs))
| sr_gte : forall rl rw rc n0 hs a q en hs2 a2 q2 k' v',
    seek_down H lo rl rw rc n0 hs a q -> seek_gte lo a q en ->
    descent H (h_lock a) (h_check a) (e_child en) (e_cpath en) hs2 a2 q2 -> leftmost hs2 ->
    h_cont a2 = CLeaf k' v' ->
    seek_result H lo rl (h_lock a) (h_lock a2) (desc_pos hs2 a2 k' v' (en :: seek_stack hs)).

(** a successful forward [seek lo] that ends with an empty stack, decided at moment T *)
Inductive seek_end (H : history) (lo : key) : nat -> nat -> Prop :=
| se_empty : forall rl, root (H rl) = None -> seek_end H lo rl rl
| se_lt : forall rl rw rc n0 hs a q kr vr t0 pops,
    seek_down H lo rl rw rc n0 hs a q -> h_cont a = CLeaf kr vr -> lex_lt kr lo -> hs <> [] ->
    next_none H (seek_pos hs a kr vr) t0 pops -> seek_end H lo rl t0
| se_dead : forall rl rw rc n0 hs a q pops,
    seek_down H lo rl rw rc n0 hs a q -> seek_dead lo a q ->
    up_none H (seek_stack hs) (h_lock a) pops -> seek_end H lo rl (h_lock a).

(** [iter_run H t pos ds e]: from position pos, no earlier than t, the calls
    of [next] delivered ds; each call is a successful try_next, or (after a
    failed try_next, which leaves no observation) the fallback of
    olc_db::iterator::next: seek to the current key, and one more try_next if
    that key is still there.  e = Some te: the run ended with the iterator at
    the end, decided at te; None: the caller stopped. *)
Inductive iter_run (H : history) : nat -> ipos -> list delivery -> option nat -> Prop :=
| ir_stop : forall t pos, iter_run H t pos [] None
| ir_end : forall t pos t0 pops, (t <= t0)%nat -> next_none H pos t0 pops -> iter_run H t pos [] (Some t0)
| ir_end_seek : forall t pos rl T, (t <= rl)%nat -> seek_end H (ip_key pos) rl T -> iter_run H t pos [] (Some T)
| ir_end_seek_eq : forall t pos rl t1 t2 pos1 t0 pops, (t <= rl)%nat ->
    seek_result H (ip_key pos) rl t1 t2 pos1 -> ip_key pos1 = ip_key pos -> (t2 <= t0)%nat ->
    next_none H pos1 t0 pops -> iter_run H t pos [] (Some t0)
| ir_next : forall t pos t0 pops pv tc b' c' rest hs a q k' v' ds e, (t <= t0)%nat ->
    next_some H pos t0 pops pv tc b' c' rest hs a q k' v' ->
    iter_run H (h_lock a) (next_pos pv b' c' rest hs a k' v') ds e ->
    iter_run H t pos ((t0, h_lock a, k', v') :: ds) e
| ir_seek_gt : forall t pos rl t1 t2 pos1 ds e, (t <= rl)%nat ->
    seek_result H (ip_key pos) rl t1 t2 pos1 -> ip_key pos1 <> ip_key pos ->
    iter_run H t2 pos1 ds e ->
    iter_run H t pos ((t1, t2, ip_key pos1, ip_val pos1) :: ds) e
| ir_seek_eq : forall t pos rl t1 t2 pos1 t0 pops pv tc b' c' rest hs a q k' v' ds e, (t <= rl)%nat ->
    seek_result H (ip_key pos) rl t1 t2 pos1 -> ip_key pos1 = ip_key pos -> (t2 <= t0)%nat ->
    next_some H pos1 t0 pops pv tc b' c' rest hs a q k' v' ->
    iter_run H (h_lock a) (next_pos pv b' c' rest hs a k' v') ds e ->
    iter_run H t pos ((t0, h_lock a, k', v') :: ds) e.

(** a whole forward scan from lo: [seek lo], then a run *)
Inductive iter_scan (H : history) : nat -> key -> list delivery -> option nat -> Prop :=
| is_end : forall t lo rl T, (t <= rl)%nat -> seek_end H lo rl T -> iter_scan H t lo [] (Some T)
| is_seek : forall t lo rl t1 t2 pos ds e, (t <= rl)%nat -> seek_result H lo rl t1 t2 pos ->
    iter_run H t2 pos ds e -> iter_scan H t lo ((t1, t2, ip_key pos, ip_val pos) :: ds) e.
