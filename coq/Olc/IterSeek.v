(** C09c: the forward try_seek / try_first of the OLC iterator as interval
    queries (Olc/IterModel.v); uses the lemmas of Olc/IterProofs.v. *)
From Coq Require Import List ZArith Bool Arith Lia Sorted.
From Unodb Require Import Base.Lex Lock.LockModel Olc.ReadModel Olc.ReadProofs Olc.IterModel Olc.IterAux Olc.IterProofs.
Import ListNotations.
Local Open Scope Z_scope.

Lemma reach_has_root : forall g n pth, reach g n pth -> root g <> None.
Proof. intros g n pth R. induction R as [n Hr|]; [congruence | assumption]. Qed.

(** the empty tree *)
Lemma empty_tree_query : forall g s lo, root g = None -> first_query g s lo None.
Proof.
  intros g s lo Hr x _ (v & n & pth & c & R & _). exact (reach_has_root _ _ _ R Hr).
Qed.

Lemma descent_path_pre : forall H lo tl tc n pth hs a q, descent H tl tc n pth hs a q ->
  Forall (fun i => is_pre (e_cpath (ih_e i)) lo) hs -> is_pre pth lo -> is_pre q lo.
Proof.
  intros H lo tl tc n pth hs a q D.
  induction D as [tl tc n pth a Ho Hin Hn | tl tc n pth i rest a q Hseen Hin Hn Hp D IH]; intros F P.
  - exact P.
  - inversion F; subst. apply IH; assumption.
Qed.

(** what the search phase establishes *)
Lemma root_down_facts : forall H rl rw rc n0 hs a q,
  disciplined H -> stays_reachable H -> fullpath_stable H -> wf_history H ->
  root_down H rl rw rc n0 hs a q ->
  (forall t, (rl <= t <= rc)%nat -> reach (H t) n0 []) /\
  Forall (sentry_ok H) (seek_stack hs) /\
  Forall (fun e => (e_at e <= h_lock a)%nat) (seek_stack hs) /\
  linked (h_node a) q (seek_stack hs) /\
  reach (H (h_lock a)) (h_node a) q /\ hop_observed H a /\ (rl <= h_lock a)%nat.
Proof.
  intros H rl rw rc n0 hs a q Hd Hs Hfp W [Sle Sfree Sw1 Sw2 Sroot Sd].
  assert (R0 : forall t, (rl <= t <= rc)%nat -> reach (H t) n0 []).
  { intros t Ht. apply reach_root.
    rewrite (root_section H rl rc Hd Sle); [exact Sroot | congruence | rewrite Sw1; exact Sfree | exact Ht]. }
  destruct (descent_good H Hd Hs Hfp W _ _ _ _ _ _ _ Sd R0) as (G & _ & Ra & La).
  destruct (descent_before _ _ _ _ _ _ _ _ Sd) as [B1 _].
  split; [exact R0|]. unfold seek_stack.
  split; [apply Forall_rev; apply Forall_map; eapply Forall_impl; [|exact G]; intros i [Gi _]; exact Gi|].
  split; [apply Forall_rev; apply Forall_map; exact B1|].
  split; [pose proof (descent_linked _ _ _ _ _ _ _ _ Sd [] eq_refl) as L; rewrite app_nil_r in L; exact L|].
  split; [exact Ra|].
  split; [eapply descent_last_observed; exact Sd | exact La].
Qed.

Lemma seek_down_pre : forall H lo rl rw rc n0 hs a q, seek_down H lo rl rw rc n0 hs a q -> is_pre q lo.
Proof.
  intros H lo rl rw rc n0 hs a q [[_ _ _ _ _ Sd] Sp].
  eapply descent_path_pre; [exact Sd | exact Sp | exists lo; reflexivity].
Qed.

(** the position when the descent from the root ended on a leaf (below at least one inner node) *)
Lemma seek_pos_ok : forall H rl rw rc n0 hs a q k v,
  disciplined H -> stays_reachable H -> fullpath_stable H -> wf_history H ->
  root_down H rl rw rc n0 hs a q -> h_cont a = CLeaf k v -> hs <> [] ->
  pos_ok H (seek_pos hs a k v) /\ ip_path (seek_pos hs a k v) = q.
Proof.
  intros H rl rw rc n0 hs a q k v Hd Hs Hfp W R Hk Hne.
  destruct (root_down_facts H _ _ _ _ _ _ _ Hd Hs Hfp W R) as (R0 & _ & _ & L & _).
  destruct R as [_ _ _ _ _ Sd].
  assert (Hne' : rev (map ih_e hs) ++ [] <> []).
  { destruct hs; [congruence|]. cbn. destruct (rev (map ih_e hs) ++ [ih_e i]) eqn:E; [|discriminate].
    destruct (rev (map ih_e hs)); discriminate. }
  pose proof (descent_pos_ok H Hd Hs Hfp W _ _ _ _ _ _ _ k v [] Sd R0 Hk Hne' eq_refl (Forall_nil _) (Forall_nil _)) as P.
  rewrite app_nil_r in P. split; [exact P|].
  unfold ip_path, seek_pos. cbn [ip_stack]. unfold seek_stack in *.
  destruct (rev (map ih_e hs)) as [|e st] eqn:E; [rewrite app_nil_r in Hne'; congruence|].
  symmetry. eapply linked_top_path. exact L.
Qed.

(** ending 1: the leaf reached is >= lo: atomic at its lock moment *)
Theorem seek_hit_query : forall H lo rl rw rc n0 hs a q k' v',
  disciplined H -> stays_reachable H -> fullpath_stable H -> wf_history H ->
  seek_down H lo rl rw rc n0 hs a q -> h_cont a = CLeaf k' v' -> lex_le lo k' ->
  (rl <= h_lock a)%nat /\ first_query (H (h_lock a)) false lo (Some (k', v')).
Proof.
  intros H lo rl rw rc n0 hs a q k' v' Hd Hs Hfp W S Hk Hle.
  pose proof (seek_down_pre _ _ _ _ _ _ _ _ _ S) as [r1 Elo]. destruct S as [R _].
  destruct (root_down_facts H _ _ _ _ _ _ _ Hd Hs Hfp W R) as (_ & _ & _ & _ & Ra & Ho & La).
  destruct (hop_lock_cell H a Ho) as (c & Hc & _ & Hkc). rewrite Hk in Hkc.
  split; [exact La|]. cbn. split; [exact Hle|]. split.
  - exists (h_node a), q, c. auto.
  - intros x Ax Lx [vx Ex].
    destruct (wf_leaf _ (W _) _ _ _ _ _ Ra Hc Hkc) as [r2 Ek]. subst lo k'.
    destruct (lex_cut _ _ _ _ Ax Lx) as [r Ex'].
    destruct (through_leaf _ _ _ _ _ _ _ _ (W _) Ra Hc Hkc Ex (ex_intro _ r Ex')) as [E _].
    rewrite E in Lx. exact (lex_lt_irrefl _ Lx).
Qed.

(** ending 2: the leaf reached is < lo, then try_next from that position *)
Theorem seek_lt_some_query : forall H lo rl rw rc n0 hs a q kr vr t0 pops pv tc b' c' rest hs2 a2 q2 k' v',
  disciplined H -> stays_reachable H -> fullpath_stable H -> wf_history H ->
  seek_down H lo rl rw rc n0 hs a q -> h_cont a = CLeaf kr vr -> lex_lt kr lo -> hs <> [] ->
  next_some H (seek_pos hs a kr vr) t0 pops pv tc b' c' rest hs2 a2 q2 k' v' ->
  (rl <= t0 <= h_lock a2)%nat /\ wquery H t0 (h_lock a2) false lo (Some (k', v')) /\
  pos_ok H (next_pos pv b' c' rest hs2 a2 k' v').
Proof.
  intros H lo rl rw rc n0 hs a q kr vr t0 pops pv tc b' c' rest hs2 a2 q2 k' v' Hd Hs Hfp W S Hk Hlt Hne N.
  pose proof (seek_down_pre _ _ _ _ _ _ _ _ _ S) as Plo. destruct S as [R _].
  destruct (seek_pos_ok H _ _ _ _ _ _ _ kr vr Hd Hs Hfp W R Hk Hne) as [Pok Ep].
  destruct (root_down_facts H _ _ _ _ _ _ _ Hd Hs Hfp W R) as (_ & _ & _ & _ & _ & _ & La).
  rewrite <- Ep in Plo.
  destruct (next_some_query H _ t0 pops pv tc b' c' rest hs2 a2 q2 k' v' false lo Hd Hs Hfp W Pok N Plo) as [L Q].
  { intros x Ax ->. cbn in Ax. exact (lex_lt_not_le _ _ Hlt Ax). }
  destruct (next_succ_some H _ t0 pops pv tc b' c' rest hs2 a2 q2 k' v' Hd Hs Hfp W Pok N) as (_ & _ & P').
  destruct N as [[Nl _] _]. cbn in Nl.
  split; [lia | split; assumption].
Qed.

Theorem seek_lt_none_query : forall H lo rl rw rc n0 hs a q kr vr t0 pops,
  disciplined H -> stays_reachable H -> fullpath_stable H -> wf_history H ->
  seek_down H lo rl rw rc n0 hs a q -> h_cont a = CLeaf kr vr -> lex_lt kr lo -> hs <> [] ->
  next_none H (seek_pos hs a kr vr) t0 pops ->
  (rl <= t0)%nat /\ first_query (H t0) false lo None.
Proof.
  intros H lo rl rw rc n0 hs a q kr vr t0 pops Hd Hs Hfp W S Hk Hlt Hne N.
  pose proof (seek_down_pre _ _ _ _ _ _ _ _ _ S) as Plo. destruct S as [R _].
  destruct (seek_pos_ok H _ _ _ _ _ _ _ kr vr Hd Hs Hfp W R Hk Hne) as [Pok Ep].
  destruct (root_down_facts H _ _ _ _ _ _ _ Hd Hs Hfp W R) as (_ & _ & _ & _ & _ & _ & La).
  rewrite <- Ep in Plo. split.
  - destruct N as [[Nl _] _]. cbn in Nl. lia.
  - apply (next_none_query H _ t0 pops false lo Hd Hs Hfp W Pok N Plo).
    intros x Ax ->. cbn in Ax. exact (lex_lt_not_le _ _ Hlt Ax).
Qed.

(** ending 3: an inner node below which every key is smaller than lo *)
Lemma no_gte_dead : forall lo a q, seek_no_gte lo a q -> seek_dead lo a q.
Proof.
  intros lo a q (p & cs & beta & r & Hk & -> & Hall). exists p, cs. split; [exact Hk|].
  intros bx cx r' Hf. apply lex_lt_app. apply lex_lt_app. apply lex_lt_cons. left. eapply Hall. exact Hf.
Qed.

Lemma prefix_gt_dead : forall lo a q, seek_prefix_gt lo a q -> seek_dead lo a q.
Proof.
  intros lo a q (p & cs & c & u & w & p' & r & Hk & -> & -> & Hlt). exists (c ++ u :: p'), cs. split; [exact Hk|].
  intros bx cx r' Hf. apply lex_lt_app. rewrite <- app_assoc. apply lex_lt_app. cbn.
  apply lex_lt_cons. left. exact Hlt.
Qed.

Lemma dead_floor : forall H lo a q, wf_history H -> hop_observed H a ->
  reach (H (h_lock a)) (h_node a) q -> seek_dead lo a q ->
  floor H (h_lock a) (above false lo) q.
Proof.
  intros H lo a q W Ho Ra (p & cs & Hk & Hall) x Ax Px [vx Ex].
  destruct (hop_lock_cell H a Ho) as (c & Hc & _ & Hkc). rewrite Hk in Hkc.
  destruct (through_inode _ _ _ _ _ _ _ _ (W _) Ra Hc Hkc Ex Px) as (bx & cx & r & Hf & ->).
  cbn in Ax. exact (lex_lt_not_le _ _ (Hall bx cx r Hf) Ax).
Qed.

Theorem seek_dead_some_query : forall H lo rl rw rc n0 hs a q pops pv tc b' c' rest hs2 a2 q2 k' v',
  disciplined H -> stays_reachable H -> fullpath_stable H -> wf_history H ->
  seek_down H lo rl rw rc n0 hs a q -> seek_dead lo a q ->
  up_some H (seek_stack hs) (h_lock a) pops pv tc b' c' rest hs2 a2 q2 k' v' ->
  (rl <= h_lock a <= h_lock a2)%nat /\ wquery H (h_lock a) (h_lock a2) false lo (Some (k', v')) /\
  pos_ok H (next_pos pv b' c' rest hs2 a2 k' v').
Proof.
  intros H lo rl rw rc n0 hs a q pops pv tc b' c' rest hs2 a2 q2 k' v' Hd Hs Hfp W S Dd N.
  pose proof (seek_down_pre _ _ _ _ _ _ _ _ _ S) as Plo. destruct S as [R _].
  destruct (root_down_facts H _ _ _ _ _ _ _ Hd Hs Hfp W R) as (_ & Ok & At & L & Ra & Ho & La).
  pose proof (dead_floor H lo a q W Ho Ra Dd) as F.
  destruct (up_some_query H _ _ _ _ pops pv tc b' c' rest hs2 a2 q2 k' v' (above false lo) lo
              Hd Hs Hfp W Ok L N (above_not_lt false lo) Plo F) as (L0 & E' & Lk & Q).
  split; [lia|]. split.
  - cbn. split; [apply lex_lt_le; exact Lk|]. split; [|exact Q].
    exists (h_lock a2). split; [lia | exact E'].
  - eapply up_some_pos; eassumption.
Qed.

Theorem seek_dead_none_query : forall H lo rl rw rc n0 hs a q pops,
  disciplined H -> stays_reachable H -> fullpath_stable H -> wf_history H ->
  seek_down H lo rl rw rc n0 hs a q -> seek_dead lo a q ->
  up_none H (seek_stack hs) (h_lock a) pops ->
  (rl <= h_lock a)%nat /\ first_query (H (h_lock a)) false lo None.
Proof.
  intros H lo rl rw rc n0 hs a q pops Hd Hs Hfp W S Dd N.
  pose proof (seek_down_pre _ _ _ _ _ _ _ _ _ S) as Plo. destruct S as [R _].
  destruct (root_down_facts H _ _ _ _ _ _ _ Hd Hs Hfp W R) as (_ & Ok & At & L & Ra & Ho & La).
  pose proof (dead_floor H lo a q W Ho Ra Dd) as F.
  split; [exact La|]. cbn.
  exact (up_none_query H _ _ _ _ pops (above false lo) lo Hd Hs Hfp W Ok L N (above_not_lt false lo) Plo F).
Qed.

(** an inner node during its section *)
Lemma inner_hop_section : forall H a q p cs,
  disciplined H -> stays_reachable H -> fullpath_stable H -> hop_observed H a ->
  h_cont a = CInode p cs -> reach (H (h_lock a)) (h_node a) q ->
  forall t, (h_lock a <= t <= h_check a)%nat ->
    reach (H t) (h_node a) q /\
    exists c, hp (H t) (h_node a) = Some c /\ word c = h_word a /\ cont c = CInode p cs.
Proof.
  intros H a q p cs Hd Hs Hfp Ho Hk Ra t Ht. split.
  - eapply section_reach_inode; eassumption.
  - rewrite <- Hk. apply section_cell; assumption.
Qed.

(** a left-most descent that starts again at an inner node inside that node's
    own section: the delivered key continues the node's key prefix *)
Lemma leftmost_from_inner : forall H a q p cs hs2 a2 q2 k' v',
  disciplined H -> stays_reachable H -> fullpath_stable H -> wf_history H -> hop_observed H a ->
  h_cont a = CInode p cs -> reach (H (h_lock a)) (h_node a) q ->
  descent H (h_lock a) (h_check a) (h_node a) q hs2 a2 q2 -> leftmost hs2 -> h_cont a2 = CLeaf k' v' ->
  hs2 <> [] /\ exists b r, k' = q ++ p ++ b :: r.
Proof.
  intros H a q p cs hs2 a2 q2 k' v' Hd Hs Hfp W Ho Hk Ra D Hl Hk2.
  pose proof (inner_hop_section H a q p cs Hd Hs Hfp Ho Hk Ra) as Sec.
  inversion D as [tl tc n pth a0 Ho2 Hin Hn | tl tc n pth i rest a0 q0 Hseen Hin Hn Hp D'].
  - exfalso. subst. destruct (Sec _ Hin) as [_ (c & Hc & _ & Hkc)].
    destruct (hop_lock_cell H a2 Ho2) as (c2 & Hc2 & _ & Hkc2). rewrite Hn in Hc2. congruence.
  - subst. split; [discriminate|].
    destruct (Sec _ Hin) as [Ri (c & Hc & _ & Hkc)].
    pose proof Hseen as ((_ & (ci & Hci & _ & Hki) & Hnth) & _). rewrite Hn in Hci.
    assert (e_pre (ih_e i) = p) as Ep by congruence.
    inversion Hl as [|i0 l0 Hi0 Hl']; subst.
    assert (G : ihop_good H i) by (apply ihop_is_good; try assumption; rewrite Hn; exact Ri).
    destruct (leftmost_query H Hd Hs Hfp W _ _ _ _ _ _ _ D') with (k' := k') (v' := v') as ([r E] & _ & _); try assumption.
    { intros t Ht. eapply valid_child; [exact W | apply G; exact Ht | exact Hnth]. }
    exists (e_byte (ih_e i)), r. rewrite E. unfold e_cpath. rewrite <- !app_assoc. reflexivity.
Qed.

(** ending 4: the key prefix of the node is greater than the bytes of lo:
    left-most descent from that node *)
Theorem seek_prefix_lt_query : forall H lo rl rw rc n0 hs a q hs2 a2 q2 k' v',
  disciplined H -> stays_reachable H -> fullpath_stable H -> wf_history H ->
  seek_down H lo rl rw rc n0 hs a q -> seek_prefix_lt lo a q ->
  descent H (h_lock a) (h_check a) (h_node a) q hs2 a2 q2 -> leftmost hs2 -> h_cont a2 = CLeaf k' v' ->
  (rl <= h_lock a <= h_lock a2)%nat /\ wquery H (h_lock a) (h_lock a2) false lo (Some (k', v')) /\
  pos_ok H (desc_pos hs2 a2 k' v' (seek_stack hs)).
Proof.
  intros H lo rl rw rc n0 hs a q hs2 a2 q2 k' v' Hd Hs Hfp W S (p & cs & c & u & w & p' & r & Hk & Ep & Elo & Hlt) D Hl Hk2.
  destruct S as [R _].
  destruct (root_down_facts H _ _ _ _ _ _ _ Hd Hs Hfp W R) as (_ & Ok & At & L & Ra & Ho & La).
  pose proof (inner_hop_section H a q p cs Hd Hs Hfp Ho Hk Ra) as Sec.
  assert (Rn : forall t, (h_lock a <= t <= h_check a)%nat -> reach (H t) (h_node a) q) by (intros t Ht; apply Sec; exact Ht).
  destruct (leftmost_from_inner H a q p cs hs2 a2 q2 k' v' Hd Hs Hfp W Ho Hk Ra D Hl Hk2) as (Hne2 & b & r' & Ek').
  destruct (leftmost_query H Hd Hs Hfp W _ _ _ _ _ _ _ D Rn Hl k' v' Hk2) as (_ & E' & Gap).
  destruct (descent_before _ _ _ _ _ _ _ _ D) as [_ B2].
  assert (Lk : lex_lt lo k').
  { rewrite Elo, Ek', Ep. apply lex_lt_app. rewrite <- app_assoc. apply lex_lt_app. cbn. apply lex_lt_cons. left. exact Hlt. }
  split; [lia|]. split.
  - cbn. split; [apply lex_lt_le; exact Lk|]. split.
    + exists (h_lock a2). split; [lia | exact E'].
    + intros x Ax Lx. apply Gap; [|exact Lx]. cbn in Ax. rewrite Elo in Ax. rewrite Ek' in Lx.
      eapply lex_cut; eassumption.
  - unfold desc_pos. eapply descent_pos_ok with (tl := h_lock a) (tc := h_check a); try eassumption.
    destruct hs2; [congruence|]. cbn. destruct (rev (map ih_e hs2)); discriminate.
Qed.

(** ending 5: no child for the next byte of lo, but one with a greater byte:
    that entry is pushed, left-most descent below its child *)
Theorem seek_gte_query : forall H lo rl rw rc n0 hs a q en hs2 a2 q2 k' v',
  disciplined H -> stays_reachable H -> fullpath_stable H -> wf_history H ->
  seek_down H lo rl rw rc n0 hs a q -> seek_gte lo a q en ->
  descent H (h_lock a) (h_check a) (e_child en) (e_cpath en) hs2 a2 q2 -> leftmost hs2 -> h_cont a2 = CLeaf k' v' ->
  (rl <= h_lock a <= h_lock a2)%nat /\ wquery H (h_lock a) (h_lock a2) false lo (Some (k', v')) /\
  pos_ok H (desc_pos hs2 a2 k' v' (en :: seek_stack hs)).
Proof.
  intros H lo rl rw rc n0 hs a q en hs2 a2 q2 k' v' Hd Hs Hfp W S
    (r & beta & Hk & Elo & Hnth & Hb & Hsm & En & Ep & Ew & Ea) D Hl Hk2.
  destruct S as [R _].
  destruct (root_down_facts H _ _ _ _ _ _ _ Hd Hs Hfp W R) as (_ & Ok & At & L & Ra & Ho & La).
  pose proof (inner_hop_section H a q _ _ Hd Hs Hfp Ho Hk Ra) as Sec.
  assert (V : forall t, (h_lock a <= t <= h_check a)%nat -> valid_at H en t).
  { intros t Ht. destruct (Sec t Ht) as [Rt Ct]. unfold valid_at. rewrite En, Ep, Ew. split; [exact Ct | exact Rt]. }
  assert (Rc : forall t, (h_lock a <= t <= h_check a)%nat -> reach (H t) (e_child en) (e_cpath en)).
  { intros t Ht. eapply valid_child; [exact W | apply V; exact Ht | exact Hnth]. }
  destruct (leftmost_query H Hd Hs Hfp W _ _ _ _ _ _ _ D Rc Hl k' v' Hk2) as ([r' Ek'] & E' & Gap).
  destruct (descent_before _ _ _ _ _ _ _ _ D) as [_ B2].
  pose proof Ho as (Hle & Hfree & _).
  assert (V0 : valid_at H en (h_lock a)) by (apply V; lia).
  assert (Oken : sentry_ok H en).
  { destruct V0 as [C0 R0]. unfold sentry_ok, sentry_seen. rewrite Ea. rewrite Ew at 1.
    split; [split; [exact Hfree | split; [exact C0 | exact Hnth]] | exact R0]. }
  unfold e_cpath in Ek'. rewrite Ep in Ek'. rewrite <- !app_assoc in Ek'. cbn in Ek'.
  assert (Lk : lex_lt lo k').
  { rewrite Elo, Ek'. apply lex_lt_app. apply lex_lt_app. apply lex_lt_cons. left. exact Hb. }
  split; [lia|]. split.
  - cbn. split; [apply lex_lt_le; exact Lk|]. split.
    + exists (h_lock a2). split; [lia | exact E'].
    + intros x Ax Lx. cbn in Ax.
      assert (Px : is_pre q x) by (rewrite Elo in Ax; rewrite Ek' in Lx; eapply lex_cut; eassumption).
      destruct (is_pre_dec (e_cpath en) x) as [Pc|Pn]; [apply Gap; assumption|].
      exists (h_lock a). split; [lia|]. intros [vx Ex]. rewrite <- Ep in Px.
      destruct (valid_through H en _ x vx W V0 Ex Px) as (bx & cx & rx & Hf & ->).
      destruct (find_child_some_nth _ _ _ Hf) as [j Hj].
      pose proof (valid_sorted H _ _ W V0) as Srt.
      destruct (lt_eq_lt_dec j (e_idx en)) as [[Hlt | ->] | Hgt].
      * pose proof (Hsm j bx cx Hlt Hj) as Hs1. rewrite Elo, Ep in Ax.
        apply (lex_lt_not_le _ _) in Ax; [exact Ax|].
        apply lex_lt_app. apply lex_lt_app. apply lex_lt_cons. left. exact Hs1.
      * rewrite Hnth in Hj. injection Hj as <- <-. apply Pn. unfold e_cpath. exists rx.
        rewrite <- !app_assoc. reflexivity.
      * pose proof (sorted_nth_lt _ Srt _ _ _ _ Hgt (nth_map_fst _ _ _ _ Hnth) (nth_map_fst _ _ _ _ Hj)) as Hs2.
        rewrite Ek', Ep in Lx. apply lex_lt_app in Lx. apply lex_lt_app in Lx. apply lex_lt_cons in Lx.
        destruct Lx as [?|[? _]]; lia.
  - unfold desc_pos. eapply descent_pos_ok with (tl := h_lock a) (tc := h_check a); try eassumption.
    + destruct (rev (map ih_e hs2)); discriminate.
    + cbn. rewrite En, Ep. repeat split. exact L.
    + constructor; assumption.
    + constructor; [lia | exact At].
Qed.

(** try_first: the least key (interval query with the empty bound) *)
Lemma lex_le_nil : forall x, lex_le [] x.
Proof. intros [|y x]; unfold lex_le; cbn; discriminate. Qed.

Theorem first_down_query : forall H rl rw rc n0 hs a q k v,
  disciplined H -> stays_reachable H -> fullpath_stable H -> wf_history H ->
  first_down H rl rw rc n0 hs a q k v ->
  (rl <= h_lock a)%nat /\ wquery H rl (h_lock a) false [] (Some (k, v)) /\
  (hs <> [] -> pos_ok H (seek_pos hs a k v)).
Proof.
  intros H rl rw rc n0 hs a q k v Hd Hs Hfp W (R & Hl & Hk).
  destruct (root_down_facts H _ _ _ _ _ _ _ Hd Hs Hfp W R) as (R0 & _ & _ & _ & _ & _ & La).
  pose proof R as [_ _ _ _ _ Sd].
  destruct (leftmost_query H Hd Hs Hfp W _ _ _ _ _ _ _ Sd R0 Hl k v Hk) as (_ & E' & Gap).
  split; [exact La|]. split.
  - cbn. split; [apply lex_le_nil|]. split.
    + exists (h_lock a). split; [lia | exact E'].
    + intros x _ Lx. apply Gap; [exists x; reflexivity | exact Lx].
  - intros Hne. eapply seek_pos_ok; eassumption.
Qed.

(** the tree is empty at the moment the root pointer is read *)
Theorem seek_empty_query : forall (H : history) rl s lo, root (H rl) = None -> first_query (H rl) s lo None.
Proof. intros H rl s lo Hr. apply empty_tree_query. exact Hr. Qed.

Print Assumptions seek_hit_query.
Print Assumptions seek_gte_query.
