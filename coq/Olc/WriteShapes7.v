(** C03 (writer side): commit shape S7 collapse. *)
From Coq Require Import List ZArith Bool Arith Lia.
From Unodb Require Import Lock.LockModel Olc.ReadModel Olc.ReadProofs Olc.WriteModel Olc.WriteShapes Olc.WriteSlots Olc.WriteShapes6.
Import ListNotations.
Local Open Scope Z_scope.
Local Open Scope nat_scope.

Section Collapse.
  Variables (g g' : gstate) (k : key) (s : slot) (N : nid) (d : nat) (cN : cell) (p : list Z)
            (cs : list (Z * nid)) (b : Z) (L : nid) (cL : cell) (v : val) (bc : Z) (C : nid) (cC cC' : cell).
  Hypothesis W : WF g.
  Hypothesis HA : at_slot_inode g k s N d cN p cs b.
  Hypothesis Hcs : forall b0, find_child b0 cs = if (b0 =? b)%Z then Some L else if (b0 =? bc)%Z then Some C else None.
  Hypothesis Hne : bc <> b.
  Hypothesis HcL : hp g L = Some cL.
  Hypothesis HkL : cont cL = CLeaf k v.
  Hypothesis HcC : hp g C = Some cC.
  Hypothesis HC : (exists kc vc, cont cC = CLeaf kc vc /\ cC' = cC) \/
     (exists pc csC, cont cC = CInode pc csC /\ cC' = mk (bump (word cC)) (CInode (p ++ bc :: pc) csC)).

  Definition co_h : heap := upd (upd (upd (hp g) L (mk 1 (cont cL))) N (mk 1 (cont cN))) C cC'.
  Hypothesis Hrd : slot_redirect g s co_h C g'.
  Definition co_Q : list Z := firstn d k.

  Lemma co_Hs : slot_holds g s N co_Q.
  Proof. destruct HA as (Hs & _). exact Hs. Qed.

  Lemma co_reach_N : reach g N co_Q.
  Proof. exact (sh_reach g s N _ co_Hs). Qed.

  Lemma co_cN : hp g N = Some cN /\ cont cN = CInode p cs.
  Proof. destruct HA as (_ & _ & Hc & Hk & _). auto. Qed.

  Lemma co_find_L : find_child b cs = Some L.
  Proof. rewrite Hcs. rewrite Z.eqb_refl. reflexivity. Qed.

  Lemma co_find_C : find_child bc cs = Some C.
  Proof. rewrite Hcs. destruct (Z.eqb_spec bc b) as [E|_]; [contradiction|]. rewrite Z.eqb_refl. reflexivity. Qed.

  Lemma co_edge_L : edge g N b L.
  Proof. destruct co_cN as [Hc Hk]. eapply edge_intro; [exact co_reach_N | exact Hc | exact Hk | exact co_find_L]. Qed.

  Lemma co_edge_C : edge g N bc C.
  Proof. destruct co_cN as [Hc Hk]. eapply edge_intro; [exact co_reach_N | exact Hc | exact Hk | exact co_find_C]. Qed.

  Lemma co_reach_L : reach g L (co_Q ++ p ++ [b]).
  Proof. destruct co_cN as [Hc Hk]. eapply reach_child; [exact co_reach_N | exact Hc | exact Hk | exact co_find_L]. Qed.

  Lemma co_reach_C : reach g C (co_Q ++ p ++ [bc]).
  Proof. destruct co_cN as [Hc Hk]. eapply reach_child; [exact co_reach_N | exact Hc | exact Hk | exact co_find_C]. Qed.

  Lemma co_into_L : forall n b0, edge g n b0 L -> n = N /\ b0 = b.
  Proof. intros n b0 E. exact (wf_parent g W _ _ _ _ _ E co_edge_L). Qed.

  Lemma co_into_C : forall n b0, edge g n b0 C -> n = N /\ b0 = bc.
  Proof. intros n b0 E. exact (wf_parent g W _ _ _ _ _ E co_edge_C). Qed.

  Lemma co_ne : L <> N /\ C <> N /\ L <> C.
  Proof.
    destruct co_cN as [Hc Hk]. split; [|split].
    - intros E. rewrite E in HcL. congruence.
    - intros E. apply (no_self_edge g N bc W). rewrite <- E at 2. exact co_edge_C.
    - intros E. pose proof co_edge_L as EL. rewrite E in EL. destruct (co_into_C _ _ EL) as [_ Eb]. congruence.
  Qed.

  (** an edge out of N goes to L or C *)
  Lemma co_from_N : forall b0 m, edge g N b0 m -> m = L \/ m = C.
  Proof.
    destruct co_cN as [Hc Hk]. intros b0 m (q & c & p0 & cs0 & _ & Hc0 & Hk0 & Hf).
    rewrite Hc in Hc0. injection Hc0 as <-. rewrite Hk in Hk0. injection Hk0 as <- <-.
    rewrite Hcs in Hf. destruct (b0 =? b)%Z; [left; congruence|]. destruct (b0 =? bc)%Z; [right; congruence | discriminate].
  Qed.

  Lemma co_h_old : forall n c, hp g n = Some c -> n <> N -> n <> L -> n <> C -> co_h n = Some c.
  Proof. intros n c Hc H1 H2 H3. unfold co_h. rewrite !upd_neq by assumption. exact Hc. Qed.

  Lemma co_not_P : forall n, n = N \/ n = L \/ n = C -> forall bP, s <> SChild n bP.
  Proof.
    intros n Hn bP Es. pose proof (sh_edge g s N _ n bP co_Hs Es) as E.
    destruct Hn as [-> | [-> | ->]].
    - eapply no_self_edge; eassumption.
    - eapply leaf_no_edge; [exact HcL | exact HkL | exact E].
    - eapply no_two_cycle; [exact W | exact co_edge_C | exact E].
  Qed.

  Lemma co_hP : forall P bP, s = SChild P bP -> co_h P = hp g P.
  Proof.
    intros P bP Es. destruct (sh_P_inode g s N _ P bP co_Hs Es) as (pthP & c & p0 & cs0 & _ & Hc & Hk).
    rewrite Hc. apply co_h_old; [exact Hc | | |]; intros ->.
    - exact (co_not_P N (or_introl eq_refl) bP Es).
    - exact (co_not_P L (or_intror (or_introl eq_refl)) bP Es).
    - exact (co_not_P C (or_intror (or_intror eq_refl)) bP Es).
  Qed.

  Lemma co_rd_hp : forall n, (forall bP, s <> SChild n bP) -> hp g' n = co_h n.
  Proof. eapply rd_hp; first [eassumption | exact co_Hs | exact co_hP]. Qed.

  Lemma co_hp_C : hp g' C = Some cC'.
  Proof. rewrite co_rd_hp by (apply co_not_P; auto). unfold co_h. apply upd_eq. Qed.

  Lemma co_hp_N : hp g' N = Some (mk 1 (cont cN)).
  Proof.
    destruct co_ne as (E1 & E2 & E3). rewrite co_rd_hp by (apply co_not_P; auto).
    unfold co_h. rewrite upd_neq by (apply not_eq_sym; exact E2). apply upd_eq.
  Qed.

  Lemma co_hp_L : hp g' L = Some (mk 1 (cont cL)).
  Proof.
    destruct co_ne as (E1 & E2 & E3). rewrite co_rd_hp by (apply co_not_P; auto).
    unfold co_h. rewrite upd_neq by exact E3. rewrite upd_neq by exact E1. apply upd_eq.
  Qed.

  Lemma co_root_new : forall r', root g' = Some r' ->
    (s = SRoot /\ r' = C) \/ (s <> SRoot /\ root g = Some r' /\ r' <> N).
  Proof. eapply rd_root_new; first [eassumption | exact co_Hs | exact co_hP]. Qed.

  Lemma co_step_old : forall n pth c c1 p1 cs1 b0 c',
    reach g n pth -> hp g n = Some c -> co_h n = Some c ->
    hp g' n = Some c1 -> cont c1 = CInode p1 cs1 -> find_child b0 cs1 = Some c' ->
    (c' = C /\ pth ++ p1 ++ [b0] = co_Q /\ s = SChild n b0) \/
    (c' <> N /\ edge g n b0 c' /\ reach g c' (pth ++ p1 ++ [b0])).
  Proof. eapply rd_step_old; first [eassumption | exact co_Hs | exact co_hP]. Qed.

  Lemma co_fwd_old : forall n c p0 cs0 b0 c',
    hp g n = Some c -> co_h n = Some c -> cont c = CInode p0 cs0 -> find_child b0 cs0 = Some c' -> c' <> N ->
    exists c1 cs1, hp g' n = Some c1 /\ cont c1 = CInode p0 cs1 /\ find_child b0 cs1 = Some c'.
  Proof. eapply rd_fwd_old; first [eassumption | exact co_Hs | exact co_hP]. Qed.

  Lemma co_old_cell : forall n pth c, reach g n pth -> hp g n = Some c -> n <> N -> n <> L -> n <> C ->
    exists c1, hp g' n = Some c1 /\ w_is_free (word c1) = true /\
      (c1 = c \/ exists p1 cs0 cs1, cont c = CInode p1 cs0 /\ cont c1 = CInode p1 cs1).
  Proof.
    intros n pth c Hr Hc H1 H2 H3. eapply rd_old_cell; first [eassumption | exact co_Hs | exact co_hP | apply co_h_old; assumption].
  Qed.

  Lemma co_slot_step : forall n pth c p0 cs0 b0, reach g n pth -> hp g n = Some c -> cont c = CInode p0 cs0 ->
    find_child b0 cs0 = Some N -> reach g' n pth -> reach g' C (pth ++ p0 ++ [b0]).
  Proof. eapply rd_slot_step; first [eassumption | exact co_Hs | exact co_hP]. Qed.

  Lemma co_path_eq : forall (q pc : list Z) b0, (q ++ p ++ [bc]) ++ pc ++ [b0] = q ++ (p ++ bc :: pc) ++ [b0].
  Proof. intros q pc b0. repeat rewrite <- app_assoc. cbn. reflexivity. Qed.

  Definition co_out (m : nid) : Prop := m <> N /\ m <> L /\ m <> C.

  (** a node reached by an edge of g from outside {N, C}... from a node other than N is not L or C *)
  Lemma co_child_out : forall n b0 m, edge g n b0 m -> n <> N -> m <> N -> co_out m.
  Proof.
    intros n b0 m E HnN HmN. split; [exact HmN | split]; intros ->.
    - destruct (co_into_L _ _ E) as [En _]. contradiction.
    - destruct (co_into_C _ _ E) as [En _]. contradiction.
  Qed.

  Lemma co_reach_bwd : forall m q, reach g' m q -> (reach g m q /\ co_out m) \/ (m = C /\ q = co_Q).
  Proof.
    destruct co_ne as (E1 & E2 & E3).
    intros m q Hr. induction Hr as [n Hroot | n pth c p0 cs0 b0 c' Hr IH Hc Hk Hf].
    - destruct (co_root_new n Hroot) as [[Es ->] | (_ & Hr0 & Hne0)].
      + right. split; [reflexivity|]. pose proof co_Hs as Hs'. rewrite Es in Hs'. cbn in Hs'.
        destruct Hs' as [_ E]. symmetry. exact E.
      + left. split; [apply reach_root; exact Hr0 | split; [exact Hne0 | split]]; intros ->.
        * eapply (wf_root g W); [exact Hr0 | exact co_edge_L].
        * eapply (wf_root g W); [exact Hr0 | exact co_edge_C].
    - destruct IH as [(Hr0 & HnN & HnL & HnC) | [-> ->]].
      + destruct (wf_alloc g W _ _ Hr0) as (c0 & Hc0 & _).
        destruct (co_step_old n pth c0 c p0 cs0 b0 c' Hr0 Hc0 (co_h_old n c0 Hc0 HnN HnL HnC) Hc Hk Hf)
          as [(-> & E & _) | (Hne0 & E & Hr1)]; [right; auto | left].
        split; [exact Hr1 | eapply co_child_out; eassumption].
      + rewrite co_hp_C in Hc. injection Hc as <-.
        destruct HC as [(kc & vc & HkC & ->) | (pc & csC & HkC & ->)]; [congruence|].
        cbn [cont mk] in Hk. injection Hk as <- <-.
        assert (E : edge g C b0 c') by (eapply edge_intro; [exact co_reach_C | eassumption ..]).
        left. rewrite <- co_path_eq. split; [eapply reach_child; [exact co_reach_C | eassumption ..]|].
        eapply co_child_out; [exact E | exact E2 |]. intros ->.
        eapply no_two_cycle; [exact W | exact co_edge_C | exact E].
  Qed.

  Lemma co_reach_fwd : forall m q, reach g m q ->
    (co_out m -> reach g' m q) /\ (m = N -> reach g' C q) /\ (m = C -> reach g' C co_Q).
  Proof.
    destruct co_ne as (E1 & E2 & E3). destruct co_cN as [HcN HkN].
    intros m q Hr. induction Hr as [n Hroot | n pth c p0 cs0 b0 c' Hr IH Hc Hk Hf].
    - split; [|split].
      + intros (Hne0 & _). apply reach_root. eapply rd_root_old; first [eassumption | exact co_Hs | exact co_hP].
      + intros ->. apply reach_root. eapply rd_root_X; first [eassumption | exact co_Hs | exact co_hP | idtac].
        exact (sh_root g s N _ W co_Hs Hroot).
      + intros ->. exfalso. eapply (wf_root g W); [exact Hroot | exact co_edge_C].
    - destruct IH as (IH1 & IH2 & IH3).
      assert (E : edge g n b0 c') by (eapply edge_intro; eassumption).
      destruct (Nat.eq_dec n N) as [->|HnN]; [|destruct (Nat.eq_dec n C) as [->|HnC]].
      + (* out of N: to L or C *)
        split; [|split].
        * intros (_ & H2 & H3). destruct (co_from_N _ _ E); contradiction.
        * intros ->. exfalso. eapply no_self_edge; eassumption.
        * intros ->. rewrite (reach_unique g N pth co_Q W Hr co_reach_N) in IH2. exact (IH2 eq_refl).
      + (* out of C, an inner node *)
        rewrite HcC in Hc. injection Hc as <-.
        destruct HC as [(kc & vc & HkC & EC) | (pc & csC & HkC & EC)]; [congruence|].
        rewrite HkC in Hk. injection Hk as <- <-.
        rewrite (reach_unique g C pth _ W Hr co_reach_C).
        split; [|split].
        * intros _. rewrite co_path_eq. eapply reach_child; [exact (IH3 eq_refl) | exact co_hp_C | rewrite EC; reflexivity | exact Hf].
        * intros ->. exfalso. eapply no_two_cycle; [exact W | exact co_edge_C | exact E].
        * intros ->. exfalso. eapply no_self_edge; eassumption.
      + assert (HnL : n <> L) by (intros ->; congruence).
        specialize (IH1 (conj HnN (conj HnL HnC))).
        destruct (Nat.eq_dec c' N) as [->|Hc'N].
        * split; [intros (H1 & _); contradiction | split; [intros _ | intros E'; congruence]].
          eapply co_slot_step; eassumption.
        * pose proof (co_child_out n b0 c' E HnN Hc'N) as (_ & O2 & O3).
          split; [intros _ | split; [intros E'; contradiction | intros E'; contradiction]].
          destruct (co_fwd_old n c p0 cs0 b0 c' Hc (co_h_old n c Hc HnN HnL HnC) Hk Hf Hc'N) as (c1 & cs1 & Hc1 & Hk1 & Hf1).
          eapply reach_child; eassumption.
  Qed.

  Lemma co_reach_C' : reach g' C co_Q.
  Proof. apply (co_reach_fwd C _ co_reach_C). reflexivity. Qed.

  Lemma co_edge_bwd : forall n b0 m, edge g' n b0 m ->
    (edge g n b0 m /\ n <> N /\ co_out m) \/ (m = C /\ s = SChild n b0).
  Proof.
    destruct co_ne as (E1 & E2 & E3).
    intros n b0 m (q & c & p0 & cs0 & Hr & Hc & Hk & Hf).
    destruct (co_reach_bwd _ _ Hr) as [(Hr0 & HnN & HnL & HnC) | [-> _]].
    - destruct (wf_alloc g W _ _ Hr0) as (c0 & Hc0 & _).
      destruct (co_step_old n q c0 c p0 cs0 b0 m Hr0 Hc0 (co_h_old n c0 Hc0 HnN HnL HnC) Hc Hk Hf)
        as [(-> & _ & Es) | (Hne0 & E & _)]; [right; auto | left].
      split; [exact E | split; [exact HnN | eapply co_child_out; eassumption]].
    - rewrite co_hp_C in Hc. injection Hc as <-.
      destruct HC as [(kc & vc & HkC & ->) | (pc & csC & HkC & ->)]; [congruence|].
      cbn [cont mk] in Hk. injection Hk as <- <-.
      assert (E : edge g C b0 m) by (eapply edge_intro; [exact co_reach_C | eassumption ..]).
      left. split; [exact E | split; [exact E2|]]. eapply co_child_out; [exact E | exact E2 |].
      intros ->. eapply no_two_cycle; [exact W | exact co_edge_C | exact E].
  Qed.

  Lemma co_wf_parent : forall n1 b1 n2 b2 m, edge g' n1 b1 m -> edge g' n2 b2 m -> n1 = n2 /\ b1 = b2.
  Proof.
    intros n1 b1 n2 b2 m E1 E2.
    destruct (co_edge_bwd _ _ _ E1) as [(A1 & N1 & _ & _ & O1) | [M1 S1]];
      destruct (co_edge_bwd _ _ _ E2) as [(A2 & N2 & _ & _ & O2) | [M2 S2]];
      try (exact (wf_parent g W _ _ _ _ _ A1 A2)); subst; try contradiction; try (split; congruence).
  Qed.

  Lemma co_wf_root : forall r n b0, root g' = Some r -> edge g' n b0 r -> False.
  Proof.
    intros r n b0 Hroot E.
    destruct (co_root_new r Hroot) as [[Es ->] | (Hns & Hr0 & Hne0)];
      destruct (co_edge_bwd _ _ _ E) as [(A1 & N1 & _ & _ & O1) | [M1 S1]];
      try (exact (wf_root g W _ _ _ Hr0 A1));
      try (rewrite M1 in Hr0; exact (wf_root g W _ _ _ Hr0 co_edge_C));
      subst; try contradiction; try congruence.
  Qed.

  Lemma co_C_free : w_is_free (word cC') = true.
  Proof.
    destruct (wf_alloc g W _ _ co_reach_C) as (c0 & Hc0 & Hf0). rewrite HcC in Hc0. injection Hc0 as <-.
    destruct HC as [(kc & vc & HkC & ->) | (pc & csC & HkC & ->)]; [exact Hf0|]. cbn [word mk]. apply bump_free. exact Hf0.
  Qed.

  Lemma co_WF : WF g'.
  Proof.
    constructor; [| | exact co_wf_parent | exact co_wf_root].
    - intros m q Hr. destruct (co_reach_bwd _ _ Hr) as [(Hr0 & HnN & HnL & HnC) | [-> _]].
      + destruct (wf_alloc g W _ _ Hr0) as (c0 & Hc0 & _).
        destruct (co_old_cell m q c0 Hr0 Hc0 HnN HnL HnC) as (c1 & Hc1 & Hf1 & _). eauto.
      + rewrite co_hp_C. exists cC'. split; [reflexivity | exact co_C_free].
    - intros m q c kk v0 Hr Hc Hk. destruct (co_reach_bwd _ _ Hr) as [(Hr0 & HnN & HnL & HnC) | [-> ->]].
      + destruct (wf_alloc g W _ _ Hr0) as (c0 & Hc0 & _).
        destruct (co_old_cell m q c0 Hr0 Hc0 HnN HnL HnC) as (c1 & Hc1 & _ & [-> | (p1 & cs0 & cs1 & _ & Hk1)]);
          rewrite Hc1 in Hc; injection Hc as <-; [|congruence].
        eapply (wf_leaf g W); eassumption.
      + rewrite co_hp_C in Hc. injection Hc as <-.
        destruct HC as [(kc & vc & HkC & ->) | (pc & csC & HkC & ->)]; [|cbn in Hk; discriminate].
        pose proof (wf_leaf g W _ _ _ _ _ co_reach_C HcC Hk) as E.
        eapply firstn_app_prefix. exact E.
  Qed.

  Lemma co_step_ok : step_ok g g'.
  Proof.
    destruct co_ne as (E1 & E2 & E3). destruct co_cN as [HcN HkN].
    split; [exact co_WF | split; [|split; [|split]]].
    - eapply rd_cell_step; first [eassumption | exact co_Hs | exact co_hP | idtac].
      intros n c Hc. destruct (Nat.eq_dec n C) as [->|HnC]; [|destruct (Nat.eq_dec n N) as [->|HnN]; [|destruct (Nat.eq_dec n L) as [->|HnL]]].
      + unfold co_h. rewrite upd_eq. exists cC'. split; [reflexivity|].
        rewrite HcC in Hc. injection Hc as <-.
        destruct HC as [(kc & vc & HkC & ->) | (pc & csC & HkC & ->)]; [left; reflexivity | right].
        destruct (wf_alloc g W _ _ co_reach_C) as (c0 & Hc0 & Hf0). split; [congruence | left; reflexivity].
      + unfold co_h. rewrite upd_neq by exact HnC. rewrite upd_eq. eexists. split; [reflexivity|]. right. cbn [word mk].
        destruct (wf_alloc g W _ _ co_reach_N) as (c0 & Hc0 & Hf0). split; [congruence | right; reflexivity].
      + unfold co_h. rewrite upd_neq by exact HnC. rewrite upd_neq by exact HnN. rewrite upd_eq.
        eexists. split; [reflexivity|]. right. cbn [word mk].
        destruct (wf_alloc g W _ _ co_reach_L) as (c0 & Hc0 & Hf0). split; [congruence | right; reflexivity].
      + exists c. split; [apply co_h_old; assumption | left; reflexivity].
    - eapply rd_root_step; first [eassumption | exact co_Hs | exact co_hP].
    - intros n pth Hr Hno. destruct (Nat.eq_dec n C) as [->|HnC]; [eexists; exact co_reach_C'|].
      exists pth. apply (co_reach_fwd n pth Hr). split; [|split; [|exact HnC]]; intros ->.
      + specialize (Hno _ co_hp_N). cbn in Hno. discriminate.
      + specialize (Hno _ co_hp_L). cbn in Hno. discriminate.
    - intros fp Hfp. exists fp. split; [|reflexivity].
      intros n pth c p1 cs1 Hr Hc Hk.
      destruct (co_reach_bwd _ _ Hr) as [(Hr0 & HnN & HnL & HnC) | [-> ->]].
      + destruct (wf_alloc g W _ _ Hr0) as (c0 & Hc0 & _).
        destruct (co_old_cell n pth c0 Hr0 Hc0 HnN HnL HnC) as (c1 & Hc1 & _ & [-> | (p2 & cs0 & cs2 & Hk0 & Hk1)]);
          rewrite Hc1 in Hc; injection Hc as <-.
        * eapply Hfp; eassumption.
        * rewrite Hk in Hk1. injection Hk1 as <- <-. eapply Hfp; eassumption.
      + rewrite co_hp_C in Hc. injection Hc as <-.
        destruct HC as [(kc & vc & HkC & ->) | (pc & csC & HkC & ->)]; [congruence|].
        cbn in Hk. injection Hk as <- _.
        rewrite <- (Hfp C _ cC pc csC co_reach_C HcC HkC). repeat rewrite <- app_assoc. reflexivity.
  Qed.

  Lemma co_leaves : forall k' v', k' <> k -> (leaf_in g' k' v' <-> leaf_in g k' v').
  Proof.
    destruct co_cN as [HcN HkN].
    intros k' v' Hnk. split; intros (n & pth & c & Hr & Hc & Hk).
    - destruct (co_reach_bwd _ _ Hr) as [(Hr0 & HnN & HnL & HnC) | [-> _]].
      + destruct (wf_alloc g W _ _ Hr0) as (c0 & Hc0 & _).
        destruct (co_old_cell n pth c0 Hr0 Hc0 HnN HnL HnC) as (c1 & Hc1 & _ & [-> | (p2 & cs0 & cs2 & Hk0 & Hk1)]);
          rewrite Hc1 in Hc; injection Hc as <-; [|congruence].
        exists n, pth, c0. auto.
      + rewrite co_hp_C in Hc. injection Hc as <-.
        destruct HC as [(kc & vc & HkC & ->) | (pc & csC & HkC & ->)]; [|cbn in Hk; discriminate].
        exists C, (co_Q ++ p ++ [bc]), cC. split; [exact co_reach_C | auto].
    - assert (HnN : n <> N) by (intros ->; congruence).
      assert (HnL : n <> L) by (intros ->; congruence).
      destruct (Nat.eq_dec n C) as [->|HnC].
      + rewrite HcC in Hc. injection Hc as <-.
        destruct HC as [(kc & vc & HkC & EC) | (pc & csC & HkC & EC)]; [|congruence].
        exists C, co_Q, cC. split; [exact co_reach_C' | split; [rewrite co_hp_C; congruence | exact Hk]].
      + exists n, pth, c. split; [apply (co_reach_fwd n pth Hr); repeat split; assumption | split; [|exact Hk]].
        destruct (co_old_cell n pth c Hr Hc HnN HnL HnC) as (c1 & Hc1 & _ & [-> | (p2 & cs0 & cs2 & Hk0 & Hk1)]); [exact Hc1 | congruence].
  Qed.

  Lemma co_Q_len : length co_Q = d.
  Proof. destruct HA as (_ & Hd & _). unfold co_Q. apply firstn_length_le. exact Hd. Qed.

  Lemma co_after : lookup g' k None.
  Proof.
    destruct HA as (_ & Hd & _ & _ & Hp & Hb).
    apply (reach_lookup g' k C co_Q co_reach_C' d eq_refl Hd).
    destruct HC as [(kc & vc & HkC & EC) | (pc & csC & HkC & EC)].
    - eapply lr_leaf_miss; [exact co_hp_C | rewrite EC; exact HkC |]. intros ->.
      pose proof (wf_leaf g W _ _ _ _ _ co_reach_C HcC HkC) as E. symmetry in E.
      destruct (path_split _ _ _ _ _ E (firstn_self_len _ _ _ (eq_sym E))) as (_ & _ & Hn & _).
      rewrite co_Q_len in Hn. congruence.
    - eapply lr_prefix_miss; [exact co_hp_C | rewrite EC; reflexivity |]. intros Hp'.
      pose proof (prefix_at_nth d k p bc pc Hp') as E. congruence.
  Qed.

  Lemma co_effect : remove_effect k g g'.
  Proof.
    destruct HA as (_ & Hd & _ & _ & Hp & Hb).
    apply (remove_effect_intro k v); [exact W | exact co_WF | | exact co_after | exact co_leaves].
    destruct (path_extend d k p b Hp Hb) as [E Hle]. pose proof co_reach_L as RL. unfold co_Q in RL. rewrite E in RL.
    apply (reach_lookup g k L _ RL (d + length p + 1) eq_refl Hle). eapply lr_leaf_hit; eassumption.
  Qed.
End Collapse.

Theorem collapse_ok : forall k g g', WF g -> collapse k g g' -> step_ok g g' /\ remove_effect k g g'.
Proof.
  intros k g g' W [s N d cN p cs b L cL v bc C cC cC' h HA Hcs Hne HcL HkL HcC HC -> Hrd].
  split; [eapply (co_step_ok g g' k s N d cN p cs b L cL v bc C cC cC'); eassumption
         | eapply (co_effect g g' k s N d cN p cs b L cL v bc C cC cC'); eassumption].
Qed.
