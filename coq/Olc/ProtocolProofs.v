(** Meaning of the read-protocol acceptor (Olc/Protocol.v). *)
From Coq Require Import List Bool Arith Lia ZArith.
From Unodb Require Import Olc.Protocol.
Import ListNotations.

Lemma validated_later_spec n l : validated_later n l = true ->
  exists j e, nth_error l j = Some e /\ validates n e = true.
Proof.
  unfold validated_later. induction l as [|x l IH]; cbn [existsb]; intros H; [discriminate|].
  apply orb_true_iff in H as [H|H].
  - exists O, x. split; [reflexivity|exact H].
  - destruct (IH H) as (j & e & Hj & He). exists (S j), e. split; [exact Hj|exact He].
Qed.

Lemma existsb_beq_In n l : existsb (beq n) l = true -> In n l.
Proof.
  intros H. apply existsb_exists in H as (x & Hin & Hx). unfold beq in Hx. apply Nat.eqb_eq in Hx. now subst.
Qed.

(** R1: every load is under the thread's own write guard, on one of its own
    nodes, or validated later *)
Theorem loads_covered_spec : forall l ho, loads_covered ho l = true ->
  forall i n, nth_error l i = Some (PLoad n) ->
    In n (fst (fold_left upd (firstn i l) ho)) \/ In n (snd (fold_left upd (firstn i l) ho)) \/
    exists j e, (i < j)%nat /\ nth_error l j = Some e /\ validates n e = true.
Proof.
  induction l as [|x l IH]; intros ho H i n Hi; [destruct i; discriminate|].
  cbn [loads_covered] in H. apply andb_true_iff in H as [Hx Hl].
  destruct i as [|i].
  - cbn in Hi. inversion Hi; subst x. cbn [firstn fold_left].
    apply orb_true_iff in Hx as [Hx|Hx]; [apply orb_true_iff in Hx as [Hx|Hx]|].
    + left. now apply existsb_beq_In.
    + right. left. now apply existsb_beq_In.
    + right. right. destruct (validated_later_spec _ _ Hx) as (j & e & Hj & He).
      exists (S j), e. split; [lia|]. split; [exact Hj|exact He].
  - cbn [nth_error] in Hi. cbn [firstn fold_left].
    destruct (IH _ Hl i n Hi) as [A|[A|(j & e & Hj & Hn & He)]]; [left; exact A|right; left; exact A|].
    right. right. exists (S j), e. split; [lia|]. split; [exact Hn|exact He].
Qed.

(** R2: a section opened before another one is validated after that other one was opened *)
Definition is_open (e : pev) : bool := match e with PRLock _ true _ => true | _ => false end.

Lemma coupled_after_spec n : forall r,
  (fix after (r : list pev) : bool :=
     match r with
     | [] => true
     | PRLock _ true _ :: r' => validated_later n r'
     | _ :: r' => after r'
     end) r = true ->
  forall j m w, nth_error r j = Some (PRLock m true w) ->
    (forall q, (q < j)%nat -> forall e, nth_error r q = Some e -> is_open e = false) ->
    exists q e, (j < q)%nat /\ nth_error r q = Some e /\ validates n e = true.
Proof.
  induction r as [|x r IH]; intros H j m w Hj Hfirst; [destruct j; discriminate|].
  destruct j as [|j].
  - cbn in Hj. inversion Hj as [Hx]. rewrite Hx in H.
    destruct (validated_later_spec _ _ H) as (q & e & Hq & He).
    exists (S q), e. split; [lia|]. split; [exact Hq|exact He].
  - assert (Hx : is_open x = false) by (apply (Hfirst O); [lia|reflexivity]).
    assert (H' : (fix after (r : list pev) : bool :=
                    match r with [] => true | PRLock _ true _ :: r' => validated_later n r' | _ :: r' => after r' end) r = true).
    { destruct x as [m' [|] w'| | | | | | |]; try exact H. cbn in Hx. discriminate. }
    cbn [nth_error] in Hj.
    destruct (IH H' j m w Hj) as (q & e & Hq & Hn & He).
    { intros q Hq e He. apply (Hfirst (S q)); [lia|exact He]. }
    exists (S q), e. split; [lia|]. split; [exact Hn|exact He].
Qed.

Theorem coupled_spec : forall l, coupled l = true ->
  forall i n w, nth_error l i = Some (PRLock n true w) ->
  forall j m w', (i < j)%nat -> nth_error l j = Some (PRLock m true w') ->
    (forall q, (i < q < j)%nat -> forall e, nth_error l q = Some e -> is_open e = false) ->
    exists q e, (j < q)%nat /\ nth_error l q = Some e /\ validates n e = true.
Proof.
  induction l as [|x l IH]; intros H i n w Hi j m w' Hij Hj Hbetween; [destruct i; discriminate|].
  destruct i as [|i].
  - cbn in Hi. inversion Hi; subst x. cbn [coupled] in H. apply andb_true_iff in H as [Ha _].
    destruct j as [|j]; [lia|]. cbn [nth_error] in Hj.
    destruct (coupled_after_spec n l Ha j m w' Hj) as (q & e & Hq & Hn & He).
    + intros q Hq e He. apply (Hbetween (S q)); [lia|exact He].
    + exists (S q), e. split; [lia|]. split; [exact Hn|exact He].
  - assert (Hl : coupled l = true).
    { destruct x as [k [|] w0| | | | | | |]; cbn [coupled] in H; try exact H. apply andb_true_iff in H as [_ H]. exact H. }
    destruct j as [|j]; [lia|]. cbn [nth_error] in Hi, Hj.
    destruct (IH Hl i n w Hi j m w' ltac:(lia) Hj) as (q & e & Hq & Hn & He).
    { intros q Hq e He. apply (Hbetween (S q)); [lia|exact He]. }
    exists (S q), e. split; [lia|]. split; [exact Hn|exact He].
Qed.

(** R3 and the composition *)
Theorem op_ok_spec : forall l, op_ok l = true ->
  loads_covered ([], allocs l) (last_attempt l) = true /\ coupled (last_attempt l) = true /\ held_at_end l = [] /\
  versions_own [] l = true.
Proof.
  intros l H. unfold op_ok in H. apply andb_true_iff in H as [H _]. apply andb_true_iff in H as [H H4]. apply andb_true_iff in H as [H H3].
  apply andb_true_iff in H as [H1 H2].
  split; [exact H1|]. split; [exact H2|]. split; [destruct (held_at_end l); [reflexivity|discriminate]|exact H4].
Qed.

(** R4: every check / upgrade uses a word this thread read from that very node earlier *)
Theorem versions_own_spec : forall l seen, versions_own seen l = true ->
  forall i n ok v, (nth_error l i = Some (PCheck n ok v) \/ nth_error l i = Some (PUpgrade n ok v)) ->
    In (n, v) seen \/ exists j ok', (j < i)%nat /\ nth_error l j = Some (PRLock n ok' v).
Proof.
  induction l as [|x l IH]; intros seen H i n ok v Hi; [destruct i; destruct Hi; discriminate|].
  assert (Hin : forall s, existsb (fun s => beq (fst s) n && Z.eqb (snd s) v) s = true -> In (n, v) s).
  { intros s Hs. apply existsb_exists in Hs as ((m, w) & Hm & Hx). cbn in Hx. apply andb_true_iff in Hx as [A B].
    unfold beq in A. apply Nat.eqb_eq in A. apply Z.eqb_eq in B. subst. exact Hm. }
  destruct i as [|i].
  - cbn in Hi. destruct Hi as [Hi|Hi]; inversion Hi; subst x; cbn [versions_own] in H;
      apply andb_true_iff in H as [H _]; left; now apply Hin.
  - cbn [nth_error] in Hi.
    assert (Hrec : forall seen', versions_own seen' l = true ->
              In (n, v) seen' \/ exists j ok', (j < i)%nat /\ nth_error l j = Some (PRLock n ok' v)) by (intros; eapply IH; eauto).
    destruct x as [m ok0 w|m ok0 w|m ok0 w|m|m|m|m|m]; cbn [versions_own] in H;
      try (destruct (Hrec _ H) as [A|(j & ok' & Hj & Hn)]; [left; exact A|right; exists (S j), ok'; split; [lia|exact Hn]]).
    + destruct (Hrec _ H) as [A|(j & ok' & Hj & Hn)].
      * destruct A as [A|A]; [inversion A; subst; right; exists O, ok0; split; [lia|reflexivity]|left; exact A].
      * right. exists (S j), ok'. split; [lia|exact Hn].
    + apply andb_true_iff in H as [_ H]. destruct (Hrec _ H) as [A|(j & ok' & Hj & Hn)]; [left; exact A|right; exists (S j), ok'; split; [lia|exact Hn]].
    + apply andb_true_iff in H as [_ H]. destruct (Hrec _ H) as [A|(j & ok' & Hj & Hn)]; [left; exact A|right; exists (S j), ok'; split; [lia|exact Hn]].
Qed.

(** R1 for scans: in a scan accepted by [scan_ok] that contains no failed
    validation, every field load from a node is followed by a successful
    check / read-unlock / upgrade of that very node *)
Lemma scan_loads_covered_spec : forall l, scan_loads_covered l = true ->
  forall a n b, l = a ++ PLoad n :: b ->
    existsb (fun x => validates n x || is_failure x) b = true.
Proof.
  induction l as [|e l IH]; intros H a n b E.
  - destruct a; discriminate.
  - cbn [scan_loads_covered] in H. apply andb_true_iff in H as [H1 H2].
    destruct a as [|x a]; cbn [app] in E; injection E as -> ->; [exact H1|].
    eapply IH; [exact H2|reflexivity].
Qed.

Theorem scan_loads_validated : forall l, scan_ok l = true -> forallb (fun x => negb (is_failure x)) l = true ->
  forall a n b, l = a ++ PLoad n :: b -> existsb (validates n) b = true.
Proof.
  intros l H NF a n b E. unfold scan_ok in H. apply andb_true_iff in H as [H _]. apply andb_true_iff in H as [_ H].
  pose proof (scan_loads_covered_spec l H a n b E) as C.
  apply existsb_exists in C as (x & Hx & Hv). apply existsb_exists. exists x. split; [exact Hx|].
  apply orb_true_iff in Hv as [Hv|Hf]; [exact Hv|exfalso].
  rewrite forallb_forall in NF. assert (In x l) by (subst l; apply in_or_app; right; right; exact Hx).
  specialize (NF x H0). rewrite Hf in NF. discriminate.
Qed.

(** R6: in an accepted operation, when a node other than the root pointer lock
    is read-locked, the node most recently loaded from (and neither held nor
    owned) has been validated since that load *)
Lemma ptr_validated_app_rlock : forall l ho pending a c ok w b,
  l = a ++ PRLock c ok w :: b -> ptr_validated ho pending l = true -> beq c root_blk = false ->
  exists ho' pending', ptr_validated ho' pending' (PRLock c ok w :: b) = true /\
     (pending' = None \/ pending' = Some c).
Proof.
  induction l as [|e l IH]; intros ho pending a c ok w b E H Hc.
  - destruct a; discriminate.
  - destruct a as [|x a]; cbn [app] in E; injection E as -> ->.
    + exists ho, pending. split; [exact H|]. cbn [ptr_validated] in H. rewrite Hc in H.
      destruct pending as [m|]; [|now left]. destruct (beq m c) eqn:Em; [|discriminate].
      right. unfold beq in Em. apply Nat.eqb_eq in Em. now subst.
    + cbn [ptr_validated] in H.
      destruct x as [n ok0 w0|n [|] v|n [|] v|n|n|n|n|n];
        try (exact (IH _ _ a c ok w b eq_refl H Hc)).
      * destruct (beq n root_blk); [exact (IH _ _ a c ok w b eq_refl H Hc)|].
        destruct pending as [m|]; [destruct (beq m n); [|discriminate]|]; exact (IH _ _ a c ok w b eq_refl H Hc).
      * destruct (existsb (beq n) (fst ho) || existsb (beq n) (snd ho)); (exact (IH _ _ a c ok w b eq_refl H Hc)).
Qed.
