(** C09d, non-vacuity of the root-leaf case: the root pointer points to the
    leaf "11" (node 1); at moment 3 a writer inserts "12": leaf split at the
    root slot - a new inner node 0 with key prefix [1] and children
    {1 -> leaf 1 (moved down, untouched), 2 -> leaf 2 "12"} is published
    through the root pointer, whose lock word goes from 0 to 4.

    A forward scan (try_first at moments 0..1, try_next at 5) and a reverse
    scan (try_last, try_prior) over this history both deliver "11" and end:
    try_next / try_prior re-validate the untouched leaf at moment 5, pop it
    and find the stack empty.  The end is the answer of the one-entry tree
    of moment 1; it is NOT the answer of the tree of moment 5. *)
From Coq Require Import List ZArith Bool Arith Lia Sorted.
From Unodb Require Import Base.Lex Lock.LockModel Olc.ReadModel Olc.ReadProofs Olc.IterModel Olc.IterAux
  Olc.IterProofs Olc.IterSeek Olc.IterScan Olc.IterExample Olc.IterRevModel Olc.IterLeafModel.
Import ListNotations.
Local Open Scope Z_scope.

Definition csl : list (Z * nid) := [(1, 1%nat); (2, 2%nat)].

Definition lheap0 (n : nid) : option cell :=
  match n with
  | 1%nat => Some {| word := 0; cont := CLeaf [1; 1] [110] |}
  | _ => None
  end.

Definition lheap1 (n : nid) : option cell :=
  match n with
  | 0%nat => Some {| word := 0; cont := CInode [1] csl |}
  | 1%nat => Some {| word := 0; cont := CLeaf [1; 1] [110] |}
  | 2%nat => Some {| word := 0; cont := CLeaf [1; 2] [120] |}
  | _ => None
  end.

Definition lg0 : gstate := {| hp := lheap0; root_word := 0; root := Some 1%nat |}.
Definition lg1 : gstate := {| hp := lheap1; root_word := 4; root := Some 0%nat |}.
Definition ltw : nat := 3.
Definition Hl : history := fun t => if (t <? ltw)%nat then lg0 else lg1.

Lemma reach_lg0 : forall n pth, reach lg0 n pth -> n = 1%nat /\ pth = [].
Proof.
  intros n pth R. induction R as [n Hr | n pth c p cs b c' R IH Hc Hk Hf].
  - cbn in Hr. injection Hr as <-. auto.
  - destruct IH as [-> ->]. cbn in Hc. injection Hc as <-. cbn in Hk. discriminate.
Qed.

Definition lplace (n : nid) (pth : list Z) : Prop :=
  (n = 0%nat /\ pth = []) \/ (n = 1%nat /\ pth = [1; 1]) \/ (n = 2%nat /\ pth = [1; 2]).

Lemma reach_lg1 : forall n pth, reach lg1 n pth -> lplace n pth.
Proof.
  intros n pth R. induction R as [n Hr | n pth c p cs b c' R IH Hc Hk Hf].
  - cbn in Hr. injection Hr as <-. left. auto.
  - apply find_child_cases in Hf. unfold lplace in IH.
    destruct IH as [[-> ->] | [[-> ->] | [-> ->]]];
      cbn in Hc; injection Hc as <-; cbn in Hk; try discriminate; injection Hk as <- <-;
      cbn in Hf; unfold lplace; cbn.
    destruct Hf as [E | [E | []]]; injection E as <- <-; auto 10.
Qed.

Lemma reach_lg1_leaf1 : reach lg1 1%nat [1; 1].
Proof.
  apply (reach_child lg1 0%nat [] {| word := 0; cont := CInode [1] csl |} [1] csl 1 1%nat); try reflexivity.
  apply reach_root. reflexivity.
Qed.

Lemma reach_lg1_leaf2 : reach lg1 2%nat [1; 2].
Proof.
  apply (reach_child lg1 0%nat [] {| word := 0; cont := CInode [1] csl |} [1] csl 2 2%nat); try reflexivity.
  apply reach_root. reflexivity.
Qed.

Lemma hp_Hl : forall t n, hp (Hl t) n = if (t <? ltw)%nat then lheap0 n else lheap1 n.
Proof. intros t n. unfold Hl. destruct (t <? ltw)%nat; reflexivity. Qed.

Lemma lheap_mono : forall n c, lheap0 n = Some c -> lheap1 n = Some c.
Proof. intros n c Hc. destruct n as [|[|n]]; cbn in Hc |- *; try discriminate. exact Hc. Qed.

Lemma Hl_wf : wf_history Hl.
Proof.
  intros t. unfold Hl. destruct (t <? ltw)%nat; split.
  - intros n pth c k v R Hc Hk. apply reach_lg0 in R. destruct R as [-> ->]. exists k. reflexivity.
  - intros n pth c p cs R Hc Hk. apply reach_lg0 in R. destruct R as [-> ->]. cbn in Hc. injection Hc as <-. discriminate.
  - intros n pth c k v R Hc Hk. apply reach_lg1 in R.
    destruct R as [[-> ->] | [[-> ->] | [-> ->]]]; cbn in Hc; injection Hc as <-; cbn in Hk; try discriminate;
      injection Hk as <- <-; exists []; reflexivity.
  - intros n pth c p cs R Hc Hk. apply reach_lg1 in R.
    destruct R as [[-> ->] | [[-> ->] | [-> ->]]]; cbn in Hc; injection Hc as <-; cbn in Hk; try discriminate.
    injection Hk as <- <-. unfold bytes_sorted. cbn. repeat constructor; lia.
Qed.

Lemma Hl_fullpath : fullpath_stable Hl.
Proof.
  exists (fun n => [1]). intros t n pth c p cs R Hc Hk. unfold Hl in R, Hc. destruct (t <? ltw)%nat.
  - apply reach_lg0 in R. destruct R as [-> ->]. cbn in Hc. injection Hc as <-. discriminate.
  - apply reach_lg1 in R.
    destruct R as [[-> ->] | [[-> ->] | [-> ->]]]; cbn in Hc; injection Hc as <-; cbn in Hk; try discriminate.
    injection Hk as <- <-. reflexivity.
Qed.

Lemma Hl_disciplined : disciplined Hl.
Proof.
  split.
  - intros n t1 t2 c1 c2 Hle Hc1 Hc2 Hw Hfree t Ht. rewrite hp_Hl in *.
    destruct (Nat.ltb_spec t1 ltw) as [L1|L1]; destruct (Nat.ltb_spec t2 ltw) as [L2|L2];
      destruct (Nat.ltb_spec t ltw) as [L|L]; try lia; try exact Hc1.
    apply lheap_mono. exact Hc1.
  - intros t1 t2 Hle Hw Hfree t Ht. unfold Hl in *.
    destruct (Nat.ltb_spec t1 ltw) as [L1|L1]; destruct (Nat.ltb_spec t2 ltw) as [L2|L2];
      destruct (Nat.ltb_spec t ltw) as [L|L]; try lia; try reflexivity; cbn in Hw; discriminate.
Qed.

Lemma Hl_stays_reachable : stays_reachable Hl.
Proof.
  intros t t' n pth Hle R _. unfold Hl in *.
  destruct (Nat.ltb_spec t ltw) as [L1|L1]; destruct (Nat.ltb_spec t' ltw) as [L2|L2]; try lia.
  - exists pth. exact R.
  - apply reach_lg0 in R. destruct R as [-> ->]. exists [1; 1]. exact reach_lg1_leaf1.
  - exists pth. exact R.
Qed.

(** ** The scans *)

Definition al : hop := {| h_node := 1%nat; h_lock := 1%nat; h_check := 2%nat; h_word := 0; h_cont := CLeaf [1; 1] [110] |}.
Definition posl : ipos := seek_pos [] al [1; 1] [110].

Lemma l_root_down : root_down Hl 0 0 2 1%nat [] al [].
Proof. split; try reflexivity; [lia|]. apply d_last; [hop_now | cbn; lia | reflexivity]. Qed.

Lemma l_first : first_down Hl 0 0 2 1%nat [] al [] [1; 1] [110].
Proof. split; [exact l_root_down | split; [constructor | reflexivity]]. Qed.

Lemma l_last : last_down Hl 0 0 2 1%nat [] al [] [1; 1] [110].
Proof. split; [exact l_root_down | split; [constructor | reflexivity]]. Qed.

Lemma l_leaf_again : leaf_again Hl posl 5.
Proof. split; [cbn; lia | cell_now]. Qed.

Lemma l_next_none : next_none Hl posl 5 [].
Proof. split; [exact l_leaf_again | split; [reflexivity | constructor]]. Qed.

Lemma l_prior_none : prior_none Hl posl 5 [].
Proof. split; [exact l_leaf_again | split; [reflexivity | constructor]]. Qed.

Lemma l_leafpos : leafpos_ok Hl posl.
Proof. split; [reflexivity | split; [cell_now | split; reflexivity]]. Qed.

Lemma l_scan_fwd : iter_scan0 Hl 0 [] [(0%nat, 1%nat, [1; 1], [110])] (Some 1%nat).
Proof.
  apply (is0_first Hl 0%nat 0%nat 0 2%nat 1%nat [] al [] [1; 1] [110] [] (Some 1%nat)); [lia | exact l_first|].
  change (Some 1%nat) with (Some (end_moment posl 5%nat)).
  eapply (ir0_end Hl 1%nat posl 5%nat); [lia | exact l_next_none].
Qed.

Lemma l_scan_rev : riter_scan Hl 0 UInf [(0%nat, 1%nat, [1; 1], [110])] (Some 1%nat).
Proof.
  apply (ris_last Hl 0%nat 0%nat 0 2%nat 1%nat [] al [] [1; 1] [110] [] (Some 1%nat)); [lia | exact l_last|].
  change (Some 1%nat) with (Some (end_moment posl 5%nat)).
  eapply (rir_end Hl 1%nat posl 5%nat); [lia | exact l_prior_none].
Qed.

(** at the moment the leaf is re-validated (5) the tree holds "12" as well:
    "no successor of 11" is false of the tree of that moment *)
Lemma l_has_12 : has_key (Hl 5%nat) [1; 2].
Proof.
  exists [120], 2%nat, [1; 2]. eexists. split; [|split; reflexivity].
  change (Hl 5%nat) with lg1. exact reach_lg1_leaf2.
Qed.

Lemma l_end_not_at_5 : ~ succ_query (Hl 5%nat) (ip_key posl) None.
Proof.
  intros Q. apply (Q [1; 2]); [|exact l_has_12]. cbn. reflexivity.
Qed.

Lemma l_writer : ~ has_key (Hl 2%nat) [1; 2] /\ has_key (Hl 3%nat) [1; 2].
Proof.
  split.
  - intros (v & n & pth & c & R & Hc & Hk). change (Hl 2%nat) with lg0 in R, Hc.
    apply reach_lg0 in R. destruct R as [-> ->]. cbn in Hc. injection Hc as <-. cbn in Hk. discriminate.
  - exists [120], 2%nat, [1; 2]. eexists. split; [|split; reflexivity].
    change (Hl 3%nat) with lg1. exact reach_lg1_leaf2.
Qed.
