(** C04 (main clause): no thread reads or writes a tree node after it has
    been handed back to the allocator.  Composition of the heap-history model
    of the OLC index (Olc/ReadModel.v, Olc/WriteModel.v) with what QSBR
    guarantees (Properties_C04 / Properties_C05c), stated for EVERY pointer a
    thread dereferences - including those of attempts that later fail their
    validation, and including dereferences made before the section the pointer
    was read from has been validated.

    One thread th is followed through one non-quiescent period [s, e]: it is
    registered throughout and passes no quiescent state after s.  What it does
    is an access trace: a list of [deref] records in program order, each
    saying at which global moment which node's memory was touched (its lock
    word, its header, a child slot, the key / value bytes of a leaf) and where
    the pointer came from: the root pointer read at a moment m, or the child
    slot for byte b read out of node Y at a moment m.  Nothing is assumed
    about version checks: the pointer value is merely what the history shows
    at the read moment (sequentially consistent atomic loads), and the node Y
    the slot belongs to was itself touched earlier in the same period.

    Definitions only. *)
From Coq Require Import List ZArith Bool Arith.
From Unodb Require Import Lock.LockModel Olc.ReadModel.
Import ListNotations.
Local Open Scope nat_scope.

Definition tid := nat.

(** n is in the tree of g *)
Definition linked (g : gstate) (n : nid) : Prop := exists pth, reach g n pth.

(** the memory of Y (linked or not, obsolete or not) shows c in its slot for byte b *)
Definition child_of (g : gstate) (Y : nid) (b : Z) (c : nid) : Prop :=
  exists cY p cs, hp g Y = Some cY /\ cont cY = CInode p cs /\ find_child b cs = Some c.

(** ** Access traces *)
Inductive source :=
| FromRoot (m : nat)                      (* root.load() at moment m *)
| FromChild (Y : nid) (b : Z) (m : nat).  (* children[b].load() of node Y at moment m *)

Record deref := { d_at : nat; d_node : nid; d_src : source }.

Definition src_moment (sr : source) : nat :=
  match sr with FromRoot m => m | FromChild _ _ m => m end.

(** the pointer value is what the history shows at the read moment *)
Definition src_shows (H : history) (sr : source) (n : nid) : Prop :=
  match sr with
  | FromRoot m => root (H m) = Some n
  | FromChild Y b m => child_of (H m) Y b n
  end.

(** the node the slot belongs to was touched earlier in the trace, no later
    than the slot was read (reading the slot is itself an access to Y) *)
Definition src_touched (pre : list deref) (sr : source) : Prop :=
  match sr with
  | FromRoot _ => True
  | FromChild Y _ m => exists e, In e pre /\ d_node e = Y /\ d_at e <= m
  end.

(** a trace of the period starting at s: every pointer was read at a moment
    >= s and no later than it is used *)
Inductive trace_ok (H : history) (s : nat) : list deref -> Prop :=
| tr_nil : trace_ok H s []
| tr_snoc : forall tr d, trace_ok H s tr ->
    s <= src_moment (d_src d) <= d_at d ->
    src_shows H (d_src d) (d_node d) ->
    src_touched tr (d_src d) ->
    trace_ok H s (tr ++ [d]).

(** ** Reclamation ghost *)
Record reclaim := {
  rc_retire : nat -> tid -> nid -> Prop;  (* at moment r thread t hands node n to QSBR *)
  rc_freed : nat -> nid -> Prop;          (* at moment u the memory of n is back with the allocator *)
  rc_reg : nat -> tid -> Prop;            (* the thread is registered (not paused) at the moment *)
  rc_quiesce : nat -> tid -> Prop         (* the thread enters quiescent() / unregisters / pauses at the moment *)
}.

(** what QSBR guarantees (C05c_fine_safe, C04_view_stable): a block retired at
    moment r by thread t is not freed as long as some OTHER thread that was
    registered at r has not passed a quiescent state since *)
Definition qsbr_safe (R : reclaim) : Prop :=
  forall r t n th u, rc_retire R r t n -> th <> t -> rc_reg R r th -> r <= u ->
    (forall q, r < q <= u -> ~ rc_quiesce R q th) -> ~ rc_freed R u n.

(** a node that was ever published is given back to the allocator only
    through QSBR (nodes that stayed private to their creator may be freed
    directly: nobody else can hold a pointer to them) *)
Definition freed_via_retire (H : history) (R : reclaim) : Prop :=
  forall u n y, rc_freed R u n -> y <= u -> linked (H y) n -> exists r t, r <= u /\ rc_retire R r t n.

(** th is inside one non-quiescent period from s to e *)
Definition in_period (R : reclaim) (th : tid) (s e : nat) : Prop :=
  forall t, s <= t <= e -> rc_reg R t th /\ (s < t -> ~ rc_quiesce R t th).

(** ** Writers' discipline *)

(** retire only what has left the tree for good *)
Definition retire_unlinked (H : history) (R : reclaim) : Prop :=
  forall r t n t', rc_retire R r t n -> r <= t' -> ~ linked (H t') n.

(** after a node has been in the tree, a child pointer appears in it only
    while it is (still) in the tree: the child-pointer set of an unlinked
    node only shrinks *)
Definition obsolete_children_frozen (H : history) : Prop :=
  forall Y y t b c, y <= t -> linked (H y) Y -> child_of (H (S t)) Y b c ->
    linked (H (S t)) Y \/ child_of (H t) Y b c.

Record writers_discipline (H : history) (R : reclaim) : Prop := {
  wd_retire : retire_unlinked H R;
  wd_frozen : obsolete_children_frozen H
}.

(** the other half of the discipline (no leak; not needed for memory safety):
    what is unlinked is retired, at the unlink moment or later *)
Definition unlink_retires (H : history) (R : reclaim) : Prop :=
  forall t n, linked (H t) n -> ~ linked (H (S t)) n -> exists r th, S t <= r /\ rc_retire R r th n.

(** program order of the thread itself: it does not touch a node after it
    has itself retired it (QSBR protects a block from the other threads'
    point of view only: in single-thread mode the retirer's block is freed
    inside the retire call) *)
Definition own_retire_later (R : reclaim) (th : tid) (tr : list deref) : Prop :=
  forall d r, In d tr ->
    (rc_retire R r th (d_node d) -> d_at d < r) /\
    (forall Y b m, d_src d = FromChild Y b m -> rc_retire R r th Y -> m < r).

(** the executable side condition under which histories generated by the
    commit shapes of Olc/WriteModel.v satisfy the discipline: only obsolete
    nodes are retired *)
Definition retire_obsolete (H : history) (R : reclaim) : Prop :=
  forall r t n, rc_retire R r t n -> exists c, hp (H r) n = Some c /\ w_is_obsolete (word c) = true.

(** ** The example: root inode 1 with the leaves 2 (key [1]) and 3 (key [2]);
    at moment 2 a remove of key [1] collapses node 1: the root pointer is
    redirected to leaf 3, nodes 1 and 2 are marked obsolete (they keep their
    content).  The reader (thread 0) entered node 1 at moment 1. *)
Local Open Scope Z_scope.
Definition ux_hp0 : nid -> option cell := fun n =>
  match n with
  | 1%nat => Some {| word := 0; cont := CInode [] [(1, 2%nat); (2, 3%nat)] |}
  | 2%nat => Some {| word := 0; cont := CLeaf [1] [10] |}
  | 3%nat => Some {| word := 0; cont := CLeaf [2] [20] |}
  | _ => None
  end.
Definition ux_hp1 : nid -> option cell := fun n =>
  match n with
  | 1%nat => Some {| word := 1; cont := CInode [] [(1, 2%nat); (2, 3%nat)] |}
  | 2%nat => Some {| word := 1; cont := CLeaf [1] [10] |}
  | 3%nat => Some {| word := 0; cont := CLeaf [2] [20] |}
  | _ => None
  end.
Definition ux_g0 : gstate := {| hp := ux_hp0; root_word := 0; root := Some 1%nat |}.
Definition ux_g1 : gstate := {| hp := ux_hp1; root_word := 4; root := Some 3%nat |}.
Definition ux_H : history := fun t => if (t <? 2)%nat then ux_g0 else ux_g1.
Local Open Scope nat_scope.

(** the writer is thread 1; it retires nodes 1 and 2 at moment rm; their
    memory is with the allocator from moment fm on; the reader (thread 0)
    passes a quiescent state at moment qm *)
Definition ux_R (rm fm qm : nat) : reclaim := {|
  rc_retire := fun r t n => r = rm /\ t = 1 /\ (n = 1 \/ n = 2);
  rc_freed := fun u n => fm <= u /\ (n = 1 \/ n = 2);
  rc_reg := fun _ th => th = 0 \/ th = 1;
  rc_quiesce := fun q th => q = qm /\ th = 0
|}.

(** the reader: root pointer read at 0, node 1 touched at 1; after the
    collapse it reads the slot for byte 1 out of the (now obsolete) node 1 at
    moment 3, touches leaf 2 at moment 4 (e.g. try_read_lock on its word, which
    fails: the attempt restarts) and node 1 once more at moment 5 *)
Definition ux_trace : list deref :=
  [ {| d_at := 1; d_node := 1; d_src := FromRoot 0 |};
    {| d_at := 4; d_node := 2; d_src := FromChild 1 1%Z 3 |};
    {| d_at := 5; d_node := 1; d_src := FromRoot 0 |} ].

(** a reader that read the slot at moment 1, went through a quiescent state
    and used the pointer at moment 6 *)
Definition ux_trace_q : list deref :=
  [ {| d_at := 1; d_node := 1; d_src := FromRoot 0 |};
    {| d_at := 6; d_node := 2; d_src := FromChild 1 1%Z 1 |} ].

(** the same collapse, followed at moment 3 by a store into the OBSOLETE node
    1 that makes its slot for byte 9 point to block 4 - a block that was
    never part of the tree and is with the allocator all along.  This breaks
    obsolete_children_frozen and nothing else. *)
Local Open Scope Z_scope.
Definition ux_hp2 : nid -> option cell := fun n =>
  match n with
  | 1%nat => Some {| word := 1; cont := CInode [] [(1, 2%nat); (2, 3%nat); (9, 4%nat)] |}
  | _ => ux_hp1 n
  end.
Definition ux_g2 : gstate := {| hp := ux_hp2; root_word := 4; root := Some 3%nat |}.
Definition ux_H2 : history := fun t => if (t <? 2)%nat then ux_g0 else if (t <? 3)%nat then ux_g1 else ux_g2.
Local Open Scope nat_scope.

Definition ux_R2 : reclaim := {|
  rc_retire := fun r t n => r = 3 /\ t = 1 /\ (n = 1 \/ n = 2);
  rc_freed := fun u n => (8 <= u /\ (n = 1 \/ n = 2)) \/ n = 4;
  rc_reg := fun _ th => th = 0 \/ th = 1;
  rc_quiesce := fun q th => q = 7 /\ th = 0
|}.

Definition ux_trace2 : list deref :=
  [ {| d_at := 1; d_node := 1; d_src := FromRoot 0 |};
    {| d_at := 5; d_node := 4; d_src := FromChild 1 9%Z 4 |} ].
