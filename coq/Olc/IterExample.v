(** C09c, non-vacuity: a concrete history in which a writer inserts a key
    into another part of the tree while a forward scan is under way, with all
    the conditions of the theorems (disciplined, W1, W2, tree shape) proved
    and the observations of the scan (seek, two try_next) exhibited.

    Tree: root 0 = {1 -> node 1, 2 -> node 2}, node 1 = {1 -> leaf 3 "11",
    3 -> leaf 4 "13"}, node 2 = {7 -> leaf 5 "27"}.  At moment 14 a writer
    has inserted "29": node 2 = {7 -> leaf 5, 9 -> leaf 6} with a new word. *)
From Coq Require Import List ZArith Bool Arith Lia Sorted.
From Unodb Require Import Base.Lex Lock.LockModel Olc.ReadModel Olc.ReadProofs Olc.IterModel Olc.IterAux
  Olc.IterProofs Olc.IterSeek Olc.IterScan.
Import ListNotations.
Local Open Scope Z_scope.

Definition cs0 : list (Z * nid) := [(1, 1%nat); (2, 2%nat)].
Definition cs1 : list (Z * nid) := [(1, 3%nat); (3, 4%nat)].
Definition cs2 : list (Z * nid) := [(7, 5%nat)].
Definition cs2' : list (Z * nid) := [(7, 5%nat); (9, 6%nat)].

Definition heap0 (n : nid) : option cell :=
  match n with
  | 0%nat => Some {| word := 0; cont := CInode [] cs0 |}
  | 1%nat => Some {| word := 0; cont := CInode [] cs1 |}
  | 2%nat => Some {| word := 0; cont := CInode [] cs2 |}
  | 3%nat => Some {| word := 0; cont := CLeaf [1; 1] [110] |}
  | 4%nat => Some {| word := 0; cont := CLeaf [1; 3] [130] |}
  | 5%nat => Some {| word := 0; cont := CLeaf [2; 7] [270] |}
  | _ => None
  end.

Definition heap1 (n : nid) : option cell :=
  match n with
  | 2%nat => Some {| word := 4; cont := CInode [] cs2' |}
  | 6%nat => Some {| word := 0; cont := CLeaf [2; 9] [290] |}
  | _ => heap0 n
  end.

Definition g0 : gstate := {| hp := heap0; root_word := 0; root := Some 0%nat |}.
Definition g1 : gstate := {| hp := heap1; root_word := 0; root := Some 0%nat |}.
Definition tw : nat := 14.
Definition Hx : history := fun t => if (t <? tw)%nat then g0 else g1.

(** the nodes of g1 and their paths *)
Definition place (n : nid) (pth : list Z) : Prop :=
  (n = 0%nat /\ pth = []) \/ (n = 1%nat /\ pth = [1]) \/ (n = 2%nat /\ pth = [2]) \/
  (n = 3%nat /\ pth = [1; 1]) \/ (n = 4%nat /\ pth = [1; 3]) \/ (n = 5%nat /\ pth = [2; 7]) \/
  (n = 6%nat /\ pth = [2; 9]).

Lemma find_child_cases : forall b cs c, find_child b cs = Some c -> In (b, c) cs.
Proof.
  induction cs as [|[b0 c0] cs IH]; intros c Hf; cbn in Hf; [discriminate|].
  destruct (Z.eqb_spec b b0) as [->|Hne]; [injection Hf as ->; left; reflexivity | right; apply IH; exact Hf].
Qed.

Lemma reach_g1_place : forall n pth, reach g1 n pth -> place n pth.
Proof.
  intros n pth R. induction R as [n Hr | n pth c p cs b c' R IH Hc Hk Hf].
  - cbn in Hr. injection Hr as <-. left. auto.
  - apply find_child_cases in Hf. unfold place in IH.
    destruct IH as [[-> ->] | [[-> ->] | [[-> ->] | [[-> ->] | [[-> ->] | [[-> ->] | [-> ->]]]]]]];
      cbn in Hc; injection Hc as <-; cbn in Hk; try discriminate; injection Hk as <- <-;
      cbn in Hf; unfold place; cbn.
    + destruct Hf as [E | [E | []]]; injection E as <- <-; auto 10.
    + destruct Hf as [E | [E | []]]; injection E as <- <-; auto 10.
    + destruct Hf as [E | [E | []]]; injection E as <- <-; auto 10.
Qed.

Lemma step_g0_g1 : forall n c p cs b c', heap0 n = Some c -> cont c = CInode p cs -> find_child b cs = Some c' ->
  exists c1 cs1, heap1 n = Some c1 /\ cont c1 = CInode p cs1 /\ find_child b cs1 = Some c'.
Proof.
  intros n c p cs b c' Hc Hk Hf.
  destruct n as [|[|[|n]]].
  - exists c, cs. auto.
  - exists c, cs. auto.
  - cbn in Hc. injection Hc as <-. cbn in Hk. injection Hk as <- <-.
    eexists. exists cs2'. split; [reflexivity | split; [reflexivity|]].
    cbn in Hf |- *. destruct (b =? 7); [exact Hf | discriminate].
  - exists c, cs. split; [|auto].
    destruct n as [|[|[|[|n]]]]; try exact Hc. cbn in Hc. discriminate.
Qed.

Lemma reach_g0_g1 : forall n pth, reach g0 n pth -> reach g1 n pth.
Proof.
  intros n pth R. induction R as [n Hr | n pth c p cs b c' R IH Hc Hk Hf].
  - apply reach_root. exact Hr.
  - destruct (step_g0_g1 _ _ _ _ _ _ Hc Hk Hf) as (c1 & cs1 & A & B & C).
    eapply reach_child; eassumption.
Qed.

Lemma heap_same_or_changed : forall n c, heap0 n = Some c -> heap1 n = Some c \/ n = 2%nat.
Proof.
  intros n c Hc. destruct n as [|[|[|[|[|[|[|n]]]]]]]; cbn in Hc |- *; auto; discriminate.
Qed.

Lemma reach_Hx_place : forall t n pth, reach (Hx t) n pth -> place n pth.
Proof.
  intros t n pth R. unfold Hx in R. destruct (t <? tw)%nat.
  - apply reach_g1_place. apply reach_g0_g1. exact R.
  - apply reach_g1_place. exact R.
Qed.

Lemma hp_Hx : forall t n, hp (Hx t) n = if (t <? tw)%nat then heap0 n else heap1 n.
Proof. intros t n. unfold Hx. destruct (t <? tw)%nat; reflexivity. Qed.

Lemma sorted_cs : bytes_sorted cs0 /\ bytes_sorted cs1 /\ bytes_sorted cs2 /\ bytes_sorted cs2'.
Proof. unfold bytes_sorted. cbn. repeat split; repeat constructor; lia. Qed.

Lemma Hx_wf : wf_history Hx.
Proof.
  intros t. split.
  - intros n pth c k v R Hc Hk. apply reach_Hx_place in R. rewrite hp_Hx in Hc.
    destruct R as [[-> ->] | [[-> ->] | [[-> ->] | [[-> ->] | [[-> ->] | [[-> ->] | [-> ->]]]]]]];
      destruct (t <? tw)%nat; cbn in Hc; try discriminate; injection Hc as <-; cbn in Hk;
      try discriminate; injection Hk as <- <-; exists []; reflexivity.
  - intros n pth c p cs R Hc Hk. apply reach_Hx_place in R. rewrite hp_Hx in Hc.
    destruct sorted_cs as (S0 & S1 & S2 & S2').
    destruct R as [[-> ->] | [[-> ->] | [[-> ->] | [[-> ->] | [[-> ->] | [[-> ->] | [-> ->]]]]]]];
      destruct (t <? tw)%nat; cbn in Hc; try discriminate; injection Hc as <-; cbn in Hk;
      try discriminate; injection Hk as <- <-; assumption.
Qed.

Lemma Hx_fullpath : fullpath_stable Hx.
Proof.
  exists (fun n => match n with 1%nat => [1] | 2%nat => [2] | _ => [] end).
  intros t n pth c p cs R Hc Hk. apply reach_Hx_place in R. rewrite hp_Hx in Hc.
  destruct R as [[-> ->] | [[-> ->] | [[-> ->] | [[-> ->] | [[-> ->] | [[-> ->] | [-> ->]]]]]]];
    destruct (t <? tw)%nat; cbn in Hc; try discriminate; injection Hc as <-; cbn in Hk;
    try discriminate; injection Hk as <- <-; reflexivity.
Qed.

Lemma Hx_disciplined : disciplined Hx.
Proof.
  split.
  - intros n t1 t2 c1 c2 Hle Hc1 Hc2 Hw Hfree t Ht. rewrite hp_Hx in *.
    destruct (Nat.ltb_spec t1 tw) as [L1|L1]; destruct (Nat.ltb_spec t2 tw) as [L2|L2];
      destruct (Nat.ltb_spec t tw) as [L|L]; try lia; try exact Hc1.
    + destruct (heap_same_or_changed n c1 Hc1) as [E | ->]; [exact E|].
      cbn in Hc1, Hc2. injection Hc1 as <-. injection Hc2 as <-. cbn in Hw. discriminate.
  - intros t1 t2 Hle Hw Hfree t Ht. unfold Hx. destruct (t <? tw)%nat; destruct (t1 <? tw)%nat; reflexivity.
Qed.

Lemma Hx_stays_reachable : stays_reachable Hx.
Proof.
  intros t t' n pth Hle R _. unfold Hx in *.
  destruct (Nat.ltb_spec t tw) as [L1|L1]; destruct (Nat.ltb_spec t' tw) as [L2|L2]; try lia.
  - exists pth. exact R.
  - exists pth. apply reach_g0_g1. exact R.
  - exists pth. exact R.
Qed.

(** ** The scan: seek [1;0], then two try_next; the writer acts at moment 14 *)

Definition lo_x : key := [1; 0].
Definition e0 : sentry := {| e_node := 0%nat; e_pth := []; e_pre := []; e_cs := cs0; e_idx := 0%nat; e_byte := 1;
                             e_child := 1%nat; e_word := 0; e_at := 1%nat |}.
Definition i0 : ihop := {| ih_e := e0; ih_check := 4%nat%nat |}.
Definition a1 : hop := {| h_node := 1%nat; h_lock := 3%nat; h_check := 7%nat; h_word := 0; h_cont := CInode [] cs1 |}.
Definition en : sentry := {| e_node := 1%nat; e_pth := [1]; e_pre := []; e_cs := cs1; e_idx := 0%nat; e_byte := 1;
                             e_child := 3%nat; e_word := 0; e_at := 3%nat |}.
Definition a2 : hop := {| h_node := 3%nat; h_lock := 5%nat; h_check := 6%nat; h_word := 0; h_cont := CLeaf [1; 1] [110] |}.
Definition a3 : hop := {| h_node := 4%nat; h_lock := 9%nat; h_check := 10%nat; h_word := 0; h_cont := CLeaf [1; 3] [130] |}.
Definition e2 : sentry := {| e_node := 2%nat; e_pth := [2]; e_pre := []; e_cs := cs2'; e_idx := 0%nat; e_byte := 7;
                             e_child := 5%nat; e_word := 4; e_at := 15%nat |}.
Definition i2 : ihop := {| ih_e := e2; ih_check := 18%nat%nat |}.
Definition a4 : hop := {| h_node := 5%nat; h_lock := 17%nat; h_check := 19%nat; h_word := 0; h_cont := CLeaf [2; 7] [270] |}.

Ltac cell_now := eexists; repeat split; reflexivity.
Ltac hop_now := unfold hop_observed; cbn; split; [lia | split; [reflexivity | split; cell_now]].

Lemma x_seek_down : seek_down Hx lo_x 0 0 2 0%nat [i0] a1 [1].
Proof.
  split.
  - split; try reflexivity; [lia|].
    apply d_step; [| cbn; lia | reflexivity | reflexivity |].
    + split; [split; [reflexivity | split; [cell_now | reflexivity]] | split; [cbn; lia | cell_now]].
    + apply d_last; [hop_now | cbn; lia | reflexivity].
  - constructor; [|constructor]. exists [0]. reflexivity.
Qed.

Lemma x_seek_gte : seek_gte lo_x a1 [1] en.
Proof.
  exists [], 0. cbn. repeat split; try reflexivity; try lia.
Qed.

Definition pos0 : ipos := desc_pos [] a2 [1; 1] [110] (en :: seek_stack [i0]).

Lemma x_seek_result : seek_result Hx lo_x 0 3 5 pos0.
Proof.
  apply (sr_gte Hx lo_x 0%nat 0 2%nat 0%nat [i0] a1 [1] en [] a2 [1; 1] [1; 1] [110] x_seek_down x_seek_gte).
  - apply d_last; [hop_now | cbn; lia | reflexivity].
  - constructor.
  - reflexivity.
Qed.

Definition pos1 : ipos := next_pos en 3 4%nat [e0] [] a3 [1; 3] [130].

Lemma x_next1 : next_some Hx pos0 8 [] en 11 3 4%nat [e0] [] a3 [1; 3] [1; 3] [130].
Proof.
  split.
  - split; [cbn; lia | cell_now].
  - split; try reflexivity.
    + constructor.
    + cbn. lia.
    + cell_now.
    + apply d_last; [hop_now | cbn; lia | reflexivity].
    + constructor.
Qed.

Definition pos2 : ipos := next_pos e0 2 2%nat [] [i2] a4 [2; 7] [270].

Lemma x_next2 : next_some Hx pos1 12 [(advance en 3 4%nat, 13%nat)] e0 16 2 2%nat [] [i2] a4 [2; 7] [2; 7] [270].
Proof.
  split.
  - split; [cbn; lia | cell_now].
  - split; try reflexivity.
    + constructor; [|constructor]. split; [cbn; lia | split; [cell_now | reflexivity]].
    + cbn. lia.
    + cell_now.
    + apply d_step; [| cbn; lia | reflexivity | reflexivity |].
      * split; [split; [reflexivity | split; [cell_now | reflexivity]] | split; [cbn; lia | cell_now]].
      * apply d_last; [hop_now | cbn; lia | reflexivity].
    + constructor; [reflexivity | constructor].
Qed.

Definition ds_x : list delivery :=
  [(3%nat, 5%nat, [1; 1], [110]); (8%nat, 9%nat, [1; 3], [130]); (12%nat, 17%nat, [2; 7], [270])].

Lemma x_scan : iter_scan Hx 0 lo_x ds_x None.
Proof.
  unfold ds_x.
  apply (is_seek Hx 0%nat lo_x 0%nat 3%nat 5%nat pos0 _ None); [lia | exact x_seek_result|].
  apply (ir_next Hx 5%nat pos0 8%nat [] en 11%nat 3 4%nat [e0] [] a3 [1; 3] [1; 3] [130] _ None); [lia | exact x_next1|].
  apply (ir_next Hx 9%nat pos1 12%nat [(advance en 3 4%nat, 13%nat)] e0 16%nat 2 2%nat [] [i2] a4 [2; 7] [2; 7] [270] _ None); [lia | exact x_next2|].
  apply ir_stop.
Qed.

(** the writer's key is in the tree from moment 14 on and not before *)
Lemma x_writer : ~ has_key (Hx 13%nat) [2; 9] /\ has_key (Hx 14%nat) [2; 9].
Proof.
  split.
  - intros (v & n & pth & c & R & Hc & Hk). apply reach_Hx_place in R. rewrite hp_Hx in Hc. cbn in Hc.
    destruct R as [[-> ->] | [[-> ->] | [[-> ->] | [[-> ->] | [[-> ->] | [[-> ->] | [-> ->]]]]]]];
      cbn in Hc; try discriminate; injection Hc as <-; cbn in Hk; discriminate.
  - exists [290], 6%nat, [2; 9]. eexists. split; [|split; reflexivity].
    change (Hx 14%nat) with g1.
    apply (reach_child g1 2%nat [2] {| word := 4; cont := CInode [] cs2' |} [] cs2' 9 6%nat); try reflexivity.
    apply (reach_child g1 0%nat [] {| word := 0; cont := CInode [] cs0 |} [] cs0 2 2%nat); try reflexivity.
    apply reach_root. reflexivity.
Qed.
