(** C03 (writer side): commit shape S6 prefix_split. *)
From Coq Require Import List ZArith Bool Arith Lia.
From Unodb Require Import Lock.LockModel Olc.ReadModel Olc.ReadProofs Olc.WriteModel Olc.WriteShapes Olc.WriteSlots.
Import ListNotations.
Local Open Scope Z_scope.
Local Open Scope nat_scope.

(** a matching prefix determines the key bytes it covers *)
Lemma prefix_at_nth0 : forall (p1 : list Z) x p2 k, firstn (length (p1 ++ x :: p2)) k = p1 ++ x :: p2 ->
  nth_error k (length p1) = Some x.
Proof.
  induction p1 as [|y p1 IH]; intros x p2 k E; destruct k as [|z k]; cbn in E; try discriminate.
  - injection E as -> _. reflexivity.
  - injection E as _ E. cbn. eapply IH. exact E.
Qed.

Lemma prefix_at_nth : forall d k (p1 : list Z) x p2, prefix_at (p1 ++ x :: p2) d k ->
  nth_error k (d + length p1) = Some x.
Proof.
  induction d as [|d IH]; intros k p1 x p2 Hp.
  - unfold prefix_at in Hp. cbn in Hp. cbn. eapply prefix_at_nth0. exact Hp.
  - destruct k as [|z k]; unfold prefix_at in Hp; cbn [skipn] in Hp.
    + rewrite firstn_nil in Hp. destruct p1; discriminate.
    + cbn. eapply IH. exact Hp.
Qed.

Section PrefixSplit.
  Variables (g g' : gstate) (k : key) (v : val) (s : slot) (N : nid) (d : nat) (cN : cell) (p1 : list Z) (bn : Z)
            (p2 : list Z) (cs : list (Z * nid)) (bk : Z) (X : nid) (wx : Z) (csX : list (Z * nid)) (Lk : nid) (wl : Z).
  Hypothesis W : WF g.
  Hypothesis Hs : slot_holds g s N (firstn d k).
  Hypothesis Hd : d <= length k.
  Hypothesis HcN : hp g N = Some cN.
  Hypothesis HkN : cont cN = CInode (p1 ++ bn :: p2) cs.
  Hypothesis Hp1 : prefix_at p1 d k.
  Hypothesis Hbk : nth_error k (d + length p1) = Some bk.
  Hypothesis Hne : bk <> bn.
  Hypothesis HcsX : forall b0, find_child b0 csX = if (b0 =? bk)%Z then Some Lk else if (b0 =? bn)%Z then Some N else None.
  Hypothesis HX : hp g X = None.
  Hypothesis HLk : hp g Lk = None.
  Hypothesis HXL : X <> Lk.
  Hypothesis Hwx : w_is_free wx = true.
  Hypothesis Hwl : w_is_free wl = true.

  Definition ps_h : heap :=
    upd (upd (upd (hp g) Lk (mk wl (CLeaf k v))) X (mk wx (CInode p1 csX))) N (mk (bump (word cN)) (CInode p2 cs)).
  Hypothesis Hrd : slot_redirect g s ps_h X g'.
  Definition ps_Q : list Z := firstn d k.
  Definition ps_p : list Z := p1 ++ bn :: p2.

  Lemma ps_reach_N : reach g N ps_Q.
  Proof. exact (sh_reach g s N _ Hs). Qed.

  Lemma ps_ne : N <> X /\ N <> Lk.
  Proof. split; intros E; rewrite E in HcN; congruence. Qed.

  Lemma ps_h_old : forall n c, hp g n = Some c -> n <> N -> ps_h n = Some c.
  Proof.
    intros n c Hc H1. unfold ps_h. rewrite upd_neq by exact H1.
    rewrite !upd_neq; [exact Hc | eapply fresh_neq; eassumption ..].
  Qed.

  Lemma ps_hP : forall P bP, s = SChild P bP -> ps_h P = hp g P.
  Proof.
    intros P bP Es. destruct (sh_P_inode g s N _ P bP Hs Es) as (pthP & c & p0 & cs0 & _ & Hc & Hk).
    rewrite Hc. apply ps_h_old; [exact Hc|]. eapply (sh_P_ne_O g s N _ W Hs). exact Es.
  Qed.

  Lemma ps_rd_hp : forall n, (forall bP, s <> SChild n bP) -> hp g' n = ps_h n.
  Proof. eapply rd_hp; first [eassumption | exact ps_hP]. Qed.

  Lemma ps_not_P : forall n, hp g n = None \/ n = N -> forall bP, s <> SChild n bP.
  Proof.
    intros n Hn bP Es. destruct (sh_P_inode g s N _ n bP Hs Es) as (pthP & c & p0 & cs0 & _ & Hc & Hk).
    destruct Hn as [Hn | ->]; [congruence|].
    eapply (sh_P_ne_O g s N _ W Hs); [exact Es | reflexivity].
  Qed.

  Lemma ps_hp_X : hp g' X = Some (mk wx (CInode p1 csX)).
  Proof.
    destruct ps_ne as [E1 _]. rewrite ps_rd_hp by (apply ps_not_P; left; exact HX).
    unfold ps_h. rewrite upd_neq by (apply not_eq_sym; exact E1). apply upd_eq.
  Qed.

  Lemma ps_hp_Lk : hp g' Lk = Some (mk wl (CLeaf k v)).
  Proof.
    destruct ps_ne as [_ E2]. rewrite ps_rd_hp by (apply ps_not_P; left; exact HLk).
    unfold ps_h. rewrite upd_neq by (apply not_eq_sym; exact E2).
    rewrite upd_neq by (apply not_eq_sym; exact HXL). apply upd_eq.
  Qed.

  Lemma ps_hp_N : hp g' N = Some (mk (bump (word cN)) (CInode p2 cs)).
  Proof. rewrite ps_rd_hp by (apply ps_not_P; right; reflexivity). unfold ps_h. apply upd_eq. Qed.

  Lemma ps_path_eq : forall (q : list Z) b0, (q ++ p1 ++ [bn]) ++ p2 ++ [b0] = q ++ ps_p ++ [b0].
  Proof. intros q b0. unfold ps_p. repeat rewrite <- app_assoc. cbn. reflexivity. Qed.

  Lemma ps_root_new : forall r', root g' = Some r' ->
    (s = SRoot /\ r' = X) \/ (s <> SRoot /\ root g = Some r' /\ r' <> N).
  Proof. eapply rd_root_new; first [eassumption | exact ps_hP]. Qed.

  Lemma ps_step_old : forall n pth c c1 p0 cs1 b0 c',
    reach g n pth -> hp g n = Some c -> ps_h n = Some c ->
    hp g' n = Some c1 -> cont c1 = CInode p0 cs1 -> find_child b0 cs1 = Some c' ->
    (c' = X /\ pth ++ p0 ++ [b0] = ps_Q /\ s = SChild n b0) \/
    (c' <> N /\ edge g n b0 c' /\ reach g c' (pth ++ p0 ++ [b0])).
  Proof. eapply rd_step_old; first [eassumption | exact ps_hP]. Qed.

  Lemma ps_fwd_old : forall n c p0 cs0 b0 c',
    hp g n = Some c -> ps_h n = Some c -> cont c = CInode p0 cs0 -> find_child b0 cs0 = Some c' -> c' <> N ->
    exists c1 cs1, hp g' n = Some c1 /\ cont c1 = CInode p0 cs1 /\ find_child b0 cs1 = Some c'.
  Proof. eapply rd_fwd_old; first [eassumption | exact ps_hP]. Qed.

  Lemma ps_old_cell : forall n pth c, reach g n pth -> hp g n = Some c -> n <> N ->
    exists c1, hp g' n = Some c1 /\ w_is_free (word c1) = true /\
      (c1 = c \/ exists p0 cs0 cs1, cont c = CInode p0 cs0 /\ cont c1 = CInode p0 cs1).
  Proof.
    intros n pth c Hr Hc H1. eapply rd_old_cell; first [eassumption | exact ps_hP | apply ps_h_old; assumption].
  Qed.

  Lemma ps_slot_step : forall n pth c p0 cs0 b0, reach g n pth -> hp g n = Some c -> cont c = CInode p0 cs0 ->
    find_child b0 cs0 = Some N -> reach g' n pth -> reach g' X (pth ++ p0 ++ [b0]).
  Proof. eapply rd_slot_step; first [eassumption | exact ps_hP]. Qed.

  Definition ps_new (m : nid) (q : list Z) : Prop :=
    (m = X /\ q = ps_Q) \/ (m = N /\ q = ps_Q ++ p1 ++ [bn]) \/ (m = Lk /\ q = ps_Q ++ p1 ++ [bk]).

  Lemma ps_reach_bwd : forall m q, reach g' m q -> (reach g m q /\ m <> N) \/ ps_new m q.
  Proof.
    intros m q Hr. induction Hr as [n Hroot | n pth c p0 cs0 b0 c' Hr IH Hc Hk Hf].
    - destruct (ps_root_new n Hroot) as [[Es ->] | (_ & Hr0 & Hne0)].
      + right. left. split; [reflexivity|]. pose proof Hs as Hs'. rewrite Es in Hs'. cbn in Hs'.
        destruct Hs' as [_ E]. symmetry. exact E.
      + left. split; [apply reach_root; exact Hr0 | exact Hne0].
    - destruct IH as [[Hr0 HnN] | [[-> ->] | [[-> ->] | [-> _]]]].
      + destruct (wf_alloc g W _ _ Hr0) as (c0 & Hc0 & _).
        destruct (ps_step_old n pth c0 c p0 cs0 b0 c' Hr0 Hc0 (ps_h_old n c0 Hc0 HnN) Hc Hk Hf)
          as [(-> & E & _) | (Hne0 & _ & Hr1)]; [right; left; auto | left; auto].
      + rewrite ps_hp_X in Hc. injection Hc as <-. cbn [cont mk] in Hk. injection Hk as <- <-.
        rewrite HcsX in Hf. right. right. destruct (Z.eqb_spec b0 bk) as [->|_].
        * injection Hf as <-. right. auto.
        * destruct (Z.eqb_spec b0 bn) as [->|_]; [|discriminate]. injection Hf as <-. left. auto.
      + rewrite ps_hp_N in Hc. injection Hc as <-. cbn [cont mk] in Hk. injection Hk as <- <-.
        rewrite ps_path_eq. left.
        split; [eapply reach_child; [exact ps_reach_N | eassumption ..]|].
        intros ->. eapply (no_self_edge g N b0 W). eapply edge_intro; [exact ps_reach_N | eassumption ..].
      + rewrite ps_hp_Lk in Hc. injection Hc as <-. cbn in Hk. discriminate.
  Qed.

  Lemma ps_X_to_N : forall q, reach g' X q -> reach g' N (q ++ p1 ++ [bn]).
  Proof.
    intros q Hr. eapply reach_child; [exact Hr | exact ps_hp_X | reflexivity |].
    rewrite HcsX. destruct (Z.eqb_spec bn bk) as [E|_]; [congruence|]. rewrite Z.eqb_refl. reflexivity.
  Qed.

  Lemma ps_reach_fwd : forall m q, reach g m q -> (m <> N -> reach g' m q) /\ (m = N -> reach g' X q).
  Proof.
    intros m q Hr. induction Hr as [n Hroot | n pth c p0 cs0 b0 c' Hr IH Hc Hk Hf].
    - split.
      + intros Hne0. apply reach_root. eapply rd_root_old; first [eassumption | exact ps_hP].
      + intros ->. apply reach_root. eapply rd_root_X; first [eassumption | exact ps_hP | idtac].
        exact (sh_root g s N _ W Hs Hroot).
    - destruct IH as [IH1 IH2]. destruct (Nat.eq_dec n N) as [->|HnN].
      + rewrite HcN in Hc. injection Hc as <-. rewrite HkN in Hk. injection Hk as <- <-.
        split.
        * intros _. fold ps_p. rewrite <- ps_path_eq.
          eapply reach_child; [exact (ps_X_to_N pth (IH2 eq_refl)) | exact ps_hp_N | reflexivity | exact Hf].
        * intros ->. exfalso. eapply (no_self_edge g N b0 W). eapply edge_intro; eassumption.
      + specialize (IH1 HnN). destruct (Nat.eq_dec c' N) as [->|Hc'N].
        * split; [intros E; contradiction | intros _]. eapply ps_slot_step; eassumption.
        * split; [intros _ | intros E; contradiction].
          destruct (ps_fwd_old n c p0 cs0 b0 c' Hc (ps_h_old n c Hc HnN) Hk Hf Hc'N) as (c1 & cs1 & Hc1 & Hk1 & Hf1).
          eapply reach_child; eassumption.
  Qed.

  Lemma ps_reach_X : reach g' X ps_Q.
  Proof. apply (ps_reach_fwd N ps_Q ps_reach_N). reflexivity. Qed.

  Lemma ps_reach_N' : reach g' N (ps_Q ++ p1 ++ [bn]).
  Proof. apply ps_X_to_N. exact ps_reach_X. Qed.

  Lemma ps_reach_Lk : reach g' Lk (ps_Q ++ p1 ++ [bk]).
  Proof.
    eapply reach_child; [exact ps_reach_X | exact ps_hp_X | reflexivity |].
    rewrite HcsX. rewrite Z.eqb_refl. reflexivity.
  Qed.

  Lemma ps_path_k : ps_Q ++ p1 ++ [bk] = firstn (d + length p1 + 1) k /\ d + length p1 + 1 <= length k.
  Proof. unfold ps_Q. apply path_extend; assumption. Qed.

  Lemma ps_unreach_fresh : forall n q, hp g n = None -> reach g n q -> False.
  Proof. intros n q Hn Hr. destruct (wf_alloc g W _ _ Hr) as (c & Hc & _). congruence. Qed.

  Lemma ps_edge_bwd : forall n b0 m, edge g' n b0 m ->
    (edge g n b0 m /\ m <> N) \/ (m = X /\ s = SChild n b0) \/
    (n = X /\ ((b0 = bn /\ m = N) \/ (b0 = bk /\ m = Lk))).
  Proof.
    intros n b0 m (q & c & p0 & cs0 & Hr & Hc & Hk & Hf).
    destruct (ps_reach_bwd _ _ Hr) as [[Hr0 HnN] | [[-> _] | [[-> _] | [-> _]]]].
    - destruct (wf_alloc g W _ _ Hr0) as (c0 & Hc0 & _).
      destruct (ps_step_old n q c0 c p0 cs0 b0 m Hr0 Hc0 (ps_h_old n c0 Hc0 HnN) Hc Hk Hf)
        as [(-> & _ & Es) | (Hne0 & E & _)]; [right; left; auto | left; auto].
    - rewrite ps_hp_X in Hc. injection Hc as <-. cbn [cont mk] in Hk. injection Hk as <- <-.
      rewrite HcsX in Hf. right. right. split; [reflexivity|]. destruct (Z.eqb_spec b0 bk) as [->|_].
      + injection Hf as <-. right. auto.
      + destruct (Z.eqb_spec b0 bn) as [->|_]; [|discriminate]. injection Hf as <-. left. auto.
    - rewrite ps_hp_N in Hc. injection Hc as <-. cbn [cont mk] in Hk. injection Hk as <- <-.
      assert (E : edge g N b0 m) by (eapply edge_intro; [exact ps_reach_N | eassumption ..]).
      left. split; [exact E|]. intros ->. eapply no_self_edge; eassumption.
    - rewrite ps_hp_Lk in Hc. injection Hc as <-. cbn in Hk. discriminate.
  Qed.

  Lemma ps_old_target : forall n b0 m, edge g n b0 m -> m <> X /\ m <> Lk.
  Proof.
    intros n b0 m E. destruct (edge_reach _ _ _ _ E) as [q Hr].
    split; intros ->; [exact (ps_unreach_fresh X q HX Hr) | exact (ps_unreach_fresh Lk q HLk Hr)].
  Qed.

  Lemma ps_wf_parent : forall n1 b1 n2 b2 m, edge g' n1 b1 m -> edge g' n2 b2 m -> n1 = n2 /\ b1 = b2.
  Proof.
    intros n1 b1 n2 b2 m E1 E2. destruct ps_ne as [NX NL].
    destruct (ps_edge_bwd _ _ _ E1) as [[A1 N1] | [[M1 S1] | [X1 [[B1 M1] | [B1 M1]]]]];
      destruct (ps_edge_bwd _ _ _ E2) as [[A2 N2] | [[M2 S2] | [X2 [[B2 M2] | [B2 M2]]]]];
      try (destruct (ps_old_target _ _ _ A1) as [T1 T1']); try (destruct (ps_old_target _ _ _ A2) as [T2 T2']);
      try (exact (wf_parent g W _ _ _ _ _ A1 A2));
      subst; try contradiction; try congruence; try (split; congruence).
  Qed.

  Lemma ps_wf_root : forall r n b0, root g' = Some r -> edge g' n b0 r -> False.
  Proof.
    intros r n b0 Hroot E. destruct ps_ne as [NX NL].
    destruct (ps_root_new r Hroot) as [[Es ->] | (Hns & Hr0 & Hne0)];
      destruct (ps_edge_bwd _ _ _ E) as [[A1 N1] | [[M1 S1] | [X1 [[B1 M1] | [B1 M1]]]]];
      try (destruct (ps_old_target _ _ _ A1) as [T1 T1']);
      try (exact (wf_root g W _ _ _ Hr0 A1));
      subst; try contradiction; try congruence.
    - eapply ps_unreach_fresh; [exact HX | apply reach_root; exact Hr0].
    - eapply ps_unreach_fresh; [exact HLk | apply reach_root; exact Hr0].
  Qed.

  Lemma ps_WF : WF g'.
  Proof.
    constructor; [| | exact ps_wf_parent | exact ps_wf_root].
    - intros m q Hr. destruct (ps_reach_bwd _ _ Hr) as [[Hr0 HnN] | [[-> _] | [[-> _] | [-> _]]]].
      + destruct (wf_alloc g W _ _ Hr0) as (c0 & Hc0 & _).
        destruct (ps_old_cell m q c0 Hr0 Hc0 HnN) as (c1 & Hc1 & Hf1 & _). eauto.
      + rewrite ps_hp_X. eexists. split; [reflexivity | exact Hwx].
      + rewrite ps_hp_N. eexists. split; [reflexivity|]. cbn [word mk]. apply bump_free.
        destruct (wf_alloc g W _ _ ps_reach_N) as (c0 & Hc0 & Hf0). congruence.
      + rewrite ps_hp_Lk. eexists. split; [reflexivity | exact Hwl].
    - intros m q c kk v0 Hr Hc Hk. destruct (ps_reach_bwd _ _ Hr) as [[Hr0 HnN] | [[-> _] | [[-> _] | [-> ->]]]].
      + destruct (wf_alloc g W _ _ Hr0) as (c0 & Hc0 & _).
        destruct (ps_old_cell m q c0 Hr0 Hc0 HnN) as (c1 & Hc1 & _ & [-> | (p0 & cs0 & cs1 & _ & Hk1)]);
          rewrite Hc1 in Hc; injection Hc as <-; [|congruence].
        eapply (wf_leaf g W); eassumption.
      + rewrite ps_hp_X in Hc. injection Hc as <-. cbn in Hk. discriminate.
      + rewrite ps_hp_N in Hc. injection Hc as <-. cbn in Hk. discriminate.
      + rewrite ps_hp_Lk in Hc. injection Hc as <-. cbn in Hk. injection Hk as <- <-.
        destruct ps_path_k as [E Hle]. rewrite E. rewrite firstn_length_le by exact Hle. reflexivity.
  Qed.

  Lemma ps_step_ok : step_ok g g'.
  Proof.
    destruct ps_ne as [NX NL].
    split; [exact ps_WF | split; [|split; [|split]]].
    - eapply rd_cell_step; first [eassumption | exact ps_hP | idtac].
      intros n c Hc. destruct (Nat.eq_dec n N) as [->|HnN].
      + unfold ps_h. rewrite upd_eq. eexists. split; [reflexivity|]. right. cbn [word mk].
        destruct (wf_alloc g W _ _ ps_reach_N) as (c0 & Hc0 & Hf0). split; [congruence | left; congruence].
      + exists c. split; [apply ps_h_old; assumption | left; reflexivity].
    - eapply rd_root_step; first [eassumption | exact ps_hP].
    - intros n pth Hr _. destruct (Nat.eq_dec n N) as [->|HnN].
      + eexists. exact ps_reach_N'.
      + exists pth. apply (ps_reach_fwd n pth Hr). exact HnN.
    - intros fp Hfp. exists (fun n => if Nat.eqb n X then ps_Q ++ p1 else fp n). split.
      + intros n pth c p0 cs1 Hr Hc Hk.
        destruct (ps_reach_bwd _ _ Hr) as [[Hr0 HnN] | [[-> ->] | [[-> ->] | [-> _]]]].
        * destruct (wf_alloc g W _ _ Hr0) as (c0 & Hc0 & _).
          destruct (Nat.eqb_spec n X) as [->|_]; [congruence|].
          destruct (ps_old_cell n pth c0 Hr0 Hc0 HnN) as (c1 & Hc1 & _ & [-> | (p3 & cs0 & cs2 & Hk0 & Hk1)]);
            rewrite Hc1 in Hc; injection Hc as <-.
          -- eapply Hfp; eassumption.
          -- rewrite Hk in Hk1. injection Hk1 as <- <-. eapply Hfp; eassumption.
        * rewrite Nat.eqb_refl. rewrite ps_hp_X in Hc. injection Hc as <-. cbn in Hk. injection Hk as <- _. reflexivity.
        * destruct (Nat.eqb_spec N X) as [E|_]; [contradiction|].
          rewrite ps_hp_N in Hc. injection Hc as <-. cbn in Hk. injection Hk as <- _.
          rewrite <- (Hfp N ps_Q cN _ cs ps_reach_N HcN HkN). repeat rewrite <- app_assoc. reflexivity.
        * rewrite ps_hp_Lk in Hc. injection Hc as <-. cbn in Hk. discriminate.
      + intros n c Hc. destruct (Nat.eqb_spec n X) as [->|_]; [congruence | reflexivity].
  Qed.

  Lemma ps_leaves : forall k' v', k' <> k -> (leaf_in g' k' v' <-> leaf_in g k' v').
  Proof.
    intros k' v' Hnk. split; intros (n & pth & c & Hr & Hc & Hk).
    - destruct (ps_reach_bwd _ _ Hr) as [[Hr0 HnN] | [[-> _] | [[-> _] | [-> _]]]].
      + destruct (wf_alloc g W _ _ Hr0) as (c0 & Hc0 & _).
        destruct (ps_old_cell n pth c0 Hr0 Hc0 HnN) as (c1 & Hc1 & _ & [-> | (p3 & cs0 & cs2 & Hk0 & Hk1)]);
          rewrite Hc1 in Hc; injection Hc as <-; [|congruence].
        exists n, pth, c0. auto.
      + rewrite ps_hp_X in Hc. injection Hc as <-. cbn in Hk. discriminate.
      + rewrite ps_hp_N in Hc. injection Hc as <-. cbn in Hk. discriminate.
      + rewrite ps_hp_Lk in Hc. injection Hc as <-. cbn in Hk. injection Hk as E _. congruence.
    - assert (HnN : n <> N) by (intros ->; congruence).
      exists n, pth, c. split; [apply (ps_reach_fwd n pth Hr); exact HnN | split; [|exact Hk]].
      destruct (ps_old_cell n pth c Hr Hc HnN) as (c1 & Hc1 & _ & [-> | (p3 & cs0 & cs2 & Hk0 & Hk1)]); [exact Hc1 | congruence].
  Qed.

  Lemma ps_effect : insert_effect k v g g'.
  Proof.
    apply insert_effect_intro; [exact W | exact ps_WF | | | exact ps_leaves].
    - apply (reach_lookup g k N ps_Q ps_reach_N d eq_refl Hd).
      eapply lr_prefix_miss; [exact HcN | exact HkN |]. intros Hp.
      pose proof (prefix_at_nth d k p1 bn p2 Hp) as E. congruence.
    - destruct ps_path_k as [E Hle].
      apply (reach_lookup g' k Lk _ ps_reach_Lk (d + length p1 + 1) E Hle).
      eapply lr_leaf_hit; [exact ps_hp_Lk | reflexivity].
  Qed.
End PrefixSplit.

Theorem prefix_split_ok : forall k v g g', WF g -> prefix_split k v g g' -> step_ok g g' /\ insert_effect k v g g'.
Proof.
  intros k v g g' W [s N d cN p1 bn p2 cs bk X wx csX Lk wl h Hs Hd HcN HkN Hp1 Hbk Hne HcsX HX HLk HXL Hwx Hwl -> Hrd].
  split; [eapply (ps_step_ok g g' k v s N d cN p1 bn p2 cs bk X wx csX Lk wl); eassumption
         | eapply (ps_effect g g' k v s N d cN p1 bn p2 cs bk X wx csX Lk wl); eassumption].
Qed.
