(** M-QSBR (coarse): executable model of qsbr.hpp / qsbr.cpp with every API
    call atomic.  Follows the code path by path (on_next_epoch_deallocate,
    quiescent, qsbr_pause -> unregister_thread, constructor / qsbr_resume ->
    register_thread, epoch_change_barrier_and_handle_orphans, change_epoch,
    execute_previous_requests, orphan_pending_requests).  Definitions only.

    Ghost state (not in the code): an unbounded epoch counter, and for every
    pending request the set of threads that were registered when it was made
    and have not yet passed a quiescent state / pause / exit since. *)
From Coq Require Import List ZArith Bool.
Import ListNotations.
Local Open Scope Z_scope.

Definition tid := nat.
Definition ptr := Z.

(** qsbr_epoch: two bits *)
Definition ep_adv (e : Z) : Z := (e + 1) mod 4.

Record thr := {
  t_reg : bool;      (* registered and not paused *)
  t_lsq : Z;         (* last_seen_quiescent_state_epoch *)
  t_ls : Z;          (* last_seen_epoch *)
  t_qs : Z;          (* quiescent_states_since_epoch_change *)
  t_prev : list ptr; (* previous_interval_dealloc_requests *)
  t_cur : list ptr   (* current_interval_dealloc_requests *)
}.

Definition thr0 : thr := {| t_reg := false; t_lsq := 0; t_ls := 0; t_qs := 0; t_prev := []; t_cur := [] |}.

Record qstate := {
  q_ep : Z;                       (* epoch in the state word *)
  q_T : Z;                        (* thread count *)
  q_P : Z;                        (* threads in previous epoch *)
  q_oprev : list (list ptr);      (* orphaned previous-interval request vectors, head first *)
  q_ocur : list (list ptr);       (* orphaned current-interval request vectors *)
  q_thr : list thr;               (* per-thread objects, index = tid *)
  (* ghost *)
  q_gep : Z;                      (* unbounded epoch *)
  q_wait : list (ptr * list tid)  (* pending request -> threads still to quiesce *)
}.

Definition qinit (n : nat) : qstate :=
  {| q_ep := 0; q_T := 0; q_P := 0; q_oprev := []; q_ocur := []; q_thr := repeat thr0 n; q_gep := 0; q_wait := [] |}.

Definition get_thr (s : qstate) (t : tid) : thr := nth t (q_thr s) thr0.

Fixpoint set_nth_thr (i : nat) (x : thr) (l : list thr) : list thr :=
  match i, l with
  | _, [] => []
  | O, _ :: l' => x :: l'
  | S i', y :: l' => y :: set_nth_thr i' x l'
  end.

Definition set_thr (s : qstate) (t : tid) (x : thr) : qstate :=
  {| q_ep := q_ep s; q_T := q_T s; q_P := q_P s; q_oprev := q_oprev s; q_ocur := q_ocur s;
     q_thr := set_nth_thr t x (q_thr s); q_gep := q_gep s; q_wait := q_wait s |}.

(** result of a call: new state and the pointers it freed, in order *)
Definition step_res := (qstate * list ptr)%type.

(** ghost bookkeeping *)
Fixpoint remove_tid (t : tid) (l : list tid) : list tid :=
  match l with [] => [] | x :: l' => if Nat.eqb x t then remove_tid t l' else x :: remove_tid t l' end.

Definition ghost_passed (w : list (ptr * list tid)) (t : tid) : list (ptr * list tid) :=
  map (fun pw => (fst pw, remove_tid t (snd pw))) w.

Fixpoint registered_others (l : list thr) (t : tid) (i : nat) : list tid :=
  match l with
  | [] => []
  | x :: l' => (if t_reg x && negb (Nat.eqb i t) then [i] else []) ++ registered_others l' t (S i)
  end.

Fixpoint ghost_drop (w : list (ptr * list tid)) (ps : list ptr) : list (ptr * list tid) :=
  match w with
  | [] => []
  | (p, ws) :: w' => if existsb (Z.eqb p) ps then ghost_drop w' ps else (p, ws) :: ghost_drop w' ps
  end.

Definition with_ghost (s : qstate) (w : list (ptr * list tid)) : qstate :=
  {| q_ep := q_ep s; q_T := q_T s; q_P := q_P s; q_oprev := q_oprev s; q_ocur := q_ocur s;
     q_thr := q_thr s; q_gep := q_gep s; q_wait := w |}.

(** execute_previous_requests(single_thread_mode, dealloc_epoch, new_current) on a thread object *)
Definition exec_prev (x : thr) (stm : bool) (de : Z) (newcur : list ptr) : thr * list ptr :=
  if stm then
    ({| t_reg := t_reg x; t_lsq := t_lsq x; t_ls := de; t_qs := t_qs x; t_prev := []; t_cur := newcur |},
     (* the current-interval vector's deferred_requests object dies first (inner scope) *)
     t_cur x ++ t_prev x)
  else
    ({| t_reg := t_reg x; t_lsq := t_lsq x; t_ls := de; t_qs := t_qs x; t_prev := t_cur x; t_cur := newcur |},
     t_prev x).

(** advance_last_seen_epoch *)
Definition adv_seen (x : thr) (stm : bool) (e : Z) (newcur : list ptr) : thr * list ptr * bool :=
  if e =? t_ls x then (x, [], false) else let '(x', f) := exec_prev x stm e newcur in (x', f, true).

(** epoch_change_barrier_and_handle_orphans: returns the new orphan lists and the frees *)
Definition handle_orphans (s : qstate) (stm : bool) : list (list ptr) * list (list ptr) * list ptr :=
  if stm then ([], [], concat (q_oprev s) ++ concat (q_ocur s))
  else (q_ocur s, [], concat (q_oprev s)).

(** on_next_epoch_deallocate *)
Definition q_retire (s : qstate) (t : tid) (p : ptr) : step_res :=
  let x := get_thr s t in
  let e := q_ep s in
  let stm := q_T s <? 2 in
  if stm then
    let '(x', f, _) := adv_seen x stm e [] in
    let s' := set_thr s t x' in
    (* executed at once: allowed only because at most one thread is registered *)
    (with_ghost s' ((p, registered_others (q_thr s) t O) :: q_wait s'), f ++ [p])
  else if negb (t_ls x =? e) then
    let '(x', f, _) := adv_seen x stm e [p] in
    let s' := set_thr s t x' in
    (with_ghost s' ((p, registered_others (q_thr s) t O) :: q_wait s'), f)
  else
    let x' := {| t_reg := t_reg x; t_lsq := t_lsq x; t_ls := t_ls x; t_qs := t_qs x; t_prev := t_prev x; t_cur := t_cur x ++ [p] |} in
    let s' := set_thr s t x' in
    (with_ghost s' ((p, registered_others (q_thr s) t O) :: q_wait s'), []).

(** quiescent *)
Definition q_quiescent (s0 : qstate) (t : tid) : step_res :=
  let s := with_ghost s0 (ghost_passed (q_wait s0) t) in
  let x := get_thr s t in
  let e := q_ep s in
  let stm := q_T s <? 2 in
  let '(x1, f1, _) := adv_seen x stm e [] in
  let x2 := if negb (e =? t_lsq x1)
            then {| t_reg := t_reg x1; t_lsq := e; t_ls := t_ls x1; t_qs := 0; t_prev := t_prev x1; t_cur := t_cur x1 |}
            else x1 in
  if t_qs x2 =? 0 then
    (* remove_thread_from_previous_epoch: fetch_sub on P *)
    if 1 <? q_P s then
      let x3 := {| t_reg := t_reg x2; t_lsq := t_lsq x2; t_ls := t_ls x2; t_qs := t_qs x2 + 1; t_prev := t_prev x2; t_cur := t_cur x2 |} in
      let s1 := set_thr s t x3 in
      ({| q_ep := q_ep s1; q_T := q_T s1; q_P := q_P s1 - 1; q_oprev := q_oprev s1; q_ocur := q_ocur s1;
          q_thr := q_thr s1; q_gep := q_gep s1; q_wait := q_wait s1 |}, f1)
    else
      (* change_epoch *)
      let '(op, oc, fo) := handle_orphans s stm in
      let ne := ep_adv e in
      let x3 := {| t_reg := t_reg x2; t_lsq := ne; t_ls := t_ls x2; t_qs := t_qs x2; t_prev := t_prev x2; t_cur := t_cur x2 |} in
      let '(x4, f2) := exec_prev x3 stm ne [] in
      let s1 := set_thr s t x4 in
      ({| q_ep := ne; q_T := q_T s1; q_P := q_T s1; q_oprev := op; q_ocur := oc;
          q_thr := q_thr s1; q_gep := q_gep s1 + 1; q_wait := q_wait s1 |}, f1 ++ fo ++ f2)
  else
    let x3 := {| t_reg := t_reg x2; t_lsq := t_lsq x2; t_ls := t_ls x2; t_qs := t_qs x2 + 1; t_prev := t_prev x2; t_cur := t_cur x2 |} in
    (set_thr s t x3, f1).

(** orphan_pending_requests *)
Definition push_nonempty (v : list ptr) (l : list (list ptr)) : list (list ptr) :=
  match v with [] => l | _ => v :: l end.

(** qsbr_pause / thread exit: unregister_thread *)
Definition q_unregister (s0 : qstate) (t : tid) : step_res :=
  let s := with_ghost s0 (ghost_passed (q_wait s0) t) in
  let x := get_thr s t in
  let e := q_ep s in
  let stm := q_T s <? 2 in
  if q_P s =? 0 then
    (* epoch change in progress: cannot be observed between calls in the coarse model *)
    let x' := {| t_reg := false; t_lsq := t_lsq x; t_ls := t_ls x; t_qs := t_qs x; t_prev := []; t_cur := [] |} in
    let s1 := set_thr s t x' in
    ({| q_ep := q_ep s1; q_T := q_T s1 - 1; q_P := q_P s1; q_oprev := push_nonempty (t_prev x) (q_oprev s1);
        q_ocur := push_nonempty (t_cur x) (q_ocur s1); q_thr := q_thr s1; q_gep := q_gep s1; q_wait := q_wait s1 |}, [])
  else
    let remove_old := negb (t_lsq x =? e) || (t_qs x =? 0) in
    let advance := remove_old && (q_P s =? 1) in
    let '(op, oc, fo) := if advance then handle_orphans s stm else (q_oprev s, q_ocur s, []) in
    let '(x1, f1, _) := adv_seen x stm e [] in
    let '(x2, f2) := if advance then exec_prev x1 stm (ep_adv e) [] else (x1, []) in
    let x' := {| t_reg := false; t_lsq := t_lsq x2; t_ls := t_ls x2; t_qs := t_qs x2; t_prev := []; t_cur := [] |} in
    let s1 := set_thr s t x' in
    ({| q_ep := if advance then ep_adv e else e;
        q_T := q_T s - 1;
        q_P := if advance then q_T s - 1 else if remove_old then q_P s - 1 else q_P s;
        q_oprev := push_nonempty (t_prev x2) op;
        q_ocur := push_nonempty (t_cur x2) oc;
        q_thr := q_thr s1;
        q_gep := if advance then q_gep s + 1 else q_gep s;
        q_wait := q_wait s1 |}, fo ++ f1 ++ f2).

(** constructor / qsbr_resume: register_thread *)
Definition q_register (s : qstate) (t : tid) : step_res :=
  let x' := {| t_reg := true; t_lsq := q_ep s; t_ls := q_ep s; t_qs := 0; t_prev := []; t_cur := [] |} in
  let s1 := set_thr s t x' in
  ({| q_ep := q_ep s1; q_T := q_T s1 + 1; q_P := q_P s1 + 1; q_oprev := q_oprev s1; q_ocur := q_ocur s1;
      q_thr := q_thr s1; q_gep := q_gep s1; q_wait := q_wait s1 |}, []).

Inductive qop := QRegister (t : tid) | QUnregister (t : tid) | QQuiescent (t : tid) | QRetire (t : tid) (p : ptr).

Definition op_tid (o : qop) : tid :=
  match o with QRegister t | QUnregister t | QQuiescent t | QRetire t _ => t end.

(** API preconditions: register only an unregistered thread object, everything else only a registered one *)
Definition op_enabled (s : qstate) (o : qop) : bool :=
  (op_tid o <? length (q_thr s))%nat &&
  match o with
  | QRegister t => negb (t_reg (get_thr s t))
  | _ => t_reg (get_thr s (op_tid o))
  end.

Definition qstep (s : qstate) (o : qop) : step_res :=
  let '(s', f) := match o with
                  | QRegister t => q_register s t
                  | QUnregister t => q_unregister s t
                  | QQuiescent t => q_quiescent s t
                  | QRetire t p => q_retire s t p
                  end in
  (with_ghost s' (ghost_drop (q_wait s') f), f).

(** waiting set of a freed pointer at the moment it is freed (before the drop) *)
Fixpoint wait_of (w : list (ptr * list tid)) (p : ptr) : list tid :=
  match w with
  | [] => []
  | (q, ws) :: w' => if Z.eqb q p then ws else wait_of w' p
  end.

(** run a history; [None] when an operation violates the API preconditions.
    Returns the final state, the frees per call, and the worst waiting set
    seen at any free (empty iff every free was safe). *)
Fixpoint qrun (s : qstate) (ops : list qop) : option (qstate * list (list ptr) * list (ptr * list tid)) :=
  match ops with
  | [] => Some (s, [], [])
  | o :: ops' =>
      if op_enabled s o then
        let '(s1, f) := match o with
                        | QRegister t => q_register s t
                        | QUnregister t => q_unregister s t
                        | QQuiescent t => q_quiescent s t
                        | QRetire t p => q_retire s t p
                        end in
        let bad := filter (fun pw => match snd pw with [] => false | _ => true end)
                          (map (fun p => (p, wait_of (q_wait s1) p)) f) in
        let s2 := with_ghost s1 (ghost_drop (q_wait s1) f) in
        match qrun s2 ops' with
        | Some (s3, fs, bads) => Some (s3, f :: fs, bad ++ bads)
        | None => None
        end
      else None
  end.

(** all pending pointers, anywhere *)
Definition pending (s : qstate) : list ptr :=
  concat (map (fun x => t_prev x ++ t_cur x) (q_thr s)) ++ concat (q_oprev s) ++ concat (q_ocur s).

Definition registered_count (s : qstate) : Z :=
  Z.of_nat (length (filter t_reg (q_thr s))).
