(** Safety of the fine-grained QSBR model for all interleavings. *)
From Coq Require Import List ZArith Bool Lia Arith Permutation.
From Unodb Require Import Qsbr.QsbrModel Qsbr.QsbrBase Qsbr.QsbrInv Qsbr.QsbrFine Qsbr.QsbrFineBase
  Qsbr.QsbrFineInv Qsbr.QsbrFinePend Qsbr.QsbrFineStepA Qsbr.QsbrFineStepB Qsbr.QsbrFineStepC
  Qsbr.QsbrFineStepD Qsbr.QsbrFineStepE Qsbr.QsbrFineStepF Qsbr.QsbrFineStepG Qsbr.QsbrFineStepH.
Import ListNotations.
Local Open Scope Z_scope.

(** every step conserves the pending requests *)
Lemma fstep_pend : forall s e s', fstep s e = Some s' ->
  forall a, (co (fpending s') a + co (ev_freed e) a = co (fpending s) a + co (ev_retired e) a)%nat.
Proof.
  intros s e s' H. unfold fstep in H.
  destruct (Nat.ltb_spec (ev_tid e) (length (f_thr s))) as [Hlt|]; [|discriminate].
  destruct e; cbn [ev_tid] in *.
  14: now apply (pend_free s t p s' Hlt).
  all: destruct (ft_free (get_fthr s t)) eqn:Hfr; [|discriminate].
  12: now apply (pend_alloc s t (get_fthr s t) p s').
  1: destruct (ft_pc (get_fthr s t)) eqn:Hpc; try discriminate; now apply pend_call.
  1: destruct (ft_pc (get_fthr s t)) eqn:Hpc; try discriminate; now apply pend_ret.
  all: destruct (ft_pc (get_fthr s t)) eqn:Hpc; try discriminate.
  all: first [now apply (pend_reg s t _ s' Hlt) | now apply (pend_retire s t _ s' Hlt)
             | now apply (pend_q s t _ s' Hlt) | now apply (pend_epoch s t _ s' Hlt)
             | now apply (pend_unreg s t _ s' Hlt) | now apply (pend_orph s t _ s' Hlt)].
Qed.

(** only a free can record an unsafe free *)
Ltac bad_tac H :=
  brk H; inversion H; subst; reflexivity.

Lemma fstep_bad_other : forall s e s', fstep s e = Some s' ->
  match e with FFree _ _ => True | _ => f_bad s' = f_bad s end.
Proof.
  intros s e s' H. unfold fstep in H.
  destruct (Nat.ltb_spec (ev_tid e) (length (f_thr s))) as [Hlt|]; [|discriminate].
  destruct e; cbn [ev_tid] in *; try exact Logic.I.
  all: destruct (ft_free (get_fthr s t)) eqn:Hfr; [|discriminate].
  all: unfold step_alloc, step_call, step_ret, step_reg, step_retire, step_q, step_epoch,
         step_unreg, step_orph in H.
  all: bad_tac H.
Qed.

Lemma fstep_inv : forall s e s', Inv s -> fstep s e = Some s' ->
  (forall p, In p (ev_retired e) -> ~ In p (fpending s)) ->
  Inv s' /\ f_bad s' = f_bad s.
Proof.
  intros s e s' I H Hnew. pose proof (fstep_bad_other s e s' H) as Hbad. unfold fstep in H.
  destruct (Nat.ltb_spec (ev_tid e) (length (f_thr s))) as [Hlt|]; [|discriminate].
  destruct e; cbn [ev_tid] in *.
  14: now apply (step_free_inv s t p s' I Hlt).
  all: split; [|exact Hbad]; clear Hbad.
  all: destruct (ft_free (get_fthr s t)) eqn:Hfr; [|discriminate].
  12: now apply (step_alloc_inv s t (get_fthr s t) p s' I Hlt).
  1: destruct (ft_pc (get_fthr s t)) eqn:Hpc; try discriminate; now apply (step_call_inv s t o arg s').
  1: destruct (ft_pc (get_fthr s t)) eqn:Hpc; try discriminate; now apply (step_ret_inv s t o s').
  all: destruct (ft_pc (get_fthr s t)) eqn:Hpc; try discriminate.
  all: try solve [unfold step_reg, step_retire, step_q, step_epoch, step_unreg, step_orph in H;
                  rewrite Hpc in H; discriminate H].
  all: first
    [ solve [eapply step_reg_inv; eassumption]
    | solve [eapply step_unreg_inv; eassumption]
    | solve [eapply step_orph_inv; eassumption]
    | solve [eapply step_q_inv; eassumption]
    | solve [eapply step_retire_load_inv; eassumption]
    | solve [eapply step_retire_obs_inv; [exact I|exact Hlt|exact Hpc|apply Hnew; now left|exact H]]
    | solve [eapply step_fsub_inv; eassumption]
    | solve [eapply step_xprev_inv; eassumption]
    | solve [eapply step_xcur_inv; eassumption]
    | solve [eapply step_move_inv; eassumption]
    | solve [eapply step_append_inv; eassumption]
    | solve [eapply step_chload_inv; eassumption]
    | solve [eapply step_chcas_inv; eassumption] ].
Qed.

(* ------------------------------------------------------------------ *)
(** * Histories *)

Definition retired_of (evs : list fevent) : list ptr := flat_map ev_retired evs.
Definition freed_of (evs : list fevent) : list ptr := flat_map ev_freed evs.

(** the blocks retired in a history are pairwise distinct *)
Definition distinct_retires (evs : list fevent) : Prop := NoDup (retired_of evs).

Definition fine_init_ok (n : nat) (e : Z) : Prop := 0 <= e < 4.

Lemma get_finit : forall n e u, get_fthr (finit n e) u = fthr0.
Proof.
  intros n e u. unfold get_fthr, finit. cbn [f_thr].
  destruct (Nat.ltb_spec u n).
  - apply nth_repeat.
  - apply nth_overflow. rewrite repeat_length. lia.
Qed.

Lemma fcnt_repeat0 : forall f n, f fthr0 = false -> fcnt f (repeat fthr0 n) = 0.
Proof. intros f n H. induction n as [|n IH]; cbn [repeat fcnt]; [reflexivity|]. rewrite H, IH. reflexivity. Qed.

Lemma inv_init : forall n e, fine_init_ok n e -> Inv (finit n e).
Proof.
  intros n e He. constructor.
  - exact He.
  - cbn. now rewrite fcnt_repeat0.
  - cbn [finit f_w w_P f_thr]. now rewrite fcnt_repeat0.
  - intros u H. rewrite get_finit in H. discriminate.
  - intros u. rewrite get_finit. cbv. intuition discriminate.
  - intros u H. rewrite get_finit in H. discriminate.
  - intros u. rewrite get_finit. constructor; cbn; intros; try contradiction; try discriminate; auto.
  - intros p H. destruct H.
  - intros p H. destruct H.
Qed.

Lemma fpending_init : forall n e, fpending (finit n e) = [].
Proof.
  intros n e. rewrite fpending_eq. cbn [finit f_thr f_oprev f_ocur]. rewrite ol_reqs_nil, !app_nil_r.
  induction n as [|n IH]; cbn [repeat map concat]; [reflexivity|]. now rewrite IH.
Qed.

Lemma pend_in_step : forall s e s' p, fstep s e = Some s' -> In p (fpending s') ->
  In p (fpending s) \/ In p (ev_retired e).
Proof.
  intros s e s' p H Hin. pose proof (fstep_pend s e s' H p) as Hc.
  apply co_in in Hin. rewrite !co_in. lia.
Qed.

Lemma frun_inv : forall evs s s', Inv s -> frun s evs = Some s' ->
  NoDup (retired_of evs) -> (forall p, In p (fpending s) -> ~ In p (retired_of evs)) ->
  Inv s' /\ f_bad s' = f_bad s.
Proof.
  induction evs as [|e evs IH]; intros s s' I H Hnd Hfresh; cbn [frun] in H.
  - inversion H; subst. auto.
  - destruct (fstep s e) as [s1|] eqn:Hs; [|discriminate].
    unfold retired_of in *. cbn [flat_map] in Hnd, Hfresh.
    assert (Hdis : forall p, In p (ev_retired e) -> ~ In p (flat_map ev_retired evs)).
    { intros p Hp Hq. pose proof (proj1 (NoDup_count_occ Z.eq_dec _) Hnd p) as Hc.
      rewrite count_occ_app in Hc.
      pose proof (proj1 (count_occ_In Z.eq_dec _ _) Hp). pose proof (proj1 (count_occ_In Z.eq_dec _ _) Hq).
      unfold ptr in *. lia. }
    destruct (fstep_inv s e s1 I Hs) as [I1 Hb1].
    { intros p Hp Hq. apply (Hfresh p Hq). apply in_or_app. now left. }
    destruct (IH s1 s' I1 H) as [I' Hb'].
    + clear -Hnd. induction (ev_retired e) as [|q l IHl]; [exact Hnd|].
      apply IHl. cbn [app] in Hnd. now inversion Hnd.
    + intros p Hp. destruct (pend_in_step s e s1 p Hs Hp) as [Hq|Hq].
      * intros Hr. apply (Hfresh p Hq). apply in_or_app. now right.
      * now apply Hdis.
    + split; [exact I'|congruence].
Qed.

(** SAFETY for all interleavings: no block is freed while a thread that was
    registered (and outside quiescent()) when it was retired has not since
    entered quiescent() / unregister *)
Theorem fine_safe : forall n e evs s, fine_init_ok n e ->
  frun (finit n e) evs = Some s -> distinct_retires evs -> fbad s = [].
Proof.
  intros n e evs s He H Hd.
  destruct (frun_inv evs (finit n e) s (inv_init n e He) H Hd) as [_ Hb].
  - intros p Hp. rewrite fpending_init in Hp. destruct Hp.
  - exact Hb.
Qed.

Theorem fine_reach_inv : forall n e evs s, fine_init_ok n e ->
  frun (finit n e) evs = Some s -> distinct_retires evs -> Inv s.
Proof.
  intros n e evs s He H Hd.
  destruct (frun_inv evs (finit n e) s (inv_init n e He) H Hd) as [I _]; auto.
  intros p Hp. rewrite fpending_init in Hp. destruct Hp.
Qed.

(* ------------------------------------------------------------------ *)
(** * Exactly once *)

Lemma frun_pend : forall evs s s', frun s evs = Some s' ->
  forall a, (co (fpending s') a + co (freed_of evs) a = co (fpending s) a + co (retired_of evs) a)%nat.
Proof.
  induction evs as [|e evs IH]; intros s s' H a; cbn [frun] in H.
  - inversion H; subst. reflexivity.
  - destruct (fstep s e) as [s1|] eqn:Hs; [|discriminate].
    unfold freed_of, retired_of in *. cbn [flat_map]. rewrite !co_app.
    pose proof (fstep_pend s e s1 Hs a). pose proof (IH s1 s' H a). lia.
Qed.

(** nothing is lost and nothing is freed twice: the blocks still pending
    together with the blocks freed are exactly the blocks retired *)
Theorem fine_exactly_once : forall n e evs s,
  frun (finit n e) evs = Some s ->
  Permutation (fpending s ++ freed_of evs) (retired_of evs).
Proof.
  intros n e evs s H. apply perm_co. intros a. rewrite co_app.
  pose proof (frun_pend evs _ _ H a) as Hc. rewrite fpending_init in Hc. cbn [co count_occ] in Hc.
  unfold co in *. lia.
Qed.

(** with distinct retires, no block is freed twice and no freed block is still pending *)
Corollary fine_freed_nodup : forall n e evs s,
  frun (finit n e) evs = Some s -> distinct_retires evs -> NoDup (fpending s ++ freed_of evs).
Proof.
  intros n e evs s H Hd. eapply Permutation_NoDup; [|exact Hd].
  apply Permutation_sym. eapply fine_exactly_once; eauto.
Qed.

(* ------------------------------------------------------------------ *)
(** * Thread count *)

Lemma fcnt_filter : forall f l, fcnt f l = Z.of_nat (length (filter f l)).
Proof.
  induction l as [|x l IH]; [reflexivity|].
  cbn [fcnt filter]. destruct (f x); cbn [b2z length]; lia.
Qed.

(** outside register / unregister the registered flag says whether the thread is counted *)
Lemma cntT_reg : forall x, wf_pc x = true ->
  (ft_pc x = PIdle \/ is_qr (ft_op x) = true) -> cntT x = t_reg (ft x).
Proof.
  intros x Hw [Hp|Ho]; unfold cntT, wf_pc in *.
  - now rewrite Hp.
  - destruct (ft_pc x); auto; try destruct c; destruct (ft_op x); try discriminate Ho;
      destruct (t_reg (ft x)); cbn in *; congruence.
Qed.

(** at states where no thread is inside register / unregister, the thread
    count of the state word is the number of registered threads *)
Theorem fine_thread_count : forall n e evs s, fine_init_ok n e ->
  frun (finit n e) evs = Some s -> distinct_retires evs ->
  (forall u, ft_pc (get_fthr s u) = PIdle \/ is_qr (ft_op (get_fthr s u)) = true) ->
  w_T (f_w s) = Z.of_nat (length (filter (fun x => t_reg (ft x)) (f_thr s))).
Proof.
  intros n e evs s He H Hd Hout. pose proof (fine_reach_inv n e evs s He H Hd) as I.
  rewrite (v_T s I), <- fcnt_filter. apply fcnt_ext_idx. intros u Hu.
  apply cntT_reg; [apply (v_loc s I u)|apply Hout].
Qed.

(* ------------------------------------------------------------------ *)
(** * The freed set of the state *)

Lemma fstep_freed : forall s e s', fstep s e = Some s' ->
  f_freed s' = match e with FAlloc _ p => remove_ptr p (f_freed s) | _ => ev_freed e ++ f_freed s end.
Proof.
  intros s e s' H. unfold fstep in H.
  destruct (Nat.ltb_spec (ev_tid e) (length (f_thr s))) as [Hlt|]; [|discriminate].
  destruct e; cbn [ev_tid ev_freed app] in *.
  14: { unfold step_free in H. brk H. apply Z.eqb_eq in Heqb. subst. inversion H; subst. reflexivity. }
  all: destruct (ft_free (get_fthr s t)) eqn:Hfr; [|discriminate].
  all: unfold step_alloc, step_call, step_ret, step_reg, step_retire, step_q, step_epoch,
         step_unreg, step_orph in H.
  all: brk H; inversion H; subst; reflexivity.
Qed.

Definition no_alloc (evs : list fevent) : Prop :=
  forall e, In e evs -> match e with FAlloc _ _ => False | _ => True end.

Lemma frun_freed : forall evs s s', frun s evs = Some s' -> no_alloc evs ->
  Permutation (f_freed s') (freed_of evs ++ f_freed s).
Proof.
  induction evs as [|e evs IH]; intros s s' H Hna; cbn [frun] in H.
  - inversion H; subst. apply Permutation_refl.
  - destruct (fstep s e) as [s1|] eqn:Hs; [|discriminate].
    assert (Hna' : no_alloc evs) by (intros x Hx; apply Hna; now right).
    pose proof (IH s1 s' H Hna') as Hp. pose proof (fstep_freed s e s1 Hs) as Hf.
    pose proof (Hna e (or_introl eq_refl)) as He.
    unfold freed_of in *. cbn [flat_map].
    assert (Hf' : f_freed s1 = ev_freed e ++ f_freed s) by (destruct e; auto; contradiction).
    rewrite Hf' in Hp. eapply Permutation_trans; [exact Hp|].
    rewrite <- app_assoc, !app_assoc. apply Permutation_app_tail. apply Permutation_app_comm.
Qed.

(** in a history without re-allocation the freed set of the final state is the complement *)
Corollary fine_exactly_once_state : forall n e evs s,
  frun (finit n e) evs = Some s -> no_alloc evs ->
  Permutation (fpending s ++ f_freed s) (retired_of evs).
Proof.
  intros n e evs s H Hna. eapply Permutation_trans; [|eapply fine_exactly_once; eauto].
  apply Permutation_app_head. pose proof (frun_freed evs _ _ H Hna) as Hp.
  cbn [finit f_freed] in Hp. now rewrite app_nil_r in Hp.
Qed.
