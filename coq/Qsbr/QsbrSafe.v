(** Ghost invariant: waiting sets of pending requests, by location. *)
From Coq Require Import List ZArith Bool Lia Permutation Arith.
From Unodb Require Import Qsbr.QsbrModel Qsbr.QsbrBase Qsbr.QsbrPerm Qsbr.QsbrInv Qsbr.QsbrRun.
Import ListNotations.
Local Open Scope Z_scope.

Ltac Zify.zify_post_hook ::= Z.div_mod_to_equations.

Definition W (s : qstate) (p : ptr) : list tid := wait_of (q_wait s) p.

(** class 0: waiting set within the registered threads;
    class 1: within the registered threads that have not quiesced in the current epoch;
    class 2 and above: empty *)
Definition cls (s : qstate) (k : nat) (p : ptr) : Prop :=
  match k with
  | O => forall v, In v (W s p) -> t_reg (get_thr s v) = true
  | S O => forall v, In v (W s p) -> unqreg (q_ep s) (get_thr s v) = true
  | _ => W s p = []
  end.

Definition lsk (s : qstate) (x : thr) : nat := if q_ep s =? t_ls x then 0%nat else 1%nat.

Definition thr_ok (s : qstate) (u : tid) (x : thr) : Prop :=
  (forall p, In p (t_cur x) -> ~ In u (W s p) /\ cls s (lsk s x) p) /\
  (forall p, In p (t_prev x) -> ~ In u (W s p) /\ cls s (S (lsk s x)) p).

Record Inv2 (s : qstate) : Prop := {
  j_thr : forall u, thr_ok s u (get_thr s u);
  j_ocur : forall p, In p (concat (q_ocur s)) -> cls s 0 p;
  j_oprev : forall p, In p (concat (q_oprev s)) -> cls s 1 p
}.

Lemma cls_S : forall s k p, cls s (S k) p -> cls s k p.
Proof.
  intros s [|[|k]] p H; cbn [cls] in *.
  - intros v Hv. specialize (H v Hv). unfold unqreg in H. apply andb_prop in H. tauto.
  - intros v Hv. rewrite H in Hv. contradiction.
  - exact H.
Qed.

Lemma cls_le : forall s k k' p, (k <= k')%nat -> cls s k' p -> cls s k p.
Proof.
  intros s k k' p Hle. induction Hle; auto. intros H. apply IHHle. now apply cls_S.
Qed.

Lemma cls_2 : forall s k p, (2 <= k)%nat -> cls s k p -> W s p = [].
Proof. intros s k p Hk H. apply (cls_le s 2 k p Hk) in H. exact H. Qed.

Lemma cls_of_nil : forall s k p, W s p = [] -> cls s k p.
Proof.
  intros s k p H. apply (cls_le s k (S (S k))); [lia|]. exact H.
Qed.

Lemma inv2_init : forall n, Inv2 (qinit n).
Proof.
  intros n.
  assert (Hnth : forall u, get_thr (qinit n) u = thr0).
  { intros u. unfold get_thr, qinit. cbn [q_thr].
    destruct (Nat.ltb_spec u n).
    - apply nth_repeat.
    - apply nth_overflow. rewrite repeat_length. lia. }
  constructor.
  - intros u. rewrite Hnth. split; intros p H; cbn in H; contradiction.
  - intros p H. cbn in H. contradiction.
  - intros p H. cbn in H. contradiction.
Qed.

(** every pending pointer is at least class 0, and own-list pointers do not wait for the owner *)
Lemma pending_cls0 : forall s p, Inv2 s -> In p (pending s) -> cls s 0 p.
Proof.
  intros s p J H. apply in_pending_inv in H. destruct H as [[u [H|H]]|[H|H]].
  - destruct (j_thr s J u) as [_ Hp]. destruct (Hp p H) as [_ Hc].
    apply (cls_le s 0 (S (lsk s (get_thr s u)))); [lia|exact Hc].
  - destruct (j_thr s J u) as [Hc _]. destruct (Hc p H) as [_ Hc'].
    apply (cls_le s 0 (lsk s (get_thr s u))); [lia|exact Hc'].
  - apply cls_S. now apply (j_oprev s J).
  - now apply (j_ocur s J).
Qed.

(** ** Transitions without epoch change *)
Record StepSame (s s1 : qstate) (t : tid) : Prop := {
  ss_ep : q_ep s1 = q_ep s;
  ss_oth : forall u, u <> t -> get_thr s1 u = get_thr s u;
  ss_W : forall p, In p (pending s) -> forall v, In v (W s1 p) -> In v (W s p);
  ss_t : (forall p, In p (pending s) -> ~ In t (W s1 p)) \/
         ((t_reg (get_thr s t) = true -> t_reg (get_thr s1 t) = true) /\
          (unqreg (q_ep s) (get_thr s t) = true -> unqreg (q_ep s) (get_thr s1 t) = true))
}.

Lemma same_cls : forall s s1 t k p, StepSame s s1 t -> In p (pending s) -> cls s k p -> cls s1 k p.
Proof.
  intros s s1 t k p SS Hp H. destruct SS as [He Ho HW Ht].
  assert (Hreg : forall v, In v (W s1 p) -> t_reg (get_thr s v) = true -> t_reg (get_thr s1 v) = true).
  { intros v Hv Hr. destruct (Nat.eq_dec v t) as [->|Hne]; [|now rewrite Ho].
    destruct Ht as [Ht|[Ht _]]; [exfalso; eapply Ht; eauto|auto]. }
  assert (Hunq : forall v, In v (W s1 p) -> unqreg (q_ep s) (get_thr s v) = true ->
                 unqreg (q_ep s) (get_thr s1 v) = true).
  { intros v Hv Hr. destruct (Nat.eq_dec v t) as [->|Hne]; [|now rewrite Ho].
    destruct Ht as [Ht|[_ Ht]]; [exfalso; eapply Ht; eauto|auto]. }
  destruct k as [|[|k]]; cbn [cls] in *.
  - intros v Hv. apply Hreg; auto.
  - intros v Hv. rewrite He. apply Hunq; auto.
  - apply list_empty_no_in. intros v Hv. apply HW in Hv; auto. rewrite H in Hv. contradiction.
Qed.

Lemma same_own : forall s s1 t u k K p, StepSame s s1 t -> In p (pending s) ->
  ~ In u (W s p) /\ cls s k p -> (K <= k)%nat -> ~ In u (W s1 p) /\ cls s1 K p.
Proof.
  intros s s1 t u k K p SS Hp [Hn Hc] Hle. split.
  - intros Hin. apply Hn. eapply (ss_W _ _ _ SS); eauto.
  - apply (cls_le s1 K k); auto. eapply same_cls; eauto.
Qed.

Lemma same_lsk : forall s s1 t x, StepSame s s1 t -> lsk s1 x = lsk s x.
Proof. intros s s1 t x SS. unfold lsk. now rewrite (ss_ep _ _ _ SS). Qed.

Lemma others_same : forall s s1 t, Inv2 s -> StepSame s s1 t ->
  forall u, u <> t -> thr_ok s1 u (get_thr s u).
Proof.
  intros s s1 t J SS u Hne. destruct (j_thr s J u) as [Hc Hp].
  split; intros p Hin; rewrite (same_lsk _ _ _ _ SS).
  - eapply same_own; eauto. eapply in_pending_cur; eauto.
  - eapply same_own; eauto. eapply in_pending_prev; eauto.
Qed.

(** ** Transitions with epoch change *)
Record StepAdv (s s1 : qstate) (t : tid) : Prop := {
  sa_ep : q_ep s1 = ep_adv (q_ep s);
  sa_oth : forall u, u <> t -> get_thr s1 u = get_thr s u;
  sa_P : q_P s = 1;
  sa_u : unqreg (q_ep s) (get_thr s t) = true;
  sa_W : forall p, In p (pending s) -> forall v, In v (W s1 p) -> In v (W s p) /\ v <> t
}.

Lemma adv_cls : forall s s1 t k p, Inv1 s -> StepAdv s s1 t -> In p (pending s) ->
  cls s k p -> cls s1 (S k) p.
Proof.
  intros s s1 t k p I SA Hp H. destruct SA as [He Ho HP Hu HW].
  pose proof (only_unq s t I HP Hu) as Honly.
  destruct k as [|[|k]]; cbn [cls] in *.
  - intros v Hv. destruct (HW p Hp v Hv) as [Hv' Hne]. rewrite Ho, He by auto.
    specialize (H v Hv'). unfold unqreg. rewrite H. cbn [andb].
    apply quiesced_next; auto. apply (i_ep s I).
  - apply list_empty_no_in. intros v Hv. destruct (HW p Hp v Hv) as [Hv' Hne].
    specialize (H v Hv'). rewrite Honly in H by auto. discriminate.
  - apply list_empty_no_in. intros v Hv. destruct (HW p Hp v Hv) as [Hv' Hne].
    rewrite H in Hv'. contradiction.
Qed.

Lemma adv_own : forall s s1 t u k K p, Inv1 s -> StepAdv s s1 t -> In p (pending s) ->
  ~ In u (W s p) /\ cls s k p -> (K <= S k)%nat -> ~ In u (W s1 p) /\ cls s1 K p.
Proof.
  intros s s1 t u k K p I SA Hp [Hn Hc] Hle. split.
  - intros Hin. apply Hn. eapply (sa_W _ _ _ SA); eauto.
  - apply (cls_le s1 K (S k)); auto. eapply adv_cls; eauto.
Qed.

Lemma others_adv : forall s s1 t, Inv1 s -> Inv2 s -> StepAdv s s1 t ->
  forall u, u <> t -> thr_ok s1 u (get_thr s u).
Proof.
  intros s s1 t I J SA u Hne. destruct (j_thr s J u) as [Hc Hp].
  destruct (t_reg (get_thr s u)) eqn:Hr.
  - pose proof (only_unq s t I (sa_P _ _ _ SA) (sa_u _ _ _ SA) u Hne) as Hq.
    assert (Hls : t_ls (get_thr s u) = q_ep s).
    { destruct (i_ls s I u Hr) as [Hls|[_ Hc']]; auto.
      unfold unqreg in Hq. rewrite Hr, Hc' in Hq. discriminate. }
    pose proof (i_ep s I) as Hep.
    assert (Hk : lsk s (get_thr s u) = 0%nat).
    { unfold lsk. rewrite Hls, Z.eqb_refl. reflexivity. }
    assert (Hk1 : lsk s1 (get_thr s u) = 1%nat).
    { unfold lsk. rewrite (sa_ep _ _ _ SA), Hls. unfold ep_adv.
      destruct (Z.eqb_spec ((q_ep s + 1) mod 4) (q_ep s)); [lia|reflexivity]. }
    rewrite Hk in *. unfold thr_ok. rewrite Hk1.
    split; intros p Hin.
    + eapply adv_own; eauto. eapply in_pending_cur; eauto.
    + eapply adv_own; eauto. eapply in_pending_prev; eauto.
  - destruct (i_unreg s I u Hr) as [Hpe Hce]. split; intros p Hin.
    + rewrite Hce in Hin. contradiction.
    + rewrite Hpe in Hin. contradiction.
Qed.

(** assembling the invariant of the new state *)
Lemma inv2_build : forall s s1 t,
  (forall u, u <> t -> get_thr s1 u = get_thr s u) ->
  (forall u, u <> t -> thr_ok s1 u (get_thr s u)) ->
  thr_ok s1 t (get_thr s1 t) ->
  (forall p, In p (concat (q_ocur s1)) -> cls s1 0 p) ->
  (forall p, In p (concat (q_oprev s1)) -> cls s1 1 p) ->
  Inv2 s1.
Proof.
  intros s s1 t Ho Hoth Ht Hoc Hop. constructor; auto.
  intros u. destruct (Nat.eq_dec u t) as [->|Hne]; auto. rewrite Ho by auto. auto.
Qed.

Lemma inv2_of_empty : forall s, (forall p, In p (pending s) -> W s p = []) -> Inv2 s.
Proof.
  intros s H. constructor.
  - intros u. split; intros p Hin.
    + apply in_pending_cur in Hin. rewrite (H p Hin). split; [tauto|]. apply cls_of_nil. auto.
    + apply in_pending_prev in Hin. rewrite (H p Hin). split; [tauto|]. apply cls_of_nil. auto.
  - intros p Hin. apply cls_of_nil. apply H. now apply in_pending_ocur.
  - intros p Hin. apply cls_of_nil. apply H. now apply in_pending_oprev.
Qed.

(** single-thread mode: nothing waits for anybody but the sole thread *)
Lemma sole_empty : forall s t p l, Inv1 s -> q_T s = 1 -> t_reg (get_thr s t) = true ->
  cls s 0 p -> (forall v, In v l -> In v (W s p) /\ v <> t) -> l = [].
Proof.
  intros s t p l I HT Hr Hc Hl. apply list_empty_no_in. intros v Hv.
  destruct (Hl v Hv) as [Hv' Hne]. specialize (Hc v Hv').
  rewrite (only_reg s t I HT Hr v Hne) in Hc. discriminate.
Qed.

(** ghost part of the result of each call *)
Lemma wait_quiescent : forall s t, q_wait (fst (q_quiescent s t)) = ghost_passed (q_wait s) t.
Proof.
  intros s t. unfold q_quiescent, adv_seen, exec_prev, handle_orphans.
  destruct (q_ep _ =? t_ls _); destruct (q_T _ <? 2); cbn [negb t_lsq t_qs];
  split_ifs; reflexivity.
Qed.

Lemma wait_unregister : forall s t, q_wait (fst (q_unregister s t)) = ghost_passed (q_wait s) t.
Proof.
  intros s t. unfold q_unregister, adv_seen, exec_prev, handle_orphans.
  destruct (q_P _ =? 0); [reflexivity|].
  destruct (q_ep _ =? t_ls _); destruct (q_T _ <? 2); cbn [negb t_lsq t_qs];
  split_ifs; reflexivity.
Qed.

Lemma W_passed : forall s s1 t p, q_wait s1 = ghost_passed (q_wait s) t ->
  forall v, In v (W s1 p) -> In v (W s p) /\ v <> t.
Proof.
  intros s s1 t p H v Hv. unfold W in *. rewrite H, wait_of_passed in Hv.
  now apply in_remove_tid in Hv.
Qed.

Lemma in_registered_others : forall l t i v, In v (registered_others l t i) ->
  v <> t /\ exists j, v = (i + j)%nat /\ t_reg (nth j l thr0) = true.
Proof.
  induction l as [|x l IH]; intros t i v H; cbn [registered_others] in H; [contradiction|].
  apply in_app_or in H. destruct H as [H|H].
  - destruct (t_reg x) eqn:Hr; cbn [andb] in H; [|contradiction].
    destruct (Nat.eqb_spec i t); cbn [negb] in H; [contradiction|].
    destruct H as [<-|[]]. split; auto. exists O. cbn [nth]. split; [lia|auto].
  - apply IH in H. destruct H as [Hne [j [-> Hr]]]. split; auto.
    exists (S j). cbn [nth]. split; [lia|auto].
Qed.

(** ** Per-call preservation *)
Definition StepOK (s : qstate) (r : step_res) : Prop :=
  Inv2 (fst r) /\ forall q, In q (snd r) -> W (fst r) q = [].

Lemma stm_passed_ok : forall s t r, Inv1 s -> Inv2 s -> q_T s = 1 -> t_reg (get_thr s t) = true ->
  q_wait (fst r) = ghost_passed (q_wait s) t ->
  (forall a, (co (pending (fst r)) a + co (snd r) a = co (pending s) a)%nat) ->
  StepOK s r.
Proof.
  intros s t [s1 f] I J HT Hr Hw Hco. cbn [fst snd] in *.
  assert (HE : forall p, In p (pending s) -> W s1 p = []).
  { intros p Hp. eapply sole_empty with (s := s) (t := t) (p := p); eauto.
    - now apply pending_cls0.
    - intros v Hv. eapply W_passed; eauto. }
  split; cbn [fst snd].
  - apply inv2_of_empty. intros p Hp. apply HE. apply co_in. apply co_in in Hp.
    specialize (Hco p). lia.
  - intros q Hq. apply HE. apply co_in. apply co_in in Hq. specialize (Hco q). lia.
Qed.

Lemma mk_same_passed : forall s s1 t x', q_ep s1 = q_ep s ->
  q_thr s1 = set_nth_thr t x' (q_thr s) -> q_wait s1 = ghost_passed (q_wait s) t ->
  StepSame s s1 t.
Proof.
  intros s s1 t x' He Ht Hw. constructor; auto.
  - intros u Hne. unfold get_thr. rewrite Ht. now apply nth_set_nth_other.
  - intros p _ v Hv. eapply W_passed; eauto.
  - left. intros p _ Hin. eapply W_passed in Hin; eauto. tauto.
Qed.

Lemma mk_adv_passed : forall s s1 t x', q_ep s1 = ep_adv (q_ep s) ->
  q_thr s1 = set_nth_thr t x' (q_thr s) -> q_wait s1 = ghost_passed (q_wait s) t ->
  q_P s = 1 -> unqreg (q_ep s) (get_thr s t) = true ->
  StepAdv s s1 t.
Proof.
  intros s s1 t x' He Ht Hw HP Hu. constructor; auto.
  - intros u Hne. unfold get_thr. rewrite Ht. now apply nth_set_nth_other.
  - intros p _ v Hv. eapply W_passed; eauto.
Qed.

Lemma same_cls_le : forall s s1 t k K p, StepSame s s1 t -> In p (pending s) -> cls s k p ->
  (K <= k)%nat -> cls s1 K p.
Proof. intros. apply (cls_le s1 K k); auto. eapply same_cls; eauto. Qed.

Lemma adv_cls_le : forall s s1 t k K p, Inv1 s -> StepAdv s s1 t -> In p (pending s) -> cls s k p ->
  (K <= S k)%nat -> cls s1 K p.
Proof. intros. apply (cls_le s1 K (S k)); auto. eapply adv_cls; eauto. Qed.

Lemma same_notin : forall s s1 t u p, StepSame s s1 t -> In p (pending s) ->
  ~ In u (W s p) -> ~ In u (W s1 p).
Proof. intros s s1 t u p SS Hp Hn Hin. apply Hn. eapply (ss_W _ _ _ SS); eauto. Qed.

Lemma adv_notin : forall s s1 t u p, StepAdv s s1 t -> In p (pending s) ->
  ~ In u (W s p) -> ~ In u (W s1 p).
Proof. intros s s1 t u p SA Hp Hn Hin. apply Hn. eapply (sa_W _ _ _ SA); eauto. Qed.

(** facts about the calling thread's own lists and the orphan lists in the old state *)
Lemma own_cur : forall s t p, Inv2 s -> In p (t_cur (get_thr s t)) ->
  In p (pending s) /\ ~ In t (W s p) /\ cls s (lsk s (get_thr s t)) p.
Proof.
  intros s t p J H. split; [eapply in_pending_cur; eauto|]. now apply (j_thr s J t).
Qed.

Lemma own_prev : forall s t p, Inv2 s -> In p (t_prev (get_thr s t)) ->
  In p (pending s) /\ ~ In t (W s p) /\ cls s (S (lsk s (get_thr s t))) p.
Proof.
  intros s t p J H. split; [eapply in_pending_prev; eauto|]. now apply (j_thr s J t).
Qed.

Lemma orph_cur : forall s p, Inv2 s -> In p (concat (q_ocur s)) -> In p (pending s) /\ cls s 0 p.
Proof. intros s p J H. split; [now apply in_pending_ocur|now apply (j_ocur s J)]. Qed.

Lemma orph_prev : forall s p, Inv2 s -> In p (concat (q_oprev s)) -> In p (pending s) /\ cls s 1 p.
Proof. intros s p J H. split; [now apply in_pending_oprev|now apply (j_oprev s J)]. Qed.

Ltac prjin H := cbn [q_ep q_T q_P q_oprev q_ocur q_thr q_gep q_wait t_reg t_lsq t_ls t_qs t_prev t_cur
                 set_thr with_ghost fst snd negb andb orb b2z] in H.

Ltac in_split Hin :=
  repeat match type of Hin with
  | In _ (_ ++ _) => apply in_app_or in Hin; destruct Hin as [Hin|Hin]
  | In _ (concat (push_nonempty _ _)) => apply in_push in Hin; destruct Hin as [Hin|Hin]
  end.

(* old-state fact about the pointer in [Hin] *)
Ltac old_fact s t J Hoc Hop p Hin :=
  lazymatch type of Hin with
  | In _ [] => contradiction
  | In _ (concat []) => destruct Hin
  | In _ [_] => destruct Hin as [<-|[]]; first [eassumption | apply proj2; eassumption]
  | In _ (t_cur _) => destruct (Hoc p J Hin) as [Hpend [Hnt Hc]]
  | In _ (t_prev _) => destruct (Hop p J Hin) as [Hpend [Hnt Hc]]
  | In _ (concat (q_ocur s)) => destruct (orph_cur s p J Hin) as [Hpend Hc]
  | In _ (concat (q_oprev s)) => destruct (orph_prev s p J Hin) as [Hpend Hc]
  end.

Ltac cls_goal I ST :=
  lazymatch type of ST with
  | StepSame _ _ _ => eapply same_cls_le; [exact ST|eassumption|eassumption|lia]
  | StepAdv _ _ _ => eapply adv_cls_le; [exact I|exact ST|eassumption|eassumption|lia]
  end.

Ltac notin_goal ST :=
  lazymatch type of ST with
  | StepSame _ _ _ => eapply same_notin; [exact ST|eassumption|eassumption]
  | StepAdv _ _ _ => eapply adv_notin; [exact ST|eassumption|eassumption]
  end.

Ltac ptr_goal I ST :=
  lazymatch goal with
  | |- _ /\ _ => split; [notin_goal ST|cls_goal I ST]
  | |- W ?S ?q = [] => change (cls S 2 q); cls_goal I ST
  | |- cls _ _ _ => cls_goal I ST
  end.

Ltac ptr_solve s t I J ST Hoc Hop p Hin :=
  in_split Hin; old_fact s t J Hoc Hop p Hin; ptr_goal I ST.

Ltac others_goal I J ST :=
  lazymatch type of ST with
  | StepSame _ _ _ => eapply others_same; [exact J|exact ST]
  | StepAdv _ _ _ => eapply others_adv; [exact I|exact J|exact ST]
  end.

Ltac oth_eq ST :=
  lazymatch type of ST with
  | StepSame _ _ _ => exact (ss_oth _ _ _ ST)
  | StepAdv _ _ _ => exact (sa_oth _ _ _ ST)
  end.

Ltac ptr_intro s t I J ST Hoc Hop :=
  let q := fresh "q" in let Hin := fresh "Hin" in
  intros q Hin; prjin Hin; ptr_solve s t I J ST Hoc Hop q Hin.

Ltac finish_ok s t I J ST Hoc Hop Hlt :=
  split; prj;
  [ eapply inv2_build with (s := s) (t := t);
    [ oth_eq ST
    | others_goal I J ST
    | unfold get_thr; prj; rewrite nth_set_nth_same by exact Hlt;
      unfold thr_ok, lsk; prj; rewrite ?Z.eqb_refl; repeat zcase; try congruence; try lia;
      (split; ptr_intro s t I J ST Hoc Hop)
    | prj; ptr_intro s t I J ST Hoc Hop
    | prj; ptr_intro s t I J ST Hoc Hop ]
  | ptr_intro s t I J ST Hoc Hop ].

Ltac mk_step_passed s t Hr :=
  lazymatch goal with |- StepOK _ (?S1, ?F) =>
    let e := eval cbn [q_ep set_thr with_ghost] in (q_ep S1) in
    lazymatch e with
    | ep_adv _ => assert (ST : StepAdv s S1 t) by
        (eapply mk_adv_passed; [reflexivity|reflexivity|reflexivity|lia|
           unfold unqreg, unq; replace (t_reg (get_thr s t)) with true by (symmetry; exact Hr);
           prj; repeat zcase; prj; auto; lia])
    | _ => assert (ST : StepSame s S1 t) by (eapply mk_same_passed; reflexivity)
    end end.

Lemma quiescent_ok : forall s t, Inv1 s -> Inv2 s -> op_enabled s (QQuiescent t) = true ->
  StepOK s (q_quiescent s t).
Proof.
  intros s t I J Hen. apply enabled_reg in Hen. cbn [op_tid] in Hen. destruct Hen as [Hr Hlt].
  pose proof (i_P1 s I) as HP1. pose proof (i_T s I) as HT.
  pose proof (reg_cnt_pos _ _ Hr) as HT1. rewrite <- HT in HT1. specialize (HP1 HT1).
  destruct (Z.ltb_spec (q_T s) 2) as [Hstm|Hstm].
  { eapply stm_passed_ok with (t := t); eauto; [lia|apply wait_quiescent|].
    intros a. now apply perm_quiescent. }
  pose proof (i_qs s I t) as Hqs. pose proof (i_ls s I t Hr) as Hls.
  pose proof (i_ep s I) as Hep.
  pose proof (own_cur s t) as Hoc. pose proof (own_prev s t) as Hop.
  unfold ls_ok, unq in Hls. unfold lsk in Hoc, Hop.
  unfold q_quiescent, adv_seen, exec_prev, handle_orphans.
  change (get_thr (with_ghost s (ghost_passed (q_wait s) t)) t) with (get_thr s t).
  set (x := get_thr s t) in *. prj.
  replace (q_T s <? 2) with false by (symmetry; apply Z.ltb_ge; lia).
  destruct (Z.eqb_spec (q_ep s) (t_ls x)); prj;
  destruct (Z.eqb_spec (q_ep s) (t_lsq x)); prj;
  repeat zcase; prj; try lia.
  all: mk_step_passed s t Hr.
  all: finish_ok s t I J ST Hoc Hop Hlt.
Qed.

Lemma unregister_ok : forall s t, Inv1 s -> Inv2 s -> op_enabled s (QUnregister t) = true ->
  StepOK s (q_unregister s t).
Proof.
  intros s t I J Hen. apply enabled_reg in Hen. cbn [op_tid] in Hen. destruct Hen as [Hr Hlt].
  pose proof (i_P1 s I) as HP1. pose proof (i_T s I) as HT.
  pose proof (reg_cnt_pos _ _ Hr) as HT1. rewrite <- HT in HT1. specialize (HP1 HT1).
  destruct (Z.ltb_spec (q_T s) 2) as [Hstm|Hstm].
  { eapply stm_passed_ok with (t := t); eauto; [lia|apply wait_unregister|].
    intros a. now apply perm_unregister. }
  pose proof (i_qs s I t) as Hqs. pose proof (i_ls s I t Hr) as Hls.
  pose proof (i_ep s I) as Hep.
  pose proof (own_cur s t) as Hoc. pose proof (own_prev s t) as Hop.
  unfold ls_ok, unq in Hls. unfold lsk in Hoc, Hop.
  unfold q_unregister, adv_seen, exec_prev, handle_orphans.
  change (get_thr (with_ghost s (ghost_passed (q_wait s) t)) t) with (get_thr s t).
  set (x := get_thr s t) in *. prj.
  replace (q_T s <? 2) with false by (symmetry; apply Z.ltb_ge; lia).
  destruct (Z.eqb_spec (q_P s) 0); [lia|].
  destruct (Z.eqb_spec (q_ep s) (t_ls x)); prj;
  destruct (Z.eqb_spec (t_lsq x) (q_ep s)); prj;
  repeat zcase; prj; try lia.
  all: mk_step_passed s t Hr.
  all: finish_ok s t I J ST Hoc Hop Hlt.
Qed.

Lemma mk_same_keepW : forall s s1 t x', q_ep s1 = q_ep s ->
  q_thr s1 = set_nth_thr t x' (q_thr s) -> (t < length (q_thr s))%nat ->
  q_wait s1 = q_wait s ->
  (t_reg (get_thr s t) = true -> t_reg x' = true) ->
  (unqreg (q_ep s) (get_thr s t) = true -> unqreg (q_ep s) x' = true) ->
  StepSame s s1 t.
Proof.
  intros s s1 t x' He Ht Hlt Hw H1 H2.
  assert (Hg : get_thr s1 t = x') by (unfold get_thr; rewrite Ht; now apply nth_set_nth_same).
  constructor; auto.
  - intros u Hne. unfold get_thr. rewrite Ht. now apply nth_set_nth_other.
  - intros p _ v Hv. unfold W in *. now rewrite Hw in Hv.
  - right. rewrite Hg. auto.
Qed.

Lemma register_ok : forall s t, Inv1 s -> Inv2 s -> op_enabled s (QRegister t) = true ->
  StepOK s (q_register s t).
Proof.
  intros s t I J Hen. unfold op_enabled in Hen. cbn [op_tid] in Hen.
  apply andb_prop in Hen. destruct Hen as [Hlt Hr]. apply Nat.ltb_lt in Hlt.
  apply negb_true_iff in Hr.
  pose proof (own_cur s t) as Hoc. pose proof (own_prev s t) as Hop.
  unfold q_register. prj.
  lazymatch goal with |- StepOK _ (?S1, _) =>
    assert (ST : StepSame s S1 t) by
      (eapply mk_same_keepW; [reflexivity|reflexivity|exact Hlt|reflexivity| |];
       [intros Hc; congruence | unfold unqreg; rewrite Hr; discriminate]) end.
  finish_ok s t I J ST Hoc Hop Hlt.
Qed.

Lemma W_head : forall s1 p ro w, q_wait s1 = (p, ro) :: w -> W s1 p = ro.
Proof. intros s1 p ro w H. unfold W. rewrite H. cbn [wait_of]. now rewrite Z.eqb_refl. Qed.

Lemma W_tail : forall s1 p ro w q, q_wait s1 = (p, ro) :: w -> q <> p -> W s1 q = wait_of w q.
Proof.
  intros s1 p ro w q H Hne. unfold W. rewrite H. cbn [wait_of].
  destruct (Z.eqb_spec p q); [congruence|reflexivity].
Qed.

Lemma mk_same_retire : forall s s1 t x' p ro, q_ep s1 = q_ep s ->
  q_thr s1 = set_nth_thr t x' (q_thr s) -> (t < length (q_thr s))%nat ->
  q_wait s1 = (p, ro) :: q_wait s -> ~ In p (pending s) ->
  t_reg x' = t_reg (get_thr s t) -> t_lsq x' = t_lsq (get_thr s t) -> t_qs x' = t_qs (get_thr s t) ->
  StepSame s s1 t.
Proof.
  intros s s1 t x' p ro He Ht Hlt Hw Hnp H1 H2 H3.
  assert (Hg : get_thr s1 t = x') by (unfold get_thr; rewrite Ht; now apply nth_set_nth_same).
  constructor; auto.
  - intros u Hne. unfold get_thr. rewrite Ht. now apply nth_set_nth_other.
  - intros q Hq v Hv. rewrite (W_tail s1 p ro (q_wait s) q Hw) in Hv; [exact Hv|].
    intros ->. contradiction.
  - right. rewrite Hg. unfold unqreg, unq. rewrite H1, H2, H3. auto.
Qed.

Lemma new_ptr_ok : forall s s1 t p, (forall u, u <> t -> get_thr s1 u = get_thr s u) ->
  q_wait s1 = (p, registered_others (q_thr s) t O) :: q_wait s ->
  ~ In t (W s1 p) /\ cls s1 0 p.
Proof.
  intros s s1 t p Ho Hw. cbn [cls]. rewrite (W_head _ _ _ _ Hw).
  split.
  - intros Hin. apply in_registered_others in Hin. tauto.
  - intros v Hv. apply in_registered_others in Hv.
    destruct Hv as [Hne [j [-> Hr]]]. rewrite Ho by auto. exact Hr.
Qed.

Lemma new_ptr_sole : forall s s1 t p, Inv1 s -> q_T s = 1 -> t_reg (get_thr s t) = true ->
  q_wait s1 = (p, registered_others (q_thr s) t O) :: q_wait s ->
  W s1 p = [].
Proof.
  intros s s1 t p I HT Hr Hw. rewrite (W_head _ _ _ _ Hw).
  apply list_empty_no_in. intros v Hv. apply in_registered_others in Hv.
  destruct Hv as [Hne [j [-> Hrj]]]. cbn [Nat.add] in Hne.
  pose proof (only_reg s t I HT Hr j Hne) as Hc. unfold get_thr in Hc. congruence.
Qed.

Lemma sole_own_empty : forall s t q, Inv1 s -> q_T s = 1 -> t_reg (get_thr s t) = true ->
  ~ In t (W s q) -> cls s 0 q -> cls s 2 q.
Proof.
  intros s t q I HT Hr Hn Hc. cbn [cls]. apply list_empty_no_in. intros v Hv.
  destruct (Nat.eq_dec v t) as [->|Hne]; [contradiction|].
  specialize (Hc v Hv). rewrite (only_reg s t I HT Hr v Hne) in Hc. discriminate.
Qed.

Lemma retire_ok : forall s t p, Inv1 s -> Inv2 s -> op_enabled s (QRetire t p) = true ->
  ~ In p (pending s) -> StepOK s (q_retire s t p).
Proof.
  intros s t p I J Hen Hnp. apply enabled_reg in Hen. cbn [op_tid] in Hen. destruct Hen as [Hr Hlt].
  pose proof (i_T s I) as HT.
  pose proof (reg_cnt_pos _ _ Hr) as HT1. rewrite <- HT in HT1.
  pose proof (i_ep s I) as Hep.
  assert (Hoc : forall q, Inv2 s -> In q (t_cur (get_thr s t)) -> In q (pending s) /\ ~ In t (W s q) /\
            cls s (if q_T s <? 2 then 2%nat else lsk s (get_thr s t)) q).
  { intros q _ Hq. destruct (own_cur s t q J Hq) as [H1 [H2 H3]]. split; auto. split; auto.
    destruct (Z.ltb_spec (q_T s) 2); auto.
    eapply sole_own_empty; eauto; [lia|]. eapply cls_le; [|exact H3]. lia. }
  assert (Hop : forall q, Inv2 s -> In q (t_prev (get_thr s t)) -> In q (pending s) /\ ~ In t (W s q) /\
            cls s (if q_T s <? 2 then 2%nat else S (lsk s (get_thr s t))) q).
  { intros q _ Hq. destruct (own_prev s t q J Hq) as [H1 [H2 H3]]. split; auto. split; auto.
    destruct (Z.ltb_spec (q_T s) 2); auto.
    eapply sole_own_empty; eauto; [lia|]. eapply cls_le; [|exact H3]. lia. }
  unfold lsk in Hoc, Hop.
  unfold q_retire, adv_seen, exec_prev.
  set (x := get_thr s t) in *. prj.
  destruct (Z.ltb_spec (q_T s) 2) as [Hstm|Hstm];
  destruct (Z.eqb_spec (q_ep s) (t_ls x)); destruct (Z.eqb_spec (t_ls x) (q_ep s));
    try congruence; prj.
  all: lazymatch goal with |- StepOK _ (?S1, _) =>
    assert (ST : StepSame s S1 t) by
      (eapply mk_same_retire; [reflexivity|reflexivity|exact Hlt|reflexivity|exact Hnp|reflexivity..]);
    pose proof (new_ptr_ok s S1 t p (ss_oth _ _ _ ST) eq_refl) as Hnew;
    try (assert (Hnew0 : W S1 p = []) by (eapply new_ptr_sole with (s := s) (t := t); [exact I|lia|exact Hr|reflexivity]))
    end.
  all: finish_ok s t I J ST Hoc Hop Hlt.
Qed.
