(** Bridge from the generated QSBR state-word functions (coq/Gen/GenQsbrState.v,
    regenerated from qsbr.hpp's [qsbr_epoch] / [qsbr_state] on every run) to the
    (epoch, T, P) arithmetic of the hand-written model (Qsbr/QsbrModel.v).

    Layout of the 64-bit word (qsbr.hpp): bits 0..29 threads in the previous
    epoch (P), 30..31 unused, 32..61 total thread count (T), 62..63 epoch.

    Part 1: bit-level auxiliaries.  Part 2: the abstract view [word_fields] /
    [word_make].  Part 3: every generated function computes the corresponding
    operation on the fields, for words and ranges that the UNODB_DETAIL_ASSERTs
    inside it demand.  Part 4: the updates that the model's calls make to
    (q_ep, q_T, q_P) are these functions applied to the packed word. *)
From Coq Require Import List ZArith Lia Bool.
From Unodb Require Import Base.BitsAux Base.GenPrims Gen.GenQsbrState Qsbr.QsbrModel.
Import ListNotations.
Local Open Scope Z_scope.

Ltac Zify.zify_post_hook ::= Z.div_mod_to_equations.

(* ------------------------------------------------------------------ *)
(** * 1. shifts, masks and disjoint or *)

Lemma testbit_small b n m : 0 <= b < 2 ^ n -> n <= m -> Z.testbit b m = false.
Proof.
  intros Hb Hm. destruct (Z_lt_le_dec n 0) as [Hn|Hn].
  - rewrite Z.pow_neg_r in Hb by lia. lia.
  - rewrite <- (Z.mod_small b (2 ^ n)) by lia. apply Z.mod_pow2_bits_high. lia.
Qed.

(** a value below 2^n does not overlap anything shifted left by n *)
Lemma land_shiftl_small x n b : 0 <= n -> 0 <= b < 2 ^ n -> Z.land (Z.shiftl x n) b = 0.
Proof.
  intros Hn Hb. apply Z.bits_inj'. intros m Hm. rewrite Z.land_spec, Z.bits_0.
  destruct (Z_lt_le_dec m n) as [L|G].
  - rewrite Z.shiftl_spec_low by lia. reflexivity.
  - rewrite (testbit_small b n m) by lia. apply andb_false_r.
Qed.

(** ... so or-ing them is adding them *)
Lemma lor_shiftl_add x n b : 0 <= n -> 0 <= b < 2 ^ n -> Z.lor (Z.shiftl x n) b = x * 2 ^ n + b.
Proof.
  intros Hn Hb. pose proof (land_shiftl_small x n b Hn Hb) as L.
  rewrite <- Z.lxor_lor by exact L. rewrite <- Z.add_nocarry_lxor by exact L.
  rewrite Z.shiftl_mul_pow2 by lia. reflexivity.
Qed.

(** a mask of k ones at offset n selects the field and leaves it in place *)
Lemma land_field_mask w n k : 0 <= n -> 0 <= k ->
  Z.land w (Z.shiftl (Z.ones k) n) = Z.shiftl (Z.land (Z.shiftr w n) (Z.ones k)) n.
Proof.
  intros Hn Hk. apply Z.bits_inj'. intros m Hm. rewrite Z.land_spec.
  destruct (Z_lt_le_dec m n) as [L|G].
  - rewrite !Z.shiftl_spec_low by lia. apply andb_false_r.
  - rewrite !Z.shiftl_spec by lia. rewrite Z.land_spec, Z.shiftr_spec by lia.
    replace (m - n + n) with m by lia. reflexivity.
Qed.

Lemma field_extract w n k : 0 <= n -> 0 <= k ->
  Z.land (Z.shiftr w n) (Z.ones k) = (w / 2 ^ n) mod 2 ^ k.
Proof. intros Hn Hk. rewrite Z.land_ones by lia. rewrite Z.shiftr_div_pow2 by lia. reflexivity. Qed.

(* ------------------------------------------------------------------ *)
(** * 2. the abstract view of the word *)

Definition word64 (w : Z) : Prop := 0 <= w < 2 ^ 64.

(** (epoch, T, P) of a word *)
Definition word_fields (w : Z) : Z * Z * Z :=
  (w / 2 ^ 62, (w / 2 ^ 32) mod 2 ^ 30, w mod 2 ^ 30).

(** the word with the given fields and the unused bits 30..31 clear *)
Definition word_make (e t p : Z) : Z := e * 2 ^ 62 + t * 2 ^ 32 + p.

Definition max_threads : Z := 2 ^ 30 - 1.

(** what [assert_invariants] and [qsbr_epoch::assert_invariant] demand of the fields *)
Definition fields_ok (e t p : Z) : Prop := 0 <= e <= 3 /\ 0 <= p <= t /\ t <= max_threads.

(** [assert_invariants(word)]: T <= max_qsbr_threads (always true, the field has 30 bits) and P <= T *)
Definition word_wf (w : Z) : Prop :=
  word64 w /\ let '(_, t, p) := word_fields w in t <= max_threads /\ p <= t.

Ltac nums :=
  unfold fields_ok in *; unfold word64, word_fields, word_make, max_threads in *;
  change (2 ^ 64) with 18446744073709551616 in *;
  change (2 ^ 62) with 4611686018427387904 in *;
  change (2 ^ 32) with 4294967296 in *;
  change (2 ^ 30) with 1073741824 in *.

Lemma triple_eq {A B C} (a a' : A) (b b' : B) (c c' : C) : a = a' -> b = b' -> c = c' -> (a, b, c) = (a', b', c').
Proof. now intros -> -> ->. Qed.

(** a word is its four fields (u = the unused bits); the fields are read back *)
Lemma fields_of_sum e t u p : 0 <= e < 4 -> 0 <= t < 2 ^ 30 -> 0 <= u < 4 -> 0 <= p < 2 ^ 30 ->
  word64 (e * 2 ^ 62 + t * 2 ^ 32 + u * 2 ^ 30 + p) /\
  word_fields (e * 2 ^ 62 + t * 2 ^ 32 + u * 2 ^ 30 + p) = (e, t, p).
Proof.
  nums. intros He Ht Hu Hp. split; [lia|].
  apply triple_eq.
  - symmetry. apply (Z.div_unique _ _ e (t * 4294967296 + u * 1073741824 + p)); lia.
  - rewrite <- (Z.div_unique (e * 4611686018427387904 + t * 4294967296 + u * 1073741824 + p) 4294967296
               (e * 1073741824 + t) (u * 1073741824 + p)) by lia.
    symmetry. apply (Z.mod_unique _ _ e t); lia.
  - symmetry. apply (Z.mod_unique _ _ (e * 4294967296 + t * 4 + u) p); lia.
Qed.

Lemma word_sum w : word64 w ->
  exists e t u p, 0 <= e < 4 /\ 0 <= t < 2 ^ 30 /\ 0 <= u < 4 /\ 0 <= p < 2 ^ 30 /\
                  w = e * 2 ^ 62 + t * 2 ^ 32 + u * 2 ^ 30 + p.
Proof.
  nums. intros Hw.
  exists (w / 4611686018427387904), ((w / 4294967296) mod 1073741824), ((w / 1073741824) mod 4), (w mod 1073741824).
  lia.
Qed.

(** inversion: from the fields of a word to its sum form *)
Lemma word_sum_fields w e t p : word64 w -> word_fields w = (e, t, p) ->
  exists u, 0 <= e < 4 /\ 0 <= t < 2 ^ 30 /\ 0 <= u < 4 /\ 0 <= p < 2 ^ 30 /\
            w = e * 2 ^ 62 + t * 2 ^ 32 + u * 2 ^ 30 + p.
Proof.
  intros Hw Hf. destruct (word_sum w Hw) as (e' & t' & u & p' & He & Ht & Hu & Hp & E).
  destruct (fields_of_sum e' t' u p' He Ht Hu Hp) as [_ F]. rewrite <- E, Hf in F.
  inversion F; subst e' t' p'. exists u. auto.
Qed.

Lemma fields_make e t p : fields_ok e t p -> word64 (word_make e t p) /\ word_fields (word_make e t p) = (e, t, p).
Proof.
  intros (He & Hp & Ht). unfold word_make, max_threads in *.
  replace (e * 2 ^ 62 + t * 2 ^ 32 + p) with (e * 2 ^ 62 + t * 2 ^ 32 + 0 * 2 ^ 30 + p) by lia.
  apply fields_of_sum; change (2 ^ 30) with 1073741824 in *; lia.
Qed.

Lemma make_wf e t p : fields_ok e t p -> word_wf (word_make e t p).
Proof.
  intros H. destruct (fields_make e t p H) as [W F]. split; [exact W|]. rewrite F.
  unfold fields_ok in H. lia.
Qed.

(** a well-formed word has fields in range *)
Lemma wf_fields_ok w e t p : word_wf w -> word_fields w = (e, t, p) -> fields_ok e t p.
Proof.
  intros [W I] F. rewrite F in I. destruct (word_sum_fields w e t p W F) as (u & He & Ht & Hu & Hp & _).
  unfold fields_ok. lia.
Qed.

Lemma fields_wf w e t p : word64 w -> word_fields w = (e, t, p) -> p <= t -> word_wf w.
Proof.
  intros W F L. split; [exact W|]. rewrite F.
  destruct (word_sum_fields w e t p W F) as (u & He & Ht & Hu & Hp & _).
  unfold max_threads. change (2 ^ 30) with 1073741824 in *. lia.
Qed.

(* ------------------------------------------------------------------ *)
(** * 3. the generated functions on the fields *)

(** ** the layout constants of the header are the ones of [word_fields] *)
Theorem layout_constants :
  qs_epoch_in_word_offset = 62 /\ qs_thread_count_in_word_offset = 32 /\
  qs_max_qsbr_threads = max_threads /\ qs_thread_count_mask = Z.ones 30 /\
  qs_threads_in_previous_epoch_in_word_mask = Z.ones 30 /\
  qs_thread_count_in_word_mask = Z.shiftl (Z.ones 30) 32 /\
  qs_one_thread_in_count = 2 ^ 32 /\ qs_one_thread_and_one_in_previous = 2 ^ 32 + 1 /\
  qe_max = 3 /\ qe_max_count = 4.
Proof. repeat split; reflexivity. Qed.

(** ** qsbr_epoch *)
Theorem bridge_epoch_get_val e : qe_get_val e = e.
Proof. reflexivity. Qed.

Theorem bridge_epoch_advance e : 0 <= e <= 3 -> qe_advance qe_advance_default_by e = ep_adv e.
Proof. intros He. unfold qe_advance, qe_advance_default_by, ep_adv. lia. Qed.

Lemma ep_adv_range e : 0 <= ep_adv e <= 3.
Proof. unfold ep_adv. lia. Qed.

(** ** getters (any 64-bit word) *)
Theorem bridge_get_epoch w : word64 w -> qs_get_epoch w = fst (fst (word_fields w)).
Proof.
  intros Hw. unfold qs_get_epoch, qs_do_get_epoch, word_fields. cbn [fst].
  rewrite Z.shiftr_div_pow2 by lia. nums. lia.
Qed.

Theorem bridge_get_thread_count w : word64 w -> qs_get_thread_count w = snd (fst (word_fields w)).
Proof.
  intros Hw. unfold qs_get_thread_count, qs_do_get_thread_count, word_fields. cbn [fst snd]. cbv zeta.
  change 4611686014132420608 with (Z.shiftl (Z.ones 30) 32).
  rewrite land_field_mask by lia. rewrite Z.shiftr_shiftl_l by lia. change (32 - 32) with 0. rewrite Z.shiftl_0_r.
  rewrite field_extract by lia. nums. lia.
Qed.

Theorem bridge_get_threads_in_previous_epoch w : word64 w -> qs_get_threads_in_previous_epoch w = snd (word_fields w).
Proof.
  intros Hw. unfold qs_get_threads_in_previous_epoch, qs_do_get_threads_in_previous_epoch, word_fields. cbn [snd]. cbv zeta.
  change 1073741823 with (Z.ones 30). rewrite Z.land_ones by lia. nums. lia.
Qed.

Theorem bridge_single_thread_mode w : word64 w -> qs_single_thread_mode w = (snd (fst (word_fields w)) <? 2).
Proof. intros Hw. unfold qs_single_thread_mode. now rewrite bridge_get_thread_count. Qed.

(** the getters on a word with given fields *)
Corollary bridge_getters w e t p : word64 w -> word_fields w = (e, t, p) ->
  qs_get_epoch w = e /\ qs_get_thread_count w = t /\ qs_get_threads_in_previous_epoch w = p /\
  qs_single_thread_mode w = (t <? 2).
Proof.
  intros W F. rewrite bridge_get_epoch, bridge_get_thread_count, bridge_get_threads_in_previous_epoch,
    bridge_single_thread_mode by exact W. rewrite F. auto.
Qed.

Corollary bridge_getters_make e t p : fields_ok e t p ->
  qs_get_epoch (word_make e t p) = e /\ qs_get_thread_count (word_make e t p) = t /\
  qs_get_threads_in_previous_epoch (word_make e t p) = p /\
  qs_single_thread_mode (word_make e t p) = (t <? 2).
Proof. intros H. destruct (fields_make e t p H). now apply bridge_getters. Qed.

(** ** make_from_epoch *)
Theorem bridge_make_from_epoch e : 0 <= e <= 3 -> qs_make_from_epoch e = word_make e 0 0.
Proof.
  intros He. unfold qs_make_from_epoch, qe_get_val, word_make. cbv zeta.
  rewrite Z.shiftl_mul_pow2 by lia. nums. lia.
Qed.

(** ** additive updates.  The hypotheses are the asserts of the C++ function:
    [t + 1 <= max_threads] is [assert_invariants(result)] together with
    [get_thread_count(word) + 1 == get_thread_count(result)], [0 < t] is
    [get_thread_count(word) > 0], and so on. *)
Ltac additive W F :=
  let u := fresh "u" in let He := fresh in let Ht := fresh in let Hu := fresh in let Hp := fresh in let E := fresh in
  destruct (word_sum_fields _ _ _ _ W F) as (u & He & Ht & Hu & Hp & E); cbv zeta; subst;
  unfold max_threads in *; change (2 ^ 30) with 1073741824 in *;
  change 18446744073709551616 with (2 ^ 64).

Theorem bridge_inc_thread_count w e t p : word64 w -> word_fields w = (e, t, p) -> t + 1 <= max_threads ->
  word64 (qs_inc_thread_count w) /\ word_fields (qs_inc_thread_count w) = (e, t + 1, p).
Proof.
  intros W F H. unfold qs_inc_thread_count. additive W F.
  match goal with |- context [(?x mod 2 ^ 64)] =>
    replace (x mod 2 ^ 64) with (e * 2 ^ 62 + (t + 1) * 2 ^ 32 + u * 2 ^ 30 + p) by (nums; lia) end.
  apply fields_of_sum; change (2 ^ 30) with 1073741824; lia.
Qed.

Theorem bridge_dec_thread_count w e t p : word64 w -> word_fields w = (e, t, p) -> 0 < t ->
  word64 (qs_dec_thread_count w) /\ word_fields (qs_dec_thread_count w) = (e, t - 1, p).
Proof.
  intros W F H. unfold qs_dec_thread_count. additive W F.
  match goal with |- context [(?x mod 2 ^ 64)] =>
    replace (x mod 2 ^ 64) with (e * 2 ^ 62 + (t - 1) * 2 ^ 32 + u * 2 ^ 30 + p) by (nums; lia) end.
  apply fields_of_sum; change (2 ^ 30) with 1073741824; lia.
Qed.

Theorem bridge_inc_both w e t p : word64 w -> word_fields w = (e, t, p) -> t + 1 <= max_threads -> p + 1 <= max_threads ->
  word64 (qs_inc_thread_count_and_threads_in_previous_epoch w) /\
  word_fields (qs_inc_thread_count_and_threads_in_previous_epoch w) = (e, t + 1, p + 1).
Proof.
  intros W F H H'. unfold qs_inc_thread_count_and_threads_in_previous_epoch. additive W F.
  match goal with |- context [(?x mod 2 ^ 64)] =>
    replace (x mod 2 ^ 64) with (e * 2 ^ 62 + (t + 1) * 2 ^ 32 + u * 2 ^ 30 + (p + 1)) by (nums; lia) end.
  apply fields_of_sum; change (2 ^ 30) with 1073741824; lia.
Qed.

Theorem bridge_dec_both w e t p : word64 w -> word_fields w = (e, t, p) -> 0 < t -> 0 < p ->
  word64 (qs_dec_thread_count_and_threads_in_previous_epoch w) /\
  word_fields (qs_dec_thread_count_and_threads_in_previous_epoch w) = (e, t - 1, p - 1).
Proof.
  intros W F H H'. unfold qs_dec_thread_count_and_threads_in_previous_epoch. additive W F.
  match goal with |- context [(?x mod 2 ^ 64)] =>
    replace (x mod 2 ^ 64) with (e * 2 ^ 62 + (t - 1) * 2 ^ 32 + u * 2 ^ 30 + (p - 1)) by (nums; lia) end.
  apply fields_of_sum; change (2 ^ 30) with 1073741824; lia.
Qed.

(** [atomic_fetch_dec_threads_in_previous_epoch] (qsbr.cpp) is [word.fetch_sub(1)];
    it is not a generated definition, the new value of the word is [w - 1] *)
Theorem fields_fetch_sub_1 w e t p : word64 w -> word_fields w = (e, t, p) -> 0 < p ->
  word64 (w - 1) /\ word_fields (w - 1) = (e, t, p - 1).
Proof.
  intros W F H. additive W F.
  match goal with |- context [word_fields ?x] =>
    replace x with (e * 2 ^ 62 + t * 2 ^ 32 + u * 2 ^ 30 + (p - 1)) by lia end.
  apply fields_of_sum; change (2 ^ 30) with 1073741824; lia.
Qed.

(** ** epoch changes (masks, shifts and ors) *)

(** three disjoint fields or-ed together *)
Lemma lor3 a t p : 0 <= a -> 0 <= t < 2 ^ 30 -> 0 <= p < 2 ^ 30 ->
  Z.lor (Z.lor (a * 2 ^ 62) (t * 2 ^ 32)) p = a * 2 ^ 62 + t * 2 ^ 32 + 0 * 2 ^ 30 + p.
Proof.
  intros Ha Ht Hp.
  rewrite <- (Z.shiftl_mul_pow2 a 62) by lia.
  rewrite lor_shiftl_add by (nums; lia).
  replace (a * 2 ^ 62 + t * 2 ^ 32) with ((a * 2 ^ 30 + t) * 2 ^ 32) by (nums; lia).
  rewrite <- (Z.shiftl_mul_pow2 _ 32) by lia.
  rewrite lor_shiftl_add by (nums; lia). rewrite Z.shiftl_mul_pow2 by lia. nums. lia.
Qed.

(** the results are words with the new fields and clear unused bits *)
Lemma inc_epoch_reset_previous_make w e t p : word64 w -> word_fields w = (e, t, p) ->
  qs_inc_epoch_reset_previous w = word_make (ep_adv e) t t.
Proof.
  intros W F. destruct (bridge_getters w e t p W F) as (Ge & _).
  destruct (word_sum_fields w e t p W F) as (u & He & Ht & Hu & Hp & E).
  unfold qs_inc_epoch_reset_previous. cbv zeta. rewrite Ge.
  rewrite bridge_epoch_advance by lia. pose proof (ep_adv_range e) as Ha.
  rewrite bridge_make_from_epoch by lia. unfold word_make. rewrite !Z.add_0_r.
  change 4611686014132420608 with (Z.shiftl (Z.ones 30) 32). rewrite land_field_mask by lia.
  change 1073741823 with (Z.ones 30). rewrite field_extract by lia.
  assert (T : (w / 2 ^ 32) mod 2 ^ 30 = t) by (unfold word_fields in F; congruence).
  rewrite T. rewrite Z.shiftl_mul_pow2 by lia.
  rewrite lor3 by lia. lia.
Qed.

Lemma inc_epoch_dec_thread_count_reset_previous_make w e t p : word64 w -> word_fields w = (e, t, p) -> 0 < t ->
  qs_inc_epoch_dec_thread_count_reset_previous w = word_make (ep_adv e) (t - 1) (t - 1).
Proof.
  intros W F H. destruct (bridge_getters w e t p W F) as (Ge & Gt & _).
  destruct (word_sum_fields w e t p W F) as (u & He & Ht & Hu & Hp & E).
  unfold qs_inc_epoch_dec_thread_count_reset_previous. cbv zeta. rewrite Ge, Gt.
  rewrite bridge_epoch_advance by lia. pose proof (ep_adv_range e) as Ha.
  rewrite bridge_make_from_epoch by lia. unfold word_make. rewrite !Z.add_0_r.
  rewrite (Z.mod_small (t - 1) 4294967296) by (nums; lia).
  rewrite Z.shiftl_mul_pow2 by lia.
  rewrite (Z.mod_small ((t - 1) * 2 ^ 32)) by (nums; lia).
  rewrite lor3 by lia. lia.
Qed.

Theorem bridge_inc_epoch_reset_previous w e t p : word64 w -> word_fields w = (e, t, p) ->
  word64 (qs_inc_epoch_reset_previous w) /\ word_fields (qs_inc_epoch_reset_previous w) = (ep_adv e, t, t).
Proof.
  intros W F. rewrite (inc_epoch_reset_previous_make w e t p W F).
  destruct (word_sum_fields w e t p W F) as (u & He & Ht & Hu & Hp & E). pose proof (ep_adv_range e).
  apply fields_make. unfold fields_ok, max_threads. lia.
Qed.

Theorem bridge_inc_epoch_dec_thread_count_reset_previous w e t p : word64 w -> word_fields w = (e, t, p) -> 0 < t ->
  word64 (qs_inc_epoch_dec_thread_count_reset_previous w) /\
  word_fields (qs_inc_epoch_dec_thread_count_reset_previous w) = (ep_adv e, t - 1, t - 1).
Proof.
  intros W F H. rewrite (inc_epoch_dec_thread_count_reset_previous_make w e t p W F H).
  destruct (word_sum_fields w e t p W F) as (u & He & Ht & Hu & Hp & E). pose proof (ep_adv_range e).
  apply fields_make. unfold fields_ok, max_threads. lia.
Qed.

Theorem bridge_maybe_advance w b :
  qs_dec_thread_count_threads_in_previous_epoch_maybe_advance w b =
  if b then qs_inc_epoch_dec_thread_count_reset_previous w else qs_dec_thread_count_and_threads_in_previous_epoch w.
Proof. destruct b; reflexivity. Qed.

(** ** no shift is out of range: every side condition emitted by the translator holds *)
Theorem bridge_defined w e b :
  qe_get_val_defined e = true /\ qe_advance_defined qe_advance_default_by e = true /\
  qs_get_epoch_defined w = true /\ qs_get_thread_count_defined w = true /\
  qs_get_threads_in_previous_epoch_defined w = true /\ qs_single_thread_mode_defined w = true /\
  qs_make_from_epoch_defined e = true /\ qs_inc_thread_count_defined w = true /\ qs_dec_thread_count_defined w = true /\
  qs_inc_thread_count_and_threads_in_previous_epoch_defined w = true /\
  qs_dec_thread_count_and_threads_in_previous_epoch_defined w = true /\
  qs_inc_epoch_reset_previous_defined w = true /\ qs_inc_epoch_dec_thread_count_reset_previous_defined w = true /\
  qs_dec_thread_count_threads_in_previous_epoch_maybe_advance_defined w b = true.
Proof. repeat split; try reflexivity. destruct b; reflexivity. Qed.

(** ** the asserted postconditions, e.g. of [inc_epoch_reset_previous]:
    [assert_invariants(result)], epoch advanced, T unchanged, P = T *)
Corollary inc_epoch_reset_previous_asserts w : word_wf w -> qs_get_threads_in_previous_epoch w = 0 ->
  let r := qs_inc_epoch_reset_previous w in
  word_wf r /\ qs_get_epoch r = qe_advance qe_advance_default_by (qs_get_epoch w) /\
  qs_get_thread_count r = qs_get_thread_count w /\ qs_get_threads_in_previous_epoch r = qs_get_thread_count r.
Proof.
  intros Wf _. destruct (word_fields w) as [[e t] p] eqn:F. destruct Wf as [W I].
  destruct (bridge_inc_epoch_reset_previous w e t p W F) as [W' F']. cbv zeta.
  destruct (bridge_getters _ _ _ _ W F) as (-> & -> & _). destruct (bridge_getters _ _ _ _ W' F') as (-> & -> & -> & _).
  destruct (word_sum_fields w e t p W F) as (u & He & _).
  rewrite bridge_epoch_advance by lia. split; [|repeat split; auto].
  apply (fields_wf _ _ _ _ W' F'). lia.
Qed.

(* ------------------------------------------------------------------ *)
(** * 4. the model's (q_ep, q_T, q_P) updates are the word functions *)

(** the state word of a model state *)
Definition qword (s : qstate) : Z := word_make (q_ep s) (q_T s) (q_P s).
Definition qproj (s : qstate) : Z * Z * Z := (q_ep s, q_T s, q_P s).
Definition q_fields_ok (s : qstate) : Prop := fields_ok (q_ep s) (q_T s) (q_P s).

Lemma qword_fields s : q_fields_ok s -> word64 (qword s) /\ word_fields (qword s) = qproj s.
Proof. apply fields_make. Qed.

(** the initial word: zero-initialised, = make_from_epoch(qsbr_epoch{0}) *)
Theorem model_init n : qword (qinit n) = 0 /\ qs_make_from_epoch 0 = 0.
Proof. split; reflexivity. Qed.

(** the reads the model does are the getters: [q_ep s] is [get_epoch], [q_T s <? 2] is [single_thread_mode] *)
Theorem model_reads s : q_fields_ok s ->
  qs_get_epoch (qword s) = q_ep s /\ qs_get_thread_count (qword s) = q_T s /\
  qs_get_threads_in_previous_epoch (qword s) = q_P s /\ qs_single_thread_mode (qword s) = (q_T s <? 2).
Proof. apply bridge_getters_make. Qed.

(** the thread-local condition under which a thread leaves the previous epoch
    ([remove_thread_from_old_epoch] in unregister_thread; in quiescent: the
    first quiescent state the thread reports in the current epoch) *)
Definition leaves_prev (s : qstate) (t : tid) : bool :=
  let x := get_thr s t in negb (t_lsq x =? q_ep s) || (t_qs x =? 0).

(** *** projections of the model's calls on (q_ep, q_T, q_P) *)
Lemma register_proj s t : qproj (fst (q_register s t)) = (q_ep s, q_T s + 1, q_P s + 1).
Proof. reflexivity. Qed.

Lemma adv_seen_keeps x stm e nc : let '(x', _, _) := adv_seen x stm e nc in t_lsq x' = t_lsq x /\ t_qs x' = t_qs x.
Proof. unfold adv_seen, exec_prev. destruct (e =? t_ls x); [auto|]. destruct stm; cbn; auto. Qed.

Lemma retire_proj s t p : qproj (fst (q_retire s t p)) = qproj s.
Proof.
  unfold q_retire. cbv zeta.
  destruct (q_T s <? 2).
  - destruct (adv_seen _ _ _ _) as [[x' f] b]. reflexivity.
  - destruct (negb _).
    + destruct (adv_seen _ _ _ _) as [[x' f] b]. reflexivity.
    + reflexivity.
Qed.

Lemma quiescent_proj s t : qproj (fst (q_quiescent s t)) =
  if leaves_prev s t then (if 1 <? q_P s then (q_ep s, q_T s, q_P s - 1) else (ep_adv (q_ep s), q_T s, q_T s))
  else qproj s.
Proof.
  unfold q_quiescent, leaves_prev. cbv zeta.
  change (get_thr (with_ghost s (ghost_passed (q_wait s) t)) t) with (get_thr s t).
  change (q_ep (with_ghost s (ghost_passed (q_wait s) t))) with (q_ep s).
  change (q_T (with_ghost s (ghost_passed (q_wait s) t))) with (q_T s).
  change (q_P (with_ghost s (ghost_passed (q_wait s) t))) with (q_P s).
  pose proof (adv_seen_keeps (get_thr s t) (q_T s <? 2) (q_ep s) []) as K.
  destruct (adv_seen _ _ _ _) as [[x1 f1] b1]. destruct K as [K1 K2].
  rewrite <- K1, <- K2. rewrite (Z.eqb_sym (t_lsq x1)).
  destruct (q_ep s =? t_lsq x1); cbn [negb orb t_qs].
  - destruct (t_qs x1 =? 0).
    + destruct (1 <? q_P s); [reflexivity|].
      destruct (handle_orphans _ _) as [[op oc] fo]. destruct (exec_prev _ _ _ _) as [x4 f2]. reflexivity.
    + reflexivity.
  - change (0 =? 0) with true. cbv iota.
    destruct (1 <? q_P s); [reflexivity|].
    destruct (handle_orphans _ _) as [[op oc] fo]. destruct (exec_prev _ _ _ _) as [x4 f2]. reflexivity.
Qed.

Lemma unregister_proj s t : qproj (fst (q_unregister s t)) =
  if q_P s =? 0 then (q_ep s, q_T s - 1, q_P s)
  else if leaves_prev s t && (q_P s =? 1) then (ep_adv (q_ep s), q_T s - 1, q_T s - 1)
  else if leaves_prev s t then (q_ep s, q_T s - 1, q_P s - 1)
  else (q_ep s, q_T s - 1, q_P s).
Proof.
  unfold q_unregister, leaves_prev. cbv zeta.
  change (get_thr (with_ghost s (ghost_passed (q_wait s) t)) t) with (get_thr s t).
  change (q_ep (with_ghost s (ghost_passed (q_wait s) t))) with (q_ep s).
  change (q_T (with_ghost s (ghost_passed (q_wait s) t))) with (q_T s).
  change (q_P (with_ghost s (ghost_passed (q_wait s) t))) with (q_P s).
  destruct (q_P s =? 0); [reflexivity|].
  destruct (negb (t_lsq (get_thr s t) =? q_ep s) || (t_qs (get_thr s t) =? 0)); destruct (q_P s =? 1); cbn [andb];
    try destruct (handle_orphans _ _) as [[op oc] fo]; destruct (adv_seen _ _ _ _) as [[x1 f1] b1];
    try destruct (exec_prev _ _ _ _) as [x2 f2]; reflexivity.
Qed.

(** *** the same updates on the packed word *)

Lemma qword_proj s e t p : qproj s = (e, t, p) -> qword s = word_make e t p.
Proof. unfold qproj, qword. intros H. inversion H. reflexivity. Qed.

(** register_thread: inc_thread_count_and_threads_in_previous_epoch *)
Theorem model_register s t : q_fields_ok s -> q_T s + 1 <= max_threads ->
  qword (fst (q_register s t)) = qs_inc_thread_count_and_threads_in_previous_epoch (qword s).
Proof.
  intros Ok H. rewrite (qword_proj _ _ _ _ (register_proj s t)).
  unfold qs_inc_thread_count_and_threads_in_previous_epoch, qword. cbv zeta. unfold q_fields_ok in Ok. nums. lia.
Qed.

(** quiescent: nothing, or fetch_sub(1), or fetch_sub(1) followed by change_epoch's
    inc_epoch_reset_previous.  [1 <= q_P s]: the assert after the fetch_sub. *)
Theorem model_quiescent s t : q_fields_ok s -> 1 <= q_P s ->
  qword (fst (q_quiescent s t)) =
  if leaves_prev s t then (if 1 <? q_P s then qword s - 1 else qs_inc_epoch_reset_previous (qword s - 1))
  else qword s.
Proof.
  intros Ok HP. pose proof (quiescent_proj s t) as Pj. destruct (qword_fields s Ok) as [W F].
  destruct (leaves_prev s t).
  - destruct (fields_fetch_sub_1 (qword s) _ _ _ W F ltac:(lia)) as [W1 F1].
    destruct (1 <? q_P s) eqn:E1.
    + rewrite (qword_proj _ _ _ _ Pj). unfold qword, word_make. lia.
    + assert (q_P s = 1) as P1 by lia.
      rewrite (inc_epoch_reset_previous_make _ _ _ _ W1 F1). apply (qword_proj _ _ _ _ Pj).
  - apply (qword_proj _ _ _ _ Pj).
Qed.

(** unregister_thread.  [1 <= q_T s]: the assert [get_thread_count(word) > 0]. *)
Theorem model_unregister s t : q_fields_ok s -> 1 <= q_T s ->
  qword (fst (q_unregister s t)) =
  if q_P s =? 0 then qs_dec_thread_count (qword s)
  else if leaves_prev s t && (q_P s =? 1)
       then qs_dec_thread_count_threads_in_previous_epoch_maybe_advance (qword s) true
  else if leaves_prev s t
       then qs_dec_thread_count_threads_in_previous_epoch_maybe_advance (qword s) false
  else qs_dec_thread_count (qword s).
Proof.
  intros Ok HT. pose proof (unregister_proj s t) as Pj. destruct (qword_fields s Ok) as [W F].
  assert (Dec : qs_dec_thread_count (qword s) = word_make (q_ep s) (q_T s - 1) (q_P s)).
  { unfold qs_dec_thread_count, qword. cbv zeta. unfold q_fields_ok in Ok. nums. lia. }
  rewrite !bridge_maybe_advance.
  destruct (q_P s =? 0) eqn:E0.
  - rewrite Dec. apply (qword_proj _ _ _ _ Pj).
  - destruct (leaves_prev s t); cbn [andb] in *.
    + destruct (q_P s =? 1) eqn:E1.
      * rewrite (inc_epoch_dec_thread_count_reset_previous_make _ _ _ _ W F ltac:(lia)).
        apply (qword_proj _ _ _ _ Pj).
      * rewrite (qword_proj _ _ _ _ Pj).
        unfold qs_dec_thread_count_and_threads_in_previous_epoch, qword. cbv zeta. unfold q_fields_ok in Ok. nums. lia.
    + rewrite Dec. apply (qword_proj _ _ _ _ Pj).
Qed.

(** the one-step epoch change on thread exit ([inc_epoch_dec_thread_count_reset_previous]) equals what
    this tree's unregister_thread does in two steps: leave the old epoch like quiescent()
    (fetch_sub + change_epoch's [inc_epoch_reset_previous]), then leave the new epoch *)
Theorem unregister_advance_two_steps w e t : word64 w -> word_fields w = (e, t, 1) -> 0 < t ->
  qs_inc_epoch_dec_thread_count_reset_previous w =
  qs_dec_thread_count_and_threads_in_previous_epoch (qs_inc_epoch_reset_previous (w - 1)).
Proof.
  intros W F H.
  rewrite (inc_epoch_dec_thread_count_reset_previous_make w e t 1 W F H).
  destruct (fields_fetch_sub_1 w e t 1 W F ltac:(lia)) as [W1 F1].
  rewrite (inc_epoch_reset_previous_make _ _ _ _ W1 F1).
  destruct (word_sum_fields w e t 1 W F) as (u & He & Ht & _). pose proof (ep_adv_range e) as Ha.
  unfold qs_dec_thread_count_and_threads_in_previous_epoch. cbv zeta. nums. lia.
Qed.

(** retire (on_next_epoch_deallocate) reads the word and leaves it alone *)
Theorem model_retire s t p : qword (fst (q_retire s t p)) = qword s.
Proof. apply (qword_proj _ _ _ _ (retire_proj s t p)). Qed.
