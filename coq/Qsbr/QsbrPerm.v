(** Exactly-once: every call only moves pointers between lists or frees them. *)
From Coq Require Import List ZArith Bool Lia Permutation Arith.
From Unodb Require Import Qsbr.QsbrModel Qsbr.QsbrBase.
Import ListNotations.
Local Open Scope Z_scope.

Ltac perm_fin s t a Ht :=
  cbn [fst snd];
  rewrite !pending_eq;
  unfold set_thr, with_ghost; cbn [q_thr q_oprev q_ocur q_ep q_T q_P q_wait q_gep t_prev t_cur];
  try match goal with |- context [set_nth_thr t ?X (q_thr s)] =>
    let H := fresh "Hset" in
    pose proof (co_tl_set (q_thr s) t X a Ht) as H; unfold lists in H; cbn [t_prev t_cur] in H end;
  rewrite ?co_app, ?co_push, ?co_nil, ?co_app in *; cbn [co count_occ concat app] in *; rewrite ?co_app in *; try lia.

Ltac split_ifs :=
  repeat match goal with |- context [if ?c then _ else _] => destruct c; cbn [negb andb orb t_lsq t_qs t_reg t_ls t_prev t_cur] end.

Lemma perm_quiescent : forall s t a, (t < length (q_thr s))%nat ->
  (co (pending (fst (q_quiescent s t))) a + co (snd (q_quiescent s t)) a = co (pending s) a)%nat.
Proof.
  intros s t a Ht. unfold q_quiescent, adv_seen, exec_prev, handle_orphans, get_thr.
  cbn [q_thr q_ep q_T q_P with_ghost].
  destruct (q_ep s =? t_ls _); destruct (q_T s <? 2); cbn [negb t_lsq t_qs];
  split_ifs.
  all: perm_fin s t a Ht.
Qed.

Lemma perm_unregister : forall s t a, (t < length (q_thr s))%nat ->
  (co (pending (fst (q_unregister s t))) a + co (snd (q_unregister s t)) a = co (pending s) a)%nat.
Proof.
  intros s t a Ht. unfold q_unregister, adv_seen, exec_prev, handle_orphans, get_thr.
  cbn [q_thr q_ep q_T q_P q_oprev q_ocur with_ghost].
  destruct (q_P s =? 0); [perm_fin s t a Ht|].
  destruct (q_ep s =? t_ls _); destruct (q_T s <? 2); cbn [negb t_lsq t_qs];
  split_ifs.
  all: perm_fin s t a Ht.
Qed.

Lemma perm_retire : forall s t p a, (t < length (q_thr s))%nat ->
  (co (pending (fst (q_retire s t p))) a + co (snd (q_retire s t p)) a = co (pending s) a + co [p] a)%nat.
Proof.
  intros s t p a Ht. unfold q_retire, adv_seen, exec_prev, get_thr.
  set (x := nth t (q_thr s) thr0).
  destruct (q_T s <? 2); destruct (Z.eqb_spec (q_ep s) (t_ls x)); destruct (Z.eqb_spec (t_ls x) (q_ep s));
    try congruence; cbn [negb].
  all: subst x; perm_fin s t a Ht.
Qed.

Lemma perm_register : forall s t a, (t < length (q_thr s))%nat ->
  t_reg (get_thr s t) = false -> lists (get_thr s t) = [] ->
  (co (pending (fst (q_register s t))) a + co (snd (q_register s t)) a = co (pending s) a)%nat.
Proof.
  intros s t a Ht Hr He. unfold q_register, get_thr in *.
  unfold lists in He. apply app_eq_nil in He. destruct He as [He1 He2].
  perm_fin s t a Ht. rewrite He1, He2 in Hset. cbn [co count_occ] in Hset. lia.
Qed.
