(** Basic list / counting lemmas for the QSBR model proofs. *)
From Coq Require Import List ZArith Bool Lia Permutation Arith.
From Unodb Require Import Qsbr.QsbrModel.
Import ListNotations.
Local Open Scope Z_scope.

Definition b2z (b : bool) : Z := if b then 1 else 0.

Fixpoint cnt (f : thr -> bool) (l : list thr) : Z :=
  match l with [] => 0 | x :: l' => b2z (f x) + cnt f l' end.

Lemma cnt_filter : forall f l, cnt f l = Z.of_nat (length (filter f l)).
Proof.
  induction l as [|x l IH]; [reflexivity|].
  cbn [cnt filter]. destruct (f x); cbn [b2z length]; lia.
Qed.

Lemma cnt_nonneg : forall f l, 0 <= cnt f l.
Proof. intros. rewrite cnt_filter. lia. Qed.

Lemma cnt_le_length : forall f l, cnt f l <= Z.of_nat (length l).
Proof.
  induction l as [|x l IH]; cbn [cnt length]; [lia|]. destruct (f x); cbn [b2z]; lia.
Qed.

Lemma length_set_nth : forall l i x, length (set_nth_thr i x l) = length l.
Proof.
  induction l as [|y l IH]; intros [|i] x; cbn [set_nth_thr length]; auto.
Qed.

Lemma nth_set_nth : forall l i j x, (i < length l)%nat ->
  nth j (set_nth_thr i x l) thr0 = if Nat.eqb j i then x else nth j l thr0.
Proof.
  induction l as [|y l IH]; intros i j x Hi; cbn [length] in Hi; [lia|].
  destruct i as [|i]; destruct j as [|j]; cbn [set_nth_thr nth Nat.eqb]; auto.
  apply IH. lia.
Qed.

Lemma nth_set_nth_same : forall l i x, (i < length l)%nat -> nth i (set_nth_thr i x l) thr0 = x.
Proof. intros. rewrite nth_set_nth by auto. now rewrite Nat.eqb_refl. Qed.

Lemma nth_set_nth_other : forall l i j x, j <> i -> nth j (set_nth_thr i x l) thr0 = nth j l thr0.
Proof.
  induction l as [|y l IH]; intros i j x Hne.
  - destruct i; reflexivity.
  - destruct i as [|i]; destruct j as [|j]; cbn [set_nth_thr nth]; auto; try congruence.
Qed.

Lemma cnt_set_nth : forall f l i x, (i < length l)%nat ->
  cnt f (set_nth_thr i x l) = cnt f l - b2z (f (nth i l thr0)) + b2z (f x).
Proof.
  induction l as [|y l IH]; intros i x Hi; cbn [length] in Hi; [lia|].
  destruct i as [|i]; cbn [set_nth_thr cnt nth]; [lia|].
  rewrite IH by lia. lia.
Qed.

Lemma cnt_ext_idx : forall f g l,
  (forall u, (u < length l)%nat -> f (nth u l thr0) = g (nth u l thr0)) -> cnt f l = cnt g l.
Proof.
  induction l as [|y l IH]; intros H; [reflexivity|].
  cbn [cnt]. pose proof (H O) as H0. cbn [nth length] in H0. rewrite H0 by lia.
  rewrite IH; [reflexivity|]. intros u Hu. apply (H (S u)). cbn [length]. lia.
Qed.

Lemma cnt_zero_all : forall f l, cnt f l = 0 ->
  forall u, (u < length l)%nat -> f (nth u l thr0) = false.
Proof.
  induction l as [|y l IH]; intros H u Hu; cbn [length] in Hu; [lia|].
  cbn [cnt] in H. pose proof (cnt_nonneg f l).
  destruct u as [|u]; cbn [nth].
  - destruct (f y); cbn [b2z] in H; [lia|reflexivity].
  - apply IH; [|lia]. destruct (f y); cbn [b2z] in H; lia.
Qed.

Lemma cnt_one_unique : forall f l t, cnt f l = 1 -> (t < length l)%nat ->
  f (nth t l thr0) = true -> f thr0 = false ->
  forall u, u <> t -> f (nth u l thr0) = false.
Proof.
  intros f l t H1 Ht Hf H0 u Hne.
  destruct (Nat.ltb_spec u (length l)) as [Hu|Hu].
  - assert (Hz : cnt f (set_nth_thr t thr0 l) = 0).
    { rewrite cnt_set_nth by auto. rewrite Hf, H0. cbn [b2z]. lia. }
    pose proof (cnt_zero_all _ _ Hz u) as H. rewrite length_set_nth in H.
    specialize (H Hu). now rewrite nth_set_nth_other in H by auto.
  - rewrite nth_overflow by lia. exact H0.
Qed.

(** remove_tid *)
Lemma in_remove_tid : forall t l v, In v (remove_tid t l) <-> In v l /\ v <> t.
Proof.
  induction l as [|x l IH]; intros v; cbn [remove_tid In]; [tauto|].
  destruct (Nat.eqb_spec x t) as [->|Hne].
  - rewrite IH. split; [tauto|]. intros [[->|H] Hn]; [congruence|tauto].
  - cbn [In]. rewrite IH. split.
    + intros [->|[H Hn]]; auto.
    + intros [[->|H] Hn]; auto.
Qed.

Lemma list_empty_no_in : forall (A : Type) (l : list A), (forall v, ~ In v l) -> l = [].
Proof. intros A [|x l] H; [reflexivity|]. exfalso. apply (H x). now left. Qed.

(** wait_of *)
Lemma wait_of_passed : forall w t p, wait_of (ghost_passed w t) p = remove_tid t (wait_of w p).
Proof.
  induction w as [|[q ws] w IH]; intros t p; cbn [ghost_passed map wait_of fst snd]; [reflexivity|].
  destruct (Z.eqb q p); [reflexivity|]. apply IH.
Qed.

Lemma wait_of_drop : forall w f p, ~ In p f -> wait_of (ghost_drop w f) p = wait_of w p.
Proof.
  induction w as [|[q ws] w IH]; intros f p Hn; cbn [ghost_drop wait_of]; [reflexivity|].
  destruct (existsb (Z.eqb q) f) eqn:He.
  - destruct (Z.eqb_spec q p) as [->|Hne]; [|apply IH; auto].
    exfalso. apply existsb_exists in He. destruct He as [y [Hy Heq]].
    apply Z.eqb_eq in Heq. subst. auto.
  - cbn [wait_of]. destruct (Z.eqb q p); [reflexivity|]. apply IH; auto.
Qed.

(** count_occ based permutation reasoning *)
Definition co (l : list ptr) (a : ptr) : nat := count_occ Z.eq_dec l a.

Lemma co_app : forall l1 l2 a, co (l1 ++ l2) a = (co l1 a + co l2 a)%nat.
Proof. intros. apply count_occ_app. Qed.

Lemma co_nil : forall a, co [] a = O.
Proof. reflexivity. Qed.

Lemma perm_co : forall l1 l2, (forall a, co l1 a = co l2 a) -> Permutation l1 l2.
Proof. intros. apply (Permutation_count_occ Z.eq_dec). assumption. Qed.

Lemma co_perm : forall l1 l2, Permutation l1 l2 -> forall a, co l1 a = co l2 a.
Proof. intros l1 l2 H. apply (Permutation_count_occ Z.eq_dec). assumption. Qed.

Lemma co_in : forall l a, In a l <-> (co l a > 0)%nat.
Proof. intros. apply count_occ_In. Qed.

Lemma co_notin : forall l a, ~ In a l <-> co l a = O.
Proof. intros. apply count_occ_not_In. Qed.

Definition lists (x : thr) : list ptr := t_prev x ++ t_cur x.
Definition tl (l : list thr) : list ptr := concat (map (fun x => t_prev x ++ t_cur x) l).

Lemma pending_eq : forall s, pending s = tl (q_thr s) ++ concat (q_oprev s) ++ concat (q_ocur s).
Proof. reflexivity. Qed.

Lemma co_tl_set : forall l i x a, (i < length l)%nat ->
  (co (tl (set_nth_thr i x l)) a + co (lists (nth i l thr0)) a = co (tl l) a + co (lists x) a)%nat.
Proof.
  unfold tl, lists.
  induction l as [|y l IH]; intros i x a Hi; cbn [length] in Hi; [lia|].
  destruct i as [|i]; cbn [set_nth_thr map concat nth]; rewrite !co_app.
  - lia.
  - specialize (IH i x a). rewrite !co_app in IH. lia.
Qed.

Lemma co_push : forall v l a, co (concat (push_nonempty v l)) a = (co v a + co (concat l) a)%nat.
Proof.
  intros [|y v] l a; cbn [push_nonempty]; [reflexivity|].
  cbn [concat]. now rewrite co_app.
Qed.

Lemma in_push : forall v l a, In a (concat (push_nonempty v l)) <-> In a v \/ In a (concat l).
Proof. intros. rewrite !co_in, co_push. lia. Qed.

Lemma in_tl : forall l u p, In p (lists (nth u l thr0)) -> In p (tl l).
Proof.
  unfold tl, lists. induction l as [|y l IH]; intros u p H.
  - destruct u; cbn in H; tauto.
  - cbn [map concat]. apply in_or_app. destruct u as [|u]; cbn [nth] in H; [left; auto|right; eauto].
Qed.

Lemma in_tl_inv : forall l p, In p (tl l) -> exists u, (u < length l)%nat /\ In p (lists (nth u l thr0)).
Proof.
  unfold tl, lists. induction l as [|y l IH]; intros p H; cbn [map concat] in H; [contradiction|].
  apply in_app_or in H. destruct H as [H|H].
  - exists O. cbn [length nth]. split; [lia|auto].
  - destruct (IH p H) as [u [Hu Hin]]. exists (S u). cbn [length nth]. split; [lia|auto].
Qed.

Lemma tl_all_empty : forall l, (forall u, lists (nth u l thr0) = []) -> tl l = [].
Proof.
  intros l H. apply list_empty_no_in. intros p Hp.
  apply in_tl_inv in Hp. destruct Hp as [u [_ Hin]]. rewrite H in Hin. contradiction.
Qed.
