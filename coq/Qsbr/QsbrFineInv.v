(** Invariant of the fine-grained QSBR model: definitions and frame lemmas. *)
From Coq Require Import List ZArith Bool Lia Arith.
From Unodb Require Import Qsbr.QsbrModel Qsbr.QsbrBase Qsbr.QsbrInv Qsbr.QsbrFine Qsbr.QsbrFineBase.
Import ListNotations.
Local Open Scope Z_scope.

Ltac Zify.zify_post_hook ::= Z.div_mod_to_equations.

Definition is_reg (o : fop) : bool := match o with OpStart | OpResume => true | _ => false end.
Definition is_unreg (o : fop) : bool := match o with OpPause | OpExit => true | _ => false end.
Definition is_qr (o : fop) : bool := match o with OpQuiescent | OpRetire => true | _ => false end.
Definition is_q (o : fop) : bool := match o with OpQuiescent => true | _ => false end.

(** caller and epoch parameter of remove_thread_from_previous_epoch / change_epoch *)
Definition pc_call (p : pc) : option (caller * Z) :=
  match p with
  | PRmFsub c g | PChXPrev c g _ | PChXCur c g _ _ | PChMove c g _
  | PChAppend c g _ _ | PChLoad c g | PChCas c g _ => Some (c, g)
  | _ => None
  end.

(** the thread has done the last fetch_sub of the epoch and not yet the epoch CAS *)
Definition chg_pc (p : pc) : bool :=
  match p with
  | PChXPrev _ _ _ | PChXCur _ _ _ _ | PChMove _ _ _ | PChAppend _ _ _ _ | PChLoad _ _ | PChCas _ _ _ => true
  | _ => false
  end.

(** ... and has already taken the previous-interval orphans *)
Definition late_pc (p : pc) : bool :=
  match p with
  | PChXCur _ _ _ _ | PChMove _ _ _ | PChAppend _ _ _ _ | PChLoad _ _ | PChCas _ _ _ => true
  | _ => false
  end.

(** an epoch changer that will free the orphans at once (single thread mode seen by the fetch_sub) *)
Definition sole_pc (p : pc) : bool :=
  match p with PChXPrev _ _ true | PChXCur _ _ true _ => true | _ => false end.

Definition is_pret (p : pc) : bool := match p with PRet => true | _ => false end.

Definition unqU (e : Z) (u : uframe) : bool := negb (u_te u =? e) || (u_qs u =? 0).

(** counted in the thread count of the state word *)
Definition cntT (x : fthr) : bool :=
  match ft_pc x with
  | PIdle => t_reg (ft x)
  | PRet => negb (is_unreg (ft_op x))
  | PRegLoad | PRegCas _ => false
  | POLoad _ | POCas _ _ => false
  | _ => true
  end.

(** counted in the threads-in-previous-epoch count, the epoch being [e] *)
Definition cntP (e : Z) (x : fthr) : bool :=
  match ft_pc x with
  | PIdle => t_reg (ft x) && unq e (ft x)
  | PRet => if is_reg (ft_op x) then true else if is_unreg (ft_op x) then false else unq e (ft x)
  | PRegSpin oe => negb (oe =? e)
  | PRetObs _ | PRetLoad _ | PQLoad => unq e (ft x)
  | PRmFsub _ _ => true
  | PULoad u | PUCas u => unqU e u
  | _ => false
  end.

(** program counter, operation and registered flag fit together *)
Definition wf_pc (x : fthr) : bool :=
  let r := t_reg (ft x) in
  let o := ft_op x in
  let callok := fun c => match c with CallQ _ => is_q o && r | CallU _ => is_unreg o && negb r end in
  match ft_pc x with
  | PIdle => true
  | PRet => Bool.eqb r (is_qr o)
  | PRegLoad | PRegCas _ | PRegSpin _ => is_reg o && negb r
  | PRetObs _ | PRetLoad _ => fop_eqb o OpRetire && r
  | PQLoad => is_q o && r
  | PRmFsub c _ | PChXPrev c _ _ | PChXCur c _ _ _ | PChMove c _ _
  | PChAppend c _ _ _ | PChLoad c _ | PChCas c _ _ => callok c
  | PULoad _ | PUCas _ | POLoad _ | POCas _ _ => is_unreg o && negb r
  end.

(** cannot hold references and will not before the next epoch change *)
Definition quiet (y : fthr) : bool :=
  negb (t_reg (ft y)) && negb (is_reg (ft_op y) && is_pret (ft_pc y)).

(** the call acts on a single-thread-mode flag computed from a word loaded earlier *)
Definition stale_stm (p : pc) : bool :=
  match pc_call p with
  | Some (CallQ st, _) => sw_stm st
  | Some (CallU u, _) => sw_stm (u_old u)
  | None => false
  end.

(* ------------------------------------------------------------------ *)
(** * State-level notions *)

Definition fE (s : fstate) : Z := w_ep (f_w s).
Definition FW (s : fstate) (p : ptr) : list tid := wait_of (f_wait s) p.
Definition hr (s : fstate) (v : tid) : bool := holds_refs (get_fthr s v).
Definition cp (s : fstate) (v : tid) : bool := cntP (fE s) (get_fthr s v).

(** class 0: waiting set within the threads that may hold references;
    class 1: ... and are still counted in the current epoch;
    class 2 and above: empty *)
Definition fcls (s : fstate) (k : nat) (p : ptr) : Prop :=
  match k with
  | O => forall v, In v (FW s p) -> hr s v = true
  | S O => forall v, In v (FW s p) -> hr s v = true /\ cp s v = true
  | _ => FW s p = []
  end.

Definition lsk (e : Z) (x : fthr) : nat := if e =? t_ls (ft x) then 0%nat else 1%nat.

Definition late (s : fstate) : Prop := exists v, late_pc (ft_pc (get_fthr s v)) = true.

(** facts about one thread that depend on the epoch only *)
Definition thr_loc (e : Z) (x : fthr) : Prop :=
  wf_pc x = true /\ 0 <= t_qs (ft x) /\
  (is_pret (ft_pc x) = true -> is_reg (ft_op x) = true -> t_qs (ft x) = 0) /\
  match pc_call (ft_pc x) with
  | Some (CallQ _, g) => g = e /\ t_lsq (ft x) = e /\ t_qs (ft x) = 0
  | Some (CallU u, g) => g = e /\ w_ep (u_old u) = e
  | None => True
  end.

(** requests held in the locals of a call *)
Definition pc_ok (s : fstate) (u : tid) (p : pc) : Prop :=
  match p with
  | PRetLoad q => ~ In u (FW s q) /\ fcls s 0 q
  | PChXCur _ _ _ tp => forall q, In q (ol_reqs tp) -> fcls s 2 q
  | PChMove _ _ tc | PChAppend _ _ tc _ => forall q, In q (ol_reqs tc) -> fcls s 0 q
  | _ => True
  end.

Record thr_ok (s : fstate) (u : tid) (x : fthr) : Prop := {
  k_cur : forall p, In p (t_cur (ft x)) -> ~ In u (FW s p) /\ fcls s (lsk (fE s) x) p;
  k_prev : forall p, In p (t_prev (ft x)) -> ~ In u (FW s p) /\ fcls s (S (lsk (fE s) x)) p;
  k_free : forall p, In p (ft_free x) -> fcls s 2 p;
  k_pc : pc_ok s u (ft_pc x);
  k_stm : stale_stm (ft_pc x) = true ->
          forall p, In p (t_cur (ft x) ++ t_prev (ft x)) -> fcls s 2 p
}.

Record Inv (s : fstate) : Prop := {
  v_ep : 0 <= fE s < 4;
  v_T : w_T (f_w s) = fcnt cntT (f_thr s);
  v_P : w_P (f_w s) = fcnt (cntP (fE s)) (f_thr s);
  v_chg : forall u, chg_pc (ft_pc (get_fthr s u)) = true ->
          w_P (f_w s) = 0 /\ forall v, chg_pc (ft_pc (get_fthr s v)) = true -> v = u;
  v_loc : forall u, thr_loc (fE s) (get_fthr s u);
  v_sole : forall u, sole_pc (ft_pc (get_fthr s u)) = true ->
           forall v, v <> u -> quiet (get_fthr s v) = true;
  v_thr : forall u, thr_ok s u (get_fthr s u);
  v_ocur : forall p, In p (ol_reqs (f_ocur s)) -> fcls s 0 p;
  v_oprev : forall p, In p (ol_reqs (f_oprev s)) -> fcls s 0 p /\ (fcls s 1 p \/ late s)
}.

(* ------------------------------------------------------------------ *)
(** * Classes *)

Lemma fcls_S : forall s k p, fcls s (S k) p -> fcls s k p.
Proof.
  intros s [|[|k]] p H; cbn [fcls] in *.
  - intros v Hv. now destruct (H v Hv).
  - intros v Hv. rewrite H in Hv. contradiction.
  - exact H.
Qed.

Lemma fcls_le : forall s k k' p, (k <= k')%nat -> fcls s k' p -> fcls s k p.
Proof. intros s k k' p Hle. induction Hle; auto. intros H. apply IHHle. now apply fcls_S. Qed.

Lemma fcls_nil : forall s k p, FW s p = [] -> fcls s k p.
Proof. intros s k p H. apply (fcls_le s k (S (S k))); [lia|]. exact H. Qed.

Lemma fcls_0 : forall s k p, fcls s k p -> fcls s 0 p.
Proof. intros s k p H. apply (fcls_le s 0 k); [lia|exact H]. Qed.

(* ------------------------------------------------------------------ *)
(** * Pending requests by location *)

Definition thr_reqs (x : fthr) : list ptr :=
  t_prev (ft x) ++ t_cur (ft x) ++ pc_reqs (ft_pc x) ++ ft_free x.

Lemma fpending_eq : forall s,
  fpending s = concat (map thr_reqs (f_thr s)) ++ ol_reqs (f_oprev s) ++ ol_reqs (f_ocur s).
Proof. reflexivity. Qed.

Lemma in_concat_nth : forall (l : list fthr) u p, In p (thr_reqs (nth u l fthr0)) ->
  In p (concat (map thr_reqs l)).
Proof.
  induction l as [|x l IH]; intros u p H.
  - destruct u; cbn in H; contradiction.
  - cbn [map concat]. apply in_or_app. destruct u as [|u]; cbn [nth] in H; [now left|right; eauto].
Qed.

Lemma in_fpending_thr : forall s u p, In p (thr_reqs (get_fthr s u)) -> In p (fpending s).
Proof.
  intros s u p H. rewrite fpending_eq. apply in_or_app. left. eapply in_concat_nth; eauto.
Qed.

Lemma in_fpending_oprev : forall s p, In p (ol_reqs (f_oprev s)) -> In p (fpending s).
Proof. intros s p H. rewrite fpending_eq. apply in_or_app. right. apply in_or_app. now left. Qed.

Lemma in_fpending_ocur : forall s p, In p (ol_reqs (f_ocur s)) -> In p (fpending s).
Proof. intros s p H. rewrite fpending_eq. apply in_or_app. right. apply in_or_app. now right. Qed.

Lemma in_reqs_cur : forall x p, In p (t_cur (ft x)) -> In p (thr_reqs x).
Proof. intros. unfold thr_reqs. apply in_or_app. right. apply in_or_app. now left. Qed.
Lemma in_reqs_prev : forall x p, In p (t_prev (ft x)) -> In p (thr_reqs x).
Proof. intros. unfold thr_reqs. apply in_or_app. now left. Qed.
Lemma in_reqs_pc : forall x p, In p (pc_reqs (ft_pc x)) -> In p (thr_reqs x).
Proof. intros. unfold thr_reqs. apply in_or_app. right. apply in_or_app. right. apply in_or_app. now left. Qed.
Lemma in_reqs_free : forall x p, In p (ft_free x) -> In p (thr_reqs x).
Proof. intros. unfold thr_reqs. apply in_or_app. right. apply in_or_app. right. apply in_or_app. now right. Qed.

(* ------------------------------------------------------------------ *)
(** * Steps that keep the epoch *)

Record StepSame (s s1 : fstate) (t : tid) (keep : ptr -> Prop) : Prop := {
  ss_ep : fE s1 = fE s;
  ss_oth : forall u, u <> t -> get_fthr s1 u = get_fthr s u;
  ss_W : forall p, keep p -> forall v, In v (FW s1 p) -> In v (FW s p);
  ss_t : (forall p, keep p -> ~ In t (FW s1 p)) \/ hr s t = false \/
         (hr s1 t = true /\ (cp s t = true -> cp s1 t = true));
  ss_late : late_pc (ft_pc (get_fthr s t)) = true -> late_pc (ft_pc (get_fthr s1 t)) = true
}.

Lemma same_cls : forall s s1 t keep k p, StepSame s s1 t keep -> keep p -> fcls s k p -> fcls s1 k p.
Proof.
  intros s s1 t keep k p SS Hk H. destruct SS as [He Ho HW Ht _].
  pose proof (fcls_0 _ _ _ H) as H0. cbn [fcls] in H0.
  assert (Hv : forall v, In v (FW s1 p) -> In v (FW s p) /\ (hr s v = true -> hr s1 v = true) /\
                 (cp s v = true -> cp s1 v = true)).
  { intros v Hv. pose proof (HW p Hk v Hv) as Hv0. split; auto.
    destruct (Nat.eq_dec v t) as [->|Hne].
    - destruct Ht as [Ht|[Ht|[Ht1 Ht2]]].
      + exfalso. eapply Ht; eauto.
      + rewrite (H0 t Hv0) in Ht. discriminate.
      + auto.
    - unfold hr, cp. rewrite He, Ho by auto. auto. }
  destruct k as [|[|k]]; cbn [fcls] in *.
  - intros v Hin. destruct (Hv v Hin) as [Hi [Hh _]]. auto.
  - intros v Hin. destruct (Hv v Hin) as [Hi [Hh Hc]]. destruct (H v Hi). auto.
  - apply list_empty_no_in. intros v Hin. destruct (Hv v Hin) as [Hi _]. rewrite H in Hi. contradiction.
Qed.

Lemma same_late : forall s s1 t keep, StepSame s s1 t keep -> late s -> late s1.
Proof.
  intros s s1 t keep SS [v Hv]. exists v. destruct (Nat.eq_dec v t) as [->|Hne].
  - now apply (ss_late _ _ _ _ SS).
  - now rewrite (ss_oth _ _ _ _ SS) by auto.
Qed.

Lemma same_notin : forall s s1 t keep u p, StepSame s s1 t keep -> keep p ->
  ~ In u (FW s p) -> ~ In u (FW s1 p).
Proof. intros s s1 t keep u p SS Hk Hn Hin. apply Hn. eapply (ss_W _ _ _ _ SS); eauto. Qed.

Lemma same_pc_ok : forall s s1 t keep u x, StepSame s s1 t keep ->
  (forall p, In p (thr_reqs x) -> keep p) -> pc_ok s u (ft_pc x) -> pc_ok s1 u (ft_pc x).
Proof.
  intros s s1 t keep u x SS Hk H.
  assert (Hk' : forall p, In p (pc_reqs (ft_pc x)) -> keep p).
  { intros p Hp. apply Hk. now apply in_reqs_pc. }
  destruct (ft_pc x); cbn [pc_ok pc_reqs] in *; auto.
  - destruct H as [Hn Hc]. assert (keep p) by (apply Hk'; now left). split.
    + eapply same_notin; eauto.
    + eapply same_cls; eauto.
  - intros q Hq. eapply same_cls; eauto.
  - intros q Hq. eapply same_cls; eauto.
  - intros q Hq. eapply same_cls; eauto.
Qed.

Lemma same_thr_ok : forall s s1 t keep u x, StepSame s s1 t keep ->
  (forall p, In p (thr_reqs x) -> keep p) -> thr_ok s u x -> thr_ok s1 u x.
Proof.
  intros s s1 t keep u x SS Hk [Hc Hp Hf Hpc Hs].
  constructor; rewrite ?(ss_ep _ _ _ _ SS).
  - intros p Hin. destruct (Hc p Hin). assert (keep p) by (apply Hk; now apply in_reqs_cur). split.
    + eapply same_notin; eauto.
    + eapply same_cls; eauto.
  - intros p Hin. destruct (Hp p Hin). assert (keep p) by (apply Hk; now apply in_reqs_prev). split.
    + eapply same_notin; eauto.
    + eapply same_cls; eauto.
  - intros p Hin. assert (keep p) by (apply Hk; now apply in_reqs_free). eapply same_cls; eauto.
  - eapply same_pc_ok; eauto.
  - intros Hst p Hin. eapply same_cls; eauto. apply Hk.
    apply in_app_or in Hin. destruct Hin; [now apply in_reqs_cur|now apply in_reqs_prev].
Qed.

(* ------------------------------------------------------------------ *)
(** * Small facts about the counting predicates *)

Lemma chg_cntT : forall x, chg_pc (ft_pc x) = true -> cntT x = true.
Proof. intros x H. unfold cntT. destruct (ft_pc x); cbn [chg_pc] in H; congruence. Qed.

Lemma chg_cntP : forall e x, chg_pc (ft_pc x) = true -> cntP e x = false.
Proof. intros e x H. unfold cntP. destruct (ft_pc x); cbn [chg_pc] in H; congruence. Qed.

Lemma sole_chg : forall p, sole_pc p = true -> chg_pc p = true.
Proof. intros p H. destruct p; cbn [sole_pc chg_pc] in *; congruence. Qed.

Lemma late_chg : forall p, late_pc p = true -> chg_pc p = true.
Proof. intros p H. destruct p; cbn [late_pc chg_pc] in *; congruence. Qed.

Lemma notT_quiet : forall x, wf_pc x = true -> cntT x = false -> quiet x = true.
Proof.
  intros x Hw Hc. unfold wf_pc, cntT, quiet in *.
  destruct (ft_pc x); cbn [is_pret] in *; try discriminate;
    destruct (t_reg (ft x)); destruct (ft_op x); cbn in *; congruence.
Qed.

Lemma cntT_fthr0 : cntT fthr0 = false.
Proof. reflexivity. Qed.
Lemma cntP_fthr0 : forall e, cntP e fthr0 = false.
Proof. reflexivity. Qed.

Lemma chg_lt : forall s u, chg_pc (ft_pc (get_fthr s u)) = true -> (u < length (f_thr s))%nat.
Proof.
  intros s u H. destruct (Nat.ltb_spec u (length (f_thr s))); auto.
  rewrite get_fthr_overflow in H by lia. discriminate.
Qed.

(** with P = 0 nobody is counted *)
Lemma P0_cntP : forall s u, Inv s -> w_P (f_w s) = 0 -> cp s u = false.
Proof.
  intros s u I HP. unfold cp, get_fthr.
  destruct (Nat.ltb_spec u (length (f_thr s))) as [Hlt|Hge].
  - apply fcnt_zero_all; auto. rewrite <- (v_P s I). exact HP.
  - rewrite nth_overflow by lia. reflexivity.
Qed.

Lemma chg_T1 : forall s u, Inv s -> chg_pc (ft_pc (get_fthr s u)) = true -> 1 <= w_T (f_w s).
Proof.
  intros s u I H. rewrite (v_T s I). apply fcnt_pos with (u := u); [reflexivity|].
  now apply chg_cntT.
Qed.

(* ------------------------------------------------------------------ *)
(** * Assembling the invariant after a step that keeps the epoch *)

Lemma inv_same : forall s s1 t x' keep,
  Inv s -> (t < length (f_thr s))%nat ->
  f_thr s1 = set_nth_fthr t x' (f_thr s) ->
  StepSame s s1 t keep ->
  (forall p, In p (fpending s) -> keep p) ->
  w_T (f_w s1) = w_T (f_w s) - b2z (cntT (get_fthr s t)) + b2z (cntT x') ->
  w_P (f_w s1) = w_P (f_w s) - b2z (cntP (fE s) (get_fthr s t)) + b2z (cntP (fE s) x') ->
  thr_loc (fE s) x' ->
  (chg_pc (ft_pc x') = true ->
     chg_pc (ft_pc (get_fthr s t)) = true \/ (0 < w_P (f_w s) /\ w_P (f_w s1) = 0)) ->
  (w_P (f_w s) = 0 -> 1 <= w_T (f_w s) -> cntP (fE s) (get_fthr s t) = false -> cntP (fE s) x' = false) ->
  (sole_pc (ft_pc x') = true ->
     sole_pc (ft_pc (get_fthr s t)) = true \/ (w_T (f_w s) = 1 /\ cntT (get_fthr s t) = true)) ->
  (w_P (f_w s) = 0 -> 1 <= w_T (f_w s) -> cntP (fE s) (get_fthr s t) = false ->
     quiet (get_fthr s t) = true -> quiet x' = true) ->
  thr_ok s1 t x' ->
  (forall p, In p (ol_reqs (f_ocur s1)) -> fcls s1 0 p) ->
  (forall p, In p (ol_reqs (f_oprev s1)) -> fcls s1 0 p /\ (fcls s1 1 p \/ late s1)) ->
  Inv s1.
Proof.
  intros s s1 t x' keep I Hlt Hthr SS Hkeep HT HP Hloc Hchg HP0 Hsole Hquiet Hok Hoc Hop.
  pose proof (ss_ep _ _ _ _ SS) as He. pose proof (ss_oth _ _ _ _ SS) as Hoth.
  assert (Hg : get_fthr s1 t = x') by (unfold get_fthr; rewrite Hthr; now apply fnth_set_nth_same).
  assert (Hchg_s : forall u, chg_pc (ft_pc (get_fthr s u)) = true ->
            w_P (f_w s) = 0 /\ 1 <= w_T (f_w s) /\ cntP (fE s) (get_fthr s t) = false).
  { intros u Hu. destruct (v_chg s I u Hu) as [HP' _]. split; auto. split; [eapply chg_T1; eauto|].
    apply (P0_cntP s t I HP'). }
  constructor.
  - rewrite He. apply (v_ep s I).
  - rewrite HT, Hthr, fcnt_set_nth by auto. rewrite (v_T s I). unfold get_fthr. lia.
  - rewrite He, HP, Hthr, fcnt_set_nth by auto. rewrite (v_P s I). unfold get_fthr. lia.
  - intros u Hu. destruct (Nat.eq_dec u t) as [->|Hne].
    + rewrite Hg in Hu. destruct (Hchg Hu) as [Hc|[Hpos HP1]].
      * destruct (Hchg_s t Hc) as [HP' [HT' HcP]]. destruct (v_chg s I t Hc) as [_ Huniq]. split.
        -- rewrite HP, HP', HcP, (chg_cntP _ _ Hu). reflexivity.
        -- intros v Hv. destruct (Nat.eq_dec v t) as [|Hvt]; auto. rewrite Hoth in Hv by auto. auto.
      * split; auto. intros v Hv. destruct (Nat.eq_dec v t) as [|Hvt]; auto.
        rewrite Hoth in Hv by auto. destruct (v_chg s I v Hv). lia.
    + rewrite Hoth in Hu by auto. destruct (Hchg_s u Hu) as [HP' [HT' HcP]].
      destruct (v_chg s I u Hu) as [_ Huniq]. split.
      * rewrite HP, HP', HcP, (HP0 HP' HT' HcP). reflexivity.
      * intros v Hv. destruct (Nat.eq_dec v t) as [->|Hvt].
        -- rewrite Hg in Hv. destruct (Hchg Hv) as [Hc|[Hpos _]]; [auto|lia].
        -- rewrite Hoth in Hv by auto. auto.
  - intros u. rewrite He. destruct (Nat.eq_dec u t) as [->|Hne]; [now rewrite Hg|].
    rewrite Hoth by auto. apply (v_loc s I).
  - intros u Hu v Hvu. destruct (Nat.eq_dec u t) as [->|Hne].
    + rewrite Hg in Hu. rewrite Hoth by auto. destruct (Hsole Hu) as [Hs|[HT1 HcT]].
      * apply (v_sole s I t Hs v Hvu).
      * apply notT_quiet; [apply (v_loc s I v)|].
        unfold get_fthr in *. apply fcnt_one_unique with (t := t); auto.
        rewrite <- (v_T s I). exact HT1.
    + rewrite Hoth in Hu by auto.
      destruct (Hchg_s u (sole_chg _ Hu)) as [HP' [HT' HcP]].
      destruct (Nat.eq_dec v t) as [->|Hvt].
      * rewrite Hg. apply Hquiet; auto. apply (v_sole s I u Hu t). auto.
      * rewrite Hoth by auto. apply (v_sole s I u Hu v Hvu).
  - intros u. destruct (Nat.eq_dec u t) as [->|Hne]; [now rewrite Hg|].
    rewrite Hoth by auto. eapply same_thr_ok; eauto; [|apply (v_thr s I)].
    intros p Hp. apply Hkeep. eapply in_fpending_thr; eauto.
  - exact Hoc.
  - exact Hop.
Qed.

Lemma same_ocur : forall s s1 t keep, Inv s -> StepSame s s1 t keep ->
  (forall p, In p (fpending s) -> keep p) -> f_ocur s1 = f_ocur s ->
  forall p, In p (ol_reqs (f_ocur s1)) -> fcls s1 0 p.
Proof.
  intros s s1 t keep I SS Hk Heq p Hp. rewrite Heq in Hp.
  eapply same_cls; eauto; [apply Hk; now apply in_fpending_ocur|now apply (v_ocur s I)].
Qed.

Lemma same_oprev : forall s s1 t keep, Inv s -> StepSame s s1 t keep ->
  (forall p, In p (fpending s) -> keep p) -> f_oprev s1 = f_oprev s ->
  forall p, In p (ol_reqs (f_oprev s1)) -> fcls s1 0 p /\ (fcls s1 1 p \/ late s1).
Proof.
  intros s s1 t keep I SS Hk Heq p Hp. rewrite Heq in Hp.
  assert (keep p) by (apply Hk; now apply in_fpending_oprev).
  destruct (v_oprev s I p Hp) as [H0 H1]. split.
  - eapply same_cls; eauto.
  - destruct H1 as [H1|H1]; [left; eapply same_cls; eauto|right; eapply same_late; eauto].
Qed.

(* ------------------------------------------------------------------ *)
(** * The epoch change *)

Lemma unq_next : forall e x, 0 <= e < 4 -> unq e x = false -> unq (ep_adv e) x = true.
Proof.
  intros e x He H. unfold unq, ep_adv in *.
  destruct (Z.eqb_spec (t_lsq x) e); cbn [negb orb] in H; [|discriminate].
  destruct (Z.eqb_spec (t_lsq x) ((e + 1) mod 4)); cbn [negb orb]; [lia|reflexivity].
Qed.

Lemma unqU_next : forall e u, 0 <= e < 4 -> unqU e u = false -> unqU (ep_adv e) u = true.
Proof.
  intros e u He H. unfold unqU, ep_adv in *.
  destruct (Z.eqb_spec (u_te u) e); cbn [negb orb] in H; [|discriminate].
  destruct (Z.eqb_spec (u_te u) ((e + 1) mod 4)); cbn [negb orb]; [lia|reflexivity].
Qed.

Lemma ep_adv_neq : forall e, 0 <= e < 4 -> ep_adv e <> e.
Proof. intros e He. unfold ep_adv. lia. Qed.

Lemma ep_adv_range : forall e, 0 <= ep_adv e < 4.
Proof. intros e. unfold ep_adv. lia. Qed.

(** threads not counted in the old epoch are exactly the counted threads of the new one *)
Lemma next_cntP : forall e y, 0 <= e < 4 -> wf_pc y = true -> chg_pc (ft_pc y) = false ->
  cntP e y = false -> cntP (ep_adv e) y = cntT y.
Proof.
  intros e y He Hw Hc H. pose proof (ep_adv_neq e He) as Hne.
  unfold wf_pc, cntP, cntT in *.
  destruct (ft_pc y); cbn [chg_pc] in Hc; try discriminate; try reflexivity.
  - destruct (t_reg (ft y)); cbn [andb] in *; [|reflexivity]. now apply unq_next.
  - destruct (ft_op y); cbn [is_reg is_unreg is_qr negb] in *; try discriminate; try reflexivity;
      now apply unq_next.
  - destruct (Z.eqb_spec old_epoch e); cbn [negb] in H; [|discriminate]. subst.
    destruct (Z.eqb_spec e (ep_adv e)); [congruence|reflexivity].
  - now apply unq_next.
  - now apply unq_next.
  - now apply unq_next.
  - now apply unqU_next.
  - now apply unqU_next.
Qed.

Lemma hr_next : forall e y, 0 <= e < 4 -> wf_pc y = true -> holds_refs y = true ->
  cntP e y = false -> cntP (ep_adv e) y = true.
Proof.
  intros e y He Hw Hh H.
  assert (Hc : chg_pc (ft_pc y) = false /\ cntT y = true).
  { unfold holds_refs, wf_pc, cntT in *. destruct (t_reg (ft y)); [|discriminate].
    destruct (ft_pc y); cbn [chg_pc]; auto;
      destruct (ft_op y); try destruct c; cbn in *; auto; discriminate. }
  destruct Hc as [Hc HT]. rewrite next_cntP; auto.
Qed.

Record StepAdv (s s1 : fstate) (t : tid) : Prop := {
  sa_ep : fE s1 = ep_adv (fE s);
  sa_oth : forall u, u <> t -> get_fthr s1 u = get_fthr s u;
  sa_P : w_P (f_w s) = 0;
  sa_hr : hr s t = false;
  sa_W : forall p v, In v (FW s1 p) -> In v (FW s p)
}.

Lemma adv_cls : forall s s1 t k p, Inv s -> StepAdv s s1 t -> fcls s k p -> fcls s1 (S k) p.
Proof.
  intros s s1 t k p I SA H. destruct SA as [He Ho HP Hh HW].
  destruct k as [|[|k]]; cbn [fcls] in *.
  - intros v Hv. pose proof (H v (HW p v Hv)) as Hhv.
    assert (Hne : v <> t) by (intros ->; congruence).
    unfold hr, cp in *. rewrite He, Ho by auto. split; auto.
    apply hr_next; auto; [apply (v_ep s I)|apply (v_loc s I v)|apply (P0_cntP s v I HP)].
  - apply list_empty_no_in. intros v Hv. destruct (H v (HW p v Hv)) as [_ Hc].
    rewrite (P0_cntP s v I HP) in Hc. discriminate.
  - apply list_empty_no_in. intros v Hv. apply HW in Hv. rewrite H in Hv. contradiction.
Qed.

Lemma adv_cls_le : forall s s1 t k K p, Inv s -> StepAdv s s1 t -> fcls s k p -> (K <= S k)%nat ->
  fcls s1 K p.
Proof. intros. apply (fcls_le s1 K (S k)); auto. eapply adv_cls; eauto. Qed.

Lemma adv_notin : forall s s1 t u p, StepAdv s s1 t -> ~ In u (FW s p) -> ~ In u (FW s1 p).
Proof. intros s s1 t u p SA Hn Hin. apply Hn. eapply (sa_W _ _ _ SA); eauto. Qed.

Lemma lsk_le1 : forall e x, (lsk e x <= 1)%nat.
Proof. intros. unfold lsk. destruct (e =? t_ls (ft x)); lia. Qed.

Lemma adv_thr_ok : forall s s1 t u x, Inv s -> StepAdv s s1 t -> thr_ok s u x -> thr_ok s1 u x.
Proof.
  intros s s1 t u x I SA [Hc Hp Hf Hpc Hs].
  constructor.
  - intros p Hin. destruct (Hc p Hin). split; [eapply adv_notin; eauto|].
    eapply adv_cls_le; eauto. pose proof (lsk_le1 (fE s1) x). lia.
  - intros p Hin. destruct (Hp p Hin). split; [eapply adv_notin; eauto|].
    eapply adv_cls_le; eauto. pose proof (lsk_le1 (fE s1) x). lia.
  - intros p Hin. eapply adv_cls_le; eauto.
  - destruct (ft_pc x); cbn [pc_ok] in *; auto.
    + destruct Hpc. split; [eapply adv_notin; eauto|eapply adv_cls_le; eauto].
    + intros q Hq. eapply adv_cls_le; eauto.
    + intros q Hq. eapply adv_cls_le; eauto.
    + intros q Hq. eapply adv_cls_le; eauto.
  - intros Hst p Hin. eapply adv_cls_le; eauto.
Qed.

Lemma thr_loc_nocall : forall e e' y, thr_loc e y -> pc_call (ft_pc y) = None -> thr_loc e' y.
Proof.
  intros e e' y [H1 [H2 [H3 H4]]] Hn. unfold thr_loc. rewrite Hn. auto.
Qed.

Lemma call_chg_or_cntP : forall e y, pc_call (ft_pc y) <> None ->
  chg_pc (ft_pc y) = true \/ cntP e y = true.
Proof.
  intros e y H. unfold cntP. destruct (ft_pc y); cbn [pc_call chg_pc] in *; auto; congruence.
Qed.

Lemma inv_adv : forall s s1 t x',
  Inv s -> (t < length (f_thr s))%nat ->
  f_thr s1 = set_nth_fthr t x' (f_thr s) ->
  StepAdv s s1 t ->
  chg_pc (ft_pc (get_fthr s t)) = true ->
  w_T (f_w s1) = w_T (f_w s) -> w_P (f_w s1) = w_T (f_w s) ->
  cntT x' = true -> cntP (ep_adv (fE s)) x' = true -> pc_call (ft_pc x') = None ->
  thr_loc (ep_adv (fE s)) x' ->
  thr_ok s1 t x' ->
  f_ocur s1 = f_ocur s -> f_oprev s1 = f_oprev s ->
  Inv s1.
Proof.
  intros s s1 t x' I Hlt Hthr SA Hchg HT HP HcT HcP Hnc Hloc Hok Hoc Hop.
  pose proof (sa_ep _ _ _ SA) as He. pose proof (sa_oth _ _ _ SA) as Hoth.
  pose proof (sa_P _ _ _ SA) as HP0. pose proof (v_ep s I) as Hep.
  assert (Hg : get_fthr s1 t = x') by (unfold get_fthr; rewrite Hthr; now apply fnth_set_nth_same).
  destruct (v_chg s I t Hchg) as [_ Huniq].
  assert (Hnochg : forall u, u <> t -> chg_pc (ft_pc (get_fthr s u)) = false).
  { intros u Hne. destruct (chg_pc (ft_pc (get_fthr s u))) eqn:Hc; auto. elim Hne. auto. }
  assert (Hnochg1 : forall u, chg_pc (ft_pc (get_fthr s1 u)) = false).
  { intros u. destruct (Nat.eq_dec u t) as [->|Hne].
    - rewrite Hg. destruct (ft_pc x'); cbn [pc_call chg_pc] in *; congruence.
    - rewrite Hoth by auto. auto. }
  assert (HT1 : w_T (f_w s1) = fcnt cntT (f_thr s1)).
  { rewrite HT, Hthr, fcnt_set_nth by auto. rewrite (v_T s I).
    change (nth t (f_thr s) fthr0) with (get_fthr s t). rewrite (chg_cntT _ Hchg), HcT. lia. }
  constructor.
  - rewrite He. apply ep_adv_range.
  - exact HT1.
  - rewrite HP, <- HT, HT1. apply fcnt_ext_idx. intros u Hu.
    change (nth u (f_thr s1) fthr0) with (get_fthr s1 u). rewrite He.
    destruct (Nat.eq_dec u t) as [->|Hne]; [rewrite Hg; congruence|].
    rewrite Hoth by auto. symmetry. apply next_cntP; auto; [apply (v_loc s I u)|apply (P0_cntP s u I HP0)].
  - intros u Hu. rewrite Hnochg1 in Hu. discriminate.
  - intros u. rewrite He. destruct (Nat.eq_dec u t) as [->|Hne]; [now rewrite Hg|].
    rewrite Hoth by auto. apply thr_loc_nocall with (e := fE s); [apply (v_loc s I)|].
    destruct (pc_call (ft_pc (get_fthr s u))) eqn:Hc; auto.
    assert (Hcn : pc_call (ft_pc (get_fthr s u)) <> None) by (rewrite Hc; discriminate).
    destruct (call_chg_or_cntP (fE s) (get_fthr s u) Hcn) as [H|H].
    + rewrite Hnochg in H by auto. discriminate.
    + change (cp s u = true) in H. rewrite (P0_cntP s u I HP0) in H. discriminate.
  - intros u Hu. apply sole_chg in Hu. rewrite Hnochg1 in Hu. discriminate.
  - intros u. destruct (Nat.eq_dec u t) as [->|Hne]; [now rewrite Hg|].
    rewrite Hoth by auto. eapply adv_thr_ok; eauto. apply (v_thr s I).
  - intros p Hp. rewrite Hoc in Hp. apply (adv_cls_le s s1 t 0 0 p I SA); [now apply (v_ocur s I)|lia].
  - intros p Hp. rewrite Hop in Hp. destruct (v_oprev s I p Hp) as [H0 _].
    pose proof (adv_cls _ _ _ _ _ I SA H0) as H1. split; [now apply fcls_S|now left].
Qed.
