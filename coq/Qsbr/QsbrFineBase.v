(** Basic list / counting lemmas for the fine-grained QSBR model proofs. *)
From Coq Require Import List ZArith Bool Lia Arith.
From Unodb Require Import Qsbr.QsbrModel Qsbr.QsbrBase Qsbr.QsbrFine.
Import ListNotations.
Local Open Scope Z_scope.

Fixpoint fcnt (f : fthr -> bool) (l : list fthr) : Z :=
  match l with [] => 0 | x :: l' => b2z (f x) + fcnt f l' end.

Lemma fcnt_nonneg : forall f l, 0 <= fcnt f l.
Proof. induction l as [|x l IH]; cbn [fcnt]; [lia|]. destruct (f x); cbn [b2z]; lia. Qed.

Lemma flength_set_nth : forall l i x, length (set_nth_fthr i x l) = length l.
Proof. induction l as [|y l IH]; intros [|i] x; cbn [set_nth_fthr length]; auto. Qed.

Lemma fnth_set_nth : forall l i j x, (i < length l)%nat ->
  nth j (set_nth_fthr i x l) fthr0 = if Nat.eqb j i then x else nth j l fthr0.
Proof.
  induction l as [|y l IH]; intros i j x Hi; cbn [length] in Hi; [lia|].
  destruct i as [|i]; destruct j as [|j]; cbn [set_nth_fthr nth Nat.eqb]; auto.
  apply IH. lia.
Qed.

Lemma fnth_set_nth_same : forall l i x, (i < length l)%nat -> nth i (set_nth_fthr i x l) fthr0 = x.
Proof. intros. rewrite fnth_set_nth by auto. now rewrite Nat.eqb_refl. Qed.

Lemma fnth_set_nth_other : forall l i j x, j <> i -> nth j (set_nth_fthr i x l) fthr0 = nth j l fthr0.
Proof.
  induction l as [|y l IH]; intros i j x Hne.
  - destruct i; reflexivity.
  - destruct i as [|i]; destruct j as [|j]; cbn [set_nth_fthr nth]; auto; try congruence.
Qed.

Lemma fcnt_set_nth : forall f l i x, (i < length l)%nat ->
  fcnt f (set_nth_fthr i x l) = fcnt f l - b2z (f (nth i l fthr0)) + b2z (f x).
Proof.
  induction l as [|y l IH]; intros i x Hi; cbn [length] in Hi; [lia|].
  destruct i as [|i]; cbn [set_nth_fthr fcnt nth]; [lia|].
  rewrite IH by lia. lia.
Qed.

Lemma fcnt_ext_idx : forall f g l,
  (forall u, (u < length l)%nat -> f (nth u l fthr0) = g (nth u l fthr0)) -> fcnt f l = fcnt g l.
Proof.
  induction l as [|y l IH]; intros H; [reflexivity|].
  cbn [fcnt]. pose proof (H O) as H0. cbn [nth length] in H0. rewrite H0 by lia.
  rewrite IH; [reflexivity|]. intros u Hu. apply (H (S u)). cbn [length]. lia.
Qed.

Lemma fcnt_zero_all : forall f l, fcnt f l = 0 ->
  forall u, (u < length l)%nat -> f (nth u l fthr0) = false.
Proof.
  induction l as [|y l IH]; intros H u Hu; cbn [length] in Hu; [lia|].
  cbn [fcnt] in H. pose proof (fcnt_nonneg f l).
  destruct u as [|u]; cbn [nth].
  - destruct (f y); cbn [b2z] in H; [lia|reflexivity].
  - apply IH; [|lia]. destruct (f y); cbn [b2z] in H; lia.
Qed.

(** a thread that satisfies [f] is counted *)
Lemma fcnt_pos : forall f l u, f fthr0 = false -> f (nth u l fthr0) = true -> 1 <= fcnt f l.
Proof.
  intros f l u H0 Hu.
  destruct (Z.eq_dec (fcnt f l) 0) as [Hz|Hz].
  - destruct (Nat.ltb_spec u (length l)) as [Hlt|Hge].
    + rewrite (fcnt_zero_all f l Hz u Hlt) in Hu. discriminate.
    + rewrite nth_overflow in Hu by lia. congruence.
  - pose proof (fcnt_nonneg f l). lia.
Qed.

Lemma fcnt_one_unique : forall f l t, fcnt f l = 1 -> (t < length l)%nat ->
  f (nth t l fthr0) = true -> f fthr0 = false ->
  forall u, u <> t -> f (nth u l fthr0) = false.
Proof.
  intros f l t H1 Ht Hf H0 u Hne.
  destruct (Nat.ltb_spec u (length l)) as [Hu|Hu].
  - assert (Hz : fcnt f (set_nth_fthr t fthr0 l) = 0).
    { rewrite fcnt_set_nth by auto. rewrite Hf, H0. cbn [b2z]. lia. }
    pose proof (fcnt_zero_all _ _ Hz u) as H. rewrite flength_set_nth in H.
    specialize (H Hu). now rewrite fnth_set_nth_other in H by auto.
  - rewrite nth_overflow by lia. exact H0.
Qed.

(** state accessors *)
Lemma get_set_fthr : forall s t x u, (t < length (f_thr s))%nat ->
  get_fthr (set_fthr s t x) u = if Nat.eqb u t then x else get_fthr s u.
Proof. intros s t x u Ht. unfold get_fthr, set_fthr. cbn [f_thr]. now apply fnth_set_nth. Qed.

Lemma get_fthr_overflow : forall s u, (length (f_thr s) <= u)%nat -> get_fthr s u = fthr0.
Proof. intros s u H. unfold get_fthr. now apply nth_overflow. Qed.

(** ghost *)
Lemma wait_of_drop1 : forall w p q, q <> p -> wait_of (ghost_drop w [p]) q = wait_of w q.
Proof.
  intros w p q Hne. apply wait_of_drop. intros [H|[]]. congruence.
Qed.

Lemma wait_of_drop_in : forall w f q v, In v (wait_of (ghost_drop w f) q) -> In v (wait_of w q).
Proof.
  induction w as [|[a ws] w IH]; intros f q v H; cbn [ghost_drop wait_of] in *; [exact H|].
  destruct (existsb (Z.eqb a) f) eqn:He.
  - destruct (Z.eqb_spec a q) as [->|Hne].
    + (* the entry of [q] itself is dropped; later entries are shadowed in the original *)
      exfalso. clear IH. revert H. induction w as [|[b ws'] w IHw]; cbn [ghost_drop wait_of]; auto.
      destruct (existsb (Z.eqb b) f) eqn:Hb; auto.
      cbn [wait_of]. destruct (Z.eqb_spec b q) as [->|Hbq]; auto.
      intros _. rewrite He in Hb. discriminate.
    + eapply IH; eauto.
  - cbn [wait_of] in H. destruct (Z.eqb a q); auto. eapply IH; eauto.
Qed.

Lemma in_active_others : forall l t i v, In v (active_others l t i) ->
  v <> t /\ exists j, v = (i + j)%nat /\ holds_refs (nth j l fthr0) = true.
Proof.
  induction l as [|x l IH]; intros t i v H; cbn [active_others] in H; [contradiction|].
  apply in_app_or in H. destruct H as [H|H].
  - destruct (holds_refs x) eqn:Hr; cbn [andb] in H; [|contradiction].
    destruct (Nat.eqb_spec i t); cbn [negb] in H; [contradiction|].
    destruct H as [<-|[]]. split; auto. exists O. cbn [nth]. split; [lia|auto].
  - apply IH in H. destruct H as [Hne [j [-> Hr]]]. split; auto.
    exists (S j). cbn [nth]. split; [lia|auto].
Qed.

Lemma append_from_eq : forall h l tc r, append_from h l tc = Some r -> r = l ++ tc.
Proof.
  induction l as [|[a v] l IH]; intros tc r H; cbn [append_from] in H; [discriminate|].
  destruct (a =? h); [now inversion H|].
  destruct (append_from h l tc) eqn:Ha; [|discriminate].
  inversion H. cbn [app]. f_equal. now apply IH.
Qed.

Lemma ol_reqs_app : forall a b, ol_reqs (a ++ b) = ol_reqs a ++ ol_reqs b.
Proof. intros. unfold ol_reqs. now rewrite map_app, concat_app. Qed.

Lemma ol_reqs_cons : forall a v l, ol_reqs ((a, v) :: l) = v ++ ol_reqs l.
Proof. reflexivity. Qed.
