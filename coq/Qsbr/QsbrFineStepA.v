(** Invariant preservation, part A: alloc, free, call, return. *)
From Coq Require Import List ZArith Bool Lia Arith.
From Unodb Require Import Qsbr.QsbrModel Qsbr.QsbrBase Qsbr.QsbrInv Qsbr.QsbrFine Qsbr.QsbrFineBase
  Qsbr.QsbrFineInv.
Import ListNotations.
Local Open Scope Z_scope.

Ltac Zify.zify_post_hook ::= Z.div_mod_to_equations.

Ltac fsimpl :=
  cbn [f_w f_oprev f_ocur f_thr f_freed f_gep f_wait f_bad set_fthr set_w set_ol set_wait bump_gep
       get_ol ft ft_pc ft_op ft_free with_pc upd set_op reg_return thr_set_reg thr_set_lsq_qs
       thr_set_vec thr_vec t_reg t_lsq t_ls t_qs t_prev t_cur w_ep w_T w_P
       sw_inc_T sw_dec_T sw_inc_TP sw_dec_TP sw_dec_P sw_next_epoch
       u_old u_ecbc u_qs u_te u_with_old fst snd].

Ltac fsimpl_in H :=
  cbn [f_w f_oprev f_ocur f_thr f_freed f_gep f_wait f_bad set_fthr set_w set_ol set_wait bump_gep
       get_ol ft ft_pc ft_op ft_free with_pc upd set_op reg_return thr_set_reg thr_set_lsq_qs
       thr_set_vec thr_vec t_reg t_lsq t_ls t_qs t_prev t_cur w_ep w_T w_P
       sw_inc_T sw_dec_T sw_inc_TP sw_dec_TP sw_dec_P sw_next_epoch
       u_old u_ecbc u_qs u_te u_with_old fst snd] in H.

(** the frame of a step by [t] that replaces its record by [x'] *)
Lemma mk_same : forall s s1 t x' (keep : ptr -> Prop),
  (t < length (f_thr s))%nat ->
  f_thr s1 = set_nth_fthr t x' (f_thr s) ->
  w_ep (f_w s1) = w_ep (f_w s) ->
  (forall p, keep p -> forall v, In v (FW s1 p) -> In v (FW s p)) ->
  ((forall p, keep p -> ~ In t (FW s1 p)) \/ holds_refs (get_fthr s t) = false \/
   (holds_refs x' = true /\ (cntP (fE s) (get_fthr s t) = true -> cntP (fE s) x' = true))) ->
  (late_pc (ft_pc (get_fthr s t)) = true -> late_pc (ft_pc x') = true) ->
  StepSame s s1 t keep.
Proof.
  intros s s1 t x' keep Hlt Hthr He HW Ht Hl.
  assert (Hg : get_fthr s1 t = x') by (unfold get_fthr; rewrite Hthr; now apply fnth_set_nth_same).
  constructor; auto.
  - intros u Hne. unfold get_fthr. rewrite Hthr. now apply fnth_set_nth_other.
  - unfold hr, cp. rewrite Hg. unfold fE. rewrite He. exact Ht.
  - now rewrite Hg.
Qed.

Lemma FW_same : forall s s1, f_wait s1 = f_wait s -> forall p v, In v (FW s1 p) -> In v (FW s p).
Proof. intros s s1 H p v Hv. unfold FW in *. now rewrite H in Hv. Qed.

Lemma FW_passed : forall s s1 t, f_wait s1 = ghost_passed (f_wait s) t ->
  forall p v, In v (FW s1 p) -> In v (FW s p) /\ v <> t.
Proof.
  intros s s1 t H p v Hv. unfold FW in *. rewrite H, wait_of_passed in Hv.
  now apply in_remove_tid in Hv.
Qed.

Lemma FW_drop : forall s s1 f, f_wait s1 = ghost_drop (f_wait s) f ->
  forall p v, In v (FW s1 p) -> In v (FW s p).
Proof. intros s s1 f H p v Hv. unfold FW in *. rewrite H in Hv. eapply wait_of_drop_in; eauto. Qed.

Lemma set_nth_fthr_id : forall l t, (t < length l)%nat -> set_nth_fthr t (nth t l fthr0) l = l.
Proof.
  induction l as [|y l IH]; intros [|t] H; cbn [length] in H; cbn [set_nth_fthr nth]; auto; try lia.
  f_equal. apply IH. lia.
Qed.

Definition keep_all : ptr -> Prop := fun _ => True.

(** a step that changes nothing the invariant looks at *)
Lemma inv_ghost_only : forall s s1 t, Inv s -> (t < length (f_thr s))%nat ->
  f_w s1 = f_w s -> f_oprev s1 = f_oprev s -> f_ocur s1 = f_ocur s -> f_thr s1 = f_thr s ->
  f_wait s1 = f_wait s -> Inv s1.
Proof.
  intros s s1 t I Hlt Hw Hop Hoc Hthr Hwait.
  assert (Hthr' : f_thr s1 = set_nth_fthr t (get_fthr s t) (f_thr s)).
  { rewrite Hthr. unfold get_fthr. now rewrite set_nth_fthr_id. }
  assert (SS : StepSame s s1 t keep_all).
  { eapply mk_same; eauto.
    - now rewrite Hw.
    - intros p _. now apply FW_same.
    - destruct (holds_refs (get_fthr s t)); auto. }
  eapply inv_same with (t := t) (keep := keep_all); eauto; try (unfold keep_all; tauto).
  - rewrite Hw. lia.
  - rewrite Hw. lia.
  - apply (v_loc s I).
  - eapply same_thr_ok; eauto; [unfold keep_all; tauto|apply (v_thr s I)].
  - eapply same_ocur; eauto. unfold keep_all; tauto.
  - eapply same_oprev; eauto. unfold keep_all; tauto.
Qed.

Lemma step_alloc_inv : forall s t x p s', Inv s -> (t < length (f_thr s))%nat ->
  step_alloc s t x p = Some s' -> Inv s'.
Proof.
  intros s t x p s' I Hlt H. unfold step_alloc in H. destruct (ft_pc x); try discriminate.
  inversion H; subst s'; clear H. eapply inv_ghost_only with (t := t); eauto.
Qed.

Definition with_free (x : fthr) (r : list ptr) : fthr :=
  {| ft := ft x; ft_pc := ft_pc x; ft_op := ft_op x; ft_free := r |}.

Lemma thr_ok_with_free : forall s u x r, (forall p, In p r -> In p (ft_free x)) ->
  thr_ok s u x -> thr_ok s u (with_free x r).
Proof.
  intros s u x r Hr [Hc Hp Hf Hpc Hs]. constructor; cbn [with_free ft ft_pc ft_op ft_free]; auto.
Qed.

Lemma step_free_inv : forall s t p s', Inv s -> (t < length (f_thr s))%nat ->
  step_free s t (get_fthr s t) p = Some s' -> Inv s' /\ f_bad s' = f_bad s.
Proof.
  intros s t p s' I Hlt H. unfold step_free in H.
  pose proof (v_thr s I t) as Hok. pose proof (v_loc s I t) as Hloc.
  set (x := get_fthr s t) in *.
  destruct (ft_free x) as [|q r] eqn:Hfree; [discriminate|].
  destruct (Z.eqb_spec p q) as [->|]; [|discriminate].
  assert (Hq : FW s q = []).
  { apply (k_free _ _ _ Hok q). rewrite Hfree. now left. }
  inversion H; subst s'; clear H. fsimpl. fold (FW s q). rewrite Hq. split; [|reflexivity].
  change {| ft := ft x; ft_pc := ft_pc x; ft_op := ft_op x; ft_free := r |} with (with_free x r).
  match goal with |- Inv ?S => set (s1 := S) end.
  assert (SS : StepSame s s1 t keep_all).
  { eapply mk_same with (x' := with_free x r); eauto.
    - intros p0 _. eapply FW_drop. reflexivity.
    - right. fold x. destruct (holds_refs x) eqn:Hh; auto. }
  eapply inv_same with (t := t) (keep := keep_all) (x' := with_free x r); eauto;
    try (unfold keep_all; tauto); fold x.
  - change (cntT (with_free x r)) with (cntT x). subst s1. fsimpl. lia.
  - change (cntP (fE s) (with_free x r)) with (cntP (fE s) x). subst s1. fsimpl. lia.
  - apply thr_ok_with_free; [intros p0 Hp0; rewrite Hfree; now right|].
    eapply same_thr_ok; eauto. unfold keep_all; tauto.
  - eapply same_ocur; eauto. unfold keep_all; tauto.
  - eapply same_oprev; eauto. unfold keep_all; tauto.
Qed.

(** same lists, other program counter *)
Lemma thr_ok_relsk : forall s u x x', thr_ok s u x ->
  t_cur (ft x') = t_cur (ft x) -> t_prev (ft x') = t_prev (ft x) ->
  (lsk (fE s) x' <= lsk (fE s) x)%nat ->
  (forall p, In p (ft_free x') -> In p (ft_free x)) ->
  pc_ok s u (ft_pc x') ->
  (stale_stm (ft_pc x') = true -> stale_stm (ft_pc x) = true \/
     forall p, In p (t_cur (ft x) ++ t_prev (ft x)) -> fcls s 2 p) ->
  thr_ok s u x'.
Proof.
  intros s u x x' [Hc Hp Hf Hpc Hs] H1 H2 H3 H4 H5 H6.
  constructor; rewrite ?H1, ?H2; auto.
  - intros p Hin. destruct (Hc p Hin). split; auto. eapply fcls_le; eauto.
  - intros p Hin. destruct (Hp p Hin). split; auto. eapply fcls_le; [|eauto]. lia.
  - intros Hst. destruct (H6 Hst); auto.
Qed.

Lemma thr_ok_repc : forall s u x x', thr_ok s u x ->
  t_cur (ft x') = t_cur (ft x) -> t_prev (ft x') = t_prev (ft x) -> t_ls (ft x') = t_ls (ft x) ->
  (forall p, In p (ft_free x') -> In p (ft_free x)) ->
  pc_ok s u (ft_pc x') ->
  (stale_stm (ft_pc x') = true -> stale_stm (ft_pc x) = true \/
     forall p, In p (t_cur (ft x) ++ t_prev (ft x)) -> fcls s 2 p) ->
  thr_ok s u x'.
Proof.
  intros s u x x' Hok H1 H2 H3 H4 H5 H6. eapply thr_ok_relsk; eauto.
  unfold lsk. rewrite H3. lia.
Qed.

Ltac cnt_unfold :=
  unfold thr_loc; unfold cntT, cntP, wf_pc, quiet, holds_refs, unq, unqU, stale_stm, u_remove_old, fE;
  cbn [f_w f_oprev f_ocur f_thr f_freed f_gep f_wait f_bad set_fthr set_w set_ol set_wait bump_gep
       get_ol ft ft_pc ft_op ft_free with_pc upd set_op reg_return thr_set_reg thr_set_lsq_qs
       thr_set_vec thr_vec t_reg t_lsq t_ls t_qs t_prev t_cur w_ep w_T w_P
       sw_inc_T sw_dec_T sw_inc_TP sw_dec_TP sw_dec_P sw_next_epoch
       u_old u_ecbc u_qs u_te u_with_old fst snd
       is_reg is_unreg is_qr is_q is_pret fop_eqb pc_call chg_pc late_pc sole_pc negb andb orb b2z
       Bool.eqb].

Ltac cnt_unfold_in H :=
  unfold thr_loc in H; unfold cntT, cntP, wf_pc, quiet, holds_refs, unq, unqU, stale_stm, u_remove_old, fE in H;
  cbn [f_w f_oprev f_ocur f_thr f_freed f_gep f_wait f_bad set_fthr set_w set_ol set_wait bump_gep
       get_ol ft ft_pc ft_op ft_free with_pc upd set_op reg_return thr_set_reg thr_set_lsq_qs
       thr_set_vec thr_vec t_reg t_lsq t_ls t_qs t_prev t_cur w_ep w_T w_P
       sw_inc_T sw_dec_T sw_inc_TP sw_dec_TP sw_dec_P sw_next_epoch
       u_old u_ecbc u_qs u_te u_with_old fst snd
       is_reg is_unreg is_qr is_q is_pret fop_eqb pc_call chg_pc late_pc sole_pc negb andb orb b2z
       Bool.eqb] in H.

Ltac keep_tac := try (unfold keep_all; tauto).

Lemma step_call_inv : forall s t o arg s', Inv s -> (t < length (f_thr s))%nat ->
  ft_pc (get_fthr s t) = PIdle ->
  step_call s t (get_fthr s t) o arg = Some s' -> Inv s'.
Proof.
  intros s t o arg s' I Hlt Hpc H. unfold step_call in H.
  pose proof (v_thr s I t) as Hok. pose proof (v_loc s I t) as Hloc.
  destruct (get_fthr s t) as [th pc op fr] eqn:Hx. cbn [ft ft_pc ft_op ft_free] in *. subst pc.
  destruct th as [reg lsq ls qs prev cur]. cbn [t_reg] in H.
  destruct Hloc as [Hwf [Hqs [Hpr Hcall]]]. cnt_unfold_in Hwf. cnt_unfold_in Hqs.
  destruct o; destruct reg; try discriminate; inversion H; subst s'; clear H.
  all: match goal with |- Inv (set_fthr _ _ ?X) => set (x' := X) end.
  all: match goal with |- Inv ?S => set (s1 := S) end.
  (* register *)
  1,2: assert (SS : StepSame s s1 t keep_all) by
      (eapply mk_same with (x' := x'); [exact Hlt|reflexivity|reflexivity|..];
       [intros p _; now apply FW_same | rewrite Hx; right; left; reflexivity | rewrite Hx; auto]).
  (* retire *)
  4: assert (SS : StepSame s s1 t keep_all) by
      (eapply mk_same with (x' := x'); [exact Hlt|reflexivity|reflexivity|..];
       [intros p _; now apply FW_same | rewrite Hx; right; right; split; [reflexivity|auto] | rewrite Hx; auto]).
  (* quiescent, pause, exit *)
  3,5,6: assert (SS : StepSame s s1 t keep_all) by
      (eapply mk_same with (x' := x'); [exact Hlt|reflexivity|reflexivity|..];
       [intros p _ v Hv; apply (FW_passed s s1 t eq_refl) in Hv; apply Hv
       | left; intros p _ Hv; apply (FW_passed s s1 t eq_refl) in Hv; destruct Hv; congruence
       | rewrite Hx; auto]).
  all: eapply inv_same with (t := t) (keep := keep_all) (x' := x'); eauto; keep_tac.
  all: lazymatch goal with
    | |- thr_ok _ _ _ =>
        eapply thr_ok_repc; [eapply same_thr_ok; [exact SS|keep_tac|exact Hok]|..];
        try reflexivity; cbn [pc_ok]; auto; cnt_unfold; auto; discriminate
    | |- forall p, In p (ol_reqs (f_ocur _)) -> _ => eapply same_ocur; eauto; keep_tac
    | |- forall p, In p (ol_reqs (f_oprev _)) -> _ => eapply same_oprev; eauto; keep_tac
    | |- _ => rewrite ?Hx; subst x' s1; cnt_unfold; repeat split; auto; try lia; try discriminate; try tauto
    end.
Qed.

Lemma fop_eqb_eq : forall a b, fop_eqb a b = true -> a = b.
Proof. intros [] []; cbn; congruence. Qed.

Lemma in_app_nil : forall (p : ptr) l, In p (l ++ []) -> In p l.
Proof. intros p l H. now rewrite app_nil_r in H. Qed.

Ltac same_dispatch SS Hok Hx :=
  lazymatch goal with
  | |- thr_ok _ _ _ =>
      eapply thr_ok_repc; [eapply same_thr_ok; [exact SS|keep_tac|exact Hok]|..];
      try reflexivity; try (cbn [ft_free upd]; intros ?p; apply in_app_nil);
      cbn [pc_ok]; auto; cnt_unfold; auto; discriminate
  | |- forall p, In p (ol_reqs (f_ocur _)) -> _ => eapply same_ocur; eauto; keep_tac
  | |- forall p, In p (ol_reqs (f_oprev _)) -> _ => eapply same_oprev; eauto; keep_tac
  | |- _ => rewrite ?Hx; cnt_unfold; repeat split; auto; try lia; try discriminate; try tauto
  end.

Lemma step_ret_inv : forall s t o s', Inv s -> (t < length (f_thr s))%nat ->
  ft_pc (get_fthr s t) = PRet ->
  step_ret s t (get_fthr s t) o = Some s' -> Inv s'.
Proof.
  intros s t o s' I Hlt Hpc H. unfold step_ret in H.
  pose proof (v_thr s I t) as Hok. pose proof (v_loc s I t) as Hloc.
  destruct (get_fthr s t) as [th pc op fr] eqn:Hx. cbn [ft ft_pc ft_op ft_free] in *. subst pc.
  destruct th as [reg lsq ls qs prev cur].
  destruct Hloc as [Hwf [Hqs [Hpr Hcall]]]. cnt_unfold_in Hwf. cnt_unfold_in Hqs. cnt_unfold_in Hpr.
  destruct (fop_eqb o op) eqn:Ho; [|discriminate]. apply fop_eqb_eq in Ho. subst o.
  inversion H; subst s'; clear H.
  match goal with |- Inv (set_fthr _ _ ?X) => set (x' := X) end.
  match goal with |- Inv ?S => set (s1 := S) end.
  assert (SS : StepSame s s1 t keep_all).
  { eapply mk_same with (x' := x'); [exact Hlt|reflexivity|reflexivity|..].
    - intros p _. now apply FW_same.
    - rewrite Hx. subst x'. destruct op; destruct reg; try discriminate; cnt_unfold; auto.
    - rewrite Hx. cbn. discriminate. }
  eapply inv_same with (t := t) (keep := keep_all) (x' := x'); eauto; keep_tac.
  all: subst x' s1; destruct op; destruct reg; try discriminate Hwf; same_dispatch SS Hok Hx.
  all: rewrite Hpr by reflexivity; rewrite Z.eqb_refl, orb_true_r; cbn [b2z]; lia.
Qed.
