(** Invariant preservation, part H: orphan_pending_requests. *)
From Coq Require Import List ZArith Bool Lia Arith.
From Unodb Require Import Qsbr.QsbrModel Qsbr.QsbrBase Qsbr.QsbrInv Qsbr.QsbrFine Qsbr.QsbrFineBase
  Qsbr.QsbrFineInv Qsbr.QsbrFineStepA Qsbr.QsbrFineStepB Qsbr.QsbrFineStepC Qsbr.QsbrFineStepE
  Qsbr.QsbrFineStepG.
Import ListNotations.
Local Open Scope Z_scope.

Ltac Zify.zify_post_hook ::= Z.div_mod_to_equations.

Lemma step_orph_inv : forall s t e s', Inv s -> (t < length (f_thr s))%nat ->
  ft_free (get_fthr s t) = [] ->
  step_orph s t (get_fthr s t) e = Some s' -> Inv s'.
Proof.
  intros s t e s' I Hlt Hfr H. unfold step_orph in H.
  pose proof (v_thr s I t) as Hok. pose proof (v_loc s I t) as Hloc.
  pose proof (v_ocur s I) as Hoc. pose proof (v_oprev s I) as Hop.
  destruct (get_fthr s t) as [th pc op fr] eqn:Hx. cbn [ft ft_pc ft_op ft_free] in *. subst fr.
  destruct th as [reg lsq ls qs prev cur].
  destruct Hloc as [Hwf [Hqs [Hpr Hcall]]]. cnt_unfold_in Hwf. cnt_unfold_in Hqs.
  destruct pc; try discriminate; destruct e; try discriminate.
  all: destruct op; try discriminate Hwf; destruct reg; try discriminate Hwf.
  all: match type of H with (if ?c then _ else _) = _ => destruct c; [|discriminate] end.
  3,4: destruct (next =? ol_head (get_ol s l));
       [pose proof (orph_next_pc (thr_set_vec {| t_reg := false; t_lsq := lsq; t_ls := ls; t_qs := qs;
                                                  t_prev := prev; t_cur := cur |} l [])) as Ho;
        destruct l; cbn [thr_set_vec thr_vec t_prev t_cur t_reg t_lsq t_ls t_qs get_ol set_ol] in H, Ho;
        destruct Ho as [Ho|[Ho|Ho]]; rewrite Ho in H|].
  all: inversion H; subst s'; clear H.
  all: match goal with |- Inv (set_fthr _ _ ?X) => set (x' := X) end.
  all: match goal with |- Inv ?S => set (s1 := S) end.
  all: assert (SS : StepSame s s1 t keep_all) by
    (eapply mk_same_nohr with (x' := x'); [exact Hlt|reflexivity|reflexivity|reflexivity|
       rewrite Hx; reflexivity|rewrite Hx; discriminate]).
  all: eapply inv_same with (t := t) (keep := keep_all) (x' := x'); eauto; keep_tac.
  all: subst x' s1.
  all: lazymatch goal with
    | |- thr_ok _ _ _ => idtac
    | |- forall p, In p (ol_reqs (f_ocur _)) -> _ => try solve [eapply same_ocur; eauto; keep_tac]
    | |- forall p, In p (ol_reqs (f_oprev _)) -> _ => try solve [eapply same_oprev; eauto; keep_tac]
    | |- _ => rewrite ?Hx; cnt_unfold; repeat split; auto; try lia; try discriminate; try tauto
    end.
  all: destruct Hok as [Hc Hp _ _ _]; cbn [ft t_cur t_prev] in Hc, Hp.
  all: lazymatch goal with
    | |- thr_ok _ _ _ =>
        eapply thr_ok_from_old; [exact SS|..];
        cbn [ft ft_pc ft_free upd with_pc t_cur t_prev app pc_ok thr_set_vec]; try exact Logic.I;
        try (cnt_unfold; discriminate);
        try (intros q Hin; in_cases Hin;
             try (split; [exact Logic.I|]; first [exact (Hc q Hin)|exact (Hp q Hin)]))
    | |- _ => idtac
    end.
  all: intros q Hin; cbn [f_ocur f_oprev set_fthr set_ol] in Hin; rewrite ol_reqs_cons in Hin;
       apply in_app_or in Hin; destruct Hin as [Hin|Hin].
  all: try (destruct (Hop q Hin) as [H0 H1]; split;
            [eapply same_cls; [exact SS|exact Logic.I|exact H0]
            |destruct H1 as [H1|H1]; [left; eapply same_cls; [exact SS|exact Logic.I|exact H1]
                                     |right; eapply same_late; eauto]]).
  all: try (eapply same_cls; [exact SS|exact Logic.I|exact (Hoc q Hin)]).
  all: try (destruct (Hp q Hin) as [_ Hcl]; split; [|left];
            (eapply same_cls; [exact SS|exact Logic.I|]); (eapply fcls_le; [|exact Hcl]; lia)).
  all: try (destruct (Hc q Hin) as [_ Hcl]; 
            (eapply same_cls; [exact SS|exact Logic.I|]); eapply fcls_0; exact Hcl).
Qed.
