(** QSBR coarse model: the three-round bound (Properties_C06b).

    Every pending request carries a "due epoch" (in the unbounded ghost epoch
    [q_gep]): a request in a thread's previous-interval list is executed when
    that thread observes the next epoch, one in the current-interval list one
    epoch later; orphaned previous / current requests are executed at the
    next / second-next epoch change.  [old k s p] says that [p] is queued
    somewhere in [s] with due epoch at most [k].  Every call either keeps a
    request at (or below) its due epoch or executes it, the due epoch of a
    queued request is never below the current epoch, everything pending is due
    by [q_gep s + 2], and a round in which every registered thread passes
    advances the epoch.  Hence three rounds execute everything that was
    pending before them. *)
From Coq Require Import List ZArith Bool Lia Permutation Arith.
From Unodb Require Import Qsbr.QsbrModel Qsbr.QsbrBase Qsbr.QsbrPerm Qsbr.QsbrInv Qsbr.QsbrRun
  Qsbr.QsbrDrain.
Import ListNotations.
Local Open Scope Z_scope.

Ltac Zify.zify_post_hook ::= Z.div_mod_to_equations.

(** * Due epochs *)

(** has the thread object not yet observed epoch [e]? *)
Definition lag (e : Z) (x : thr) : Z := if e =? t_ls x then 0 else 1.

Lemma lag_range : forall e x, 0 <= lag e x <= 1.
Proof. intros e x. unfold lag. destruct (e =? t_ls x); lia. Qed.

(** [p] is queued in thread object [x] or in the orphan lists [op] / [oc]
    with due epoch at most [k]; [G] is the ghost epoch and [lg] the lag of [x] *)
Definition oldloc (k G lg : Z) (x : thr) (op oc : list (list ptr)) (p : ptr) : Prop :=
  (In p (t_prev x) /\ G - lg + 1 <= k) \/
  (In p (t_cur x) /\ G - lg + 2 <= k) \/
  (In p (concat op) /\ G + 1 <= k) \/
  (In p (concat oc) /\ G + 2 <= k).

Definition old (k : Z) (s : qstate) (p : ptr) : Prop :=
  exists u, oldloc k (q_gep s) (lag (q_ep s) (get_thr s u)) (get_thr s u) (q_oprev s) (q_ocur s) p.

Lemma old_ghost : forall k s w p, old k (with_ghost s w) p <-> old k s p.
Proof. intros. reflexivity. Qed.

(** everything pending is due within two epochs *)
Lemma pending_old : forall s p, In p (pending s) -> old (q_gep s + 2) s p.
Proof.
  intros s p H. apply in_pending_inv in H. destruct H as [[u [H|H]]|[H|H]].
  - exists u. left. split; auto. pose proof (lag_range (q_ep s) (get_thr s u)). lia.
  - exists u. right. left. split; auto. pose proof (lag_range (q_ep s) (get_thr s u)). lia.
  - exists O. right. right. left. split; auto. lia.
  - exists O. right. right. right. split; auto. lia.
Qed.

(** nothing queued is due before the current epoch *)
Lemma old_gep : forall k s p, old k s p -> q_gep s <= k.
Proof.
  intros k s p [u H]. pose proof (lag_range (q_ep s) (get_thr s u)).
  destruct H as [[_ H]|[[_ H]|[[_ H]|[_ H]]]]; lia.
Qed.

Lemma old_pending : forall k s p, old k s p -> In p (pending s).
Proof.
  intros k s p [u [[H _]|[[H _]|[[H _]|[H _]]]]].
  - eapply in_pending_prev; eauto.
  - eapply in_pending_cur; eauto.
  - now apply in_pending_oprev.
  - now apply in_pending_ocur.
Qed.

(** * No orphans without threads *)

Definition Inv3 (s : qstate) : Prop := q_T s = 0 -> q_oprev s = [] /\ q_ocur s = [].

Lemma inv3_init : forall n, Inv3 (qinit n).
Proof. intros n _. split; reflexivity. Qed.

Lemma cnt_reg_zero : forall s u, Inv1 s -> q_T s = 0 -> t_reg (get_thr s u) = false.
Proof.
  intros s u I HT. destruct (t_reg (get_thr s u)) eqn:Hr; [|reflexivity].
  pose proof (reg_cnt_pos _ _ Hr) as H. rewrite <- (i_T s I) in H. lia.
Qed.

Lemma old_threads : forall k s p, Inv1 s -> Inv3 s -> old k s p -> 1 <= q_T s.
Proof.
  intros k s p I I3 H.
  assert (HT0 : 0 <= q_T s) by (rewrite (i_T s I); apply cnt_nonneg).
  destruct (Z.eq_dec (q_T s) 0) as [HT|HT]; [exfalso|lia].
  destruct (I3 HT) as [Hop Hoc]. destruct H as [u H].
  destruct (i_unreg s I u (cnt_reg_zero s u I HT)) as [Hp Hc].
  unfold oldloc in H. rewrite Hp, Hc, Hop, Hoc in H. cbn [concat In] in H. tauto.
Qed.

(** * Shape of a call: same epoch, or epoch change *)

Definition is_reg (o : qop) : bool := match o with QRegister _ => true | _ => false end.
Definition is_pass (o : qop) : bool :=
  match o with QQuiescent _ | QUnregister _ => true | _ => false end.

Definition NoAdv (s : qstate) (o : qop) (s1 : qstate) : Prop :=
  q_gep s1 = q_gep s /\
  (is_reg o = false ->
   (1 <= q_P s -> 1 <= q_P s1) /\
   forall u, unqreg (q_ep s1) (get_thr s1 u) = true ->
     unqreg (q_ep s) (get_thr s u) = true /\ o <> QQuiescent u /\ o <> QUnregister u).

Definition StepFacts (s : qstate) (o : qop) (s1 : qstate) (f : list ptr) : Prop :=
  (forall k p, old k s p -> old k s1 p \/ In p f) /\
  (NoAdv s o s1 \/ q_gep s1 = q_gep s + 1).

Lemma mk_same_facts : forall s o s1 f x',
  (op_tid o < length (q_thr s))%nat ->
  q_ep s1 = q_ep s -> q_gep s1 = q_gep s ->
  q_thr s1 = set_nth_thr (op_tid o) x' (q_thr s) ->
  (forall k p,
     oldloc k (q_gep s) (lag (q_ep s) (get_thr s (op_tid o))) (get_thr s (op_tid o)) (q_oprev s) (q_ocur s) p ->
     oldloc k (q_gep s) (lag (q_ep s) x') x' (q_oprev s1) (q_ocur s1) p \/ In p f) ->
  (is_reg o = false -> 1 <= q_P s -> 1 <= q_P s1) ->
  (is_reg o = false -> unqreg (q_ep s) x' = true ->
     unqreg (q_ep s) (get_thr s (op_tid o)) = true /\ is_pass o = false) ->
  StepFacts s o s1 f.
Proof.
  intros s o s1 f x' Hlt He Hg Hthr Htr HP Hunq.
  remember (op_tid o) as t eqn:Ht.
  assert (Hget : forall u, get_thr s1 u = if Nat.eqb u t then x' else get_thr s u)
    by (intros; eapply get_set_thr; eauto).
  split.
  - intros k p [u H].
    destruct (Nat.eqb_spec u t) as [Heq|Hne]; [subst u|].
    + destruct (Htr k p H) as [H1|H1]; [left|now right].
      exists t. rewrite Hget, Nat.eqb_refl, He, Hg. exact H1.
    + destruct H as [H|[H|H]].
      * left. exists u. rewrite Hget. destruct (Nat.eqb_spec u t); [contradiction|].
        rewrite He, Hg. left. exact H.
      * left. exists u. rewrite Hget. destruct (Nat.eqb_spec u t); [contradiction|].
        rewrite He, Hg. right. left. exact H.
      * destruct (Htr k p (or_intror (or_intror H))) as [H1|H1]; [left|now right].
        exists t. rewrite Hget, Nat.eqb_refl, He, Hg. exact H1.
  - left. split; [exact Hg|]. intros Hnr. split; [now apply HP|].
    intros u Hu. rewrite Hget, He in Hu.
    destruct (Nat.eqb_spec u t) as [Heq|Hne]; [subst u|].
    + destruct (Hunq Hnr Hu) as [H1 H2]. split; [exact H1|].
      split; intros ->; cbn [is_pass] in H2; discriminate.
    + split; [exact Hu|]. split; intros ->; cbn [op_tid] in Ht; congruence.
Qed.

Lemma ep_adv_neq : forall e, 0 <= e < 4 -> ep_adv e <> e.
Proof. intros e He. unfold ep_adv. lia. Qed.

Lemma mk_adv_facts : forall s o s1 f x',
  Inv1 s -> (op_tid o < length (q_thr s))%nat ->
  q_P s = 1 -> unqreg (q_ep s) (get_thr s (op_tid o)) = true ->
  q_ep s1 = ep_adv (q_ep s) -> q_gep s1 = q_gep s + 1 ->
  q_thr s1 = set_nth_thr (op_tid o) x' (q_thr s) ->
  (forall k p,
     oldloc k (q_gep s) (lag (q_ep s) (get_thr s (op_tid o))) (get_thr s (op_tid o)) (q_oprev s) (q_ocur s) p ->
     oldloc k (q_gep s + 1) (lag (ep_adv (q_ep s)) x') x' (q_oprev s1) (q_ocur s1) p \/ In p f) ->
  StepFacts s o s1 f.
Proof.
  intros s o s1 f x' I Hlt HP Hu He Hg Hthr Htr.
  remember (op_tid o) as t eqn:Ht.
  assert (Hget : forall u, get_thr s1 u = if Nat.eqb u t then x' else get_thr s u)
    by (intros; eapply get_set_thr; eauto).
  pose proof (only_unq s t I HP Hu) as Hothers.
  split; [|right; exact Hg].
  intros k p [u H].
  destruct (Nat.eqb_spec u t) as [Heq|Hne]; [subst u|].
  - destruct (Htr k p H) as [H1|H1]; [left|now right].
    exists t. rewrite Hget, Nat.eqb_refl, He, Hg. exact H1.
  - assert (Hthis : forall l c, In p l -> q_gep s - lag (q_ep s) (get_thr s u) + c <= k ->
              (t_reg (get_thr s u) = false -> l = []) ->
              q_gep s + 1 - lag (ep_adv (q_ep s)) (get_thr s u) + c <= k).
    { intros l c Hin Hk Hnil.
      destruct (t_reg (get_thr s u)) eqn:Hr; [|rewrite Hnil in Hin by reflexivity; contradiction].
      pose proof (Hothers u Hne) as Hq.
      assert (Hls : t_ls (get_thr s u) = q_ep s).
      { destruct (i_ls s I u Hr) as [Heq|[_ Hc]]; [exact Heq|].
        unfold unqreg in Hq. rewrite Hr, Hc in Hq. discriminate. }
      pose proof (ep_adv_neq (q_ep s) (i_ep s I)) as Hneq.
      unfold lag in *. rewrite Hls in *. rewrite Z.eqb_refl in Hk.
      destruct (Z.eqb_spec (ep_adv (q_ep s)) (q_ep s)); [contradiction|]. lia. }
    destruct H as [[Hin Hk]|[[Hin Hk]|H]].
    + left. exists u. rewrite Hget. destruct (Nat.eqb_spec u t); [contradiction|].
      rewrite He, Hg. left. split; [exact Hin|].
      apply (Hthis _ 1 Hin Hk). intros Hr. apply (i_unreg s I u Hr).
    + left. exists u. rewrite Hget. destruct (Nat.eqb_spec u t); [contradiction|].
      rewrite He, Hg. right. left. split; [exact Hin|].
      apply (Hthis _ 2 Hin Hk). intros Hr. apply (i_unreg s I u Hr).
    + destruct (Htr k p (or_intror (or_intror H))) as [H1|H1]; [left|now right].
      exists t. rewrite Hget, Nat.eqb_refl, He, Hg. exact H1.
Qed.

(** * Every call has one of the two shapes *)

Ltac prjh H := cbn [q_ep q_T q_P q_oprev q_ocur q_thr q_gep q_wait t_reg t_lsq t_ls t_qs t_prev t_cur
                 set_thr with_ghost fst snd negb andb orb b2z] in H.

Ltac solve_in :=
  match goal with
  | H : In ?p ?l |- In ?p ?l => exact H
  | |- In _ (_ ++ _) => apply in_or_app; first [left; solve_in | right; solve_in]
  | |- In _ (concat (push_nonempty _ _)) => apply in_push; first [left; solve_in | right; solve_in]
  end.

Ltac crack :=
  first [ solve_in
        | split; [solve_in | lia]
        | left; crack
        | right; crack ].

Ltac in_cases H :=
  repeat match type of H with
  | In _ (_ ++ _) => apply in_app_or in H; destruct H as [H|H]
  | In _ (concat (push_nonempty _ _)) => apply in_push in H; destruct H as [H|H]
  | In _ [] => destruct H
  | In _ (concat []) => destruct H
  end.

Ltac transfer :=
  let k := fresh "k" in let p := fresh "p" in
  let Hin := fresh "Hin" in let Hk := fresh "Hk" in
  unfold oldloc, lag; cbn [op_tid]; prj; intros k p;
  repeat zcase; try congruence; try lia;
  intros [[Hin Hk]|[[Hin Hk]|[[Hin Hk]|[Hin Hk]]]]; in_cases Hin; crack.

Ltac unq_goal x Hr :=
  cbn [op_tid is_pass]; fold x; unfold unqreg, unq; rewrite ?Hr; prj;
  repeat zcase; prj; try lia; try discriminate; auto.

Ltac step_facts s x I Hr Hlt :=
  lazymatch goal with |- StepFacts s ?O ?S1 ?F =>
    let e := eval cbn [q_ep set_thr with_ghost] in (q_ep S1) in
    lazymatch e with
    | ep_adv _ =>
        eapply mk_adv_facts;
        [ exact I | exact Hlt | lia | unq_goal x Hr
        | prj; reflexivity | prj; reflexivity | cbn [op_tid]; prj; reflexivity
        | cbn [op_tid]; fold x; transfer ]
    | _ =>
        eapply mk_same_facts;
        [ exact Hlt | prj; reflexivity | prj; reflexivity | cbn [op_tid]; prj; reflexivity
        | cbn [op_tid]; fold x; transfer
        | intros _; prj; lia
        | intros _; unq_goal x Hr ]
    end end.

Lemma facts_quiescent : forall s t, Inv1 s -> op_enabled s (QQuiescent t) = true ->
  StepFacts s (QQuiescent t) (fst (q_quiescent s t)) (snd (q_quiescent s t)).
Proof.
  intros s t I Hen. apply enabled_reg in Hen. cbn [op_tid] in Hen. destruct Hen as [Hr Hlt].
  pose proof (i_P1 s I) as HP1. pose proof (i_T s I) as HT.
  pose proof (reg_cnt_pos _ _ Hr) as HT1. rewrite <- HT in HT1. specialize (HP1 HT1).
  pose proof (i_qs s I t) as Hqs.
  unfold q_quiescent, adv_seen, exec_prev, handle_orphans.
  change (get_thr (with_ghost s (ghost_passed (q_wait s) t)) t) with (get_thr s t).
  set (x := get_thr s t) in *. prj.
  destruct (q_T s <? 2); destruct (Z.eqb_spec (q_ep s) (t_ls x)); prj;
  destruct (Z.eqb_spec (q_ep s) (t_lsq x)); prj;
  repeat zcase; prj; try lia.
  all: step_facts s x I Hr Hlt.
Qed.

Lemma facts_unregister : forall s t, Inv1 s -> op_enabled s (QUnregister t) = true ->
  StepFacts s (QUnregister t) (fst (q_unregister s t)) (snd (q_unregister s t)).
Proof.
  intros s t I Hen. apply enabled_reg in Hen. cbn [op_tid] in Hen. destruct Hen as [Hr Hlt].
  pose proof (i_P1 s I) as HP1. pose proof (i_T s I) as HT.
  pose proof (reg_cnt_pos _ _ Hr) as HT1. rewrite <- HT in HT1. specialize (HP1 HT1).
  pose proof (i_qs s I t) as Hqs.
  unfold q_unregister, adv_seen, exec_prev, handle_orphans.
  change (get_thr (with_ghost s (ghost_passed (q_wait s) t)) t) with (get_thr s t).
  set (x := get_thr s t) in *. prj.
  destruct (Z.eqb_spec (q_P s) 0); [lia|].
  destruct (q_T s <? 2); destruct (Z.eqb_spec (q_ep s) (t_ls x)); prj;
  destruct (Z.eqb_spec (t_lsq x) (q_ep s)); prj;
  repeat zcase; prj; try lia.
  all: step_facts s x I Hr Hlt.
Qed.

Lemma facts_retire : forall s t p, Inv1 s -> op_enabled s (QRetire t p) = true ->
  StepFacts s (QRetire t p) (fst (q_retire s t p)) (snd (q_retire s t p)).
Proof.
  intros s t p I Hen. apply enabled_reg in Hen. cbn [op_tid] in Hen. destruct Hen as [Hr Hlt].
  unfold q_retire, adv_seen, exec_prev.
  set (x := get_thr s t) in *.
  destruct (q_T s <? 2); destruct (Z.eqb_spec (q_ep s) (t_ls x)); destruct (Z.eqb_spec (t_ls x) (q_ep s));
    try congruence; prj.
  all: step_facts s x I Hr Hlt.
Qed.

Lemma facts_register : forall s t, Inv1 s -> op_enabled s (QRegister t) = true ->
  StepFacts s (QRegister t) (fst (q_register s t)) (snd (q_register s t)).
Proof.
  intros s t I Hen. unfold op_enabled in Hen. cbn [op_tid] in Hen.
  apply andb_prop in Hen. destruct Hen as [Hlt Hr]. apply Nat.ltb_lt in Hlt.
  apply negb_true_iff in Hr. destruct (i_unreg s I t Hr) as [Hp Hc].
  unfold q_register. prj.
  eapply mk_same_facts; [exact Hlt|prj; reflexivity|prj; reflexivity|cbn [op_tid]; prj; reflexivity| |
                         discriminate|discriminate].
  cbn [op_tid]. unfold oldloc. rewrite Hp, Hc. prj. intros k q.
  intros [[Hin Hk]|[[Hin Hk]|[[Hin Hk]|[Hin Hk]]]]; in_cases Hin; crack.
Qed.

Lemma facts_op : forall s o, Inv1 s -> op_enabled s o = true ->
  StepFacts s o (fst (op_res s o)) (snd (op_res s o)).
Proof.
  intros s [t|t|t|t p] I H; cbn [op_res].
  - now apply facts_register.
  - now apply facts_unregister.
  - now apply facts_quiescent.
  - now apply facts_retire.
Qed.

(** * Inv3 is preserved *)

Lemma cnt_unq_le : forall e l, cnt (unqreg e) l <= cnt t_reg l.
Proof.
  intros e l. induction l as [|x l IH]; cbn [cnt]; [lia|].
  unfold unqreg at 1. destruct (t_reg x); cbn [andb b2z]; [|lia]. destruct (unq e x); cbn [b2z]; lia.
Qed.

Lemma T_quiescent : forall s t, q_T (fst (q_quiescent s t)) = q_T s.
Proof.
  intros s t. unfold q_quiescent, adv_seen, exec_prev, handle_orphans.
  destruct (q_ep _ =? t_ls _); destruct (q_T _ <? 2); cbn [negb t_lsq t_qs];
  split_ifs; prj; reflexivity.
Qed.

Lemma T_retire : forall s t p, q_T (fst (q_retire s t p)) = q_T s.
Proof.
  intros s t p. unfold q_retire, adv_seen, exec_prev.
  destruct (q_T s <? 2); destruct (q_ep s =? t_ls (get_thr s t)); destruct (t_ls (get_thr s t) =? q_ep s); prj; reflexivity.
Qed.

Lemma inv3_unregister : forall s t, Inv1 s -> op_enabled s (QUnregister t) = true ->
  Inv3 (fst (q_unregister s t)).
Proof.
  intros s t I Hen. apply enabled_reg in Hen. cbn [op_tid] in Hen. destruct Hen as [Hr Hlt].
  pose proof (i_P1 s I) as HP1. pose proof (i_T s I) as HT.
  pose proof (reg_cnt_pos _ _ Hr) as HT1. rewrite <- HT in HT1. specialize (HP1 HT1).
  pose proof (cnt_unq_le (q_ep s) (q_thr s)) as Hle. rewrite <- (i_P s I), <- HT in Hle.
  destruct (Z.eq_dec (q_T s) 1) as [H1|H1].
  - pose proof (sole_unq s t I H1 Hr) as Hu.
    unfold unqreg, unq in Hu. rewrite Hr in Hu. cbn [andb] in Hu.
    unfold Inv3, q_unregister, adv_seen, exec_prev, handle_orphans.
    change (get_thr (with_ghost s (ghost_passed (q_wait s) t)) t) with (get_thr s t).
    set (x := get_thr s t) in *. prj.
    replace (q_T s <? 2) with true by (symmetry; apply Z.ltb_lt; lia).
    replace (q_P s =? 0) with false by (symmetry; apply Z.eqb_neq; lia).
    replace (q_P s =? 1) with true by (symmetry; apply Z.eqb_eq; lia).
    rewrite Hu. cbn [andb].
    destruct (q_ep s =? t_ls x); prj; intros _; split; reflexivity.
  - intros H0. exfalso. revert H0.
    unfold q_unregister, adv_seen, exec_prev, handle_orphans. prj.
    destruct (q_P s =? 0); prj; [lia|].
    split_ifs; prj; lia.
Qed.

Lemma inv3_op : forall s o, Inv1 s -> Inv3 s -> op_enabled s o = true -> Inv3 (fst (op_res s o)).
Proof.
  intros s o I I3 Hen.
  assert (HT0 : 0 <= q_T s) by (rewrite (i_T s I); apply cnt_nonneg).
  destruct o as [t|t|t|t p]; cbn [op_res].
  - intros H. unfold q_register in H. prjh H. lia.
  - now apply inv3_unregister.
  - apply enabled_reg in Hen. cbn [op_tid] in Hen. destruct Hen as [Hr _].
    pose proof (reg_cnt_pos _ _ Hr) as HT1. rewrite <- (i_T s I) in HT1.
    intros H. rewrite T_quiescent in H. lia.
  - apply enabled_reg in Hen. cbn [op_tid] in Hen. destruct Hen as [Hr _].
    pose proof (reg_cnt_pos _ _ Hr) as HT1. rewrite <- (i_T s I) in HT1.
    intros H. rewrite T_retire in H. lia.
Qed.

(** * Histories *)

Lemma facts_drop : forall s o, Inv1 s -> op_enabled s o = true ->
  StepFacts s o (drop_state (fst (op_res s o)) (snd (op_res s o))) (snd (op_res s o)).
Proof. intros s o I Hen. exact (facts_op s o I Hen). Qed.

Lemma step_gep : forall s o s1 f, StepFacts s o s1 f -> q_gep s <= q_gep s1.
Proof. intros s o s1 f [_ [[H _]|H]]; lia. Qed.

Lemma run_gep_mono : forall r s s' fs b, Inv1 s -> qrun s r = Some (s', fs, b) -> q_gep s <= q_gep s'.
Proof.
  induction r as [|o r IH]; intros s s' fs b I H.
  - cbn [qrun] in H. injection H as <- <- <-. lia.
  - rewrite qrun_cons in H. destruct (op_enabled s o) eqn:Hen; [|discriminate].
    destruct (qrun _ r) as [[[s3 fs3] bads3]|] eqn:Hrun; [|discriminate].
    injection H as <- <- <-.
    pose proof (step_gep _ _ _ _ (facts_drop s o I Hen)).
    apply IH in Hrun; [lia|apply inv1_drop, inv1_op; auto].
Qed.

Lemma run_old : forall r s s' fs b k p, Inv1 s -> Inv3 s -> qrun s r = Some (s', fs, b) ->
  Inv1 s' /\ Inv3 s' /\ q_gep s <= q_gep s' /\ (old k s p -> old k s' p \/ In p (concat fs)).
Proof.
  induction r as [|o r IH]; intros s s' fs b k p I I3 H.
  - cbn [qrun] in H. injection H as <- <- <-. split; [exact I|]. split; [exact I3|]. split; [lia|]. intros Hold. now left.
  - rewrite qrun_cons in H. destruct (op_enabled s o) eqn:Hen; [|discriminate].
    destruct (qrun _ r) as [[[s3 fs3] bads3]|] eqn:Hrun; [|discriminate].
    injection H as <- <- <-.
    pose proof (facts_drop s o I Hen) as SF.
    apply (IH _ _ _ _ k p) in Hrun; [|apply inv1_drop, inv1_op; auto|].
    + destruct Hrun as [I' [I3' [Hg Ho]]]. pose proof (step_gep _ _ _ _ SF) as Hg1.
      split; [exact I'|]. split; [exact I3'|]. split; [lia|].
      intros Hold. cbn [concat]. destruct SF as [Hst _].
      destruct (Hst k p Hold) as [H1|H1].
      * destruct (Ho H1) as [H2|H2]; [now left|right; apply in_or_app; now right].
      * right. apply in_or_app. now left.
    + exact (inv3_op s o I I3 Hen).
Qed.

Lemma run_noadv : forall r s s' fs b, Inv1 s -> qrun s r = Some (s', fs, b) ->
  (forall o, In o r -> is_reg o = false) -> q_gep s' = q_gep s ->
  (1 <= q_P s -> 1 <= q_P s') /\
  forall u, unqreg (q_ep s') (get_thr s' u) = true ->
    unqreg (q_ep s) (get_thr s u) = true /\ ~ In (QQuiescent u) r /\ ~ In (QUnregister u) r.
Proof.
  induction r as [|o r IH]; intros s s' fs b I H Hnr Hg.
  - cbn [qrun] in H. injection H as <- <- <-. split; auto.
  - rewrite qrun_cons in H. destruct (op_enabled s o) eqn:Hen; [|discriminate].
    destruct (qrun _ r) as [[[s3 fs3] bads3]|] eqn:Hrun; [|discriminate].
    injection H as <- <- <-.
    pose proof (facts_drop s o I Hen) as SF.
    assert (I1 : Inv1 (drop_state (fst (op_res s o)) (snd (op_res s o)))) by (apply inv1_drop, inv1_op; auto).
    pose proof (run_gep_mono _ _ _ _ _ I1 Hrun) as Hmono.
    pose proof (step_gep _ _ _ _ SF) as Hg1.
    destruct SF as [_ [[Hg0 Hna]|Hadv]]; [|lia].
    specialize (Hna (Hnr o (or_introl eq_refl))). destruct Hna as [HP Hu].
    apply IH in Hrun; [|exact I1|intros o' Ho'; apply Hnr; now right|lia].
    destruct Hrun as [HP' Hu'].
    split; [intros HP0; apply HP', HP, HP0|].
    intros u Hunq. destruct (Hu' u Hunq) as [H1 [H2 H3]].
    destruct (Hu u H1) as [H4 [H5 H6]].
    split; [exact H4|]. split; intros [Heq|Hin]; auto.
Qed.

Lemma cnt_pos_ex : forall f l, 1 <= cnt f l -> exists u, f (nth u l thr0) = true.
Proof.
  intros f l. induction l as [|x l IH]; cbn [cnt]; [lia|].
  destruct (f x) eqn:Hf; cbn [b2z].
  - intros _. exists O. exact Hf.
  - intros H. destruct IH as [u Hu]; [lia|]. exists (S u). exact Hu.
Qed.

(** * Rounds *)

(** a round from state [s]: no thread registers, and every thread registered
    in [s] announces a quiescent state or unregisters *)
Definition round_of (s : qstate) (r : list qop) : Prop :=
  (forall o, In o r -> match o with QRegister _ => False | _ => True end) /\
  (forall t, t_reg (get_thr s t) = true -> In (QQuiescent t) r \/ In (QUnregister t) r).

(** a round with at least one registered thread advances the epoch *)
Lemma round_advances : forall r s s' fs b, Inv1 s -> Inv3 s -> 1 <= q_T s ->
  qrun s r = Some (s', fs, b) -> round_of s r -> q_gep s + 1 <= q_gep s'.
Proof.
  intros r s s' fs b I I3 HT H [Hnr Hall].
  destruct (run_old r s s' fs b 0 0 I I3 H) as [I' [_ [Hmono _]]].
  destruct (Z.eq_dec (q_gep s') (q_gep s)) as [Heq|Hne]; [exfalso|lia].
  destruct (run_noadv r s s' fs b I H) as [HP Hu]; auto.
  { intros o Ho. specialize (Hnr o Ho). destruct o; [contradiction|reflexivity..]. }
  specialize (HP (i_P1 s I HT)). rewrite (i_P s' I') in HP.
  apply cnt_pos_ex in HP. destruct HP as [u Hunq].
  destruct (Hu u Hunq) as [H1 [H2 H3]].
  unfold unqreg in H1. apply andb_prop in H1. destruct H1 as [Hr _].
  destruct (Hall u Hr); contradiction.
Qed.

(** * The three-round bound *)

Theorem three_rounds : forall n pre s fs bads r1 r2 r3 s1 f1 b1 s2 f2 b2 s3 f3 b3 p,
  qrun (qinit n) pre = Some (s, fs, bads) ->
  qrun s r1 = Some (s1, f1, b1) -> round_of s r1 ->
  qrun s1 r2 = Some (s2, f2, b2) -> round_of s1 r2 ->
  qrun s2 r3 = Some (s3, f3, b3) -> round_of s2 r3 ->
  In p (pending s) -> In p (concat (f1 ++ f2 ++ f3)).
Proof.
  intros n pre s fs bads r1 r2 r3 s1 f1 b1 s2 f2 b2 s3 f3 b3 p Hpre H1 R1 H2 R2 H3 R3 Hp.
  set (k := q_gep s + 2).
  destruct (run_old pre _ _ _ _ k p (inv1_init n) (inv3_init n) Hpre) as [I [I3 _]].
  pose proof (pending_old s p Hp) as Hold. fold k in Hold.
  rewrite !concat_app.
  destruct (run_old r1 _ _ _ _ k p I I3 H1) as [I1 [I31 [_ Ho1]]].
  pose proof (round_advances r1 _ _ _ _ I I3 (old_threads k s p I I3 Hold) H1 R1) as Hg1.
  destruct (Ho1 Hold) as [Hold1|Hf]; [|apply in_or_app; now left].
  destruct (run_old r2 _ _ _ _ k p I1 I31 H2) as [I2 [I32 [_ Ho2]]].
  pose proof (round_advances r2 _ _ _ _ I1 I31 (old_threads k s1 p I1 I31 Hold1) H2 R2) as Hg2.
  destruct (Ho2 Hold1) as [Hold2|Hf]; [|apply in_or_app; right; apply in_or_app; now left].
  destruct (run_old r3 _ _ _ _ k p I2 I32 H3) as [I3' [I33 [_ Ho3]]].
  pose proof (round_advances r3 _ _ _ _ I2 I32 (old_threads k s2 p I2 I32 Hold2) H3 R3) as Hg3.
  destruct (Ho3 Hold2) as [Hold3|Hf]; [|apply in_or_app; right; apply in_or_app; now right].
  pose proof (old_gep k s3 p Hold3). unfold k in *. lia.
Qed.

Print Assumptions three_rounds.
