(** Invariant preservation, part B: register_thread and on_next_epoch_deallocate. *)
From Coq Require Import List ZArith Bool Lia Arith.
From Unodb Require Import Qsbr.QsbrModel Qsbr.QsbrBase Qsbr.QsbrInv Qsbr.QsbrFine Qsbr.QsbrFineBase
  Qsbr.QsbrFineInv Qsbr.QsbrFineStepA.
Import ListNotations.
Local Open Scope Z_scope.

Ltac Zify.zify_post_hook ::= Z.div_mod_to_equations.

Lemma sw_eqb_eq : forall a b, sw_eqb a b = true -> a = b.
Proof.
  intros [e1 t1 p1] [e2 t2 p2] H. unfold sw_eqb in H. cbn [w_ep w_T w_P] in H.
  apply andb_prop in H. destruct H as [H H3]. apply andb_prop in H. destruct H as [H1 H2].
  apply Z.eqb_eq in H1, H2, H3. congruence.
Qed.

(** frame of a step that keeps the ghost and in which [t] cannot hold references *)
Lemma mk_same_nohr : forall s s1 t x', (t < length (f_thr s))%nat ->
  f_thr s1 = set_nth_fthr t x' (f_thr s) -> w_ep (f_w s1) = w_ep (f_w s) ->
  f_wait s1 = f_wait s -> holds_refs (get_fthr s t) = false ->
  (late_pc (ft_pc (get_fthr s t)) = true -> late_pc (ft_pc x') = true) ->
  StepSame s s1 t keep_all.
Proof.
  intros s s1 t x' Hlt Hthr He Hw Hh Hl. eapply mk_same; eauto.
  intros p _. now apply FW_same.
Qed.

Lemma step_reg_inv : forall s t e s', Inv s -> (t < length (f_thr s))%nat ->
  ft_free (get_fthr s t) = [] ->
  step_reg s t (get_fthr s t) e = Some s' -> Inv s'.
Proof.
  intros s t e s' I Hlt Hfr H. unfold step_reg in H.
  pose proof (v_thr s I t) as Hok. pose proof (v_loc s I t) as Hloc.
  pose proof (v_ep s I) as Hep. unfold fE in Hep.
  destruct (get_fthr s t) as [th pc op fr] eqn:Hx. cbn [ft ft_pc ft_op ft_free] in *. subst fr.
  destruct th as [reg lsq ls qs prev cur].
  destruct Hloc as [Hwf [Hqs [Hpr Hcall]]]. cnt_unfold_in Hwf. cnt_unfold_in Hqs.
  destruct pc; try discriminate; destruct e; try discriminate.
  all: destruct op; try discriminate Hwf; destruct reg; try discriminate Hwf.
  (* PRegLoad *)
  1,2: destruct (sees s w); [|discriminate]; inversion H; subst s'; clear H.
  (* PRegCas *)
  3,4: cbv zeta in H;
       match type of H with (if ?c then _ else _) = _ => destruct c; [|discriminate] end;
       destruct (sw_eqb old (f_w s)) eqn:Heq;
       [apply sw_eqb_eq in Heq; subst old;
        destruct ((0 <? w_P (f_w s)) || (w_T (f_w s) =? 0)) eqn:Hboth|];
       inversion H; subst s'; clear H.
  (* PRegSpin *)
  9-12: try (inversion H; subst s'; exact I).
  9,10: destruct (sees s w); [|discriminate];
        destruct (Z.eqb_spec (w_ep (f_w s)) old_epoch) as [Hoe|Hoe]; cbn [negb] in H;
        inversion H; subst s'; clear H; try exact I.
  all: match goal with |- Inv (set_fthr _ _ ?X) => set (x' := X) end.
  all: match goal with |- Inv ?S => set (s1 := S) end.
  all: assert (SS : StepSame s s1 t keep_all) by
    (eapply mk_same_nohr with (x' := x'); [exact Hlt|reflexivity|reflexivity|reflexivity|
      rewrite Hx; reflexivity|rewrite Hx; discriminate]).
  all: eapply inv_same with (t := t) (keep := keep_all) (x' := x'); eauto; keep_tac.
  all: subst x' s1.
  all: lazymatch goal with
    | |- thr_ok _ _ _ =>
        eapply thr_ok_relsk; [eapply same_thr_ok; [exact SS|keep_tac|exact Hok]|..];
        try reflexivity; try (cbn [ft_free upd reg_return]; intros ?p; apply in_app_nil)
    | |- _ => idtac
    end.
  all: try lazymatch goal with
    | |- (_ <= _)%nat => unfold lsk, fE; cnt_unfold; rewrite ?Z.eqb_refl;
         repeat match goal with |- context [(?a =? ?b)%Z] => destruct (a =? b)%Z end; lia
    | |- pc_ok _ _ _ => exact Logic.I
    | |- stale_stm _ = true -> _ => cnt_unfold; discriminate
    end.
  all: same_dispatch SS Hok Hx.
  all: rewrite ?Z.eqb_refl; cbn [negb b2z]; try lia.
  all: destruct (Z.eqb_spec old_epoch (w_ep (f_w s))); cbn [negb b2z]; [congruence|lia].
Qed.

(* ------------------------------------------------------------------ *)
(** * Helpers for steps that move requests *)

(** the record of the stepping thread in the new state, from facts about the old state *)
Lemma thr_ok_from_old : forall s s1 t keep x', StepSame s s1 t keep ->
  (forall p, In p (t_cur (ft x')) -> keep p /\ ~ In t (FW s p) /\ fcls s (lsk (fE s) x') p) ->
  (forall p, In p (t_prev (ft x')) -> keep p /\ ~ In t (FW s p) /\ fcls s (S (lsk (fE s) x')) p) ->
  (forall p, In p (ft_free x') -> keep p /\ fcls s 2 p) ->
  pc_ok s1 t (ft_pc x') ->
  (stale_stm (ft_pc x') = true ->
     forall p, In p (t_cur (ft x') ++ t_prev (ft x')) -> keep p /\ fcls s 2 p) ->
  thr_ok s1 t x'.
Proof.
  intros s s1 t keep x' SS Hc Hp Hf Hpc Hs. constructor; rewrite ?(ss_ep _ _ _ _ SS); auto.
  - intros p Hin. destruct (Hc p Hin) as [Hk [Hn Hcl]]. split.
    + eapply same_notin; eauto.
    + eapply same_cls; eauto.
  - intros p Hin. destruct (Hp p Hin) as [Hk [Hn Hcl]]. split.
    + eapply same_notin; eauto.
    + eapply same_cls; eauto.
  - intros p Hin. destruct (Hf p Hin) as [Hk Hcl]. eapply same_cls; eauto.
  - intros Hst p Hin. destruct (Hs Hst p Hin) as [Hk Hcl]. eapply same_cls; eauto.
Qed.

(** single thread mode: only [t] is counted, so nobody else may hold references *)
Lemma sole_hr : forall s t v, Inv s -> w_T (f_w s) < 2 -> cntT (get_fthr s t) = true ->
  v <> t -> hr s v = false.
Proof.
  intros s t v I HT Hc Hne.
  assert (HT1 : fcnt cntT (f_thr s) = 1).
  { pose proof (fcnt_pos cntT (f_thr s) t cntT_fthr0 Hc) as H1. rewrite <- (v_T s I) in *. lia. }
  assert (Hlt : (t < length (f_thr s))%nat).
  { destruct (Nat.ltb_spec t (length (f_thr s))); auto.
    rewrite get_fthr_overflow in Hc by lia. discriminate. }
  pose proof (fcnt_one_unique cntT (f_thr s) t HT1 Hlt Hc cntT_fthr0 v Hne) as Hv.
  pose proof (notT_quiet _ (proj1 (v_loc s I v)) Hv) as Hq.
  unfold hr, holds_refs. unfold quiet in Hq. apply andb_prop in Hq. destruct Hq as [Hq _].
  destruct (t_reg (ft (get_fthr s v))); [discriminate|reflexivity].
Qed.

Lemma sole_empty : forall s t q, Inv s -> w_T (f_w s) < 2 -> cntT (get_fthr s t) = true ->
  fcls s 0 q -> ~ In t (FW s q) -> fcls s 2 q.
Proof.
  intros s t q I HT Hc H0 Hn. cbn [fcls] in *. apply list_empty_no_in. intros v Hv.
  destruct (Nat.eq_dec v t) as [->|Hne]; [contradiction|].
  pose proof (H0 v Hv) as Hh. rewrite (sole_hr s t v I HT Hc Hne) in Hh. discriminate.
Qed.
