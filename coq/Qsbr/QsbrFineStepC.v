(** Invariant preservation, part C: on_next_epoch_deallocate. *)
From Coq Require Import List ZArith Bool Lia Arith.
From Unodb Require Import Qsbr.QsbrModel Qsbr.QsbrBase Qsbr.QsbrInv Qsbr.QsbrFine Qsbr.QsbrFineBase
  Qsbr.QsbrFineInv Qsbr.QsbrFineStepA Qsbr.QsbrFineStepB.
Import ListNotations.
Local Open Scope Z_scope.

Ltac Zify.zify_post_hook ::= Z.div_mod_to_equations.

Lemma FW_cons_other : forall s s1 p ao q, f_wait s1 = (p, ao) :: f_wait s -> q <> p -> FW s1 q = FW s q.
Proof.
  intros s s1 p ao q H Hne. unfold FW. rewrite H. cbn [wait_of].
  destruct (Z.eqb_spec p q); [congruence|reflexivity].
Qed.

Lemma FW_cons_same : forall s s1 p ao, f_wait s1 = (p, ao) :: f_wait s -> FW s1 p = ao.
Proof. intros s s1 p ao H. unfold FW. rewrite H. cbn [wait_of]. now rewrite Z.eqb_refl. Qed.

Lemma step_retire_obs_inv : forall s t p p' s', Inv s -> (t < length (f_thr s))%nat ->
  ft_pc (get_fthr s t) = PRetObs p -> ~ In p' (fpending s) ->
  step_retire s t (get_fthr s t) (FRetire t p') = Some s' -> Inv s'.
Proof.
  intros s t p p' s' I Hlt Hpc Hnp H. unfold step_retire in H.
  pose proof (v_thr s I t) as Hok. pose proof (v_loc s I t) as Hloc.
  destruct (get_fthr s t) as [th pc op fr] eqn:Hx. cbn [ft ft_pc ft_op ft_free] in *. subst pc.
  destruct th as [reg lsq ls qs prev cur].
  destruct Hloc as [Hwf [Hqs [Hpr Hcall]]]. cnt_unfold_in Hwf. cnt_unfold_in Hqs.
  destruct (Z.eqb_spec p' p) as [->|]; [|discriminate].
  destruct op; try discriminate Hwf; destruct reg; try discriminate Hwf.
  inversion H; subst s'; clear H.
  match goal with |- Inv (set_fthr _ _ ?X) => set (x' := X) end.
  match goal with |- Inv ?S => set (s1 := S) end.
  set (keep := fun q : ptr => q <> p).
  assert (Hw1 : f_wait s1 = (p, active_others (f_thr s) t 0) :: f_wait s) by reflexivity.
  assert (SS : StepSame s s1 t keep).
  { eapply mk_same with (x' := x'); [exact Hlt|reflexivity|reflexivity|..].
    - intros q Hq v Hv. now rewrite (FW_cons_other s s1 p _ q Hw1 Hq) in Hv.
    - rewrite Hx. right. right. split; [reflexivity|auto].
    - rewrite Hx. discriminate. }
  assert (Hkeep : forall q, In q (fpending s) -> keep q) by (intros q Hq ->; contradiction).
  eapply inv_same with (t := t) (keep := keep) (x' := x'); eauto.
  all: try (subst x' s1; rewrite ?Hx; cnt_unfold; repeat split; auto; try lia; try discriminate; tauto).
  - eapply thr_ok_repc; [eapply same_thr_ok; [exact SS| |exact Hok]|..]; try reflexivity; auto.
    + intros q Hq. apply Hkeep. apply (in_fpending_thr s t). now rewrite Hx.
    + cbn [pc_ok ft_pc x' with_pc]. rewrite (FW_cons_same s s1 p _ Hw1). split.
      * intros Hin. apply in_active_others in Hin. tauto.
      * cbn [fcls]. rewrite (FW_cons_same s s1 p _ Hw1). intros v Hv.
        apply in_active_others in Hv. destruct Hv as [Hne [j [-> Hh]]]. cbn [Nat.add] in *.
        unfold hr. rewrite (ss_oth _ _ _ _ SS) by auto. exact Hh.
  - eapply same_ocur; eauto.
  - eapply same_oprev; eauto.
Qed.

Ltac lsk_tac :=
  unfold lsk, fE; cnt_unfold;
  repeat match goal with |- context [(?a =? ?b)%Z] => destruct (Z.eqb_spec a b) end;
  try lia; try congruence.

(** split a membership hypothesis over appends, singletons and empty lists *)
Ltac in_cases Hin :=
  repeat first
    [ apply in_app_or in Hin; destruct Hin as [Hin|Hin]
    | match type of Hin with In _ [] => destruct Hin end
    | match type of Hin with In _ (_ :: _) => destruct Hin as [<-|Hin] end ].

(** facts of the old state about a request of the stepping thread's own lists *)
Ltac own_fact Hc Hp Hpc q Hin :=
  first
    [ destruct (Hc q Hin) as [?Hn ?Hcl]
    | destruct (Hp q Hin) as [?Hn ?Hcl]
    | destruct Hpc as [?Hn ?Hcl] ].

Ltac cls_from Hcl := first [exact Hcl | eapply fcls_le; [|exact Hcl]; lsk_tac].

Lemma step_retire_load_inv : forall s t p w s', Inv s -> (t < length (f_thr s))%nat ->
  ft_pc (get_fthr s t) = PRetLoad p -> ft_free (get_fthr s t) = [] ->
  step_retire s t (get_fthr s t) (FLoad t w) = Some s' -> Inv s'.
Proof.
  intros s t p w s' I Hlt Hpc Hfr H. unfold step_retire in H.
  pose proof (v_thr s I t) as Hok. pose proof (v_loc s I t) as Hloc.
  assert (HcT : cntT (get_fthr s t) = true) by (unfold cntT; now rewrite Hpc).
  pose proof (sole_empty s t) as Hsole. specialize (Hsole).
  destruct (get_fthr s t) as [th pc op fr] eqn:Hx. cbn [ft ft_pc ft_op ft_free] in *. subst pc fr.
  destruct th as [reg lsq ls qs prev cur].
  destruct Hloc as [Hwf [Hqs [Hpr Hcall]]]. cnt_unfold_in Hwf. cnt_unfold_in Hqs.
  destruct Hok as [Hc Hp _ Hpc _]. cbn [ft t_cur t_prev pc_ok ft_pc] in Hc, Hp, Hpc.
  destruct op; try discriminate Hwf; destruct reg; try discriminate Hwf.
  destruct (sees s w); [|discriminate].
  unfold adv_seen, exec_prev, sw_stm in H. cbn [t_ls t_reg t_lsq t_qs t_prev t_cur] in H.
  destruct (Z.ltb_spec (w_T (f_w s)) 2) as [Hstm|Hstm];
  destruct (Z.eqb_spec (w_ep (f_w s)) ls) as [Hls|Hls];
  destruct (Z.eqb_spec ls (w_ep (f_w s))) as [Hls'|Hls']; try congruence;
  cbn [negb] in H; inversion H; subst s'; clear H.
  all: match goal with |- Inv (set_fthr _ _ ?X) => set (x' := X) end.
  all: match goal with |- Inv ?S => set (s1 := S) end.
  all: assert (SS : StepSame s s1 t keep_all) by
    (eapply mk_same with (x' := x'); [exact Hlt|reflexivity|reflexivity|..];
     [intros q _; now apply FW_same
     |rewrite Hx; right; right; split; [reflexivity|auto]
     |rewrite Hx; discriminate]).
  all: eapply inv_same with (t := t) (keep := keep_all) (x' := x'); eauto; keep_tac.
  all: lazymatch goal with
    | |- thr_ok _ _ _ => idtac
    | |- forall p, In p (ol_reqs (f_ocur _)) -> _ => eapply same_ocur; eauto; keep_tac
    | |- forall p, In p (ol_reqs (f_oprev _)) -> _ => eapply same_oprev; eauto; keep_tac
    | |- _ => subst x' s1; rewrite ?Hx; cnt_unfold; repeat split; auto; try lia; try discriminate; try tauto
    end.
  all: eapply thr_ok_from_old; [exact SS|..]; subst x' s1; cbn [ft ft_pc ft_free upd t_cur t_prev app pc_ok].
  all: try exact Logic.I.
  all: try (cnt_unfold; discriminate).
  all: intros q Hin; in_cases Hin; (split; [exact Logic.I|]); own_fact Hc Hp Hpc q Hin.
  all: try (split; [assumption|]).
  all: try solve [cls_from Hcl].
  all: match goal with |- fcls _ 2 ?q =>
         apply (Hsole q I); [lia|exact HcT|eapply fcls_0; eassumption|assumption] end.
Qed.
