(** Invariant preservation, part D: quiescent up to the fetch_sub. *)
From Coq Require Import List ZArith Bool Lia Arith.
From Unodb Require Import Qsbr.QsbrModel Qsbr.QsbrBase Qsbr.QsbrInv Qsbr.QsbrFine Qsbr.QsbrFineBase
  Qsbr.QsbrFineInv Qsbr.QsbrFineStepA Qsbr.QsbrFineStepB Qsbr.QsbrFineStepC.
Import ListNotations.
Local Open Scope Z_scope.

Ltac Zify.zify_post_hook ::= Z.div_mod_to_equations.

Lemma step_q_inv : forall s t e s', Inv s -> (t < length (f_thr s))%nat ->
  ft_pc (get_fthr s t) = PQLoad -> ft_free (get_fthr s t) = [] ->
  step_q s t (get_fthr s t) e = Some s' -> Inv s'.
Proof.
  intros s t e s' I Hlt Hpc Hfr H. unfold step_q in H.
  pose proof (v_thr s I t) as Hok. pose proof (v_loc s I t) as Hloc.
  assert (HcT : cntT (get_fthr s t) = true) by (unfold cntT; now rewrite Hpc).
  pose proof (sole_empty s t) as Hsole.
  destruct (get_fthr s t) as [th pc op fr] eqn:Hx. cbn [ft ft_pc ft_op ft_free] in *. subst pc fr.
  destruct th as [reg lsq ls qs prev cur].
  destruct Hloc as [Hwf [Hqs [Hpr Hcall]]]. cnt_unfold_in Hwf. cnt_unfold_in Hqs.
  destruct Hok as [Hc Hp _ Hpc _]. cbn [ft t_cur t_prev pc_ok ft_pc] in Hc, Hp, Hpc.
  destruct e; try discriminate.
  destruct op; try discriminate Hwf; destruct reg; try discriminate Hwf.
  destruct (sees s w); [|discriminate].
  unfold adv_seen, exec_prev, sw_stm in H. cbn [t_ls t_reg t_lsq t_qs t_prev t_cur] in H.
  destruct (Z.ltb_spec (w_T (f_w s)) 2) as [Hstm|Hstm];
  destruct (Z.eqb_spec (w_ep (f_w s)) ls) as [Hls|Hls];
  cbn [t_ls t_reg t_lsq t_qs t_prev t_cur thr_set_lsq_qs] in H;
  destruct (Z.eqb_spec (w_ep (f_w s)) lsq) as [Hlsq|Hlsq];
  cbn [negb t_ls t_reg t_lsq t_qs t_prev t_cur thr_set_lsq_qs] in H;
  try (destruct (Z.eqb_spec qs 0) as [Hq0|Hq0]);
  try change (0 =? 0) with true in H; cbn iota in H;
  inversion H; subst s'; clear H.
  all: match goal with |- Inv (set_fthr _ _ ?X) => set (x' := X) end.
  all: match goal with |- Inv ?S => set (s1 := S) end.
  all: assert (SS : StepSame s s1 t keep_all) by
    (eapply mk_same_nohr with (x' := x'); [exact Hlt|reflexivity|reflexivity|reflexivity|
      rewrite Hx; reflexivity|rewrite Hx; discriminate]).
  all: eapply inv_same with (t := t) (keep := keep_all) (x' := x'); eauto; keep_tac.
  all: lazymatch goal with
    | |- thr_ok _ _ _ => idtac
    | |- forall p, In p (ol_reqs (f_ocur _)) -> _ => eapply same_ocur; eauto; keep_tac
    | |- forall p, In p (ol_reqs (f_oprev _)) -> _ => eapply same_oprev; eauto; keep_tac
    | |- _ => subst x' s1; rewrite ?Hx; cnt_unfold; rewrite ?Z.eqb_refl; cnt_unfold;
              repeat split; auto; try lia; try discriminate; try tauto
    end.
  all: try solve [repeat match goal with |- context [(?a =? ?b)%Z] => destruct (Z.eqb_spec a b) end;
                  cbn [negb orb b2z]; lia].
  all: eapply thr_ok_from_old; [exact SS|..]; subst x' s1;
       cbn [ft ft_pc ft_free upd t_cur t_prev app pc_ok thr_set_lsq_qs].
  all: try exact Logic.I.
  all: try (cnt_unfold; discriminate).
  all: try (match goal with |- stale_stm _ = true -> _ =>
         let Hst := fresh "Hst" in intros Hst; cnt_unfold_in Hst; unfold sw_stm in Hst;
         apply Z.ltb_lt in Hst end).
  all: intros q Hin; in_cases Hin; (split; [exact Logic.I|]); own_fact Hc Hp Hpc q Hin.
  all: try (split; [assumption|]).
  all: try solve [cls_from Hcl].
  all: match goal with |- fcls _ 2 ?q =>
         apply (Hsole q I); [lia|exact HcT|eapply fcls_0; eassumption|assumption] end.
Qed.
