(** Invariant preservation, part G: unregister_thread. *)
From Coq Require Import List ZArith Bool Lia Arith.
From Unodb Require Import Qsbr.QsbrModel Qsbr.QsbrBase Qsbr.QsbrInv Qsbr.QsbrFine Qsbr.QsbrFineBase
  Qsbr.QsbrFineInv Qsbr.QsbrFineStepA Qsbr.QsbrFineStepB Qsbr.QsbrFineStepC Qsbr.QsbrFineStepE.
Import ListNotations.
Local Open Scope Z_scope.

Ltac Zify.zify_post_hook ::= Z.div_mod_to_equations.

Lemma orph_next_pc : forall th,
  orph_next th = POLoad OPrev \/ orph_next th = POLoad OCur \/ orph_next th = PRet.
Proof. intros th. unfold orph_next. destruct (t_prev th); auto. destruct (t_cur th); auto. Qed.

(** the load of unregister_thread, and the retry after a failed CAS: decide from the word *)
Lemma unreg_decide_inv : forall s t u, Inv s -> (t < length (f_thr s))%nat ->
  (ft_pc (get_fthr s t) = PULoad u \/ ft_pc (get_fthr s t) = PUCas u) ->
  ft_free (get_fthr s t) = [] ->
  Inv (set_fthr s t (with_pc (get_fthr s t) (u_decide (u_with_old u (f_w s))))).
Proof.
  intros s t u I Hlt Hpc Hfr.
  pose proof (v_thr s I t) as Hok. pose proof (v_loc s I t) as Hloc.
  assert (HcT : cntT (get_fthr s t) = true) by (unfold cntT; destruct Hpc as [-> | ->]; reflexivity).
  pose proof (sole_empty s t) as Hsole.
  destruct (get_fthr s t) as [th pc op fr] eqn:Hx. cbn [ft ft_pc ft_op ft_free] in *. subst fr.
  destruct th as [reg lsq ls qs prev cur].
  destruct Hloc as [Hwf [Hqs [Hpr Hcall]]].
  assert (Hwf' : is_unreg op && negb reg = true).
  { destruct Hpc as [-> | ->]; exact Hwf. }
  destruct op; try discriminate Hwf'; destruct reg; try discriminate Hwf'.
  all: unfold u_decide, u_advance, u_remove_old; cbn [u_with_old u_old u_qs u_te u_ecbc].
  all: destruct (Z.eqb_spec (w_P (f_w s)) 0) as [HP0|HP0];
       [|destruct ((negb (u_te u =? w_ep (f_w s)) || (u_qs u =? 0)) && (w_P (f_w s) =? 1) &&
                   negb (sw_stm (f_w s) && u_ecbc u)) eqn:Hadv].
  all: match goal with |- Inv (set_fthr _ _ ?X) => set (x' := X) end.
  all: match goal with |- Inv ?S => set (s1 := S) end.
  all: assert (SS : StepSame s s1 t keep_all) by
    (eapply mk_same_nohr with (x' := x'); [exact Hlt|reflexivity|reflexivity|reflexivity|
       rewrite Hx; reflexivity|rewrite Hx; destruct Hpc as [-> | ->]; discriminate]).
  all: eapply inv_same with (t := t) (keep := keep_all) (x' := x'); eauto; keep_tac.
  all: subst x' s1.
  all: lazymatch goal with
    | |- thr_ok _ _ _ => idtac
    | |- forall p, In p (ol_reqs (f_ocur _)) -> _ => eapply same_ocur; eauto; keep_tac
    | |- forall p, In p (ol_reqs (f_oprev _)) -> _ => eapply same_oprev; eauto; keep_tac
    | |- _ => rewrite ?Hx; destruct Hpc as [-> | ->]; cnt_unfold;
              repeat split; auto; try lia; try discriminate; try tauto
    end.
  all: try (apply andb_prop in Hadv; destruct Hadv as [Hadv _]; apply andb_prop in Hadv;
            destruct Hadv as [Hrm _]; rewrite Hrm; cbn [b2z]; lia).
  all: eapply thr_ok_repc; [eapply same_thr_ok; [exact SS|keep_tac|exact Hok]|..];
       try reflexivity; auto; try exact Logic.I.
  all: try (cnt_unfold; discriminate).
  all: cnt_unfold; unfold sw_stm; intros Hst; apply Z.ltb_lt in Hst; right.
  all: destruct Hok as [Hc Hp _ _ _]; cbn [ft t_cur t_prev] in Hc, Hp.
  all: intros q Hin; eapply same_cls; [exact SS|exact Logic.I|].
  all: apply in_app_or in Hin; destruct Hin as [Hin|Hin];
       [destruct (Hc q Hin) as [Hn Hcl]|destruct (Hp q Hin) as [Hn Hcl]];
       (apply (Hsole q I); [lia|exact HcT|eapply fcls_0; exact Hcl|exact Hn]).
Qed.

(** the successful CAS of unregister_thread, the thread object being [th1] afterwards
    and [f1] the requests executed by the step *)
Lemma unreg_finish : forall s t u th1 f1, Inv s -> (t < length (f_thr s))%nat ->
  ft_pc (get_fthr s t) = PUCas u -> ft_free (get_fthr s t) = [] -> u_old u = f_w s ->
  t_reg th1 = false -> 0 <= t_qs th1 ->
  (forall p, In p (t_cur th1) -> ~ In t (FW s p) /\ fcls s (if fE s =? t_ls th1 then 0 else 1) p) ->
  (forall p, In p (t_prev th1) -> ~ In t (FW s p) /\ fcls s (S (if fE s =? t_ls th1 then 0 else 1)) p) ->
  (forall p, In p f1 -> fcls s 2 p) ->
  Inv (set_fthr (set_w s (u_desired u)) t (upd (get_fthr s t) th1 (orph_next th1) f1)).
Proof.
  intros s t u th1 f1 I Hlt Hpc Hfr Hold Hreg1 Hqs1 Hc1 Hp1 Hf1.
  pose proof (v_loc s I t) as Hloc.
  pose proof (P0_cntP s t I) as HP0c. unfold cp in HP0c.
  destruct (get_fthr s t) as [th pc op fr] eqn:Hx. cbn [ft ft_pc ft_op ft_free] in *. subst pc fr.
  destruct th as [reg lsq ls qs prev cur].
  destruct Hloc as [Hwf [Hqs [Hpr Hcall]]]. cnt_unfold_in Hwf.
  cnt_unfold_in HP0c.
  unfold u_desired, u_remove_old. rewrite Hold.
  destruct (orph_next_pc th1) as [Ho|[Ho|Ho]]; rewrite Ho.
  all: destruct op; try discriminate Hwf; destruct reg; try discriminate Hwf.
  all: destruct (Z.eqb_spec (w_P (f_w s)) 0) as [HP0|HP0];
       [specialize (HP0c HP0)|clear HP0c; destruct (negb (u_te u =? w_ep (f_w s)) || (u_qs u =? 0)) eqn:Hrm].
  all: match goal with |- Inv (set_fthr _ _ ?X) => set (x' := X) end.
  all: match goal with |- Inv ?S => set (s1 := S) end.
  all: assert (SS : StepSame s s1 t keep_all) by
    (eapply mk_same_nohr with (x' := x'); [exact Hlt|reflexivity|reflexivity|reflexivity|
       rewrite Hx; reflexivity|rewrite Hx; discriminate]).
  all: eapply inv_same with (t := t) (keep := keep_all) (x' := x'); eauto; keep_tac.
  all: subst x' s1.
  all: lazymatch goal with
    | |- thr_ok _ _ _ => idtac
    | |- forall p, In p (ol_reqs (f_ocur _)) -> _ => eapply same_ocur; eauto; keep_tac
    | |- forall p, In p (ol_reqs (f_oprev _)) -> _ => eapply same_oprev; eauto; keep_tac
    | |- _ => rewrite ?Hx; cnt_unfold; rewrite ?Hreg1, ?HP0c, ?Hrm; cnt_unfold;
              repeat split; auto; try lia; try discriminate; try tauto
    end.
  all: eapply thr_ok_from_old; [exact SS|..];
       cbn [ft ft_pc ft_free upd t_cur t_prev app pc_ok]; try exact Logic.I.
  all: try (cnt_unfold; discriminate).
  all: try (intros q Hin; split; [exact Logic.I|]; first [exact (Hc1 q Hin)|exact (Hp1 q Hin)|exact (Hf1 q Hin)]).
Qed.

Lemma step_unreg_inv : forall s t e s', Inv s -> (t < length (f_thr s))%nat ->
  ft_free (get_fthr s t) = [] ->
  step_unreg s t (get_fthr s t) e = Some s' -> Inv s'.
Proof.
  intros s t e s' I Hlt Hfr H. unfold step_unreg in H.
  destruct (ft_pc (get_fthr s t)) eqn:Hpc; try discriminate; destruct e; try discriminate.
  - destruct (sees s w); [|discriminate]. inversion H; subst s'.
    apply unreg_decide_inv; auto.
  - cbv zeta in H.
    match type of H with (if ?c then _ else _) = _ => destruct c; [|discriminate] end.
    destruct (sw_eqb (u_old u) (f_w s)) eqn:Heq;
      [|inversion H; subst s'; apply unreg_decide_inv; auto].
    apply sw_eqb_eq in Heq.
    pose proof (v_thr s I t) as Hok. pose proof (v_loc s I t) as Hloc.
    assert (HcT : cntT (get_fthr s t) = true) by (unfold cntT; now rewrite Hpc).
    pose proof (sole_empty s t) as Hsole.
    pose proof (unreg_finish s t u) as Hfin.
    destruct Hloc as [Hwf [Hqs [Hpr Hcall]]]. unfold wf_pc in Hwf. rewrite Hpc in Hwf.
    apply andb_prop in Hwf. destruct Hwf as [_ Hreg]. apply negb_true_iff in Hreg.
    destruct Hok as [Hc Hp _ _ _]. unfold lsk in Hc, Hp.
    destruct (w_P (u_old u) =? 0).
    + inversion H; subst s'. apply Hfin; auto. intros p [].
    + unfold adv_seen, exec_prev in H. rewrite Heq in H. unfold sw_stm in H.
      destruct (Z.eqb_spec (w_ep (f_w s)) (t_ls (ft (get_fthr s t)))) as [Hls|Hls].
      * inversion H; subst s'. apply Hfin; auto. intros p [].
      * destruct (Z.ltb_spec (w_T (f_w s)) 2) as [Hstm|Hstm]; inversion H; subst s'; clear H.
        all: apply Hfin; auto; cbn [t_reg t_qs t_cur t_prev t_ls]; unfold fE;
          rewrite ?Z.eqb_refl.
        all: try (intros p []).
        all: intros q Hin; in_cases Hin; own_fact Hc Hp Hin q Hin.
        all: try (split; [assumption|]).
        all: try solve [eapply fcls_le; [|exact Hcl]; unfold fE;
                        destruct (Z.eqb_spec (w_ep (f_w s)) (t_ls (ft (get_fthr s t)))); [congruence|lia]].
        all: apply (Hsole q I); [lia|exact HcT|eapply fcls_0; exact Hcl|assumption].
Qed.
