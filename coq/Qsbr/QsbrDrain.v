(** Drain: the last registered thread empties everything with two quiescent states. *)
From Coq Require Import List ZArith Bool Lia Permutation Arith.
From Unodb Require Import Qsbr.QsbrModel Qsbr.QsbrBase Qsbr.QsbrPerm Qsbr.QsbrInv Qsbr.QsbrRun.
Import ListNotations.
Local Open Scope Z_scope.

Lemma cnt_all_false : forall f l, (forall u, f (nth u l thr0) = false) -> cnt f l = 0.
Proof.
  intros f l H. induction l as [|x l IH]; [reflexivity|].
  cbn [cnt]. pose proof (H O) as H0. cbn [nth] in H0. rewrite H0. cbn [b2z].
  rewrite IH; [reflexivity|]. intros u. apply (H (S u)).
Qed.

Lemma sole_unq : forall s t, Inv1 s -> q_T s = 1 -> t_reg (get_thr s t) = true ->
  unqreg (q_ep s) (get_thr s t) = true.
Proof.
  intros s t I HT Hr. destruct (unqreg (q_ep s) (get_thr s t)) eqn:Hu; [reflexivity|exfalso].
  pose proof (i_P1 s I) as HP1. pose proof (i_P s I) as HP.
  rewrite cnt_all_false in HP; [lia|].
  intros u. change (nth u (q_thr s) thr0) with (get_thr s u).
  destruct (Nat.eq_dec u t) as [->|Hne]; [exact Hu|].
  unfold unqreg. rewrite (only_reg s t I HT Hr u Hne). reflexivity.
Qed.

Lemma quiescent_length : forall s t, length (q_thr (fst (q_quiescent s t))) = length (q_thr s).
Proof.
  intros s t. unfold q_quiescent, adv_seen, exec_prev, handle_orphans.
  destruct (q_ep _ =? t_ls _); destruct (q_T _ <? 2); cbn [negb t_lsq t_qs];
  split_ifs; prj; apply length_set_nth.
Qed.

Lemma list_empty_co : forall l, (forall a, co l a = O) -> l = [].
Proof. intros l H. apply list_empty_no_in. intros v. apply co_notin. apply H. Qed.

Lemma quiescent_keeps_empty : forall s t, (t < length (q_thr s))%nat -> pending s = [] ->
  pending (fst (q_quiescent s t)) = [].
Proof.
  intros s t Ht He. apply list_empty_co. intros a.
  pose proof (perm_quiescent s t a Ht) as Hp. rewrite He in Hp. rewrite co_nil in Hp. lia.
Qed.

Lemma drain_first : forall s t, Inv1 s -> q_T s = 1 -> t_reg (get_thr s t) = true ->
  pending (fst (q_quiescent s t)) = [].
Proof.
  intros s t I HT Hr.
  pose proof (sole_unq s t I HT Hr) as Hu.
  pose proof (only_reg s t I HT Hr) as Hothers.
  pose proof (reg_lt_length s t Hr) as Hlt.
  pose proof (i_P1 s I) as HP1. pose proof (i_qs s I t) as Hqs.
  assert (HP : q_P s = 1).
  { pose proof (i_P s I) as HP. pose proof (i_T s I) as HT'.
    assert (cnt (unqreg (q_ep s)) (q_thr s) <= cnt t_reg (q_thr s)).
    { clear. induction (q_thr s) as [|x l IH]; cbn [cnt]; [lia|].
      unfold unqreg at 1. destruct (t_reg x); cbn [andb b2z]; [|lia]. destruct (unq _ x); cbn [b2z]; lia. }
    lia. }
  assert (Hfin : forall x' e T P g w, t_prev x' = [] -> t_cur x' = [] ->
     pending {| q_ep := e; q_T := T; q_P := P; q_oprev := []; q_ocur := [];
                q_thr := set_nth_thr t x' (q_thr s); q_gep := g; q_wait := w |} = []).
  { intros x' e T P g w Hp Hc. rewrite pending_eq. prj. cbn [concat app]. rewrite app_nil_r.
    apply tl_all_empty. intros u. rewrite nth_set_nth by auto.
    destruct (Nat.eqb_spec u t) as [->|Hne].
    - unfold lists. now rewrite Hp, Hc.
    - change (nth u (q_thr s) thr0) with (get_thr s u). unfold lists.
      destruct (i_unreg s I u (Hothers u Hne)) as [-> ->]. reflexivity. }
  unfold unqreg, unq in Hu. rewrite Hr in Hu. cbn [andb] in Hu.
  unfold q_quiescent, adv_seen, exec_prev, handle_orphans.
  change (get_thr (with_ghost s (ghost_passed (q_wait s) t)) t) with (get_thr s t).
  set (x := get_thr s t) in *. prj.
  replace (q_T s <? 2) with true by (symmetry; apply Z.ltb_lt; lia).
  replace (1 <? q_P s) with false by (symmetry; apply Z.ltb_ge; lia).
  destruct (Z.eqb_spec (q_ep s) (t_ls x)); prj;
  destruct (Z.eqb_spec (q_ep s) (t_lsq x)); prj.
  all: repeat zcase; prj; try (apply Hfin; auto; reflexivity).
  all: exfalso; destruct (Z.eqb_spec (t_lsq x) (q_ep s)); cbn [negb orb] in Hu; try congruence;
       destruct (Z.eqb_spec (t_qs x) 0); try discriminate; try lia.
Qed.

Theorem drain_two_quiescent : forall n ops s fs bads t,
  qrun (qinit n) ops = Some (s, fs, bads) -> registered_count s = 1 ->
  op_enabled s (QQuiescent t) = true ->
  pending (fst (qstep (fst (qstep s (QQuiescent t))) (QQuiescent t))) = [].
Proof.
  intros n ops s fs bads t H Hrc Hen. apply qrun_inv1 in H; [|apply inv1_init].
  destruct H as [I _]. rewrite registered_count_cnt, <- (i_T s I) in Hrc.
  apply enabled_reg in Hen. cbn [op_tid] in Hen. destruct Hen as [Hr Hlt].
  rewrite !qstep_eq. cbn [fst op_res]. rewrite pending_drop.
  apply quiescent_keeps_empty.
  - unfold drop_state. cbn [q_thr with_ghost]. rewrite quiescent_length. exact Hlt.
  - rewrite pending_drop. apply drain_first; auto.
Qed.
