(** Invariant preservation, part F: the epoch CAS. *)
From Coq Require Import List ZArith Bool Lia Arith.
From Unodb Require Import Qsbr.QsbrModel Qsbr.QsbrBase Qsbr.QsbrInv Qsbr.QsbrFine Qsbr.QsbrFineBase
  Qsbr.QsbrFineInv Qsbr.QsbrFineStepA Qsbr.QsbrFineStepB Qsbr.QsbrFineStepC Qsbr.QsbrFineStepE.
Import ListNotations.
Local Open Scope Z_scope.

Ltac Zify.zify_post_hook ::= Z.div_mod_to_equations.

Lemma thr_ok_adv : forall s s1 t x', Inv s -> StepAdv s s1 t ->
  (forall p, In p (t_cur (ft x')) -> ~ In t (FW s p) /\ fcls s 0 p) ->
  (forall p, In p (t_prev (ft x')) -> ~ In t (FW s p) /\ fcls s (lsk (fE s1) x') p) ->
  (forall p, In p (ft_free x') -> fcls s 1 p) ->
  pc_ok s1 t (ft_pc x') -> stale_stm (ft_pc x') = false ->
  thr_ok s1 t x'.
Proof.
  intros s s1 t x' I SA Hc Hp Hf Hpc Hst. constructor; auto.
  - intros p Hin. destruct (Hc p Hin) as [Hn Hcl]. split; [eapply adv_notin; eauto|].
    eapply adv_cls_le; eauto. pose proof (lsk_le1 (fE s1) x'). lia.
  - intros p Hin. destruct (Hp p Hin) as [Hn Hcl]. split; [eapply adv_notin; eauto|].
    eapply adv_cls; eauto.
  - intros p Hin. eapply adv_cls; eauto.
  - rewrite Hst. discriminate.
Qed.

Lemma mk_adv : forall s s1 t x', Inv s -> (t < length (f_thr s))%nat ->
  f_thr s1 = set_nth_fthr t x' (f_thr s) ->
  w_ep (f_w s1) = ep_adv (w_ep (f_w s)) -> f_wait s1 = f_wait s ->
  chg_pc (ft_pc (get_fthr s t)) = true ->
  StepAdv s s1 t.
Proof.
  intros s s1 t x' I Hlt Hthr He Hw Hchg. constructor.
  - exact He.
  - intros u Hne. unfold get_fthr. rewrite Hthr. now apply fnth_set_nth_other.
  - apply (v_chg s I t Hchg).
  - apply chg_hr_false; [apply (v_loc s I t)|exact Hchg].
  - intros p v Hv. unfold FW in *. now rewrite Hw in Hv.
Qed.

Lemma step_chcas_inv : forall s t c cge old e s', Inv s -> (t < length (f_thr s))%nat ->
  ft_pc (get_fthr s t) = PChCas c cge old -> ft_free (get_fthr s t) = [] ->
  step_epoch s t (get_fthr s t) e = Some s' -> Inv s'.
Proof.
  intros s t c cge old e s' I Hlt Hpc Hfr H.
  pose proof (step_chcas_fail_inv s t c cge old I Hlt Hpc Hfr) as Hfail.
  unfold step_epoch in H.
  chg_prelude s t I Hpc Hloc Hok Hchg Hhr HP0.
  pose proof (v_ep s I) as Hep. unfold fE in Hep.
  pose proof (ep_adv_neq _ Hep) as Hadv.
  destruct (get_fthr s t) as [th pc op fr] eqn:Hx. cbn [ft ft_pc ft_op ft_free] in *. subst pc fr.
  destruct e; try discriminate. cbv zeta in H.
  match type of H with (if ?c then _ else _) = _ => destruct c; [|discriminate] end.
  destruct (sw_eqb old (f_w s)) eqn:Heq; [|inversion H; subst s'; exact Hfail].
  apply sw_eqb_eq in Heq. subst old. clear Hfail.
  destruct th as [reg lsq ls qs prev cur].
  destruct Hloc as [Hwf [Hqs [Hpr Hcall]]]. cnt_unfold_in Hwf. cnt_unfold_in Hqs. cnt_unfold_in Hcall.
  destruct Hok as [Hc Hp _ _ Hst]. cbn [ft ft_pc t_cur t_prev] in Hc, Hp, Hst.
  unfold rm_return, adv_seen, exec_prev in H.
  cbn [ft t_lsq t_qs t_ls t_reg t_prev t_cur thr_set_lsq_qs] in H.
  destruct c as [st|u].
  - destruct Hcall as [-> [-> ->]].
    destruct (Z.eqb_spec (ep_adv (w_ep (f_w s))) (w_ep (f_w s))) as [|_]; [congruence|].
    cbn [negb] in H. cnt_unfold_in Hst.
    destruct op; try discriminate Hwf; destruct reg; try discriminate Hwf.
    destruct (sw_stm st); inversion H; subst s'; clear H.
    all: match goal with |- Inv (set_fthr _ _ ?X) => set (x' := X) end.
    all: match goal with |- Inv ?S => set (s1 := S) end.
    all: assert (SA : StepAdv s s1 t) by
      (eapply mk_adv with (x' := x'); [exact I|exact Hlt|reflexivity|reflexivity|reflexivity|
         rewrite Hx; reflexivity]).
    all: eapply inv_adv with (t := t) (x' := x'); eauto; try (rewrite Hx; reflexivity);
      try reflexivity.
    all: try (subst x' s1; cnt_unfold; rewrite ?Z.eqb_refl; repeat split; auto; lia).
    all: eapply thr_ok_adv; [exact I|exact SA|..]; subst x' s1;
      cbn [ft ft_pc ft_free upd t_cur t_prev app pc_ok]; try exact Logic.I; try reflexivity.
    all: intros q Hin; in_cases Hin.
    all: try solve [own_fact Hc Hp Hin q Hin; split; [assumption|]; cls_from Hcl].
    all: try solve [own_fact Hc Hp Hin q Hin; cls_from Hcl].
    all: try solve [eapply fcls_le; [|apply (Hst eq_refl q); apply in_or_app; eauto]; lia].
  - destruct Hcall as [-> Hue]. rewrite Hue in H.
    destruct (Z.eqb_spec (ep_adv (w_ep (f_w s))) (w_ep (f_w s))) as [|_]; [congruence|].
    cbn [negb] in H. cnt_unfold_in Hst.
    destruct op; try discriminate Hwf; destruct reg; try discriminate Hwf.
    all: destruct (sw_stm (u_old u));
         destruct (Z.eqb_spec (w_ep (f_w s)) ls) as [Hls|Hls];
         cbn [t_lsq t_qs t_ls t_reg t_prev t_cur] in H; inversion H; subst s'; clear H.
    all: match goal with |- Inv (set_fthr _ _ ?X) => set (x' := X) end.
    all: match goal with |- Inv ?S => set (s1 := S) end.
    all: assert (SA : StepAdv s s1 t) by
      (eapply mk_adv with (x' := x'); [exact I|exact Hlt|reflexivity|reflexivity|reflexivity|
         rewrite Hx; reflexivity]).
    all: eapply inv_adv with (t := t) (x' := x'); eauto; try (rewrite Hx; reflexivity);
      try reflexivity.
    all: try (subst x' s1; cnt_unfold; rewrite ?Z.eqb_refl; repeat split; auto; lia).
    all: eapply thr_ok_adv; [exact I|exact SA|..]; subst x' s1;
      cbn [ft ft_pc ft_free upd t_cur t_prev app pc_ok]; try exact Logic.I; try reflexivity.
    all: intros q Hin; in_cases Hin.
    all: try solve [own_fact Hc Hp Hin q Hin; split; [assumption|]; cls_from Hcl].
    all: try solve [own_fact Hc Hp Hin q Hin; cls_from Hcl].
    all: try solve [eapply fcls_le; [|apply (Hst eq_refl q); apply in_or_app; eauto]; lia].
Qed.
