(** QSBR coarse model: the theorems used by Properties_C05 / Properties_C06. *)
From Coq Require Import List ZArith Bool Lia Permutation Arith.
From Unodb Require Import Qsbr.QsbrModel Qsbr.QsbrBase Qsbr.QsbrPerm Qsbr.QsbrInv Qsbr.QsbrRun
  Qsbr.QsbrDrain Qsbr.QsbrSafe.
Import ListNotations.
Local Open Scope Z_scope.

Definition retired_ptrs := QsbrRun.retired_ptrs.
Definition qrun_exactly_once := QsbrRun.qrun_exactly_once.
Definition qrun_thread_count := QsbrRun.qrun_thread_count.
Definition immediate_only_single := QsbrRun.immediate_only_single.
Definition drain_two_quiescent := QsbrDrain.drain_two_quiescent.

Lemma safe_op : forall s o, Inv1 s -> Inv2 s -> op_enabled s o = true ->
  (forall p, In p (op_new o) -> ~ In p (pending s)) -> StepOK s (op_res s o).
Proof.
  intros s [t|t|t|t p] I J Hen Hnew; cbn [op_res].
  - now apply register_ok.
  - now apply unregister_ok.
  - now apply quiescent_ok.
  - apply retire_ok; auto. apply Hnew. cbn [op_new]. now left.
Qed.

Lemma cls_drop : forall s1 f k p, ~ In p f -> cls s1 k p -> cls (drop_state s1 f) k p.
Proof.
  intros s1 f k p Hn H.
  assert (HW : W (drop_state s1 f) p = W s1 p).
  { unfold W, drop_state. cbn [q_wait with_ghost]. now apply wait_of_drop. }
  destruct k as [|[|k]]; cbn [cls] in *; rewrite HW; exact H.
Qed.

Lemma inv2_drop : forall s1 f, Inv2 s1 -> (forall p, In p (pending s1) -> ~ In p f) ->
  Inv2 (drop_state s1 f).
Proof.
  intros s1 f J Hd.
  assert (HW : forall p, ~ In p f -> W (drop_state s1 f) p = W s1 p).
  { intros p Hn. unfold W, drop_state. cbn [q_wait with_ghost]. now apply wait_of_drop. }
  constructor.
  - intros u. change (get_thr (drop_state s1 f) u) with (get_thr s1 u).
    destruct (j_thr s1 J u) as [Hc Hp]. split; intros p Hin.
    + assert (Hn : ~ In p f) by (apply Hd; eapply in_pending_cur; eauto).
      destruct (Hc p Hin) as [H1 H2]. rewrite HW by auto. split; auto.
      change (lsk (drop_state s1 f) (get_thr s1 u)) with (lsk s1 (get_thr s1 u)). now apply cls_drop.
    + assert (Hn : ~ In p f) by (apply Hd; eapply in_pending_prev; eauto).
      destruct (Hp p Hin) as [H1 H2]. rewrite HW by auto. split; auto.
      change (lsk (drop_state s1 f) (get_thr s1 u)) with (lsk s1 (get_thr s1 u)). now apply cls_drop.
  - intros p Hin. change (q_ocur (drop_state s1 f)) with (q_ocur s1) in Hin.
    apply cls_drop; [apply Hd; now apply in_pending_ocur|now apply (j_ocur s1 J)].
  - intros p Hin. change (q_oprev (drop_state s1 f)) with (q_oprev s1) in Hin.
    apply cls_drop; [apply Hd; now apply in_pending_oprev|now apply (j_oprev s1 J)].
Qed.

Lemma op_bad_nil : forall s1 f, (forall q, In q f -> W s1 q = []) -> op_bad s1 f = [].
Proof.
  intros s1 f H. unfold op_bad. induction f as [|q f IH]; [reflexivity|].
  cbn [map filter snd]. change (wait_of (q_wait s1) q) with (W s1 q).
  rewrite (H q) by now left. apply IH. intros q' Hq'. apply H. now right.
Qed.

Lemma nodup_co : forall l, NoDup l <-> (forall a, (co l a <= 1)%nat).
Proof. intros l. apply (NoDup_count_occ Z.eq_dec). Qed.

Lemma qrun_safe_gen : forall ops s s' fs bads, Inv1 s -> Inv2 s ->
  NoDup (pending s ++ retired_ptrs ops) -> qrun s ops = Some (s', fs, bads) -> bads = [].
Proof.
  induction ops as [|o ops IH]; intros s s' fs bads I J Hnd H.
  - cbn [qrun] in H. now injection H as <- <- <-.
  - rewrite qrun_cons in H. destruct (op_enabled s o) eqn:Hen; [|discriminate].
    destruct (qrun _ ops) as [[[s3 fs3] bads3]|] eqn:Hrun; [|discriminate].
    injection H as <- <- <-.
    unfold retired_ptrs in Hnd. rewrite retired_cons in Hnd. rewrite nodup_co in Hnd.
    pose proof (fun a => perm_op s o a I Hen) as Hperm.
    assert (Hco : forall a, (co (pending (fst (op_res s o))) a + co (snd (op_res s o)) a +
                             co (QsbrRun.retired_ptrs ops) a <= 1)%nat).
    { intros a. specialize (Hnd a). specialize (Hperm a). rewrite !co_app in Hnd. lia. }
    destruct (safe_op s o I J Hen) as [J1 Hfree].
    { intros p Hp Hin. apply co_in in Hp. apply co_in in Hin. specialize (Hnd p).
      rewrite !co_app in Hnd. lia. }
    rewrite (op_bad_nil _ _ Hfree). cbn [app].
    eapply IH; [| |  |exact Hrun].
    + apply inv1_drop, inv1_op; auto.
    + apply inv2_drop; auto. intros p Hp Hin. apply co_in in Hp. apply co_in in Hin.
      specialize (Hco p). lia.
    + rewrite pending_drop. apply nodup_co. intros a. specialize (Hco a). rewrite co_app.
      unfold retired_ptrs. lia.
Qed.

(** Safety.  The hypothesis excludes histories that hand the same block to
    deferred deallocation twice (a caller-side double free): without it the
    statement is false for the model, see [qrun_safe_needs_nodup]. *)
Theorem qrun_safe : forall n ops s fs bads,
  qrun (qinit n) ops = Some (s, fs, bads) -> NoDup (retired_ptrs ops) -> bads = [].
Proof.
  intros n ops s fs bads H Hnd.
  eapply qrun_safe_gen; [apply inv1_init|apply inv2_init| |exact H].
  rewrite pending_init. exact Hnd.
Qed.

Example qrun_safe_needs_nodup :
  exists s fs, qrun (qinit 2)
    [QRegister 0%nat; QRegister 1%nat; QRetire 0%nat 7; QQuiescent 1%nat; QQuiescent 0%nat;
     QQuiescent 1%nat; QRetire 0%nat 7; QQuiescent 0%nat] = Some (s, fs, [(7, [1%nat])]).
Proof. eexists. eexists. vm_compute. reflexivity. Qed.
