(** Structural invariant of the QSBR model (counts, epochs, thread records). *)
From Coq Require Import List ZArith Bool Lia Permutation Arith.
From Unodb Require Import Qsbr.QsbrModel Qsbr.QsbrBase Qsbr.QsbrPerm.
Import ListNotations.
Local Open Scope Z_scope.

Ltac Zify.zify_post_hook ::= Z.div_mod_to_equations.

(** thread has not yet passed a quiescent state in epoch [e] *)
Definition unq (e : Z) (x : thr) : bool := negb (t_lsq x =? e) || (t_qs x =? 0).
Definition unqreg (e : Z) (x : thr) : bool := t_reg x && unq e x.

Definition ls_ok (e : Z) (x : thr) : Prop :=
  t_ls x = e \/ (ep_adv (t_ls x) = e /\ unq e x = true).

Record Inv1 (s : qstate) : Prop := {
  i_ep : 0 <= q_ep s < 4;
  i_T : q_T s = cnt t_reg (q_thr s);
  i_P : q_P s = cnt (unqreg (q_ep s)) (q_thr s);
  i_P1 : 1 <= q_T s -> 1 <= q_P s;
  i_qs : forall u, 0 <= t_qs (get_thr s u);
  i_unreg : forall u, t_reg (get_thr s u) = false ->
            t_prev (get_thr s u) = [] /\ t_cur (get_thr s u) = [];
  i_ls : forall u, t_reg (get_thr s u) = true -> ls_ok (q_ep s) (get_thr s u)
}.

Lemma inv1_init : forall n, Inv1 (qinit n).
Proof.
  intros n.
  assert (Hnth : forall u, get_thr (qinit n) u = thr0).
  { intros u. unfold get_thr, qinit. cbn [q_thr].
    destruct (Nat.ltb_spec u n).
    - apply nth_repeat.
    - apply nth_overflow. rewrite repeat_length. lia. }
  assert (Hc : forall f, f thr0 = false -> cnt f (repeat thr0 n) = 0).
  { intros f Hf. induction n as [|n IH]; cbn [repeat cnt]; [reflexivity|].
    rewrite Hf. cbn [b2z]. rewrite IH; auto. intros. unfold get_thr, qinit. cbn [q_thr].
    destruct (Nat.ltb_spec u n).
    - apply nth_repeat.
    - apply nth_overflow. rewrite repeat_length. lia. }
  constructor; cbn [qinit q_ep q_T q_P q_thr]; try lia.
  - now rewrite Hc.
  - now rewrite Hc.
  - intros u. rewrite Hnth. cbn. lia.
  - intros u _. rewrite Hnth. cbn. auto.
  - intros u. rewrite Hnth. cbn. discriminate.
Qed.

Lemma inv1_ext : forall s s', q_ep s' = q_ep s -> q_T s' = q_T s -> q_P s' = q_P s ->
  q_thr s' = q_thr s -> Inv1 s -> Inv1 s'.
Proof.
  intros s s' He HT HP Hthr [].
  assert (Hg : forall u, get_thr s' u = get_thr s u) by (intros; unfold get_thr; now rewrite Hthr).
  constructor; rewrite ?He, ?HT, ?HP, ?Hthr; auto; intros u; rewrite Hg; auto.
Qed.

Lemma inv1_ghost : forall s w, Inv1 s -> Inv1 (with_ghost s w).
Proof. intros s w. apply inv1_ext; reflexivity. Qed.

Lemma reg_cnt_pos : forall l t, t_reg (nth t l thr0) = true -> 1 <= cnt t_reg l.
Proof.
  intros l t H.
  destruct (Nat.ltb_spec t (length l)) as [Ht|Ht].
  - pose proof (cnt_set_nth t_reg l t thr0 Ht) as Hc. rewrite H in Hc. cbn [b2z thr0 t_reg] in Hc.
    pose proof (cnt_nonneg t_reg (set_nth_thr t thr0 l)). lia.
  - rewrite nth_overflow in H by lia. discriminate.
Qed.

Lemma reg_lt_length : forall s t, t_reg (get_thr s t) = true -> (t < length (q_thr s))%nat.
Proof.
  intros s t H. unfold get_thr in H.
  destruct (Nat.ltb_spec t (length (q_thr s))); auto. rewrite nth_overflow in H by lia. discriminate.
Qed.

Lemma get_set_thr : forall s s' t x u, (t < length (q_thr s))%nat ->
  q_thr s' = set_nth_thr t x (q_thr s) ->
  get_thr s' u = if Nat.eqb u t then x else get_thr s u.
Proof. intros s s' t x u Ht H. unfold get_thr. rewrite H. now apply nth_set_nth. Qed.

(** no epoch change *)
Lemma inv1_same : forall s s' t x',
  Inv1 s -> (t < length (q_thr s))%nat ->
  q_ep s' = q_ep s ->
  q_thr s' = set_nth_thr t x' (q_thr s) ->
  q_T s' = q_T s - b2z (t_reg (get_thr s t)) + b2z (t_reg x') ->
  q_P s' = q_P s - b2z (unqreg (q_ep s) (get_thr s t)) + b2z (unqreg (q_ep s) x') ->
  (1 <= q_T s' -> 1 <= q_P s') ->
  0 <= t_qs x' ->
  (t_reg x' = false -> t_prev x' = [] /\ t_cur x' = []) ->
  (t_reg x' = true -> ls_ok (q_ep s) x') ->
  Inv1 s'.
Proof.
  intros s s' t x' [] Ht He Hthr HT HP HP1 Hqs Hun Hls.
  assert (Hg : forall u, get_thr s' u = if Nat.eqb u t then x' else get_thr s u)
    by (intros; eapply get_set_thr; eauto).
  constructor; rewrite ?He; auto.
  - rewrite HT, Hthr, cnt_set_nth by auto. unfold get_thr. lia.
  - rewrite HP, Hthr, cnt_set_nth by auto. unfold get_thr. lia.
  - intros u. rewrite Hg. destruct (Nat.eqb u t); auto.
  - intros u. rewrite Hg. destruct (Nat.eqb u t); auto.
  - intros u. rewrite Hg. destruct (Nat.eqb u t); auto.
Qed.

Lemma unqreg_thr0 : forall e, unqreg e thr0 = false.
Proof. reflexivity. Qed.

(** only [t] has not quiesced *)
Lemma only_unq : forall s t, Inv1 s -> q_P s = 1 -> unqreg (q_ep s) (get_thr s t) = true ->
  forall u, u <> t -> unqreg (q_ep s) (get_thr s u) = false.
Proof.
  intros s t I HP Hu u Hne. unfold get_thr in *.
  apply cnt_one_unique with (t := t); auto.
  - rewrite <- (i_P s I). exact HP.
  - destruct (Nat.ltb_spec t (length (q_thr s))); auto. rewrite nth_overflow in Hu by lia. discriminate.
Qed.

Lemma only_reg : forall s t, Inv1 s -> q_T s = 1 -> t_reg (get_thr s t) = true ->
  forall u, u <> t -> t_reg (get_thr s u) = false.
Proof.
  intros s t I HT Hr u Hne. unfold get_thr in *.
  apply cnt_one_unique with (t := t); auto.
  - rewrite <- (i_T s I). exact HT.
  - destruct (Nat.ltb_spec t (length (q_thr s))); auto. rewrite nth_overflow in Hr by lia. discriminate.
Qed.

(** quiesced threads become un-quiesced in the next epoch *)
Lemma quiesced_next : forall e x, 0 <= e < 4 -> t_reg x = true -> unqreg e x = false ->
  unq (ep_adv e) x = true.
Proof.
  intros e x He Hr Hu. unfold unqreg, unq in *. rewrite Hr in Hu. cbn [andb] in Hu.
  unfold ep_adv.
  destruct (Z.eqb_spec (t_lsq x) e); cbn [negb orb] in Hu; [|discriminate].
  destruct (Z.eqb_spec (t_lsq x) ((e + 1) mod 4)); cbn [negb orb]; [|reflexivity]. lia.
Qed.

(** epoch change performed by [t] *)
Lemma inv1_adv : forall s s' t x',
  Inv1 s -> (t < length (q_thr s))%nat ->
  q_P s = 1 -> unqreg (q_ep s) (get_thr s t) = true ->
  q_ep s' = ep_adv (q_ep s) ->
  q_thr s' = set_nth_thr t x' (q_thr s) ->
  q_T s' = q_T s - 1 + b2z (t_reg x') ->
  q_P s' = q_T s' ->
  0 <= t_qs x' ->
  (t_reg x' = false -> t_prev x' = [] /\ t_cur x' = []) ->
  (t_reg x' = true -> t_ls x' = ep_adv (q_ep s) /\ unq (ep_adv (q_ep s)) x' = true) ->
  Inv1 s'.
Proof.
  intros s s' t x' I Ht HP Hu He Hthr HT HP' Hqs Hun Hls.
  pose proof (only_unq s t I HP Hu) as Hothers.
  destruct I.
  assert (Hg : forall u, get_thr s' u = if Nat.eqb u t then x' else get_thr s u)
    by (intros; eapply get_set_thr; eauto).
  assert (Hreg : t_reg (get_thr s t) = true).
  { unfold unqreg in Hu. apply andb_prop in Hu. tauto. }
  assert (HT' : q_T s' = cnt t_reg (q_thr s')).
  { rewrite HT, Hthr, cnt_set_nth by auto. unfold get_thr in Hreg. rewrite Hreg. cbn [b2z]. lia. }
  constructor; rewrite ?He; auto.
  - unfold ep_adv. lia.
  - rewrite HP', HT'. symmetry. apply cnt_ext_idx. intros u Hlen.
    change (nth u (q_thr s') thr0) with (get_thr s' u). rewrite Hg.
    destruct (Nat.eqb_spec u t) as [->|Hne].
    + unfold unqreg. destruct (t_reg x') eqn:Hr; [|reflexivity]. destruct (Hls eq_refl) as [_ ->]. reflexivity.
    + unfold unqreg at 1. destruct (t_reg (get_thr s u)) eqn:Hr; [|reflexivity].
      cbn [andb]. apply quiesced_next; auto.
  - rewrite HP'. auto.
  - intros u. rewrite Hg. destruct (Nat.eqb u t); auto.
  - intros u. rewrite Hg. destruct (Nat.eqb u t); auto.
  - intros u. rewrite Hg. destruct (Nat.eqb_spec u t) as [->|Hne].
    + intros Hr. left. apply Hls; auto.
    + intros Hr. right. pose proof (Hothers u Hne) as Hq.
      assert (Hn : unq (ep_adv (q_ep s)) (get_thr s u) = true) by (apply quiesced_next; auto).
      split; auto.
      destruct (i_ls0 u Hr) as [Heq|[_ Hc]].
      * now rewrite Heq.
      * unfold unqreg in Hq. rewrite Hr, Hc in Hq. discriminate.
Qed.

(** ** Each call preserves Inv1 *)

Ltac zcase :=
  match goal with
  | |- context [Z.eqb ?a ?b] => destruct (Z.eqb_spec a b)
  | |- context [Z.ltb ?a ?b] => destruct (Z.ltb_spec a b)
  end.

Ltac prj := cbn [q_ep q_T q_P q_oprev q_ocur q_thr q_gep q_wait t_reg t_lsq t_ls t_qs t_prev t_cur
                 set_thr with_ghost fst snd negb andb orb b2z].

Lemma inv1_register : forall s t, Inv1 s -> op_enabled s (QRegister t) = true ->
  Inv1 (fst (q_register s t)).
Proof.
  intros s t I Hen. unfold op_enabled in Hen. cbn [op_tid] in Hen.
  apply andb_prop in Hen. destruct Hen as [Hlt Hr]. apply Nat.ltb_lt in Hlt.
  apply negb_true_iff in Hr.
  unfold q_register. prj.
  eapply inv1_same with (t := t); eauto; prj; try reflexivity.
  - rewrite Hr. prj. lia.
  - unfold unqreg, unq. rewrite Hr. prj. rewrite Z.eqb_refl. change (0 =? 0) with true. prj. lia.
  - pose proof (cnt_nonneg (unqreg (q_ep s)) (q_thr s)). rewrite <- (i_P s I) in H. lia.
  - discriminate.
  - intros _. left. reflexivity.
Qed.

Lemma enabled_reg : forall s o, op_enabled s o = true ->
  match o with QRegister _ => True | _ => t_reg (get_thr s (op_tid o)) = true end /\
  (op_tid o < length (q_thr s))%nat.
Proof.
  intros s o H. unfold op_enabled in H. apply andb_prop in H. destruct H as [Hlt H].
  apply Nat.ltb_lt in Hlt. split; auto. destruct o; auto.
Qed.

Ltac fin1 s t x I Hr :=
  prj; try reflexivity; try discriminate; try lia;
  try (rewrite ?Hr; prj; lia);
  try (pose proof (i_qs s I t : 0 <= t_qs x); lia);
  try (intros _; left; reflexivity);
  try (intros _; pose proof (i_ls s I t Hr) as Hls; unfold ls_ok, unq in *; prj; exact Hls);
  try (unfold unqreg, unq; prj; rewrite ?Hr; prj; repeat zcase; prj; lia).

Lemma inv1_retire : forall s t p, Inv1 s -> op_enabled s (QRetire t p) = true ->
  Inv1 (fst (q_retire s t p)).
Proof.
  intros s t p I Hen. apply enabled_reg in Hen. cbn [op_tid] in Hen. destruct Hen as [Hr Hlt].
  pose proof (i_P1 s I) as HP1.
  unfold q_retire, adv_seen, exec_prev.
  set (x := get_thr s t) in *.
  destruct (q_T s <? 2); destruct (Z.eqb_spec (q_ep s) (t_ls x)); destruct (Z.eqb_spec (t_ls x) (q_ep s));
    try congruence; prj; apply inv1_ghost.
  all: eapply inv1_same with (t := t); eauto; fold x.
  all: fin1 s t x I Hr.
Qed.

Ltac fin2 s t x I Hr :=
  fin1 s t x I Hr;
  try (intros Hc; congruence);
  try (intros _; left; prj; congruence);
  try (intros _; split; [reflexivity|]; unfold unq; prj; repeat zcase; prj; auto; lia).

Ltac inv1_step s t x I Hr Hlt :=
  lazymatch goal with |- Inv1 ?S =>
    let e := eval cbn [q_ep set_thr with_ghost] in (q_ep S) in
    lazymatch e with
    | ep_adv _ => eapply inv1_adv with (t := t); [exact I | exact Hlt | | | prj; reflexivity | prj; reflexivity | ..]
    | _ => eapply inv1_same with (t := t); [exact I | exact Hlt | prj; reflexivity | prj; reflexivity | ..]
    end end; fold x; fin2 s t x I Hr.

Lemma inv1_quiescent : forall s t, Inv1 s -> op_enabled s (QQuiescent t) = true ->
  Inv1 (fst (q_quiescent s t)).
Proof.
  intros s t I Hen. apply enabled_reg in Hen. cbn [op_tid] in Hen. destruct Hen as [Hr Hlt].
  pose proof (i_P1 s I) as HP1. pose proof (i_T s I) as HT.
  pose proof (reg_cnt_pos _ _ Hr) as HT1. rewrite <- HT in HT1. specialize (HP1 HT1).
  pose proof (i_qs s I t) as Hqs.
  unfold q_quiescent, adv_seen, exec_prev, handle_orphans.
  change (get_thr (with_ghost s (ghost_passed (q_wait s) t)) t) with (get_thr s t).
  set (x := get_thr s t) in *. prj.
  destruct (q_T s <? 2); destruct (Z.eqb_spec (q_ep s) (t_ls x)); prj;
  destruct (Z.eqb_spec (q_ep s) (t_lsq x)); prj;
  repeat zcase; prj; try lia.
  all: inv1_step s t x I Hr Hlt.
Qed.

Lemma inv1_unregister : forall s t, Inv1 s -> op_enabled s (QUnregister t) = true ->
  Inv1 (fst (q_unregister s t)).
Proof.
  intros s t I Hen. apply enabled_reg in Hen. cbn [op_tid] in Hen. destruct Hen as [Hr Hlt].
  pose proof (i_P1 s I) as HP1. pose proof (i_T s I) as HT.
  pose proof (reg_cnt_pos _ _ Hr) as HT1. rewrite <- HT in HT1. specialize (HP1 HT1).
  pose proof (i_qs s I t) as Hqs.
  unfold q_unregister, adv_seen, exec_prev, handle_orphans.
  change (get_thr (with_ghost s (ghost_passed (q_wait s) t)) t) with (get_thr s t).
  set (x := get_thr s t) in *. prj.
  destruct (Z.eqb_spec (q_P s) 0); [lia|].
  destruct (q_T s <? 2); destruct (Z.eqb_spec (q_ep s) (t_ls x)); prj;
  destruct (Z.eqb_spec (t_lsq x) (q_ep s)); prj;
  repeat zcase; prj; try lia.
  all: inv1_step s t x I Hr Hlt.
Qed.
