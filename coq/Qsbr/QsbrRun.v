(** Lifting the structural invariant and the exactly-once accounting to histories. *)
From Coq Require Import List ZArith Bool Lia Permutation Arith.
From Unodb Require Import Qsbr.QsbrModel Qsbr.QsbrBase Qsbr.QsbrPerm Qsbr.QsbrInv.
Import ListNotations.
Local Open Scope Z_scope.

Definition retired_ptrs (ops : list qop) : list ptr :=
  flat_map (fun o => match o with QRetire _ p => [p] | _ => [] end) ops.

Definition op_res (s : qstate) (o : qop) : step_res :=
  match o with
  | QRegister t => q_register s t
  | QUnregister t => q_unregister s t
  | QQuiescent t => q_quiescent s t
  | QRetire t p => q_retire s t p
  end.

Definition op_new (o : qop) : list ptr := match o with QRetire _ p => [p] | _ => [] end.

Definition drop_state (s1 : qstate) (f : list ptr) : qstate :=
  with_ghost s1 (ghost_drop (q_wait s1) f).

Definition op_bad (s1 : qstate) (f : list ptr) : list (ptr * list tid) :=
  filter (fun pw => match snd pw with [] => false | _ => true end)
         (map (fun p => (p, wait_of (q_wait s1) p)) f).

Lemma qrun_cons : forall s o ops,
  qrun s (o :: ops) =
  if op_enabled s o then
    match qrun (drop_state (fst (op_res s o)) (snd (op_res s o))) ops with
    | Some (s3, fs, bads) =>
        Some (s3, snd (op_res s o) :: fs, op_bad (fst (op_res s o)) (snd (op_res s o)) ++ bads)
    | None => None
    end
  else None.
Proof.
  intros s o ops. cbn [qrun]. fold (op_res s o).
  destruct (op_enabled s o); [|reflexivity].
  destruct (op_res s o) as [s1 f]. reflexivity.
Qed.

Lemma qstep_eq : forall s o, qstep s o = (drop_state (fst (op_res s o)) (snd (op_res s o)), snd (op_res s o)).
Proof. intros s o. unfold qstep. fold (op_res s o). destruct (op_res s o); reflexivity. Qed.

Lemma inv1_op : forall s o, Inv1 s -> op_enabled s o = true -> Inv1 (fst (op_res s o)).
Proof.
  intros s [t|t|t|t p] I H; cbn [op_res].
  - now apply inv1_register.
  - now apply inv1_unregister.
  - now apply inv1_quiescent.
  - now apply inv1_retire.
Qed.

Lemma pending_drop : forall s f, pending (drop_state s f) = pending s.
Proof. reflexivity. Qed.

Lemma inv1_drop : forall s f, Inv1 s -> Inv1 (drop_state s f).
Proof. intros. now apply inv1_ghost. Qed.

Lemma perm_op : forall s o a, Inv1 s -> op_enabled s o = true ->
  (co (pending (fst (op_res s o))) a + co (snd (op_res s o)) a = co (pending s) a + co (op_new o) a)%nat.
Proof.
  intros s o a I H. pose proof (enabled_reg s o H) as [Hr Hlt].
  destruct o as [t|t|t|t p]; cbn [op_res op_new op_tid] in *.
  - unfold op_enabled in H. cbn [op_tid] in H. apply andb_prop in H. destruct H as [_ H].
    apply negb_true_iff in H. etransitivity; [apply perm_register; auto|unfold co; cbn [count_occ]; lia].
    unfold lists. destruct (i_unreg s I t H) as [-> ->]. reflexivity.
  - etransitivity; [now apply perm_unregister|unfold co; cbn [count_occ]; lia].
  - etransitivity; [now apply perm_quiescent|unfold co; cbn [count_occ]; lia].
  - now apply perm_retire.
Qed.

Lemma retired_cons : forall o ops, retired_ptrs (o :: ops) = op_new o ++ retired_ptrs ops.
Proof. reflexivity. Qed.

Lemma qrun_inv1 : forall ops s s' fs bads, Inv1 s -> qrun s ops = Some (s', fs, bads) ->
  Inv1 s' /\ Permutation (pending s' ++ concat fs) (pending s ++ retired_ptrs ops).
Proof.
  induction ops as [|o ops IH]; intros s s' fs bads I H.
  - cbn [qrun] in H. injection H as <- <- <-. split; auto.
  - rewrite qrun_cons in H. destruct (op_enabled s o) eqn:Hen; [|discriminate].
    destruct (qrun _ ops) as [[[s3 fs3] bads3]|] eqn:Hrun; [|discriminate].
    injection H as <- <- <-.
    apply IH in Hrun; [|apply inv1_drop, inv1_op; auto].
    destruct Hrun as [I3 Hperm]. split; auto.
    apply perm_co. intros a. pose proof (co_perm _ _ Hperm a) as Hc.
    pose proof (perm_op s o a I Hen) as Hp.
    rewrite pending_drop in Hc. rewrite retired_cons. cbn [concat].
    rewrite !co_app in *. lia.
Qed.

Lemma pending_init : forall n, pending (qinit n) = [].
Proof.
  intros n. rewrite pending_eq. cbn [qinit q_thr q_oprev q_ocur concat app].
  rewrite tl_all_empty; [reflexivity|].
  intros u. destruct (Nat.ltb_spec u n).
  - rewrite nth_repeat. reflexivity.
  - rewrite nth_overflow; [reflexivity|]. rewrite repeat_length. lia.
Qed.

Lemma registered_count_cnt : forall s, registered_count s = cnt t_reg (q_thr s).
Proof. intros. unfold registered_count. now rewrite cnt_filter. Qed.

Theorem qrun_exactly_once : forall n ops s fs bads,
  qrun (qinit n) ops = Some (s, fs, bads) -> NoDup (retired_ptrs ops) ->
  Permutation (pending s ++ concat fs) (retired_ptrs ops).
Proof.
  intros n ops s fs bads H _. apply qrun_inv1 in H; [|apply inv1_init].
  destruct H as [_ H]. now rewrite pending_init in H.
Qed.

Theorem qrun_thread_count : forall n ops s fs bads,
  qrun (qinit n) ops = Some (s, fs, bads) -> q_T s = registered_count s /\ 0 <= q_P s <= q_T s.
Proof.
  intros n ops s fs bads H. apply qrun_inv1 in H; [|apply inv1_init].
  destruct H as [I _]. rewrite registered_count_cnt. split; [apply (i_T s I)|].
  rewrite (i_P s I), (i_T s I). split; [apply cnt_nonneg|].
  clear I. induction (q_thr s) as [|x l IH]; cbn [cnt]; [lia|].
  unfold unqreg at 1. destruct (t_reg x); cbn [andb b2z]; [|lia]. destruct (unq _ x); cbn [b2z]; lia.
Qed.

Lemma in_pending_prev : forall s u p, In p (t_prev (get_thr s u)) -> In p (pending s).
Proof.
  intros s u p H. rewrite pending_eq. apply in_or_app. left. apply in_tl with (u := u).
  unfold lists. apply in_or_app. left. exact H.
Qed.

Lemma in_pending_cur : forall s u p, In p (t_cur (get_thr s u)) -> In p (pending s).
Proof.
  intros s u p H. rewrite pending_eq. apply in_or_app. left. apply in_tl with (u := u).
  unfold lists. apply in_or_app. right. exact H.
Qed.

Lemma in_pending_oprev : forall s p, In p (concat (q_oprev s)) -> In p (pending s).
Proof. intros s p H. rewrite pending_eq. apply in_or_app. right. apply in_or_app. now left. Qed.

Lemma in_pending_ocur : forall s p, In p (concat (q_ocur s)) -> In p (pending s).
Proof. intros s p H. rewrite pending_eq. apply in_or_app. right. apply in_or_app. now right. Qed.

Lemma in_pending_inv : forall s p, In p (pending s) ->
  (exists u, In p (t_prev (get_thr s u)) \/ In p (t_cur (get_thr s u))) \/
  In p (concat (q_oprev s)) \/ In p (concat (q_ocur s)).
Proof.
  intros s p H. rewrite pending_eq in H. apply in_app_or in H. destruct H as [H|H].
  - left. apply in_tl_inv in H. destruct H as [u [_ H]]. exists u. unfold lists in H.
    apply in_app_or in H. exact H.
  - right. apply in_app_or in H. exact H.
Qed.

Theorem immediate_only_single : forall n ops s fs bads t p,
  qrun (qinit n) ops = Some (s, fs, bads) -> op_enabled s (QRetire t p) = true ->
  ~ In p (pending s) -> In p (snd (q_retire s t p)) -> registered_count s <= 1.
Proof.
  intros n ops s fs bads t p H Hen Hnp Hin. apply qrun_inv1 in H; [|apply inv1_init].
  destruct H as [I _]. rewrite registered_count_cnt, <- (i_T s I).
  unfold q_retire, adv_seen, exec_prev in Hin.
  destruct (Z.ltb_spec (q_T s) 2) as [Hlt|Hge]; [lia|]. exfalso.
  set (x := get_thr s t) in *.
  destruct (t_ls x =? q_ep s); cbn [negb] in Hin.
  - cbn [snd] in Hin. contradiction.
  - destruct (q_ep s =? t_ls x); cbn [snd] in Hin; [contradiction|].
    apply Hnp. apply in_pending_prev with (u := t). exact Hin.
Qed.
