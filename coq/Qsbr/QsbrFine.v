(** M-QSBR (fine): executable model of qsbr.hpp / qsbr.cpp in which every
    atomic access of the shared state word and of the two orphan lists is one
    step.  The model is an ACCEPTOR of the event traces that the real code
    emits under the deterministic scheduler (harness/qsbr_sched.cpp --trace 1):
    [fstep s e = Some s'] iff [e] is the next step of its thread's current
    call according to the C++ control flow and the values it observed agree
    with the model's shared state.  Definitions only.

    Vocabulary (tid, ptr, ep_adv, thr, exec_prev, adv_seen, the ghost waiting
    sets) is the coarse model's (QsbrModel.v).

    Abstractions:
    - sequentially consistent memory (the fences thread_epoch_change_barrier /
      epoch_change_barrier are no-ops); compare_exchange_weak never fails
      spuriously (x86: lock cmpxchg);
    - the statistics code (UNODB_DETAIL_WITH_STATS: mutex protected
      accumulators, epoch_change_count) touches no protocol state: dropped;
    - frees are not scheduling points in the code (they belong to the step of
      the preceding atomic access); in the model the step that executes
      requests moves them to the thread's [ft_free] queue and each FFree event
      pops the head; no other event of that thread is accepted while the queue
      is non-empty.  Other threads may interleave (a superset of the real
      traces); waiting sets only shrink, so this cannot hide an unsafe free;
    - orphan list nodes are identified by their address (taken from the
      desired value of the push CAS); node allocation / deallocation itself
      is not traced. *)
From Coq Require Import List ZArith Bool.
From Unodb Require Import Qsbr.QsbrModel.
Import ListNotations.
Local Open Scope Z_scope.

(* ------------------------------------------------------------------ *)
(** * The state word, as fields *)

Record sw := { w_ep : Z; w_T : Z; w_P : Z }.

(** the 64-bit word: epoch at bit 62, thread count at bit 32, threads in the
    previous epoch at bit 0 (QsbrWordBridge.word_make) *)
Definition sw_word (x : sw) : Z := w_ep x * 2 ^ 62 + w_T x * 2 ^ 32 + w_P x.

Definition sw_eqb (x y : sw) : bool :=
  (w_ep x =? w_ep y) && (w_T x =? w_T y) && (w_P x =? w_P y).

Definition sw_stm (x : sw) : bool := w_T x <? 2.   (* single_thread_mode *)

Definition sw_inc_T (x : sw) : sw := {| w_ep := w_ep x; w_T := w_T x + 1; w_P := w_P x |}.
Definition sw_dec_T (x : sw) : sw := {| w_ep := w_ep x; w_T := w_T x - 1; w_P := w_P x |}.
Definition sw_inc_TP (x : sw) : sw := {| w_ep := w_ep x; w_T := w_T x + 1; w_P := w_P x + 1 |}.
Definition sw_dec_TP (x : sw) : sw := {| w_ep := w_ep x; w_T := w_T x - 1; w_P := w_P x - 1 |}.
Definition sw_dec_P (x : sw) : sw := {| w_ep := w_ep x; w_T := w_T x; w_P := w_P x - 1 |}.
(** inc_epoch_reset_previous *)
Definition sw_next_epoch (x : sw) : sw := {| w_ep := ep_adv (w_ep x); w_T := w_T x; w_P := w_T x |}.

(* ------------------------------------------------------------------ *)
(** * Events (one per E line of the trace) *)

(** API calls: constructor / qsbr_resume are both register_thread; qsbr_pause
    at P and at thread exit are both unregister_thread *)
Inductive fop := OpStart | OpResume | OpQuiescent | OpRetire | OpPause | OpExit.

Definition fop_eqb (a b : fop) : bool :=
  match a, b with
  | OpStart, OpStart | OpResume, OpResume | OpQuiescent, OpQuiescent
  | OpRetire, OpRetire | OpPause, OpPause | OpExit, OpExit => true
  | _, _ => false
  end.

(** which orphan list: previous / current interval *)
Inductive olist := OPrev | OCur.

Definition olist_eqb (a b : olist) : bool :=
  match a, b with OPrev, OPrev | OCur, OCur => true | _, _ => false end.

Inductive fevent :=
  | FCall (t : tid) (o : fop) (arg : Z)        (* CALL marker; arg = block for OpRetire *)
  | FRet (t : tid) (o : fop)                   (* RET marker *)
  | FLoad (t : tid) (w : Z)                    (* qsbr_load: acquire load of the state word, value read *)
  | FCas (t : tid) (expected desired : Z)      (* qsbr_cas: CAS on the state word; outcome is the model's *)
  | FFetchSub (t : tid) (old : Z)              (* qsbr_fetch_sub: fetch_sub(1), old value *)
  | FSpin (t : tid)                            (* qsbr_spin (no observation in the code: never in a trace) *)
  | FOLoad (t : tid) (l : olist) (head : Z)    (* orphan_load: head read in add_to_orphan_list *)
  | FOCas (t : tid) (l : olist) (expected desired : Z)  (* orphan_cas: head push *)
  | FOXchg (t : tid) (l : olist) (old : Z)     (* orphan_xchg: take_orphan_list, old head *)
  | FOMove (t : tid) (expected desired : Z)    (* orphan_cas_move: CAS null -> taken current list *)
  | FOAppend (t : tid) (taken : Z)             (* orphan_append: tail append of the taken current list *)
  | FAlloc (t : tid) (p : ptr)                 (* mem_alloc *)
  | FRetire (t : tid) (p : ptr)                (* mem_retire: on_next_epoch_deallocate entry *)
  | FFree (t : tid) (p : ptr).                 (* mem_free *)

Definition ev_tid (e : fevent) : tid :=
  match e with
  | FCall t _ _ | FRet t _ | FLoad t _ | FCas t _ _ | FFetchSub t _ | FSpin t
  | FOLoad t _ _ | FOCas t _ _ _ | FOXchg t _ _ | FOMove t _ _ | FOAppend t _
  | FAlloc t _ | FRetire t _ | FFree t _ => t
  end.

(* ------------------------------------------------------------------ *)
(** * Program counters *)

(** an orphan list node: its address and the request vector it carries *)
Definition onode := (Z * list ptr)%type.

(** locals of qsbr::unregister_thread (its by-value parameters included) *)
Record uframe := {
  u_old : sw;      (* old_state: last value loaded / left by a failed CAS *)
  u_ecbc : bool;   (* epoch_changed_by_this_call *)
  u_qs : Z;        (* quiescent_states_since_epoch_change (parameter) *)
  u_te : Z         (* thread_epoch (parameter) *)
}.

(** who called remove_thread_from_previous_epoch, with the caller's live locals *)
Inductive caller :=
  | CallQ (st : sw)        (* qsbr_per_thread::quiescent, the state it loaded *)
  | CallU (u : uframe).    (* qsbr::unregister_thread *)

(** where a thread is.  [cge] = current_global_epoch parameter of
    remove_thread_from_previous_epoch / change_epoch; [stm] = the
    single_thread_mode parameter of change_epoch. *)
Inductive pc :=
  | PIdle                                             (* between calls *)
  | PRet                                              (* call body finished: RET marker next *)
  (* register_thread *)
  | PRegLoad                                          (* get_state() *)
  | PRegCas (old : sw)                                (* CAS of inc T&P, or of inc T when P = 0 < T *)
  | PRegSpin (old_epoch : Z)                          (* waiting for the epoch change to complete *)
  (* on_next_epoch_deallocate *)
  | PRetObs (p : ptr)                                 (* mem_retire observation *)
  | PRetLoad (p : ptr)                                (* get_state() *)
  (* quiescent *)
  | PQLoad                                            (* get_state() *)
  (* remove_thread_from_previous_epoch *)
  | PRmFsub (c : caller) (cge : Z)                    (* fetch_sub *)
  (* change_epoch / epoch_change_barrier_and_handle_orphans *)
  | PChXPrev (c : caller) (cge : Z) (stm : bool)      (* take previous-interval orphans *)
  | PChXCur (c : caller) (cge : Z) (stm : bool) (tp : list onode)   (* take current-interval orphans *)
  | PChMove (c : caller) (cge : Z) (tc : list onode)  (* CAS null -> taken current list *)
  | PChAppend (c : caller) (cge : Z) (tc : list onode) (h : Z)  (* append after the head [h] seen by the failed CAS *)
  | PChLoad (c : caller) (cge : Z)                    (* state.load *)
  | PChCas (c : caller) (cge : Z) (old : sw)          (* CAS to the next epoch *)
  (* unregister_thread *)
  | PULoad (u : uframe)                               (* state.load (initial, or after an epoch change attempt) *)
  | PUCas (u : uframe)                                (* CAS of dec T / dec T&P, chosen from [u] *)
  (* orphan_pending_requests / add_to_orphan_list *)
  | POLoad (l : olist)                                (* head load *)
  | POCas (l : olist) (next : Z).                     (* head push, node->next = [next] *)

(* ------------------------------------------------------------------ *)
(** * State *)

Record fthr := {
  ft : thr;              (* the qsbr_per_thread object; [t_reg] is ghost: true from the RET of
                            register to the CALL of unregister (the thread may hold references) *)
  ft_pc : pc;
  ft_op : fop;           (* the call in progress (meaningful unless PIdle) *)
  ft_free : list ptr     (* requests being executed by the current step, still to be freed *)
}.

Definition fthr0 : fthr := {| ft := thr0; ft_pc := PIdle; ft_op := OpStart; ft_free := [] |}.

Record fstate := {
  f_w : sw;                        (* qsbr::state *)
  f_oprev : list onode;            (* orphaned_previous_interval_dealloc_requests, head first *)
  f_ocur : list onode;             (* orphaned_current_interval_dealloc_requests *)
  f_thr : list fthr;               (* index = tid *)
  f_freed : list ptr;              (* blocks freed and not allocated again since *)
  (* ghost *)
  f_gep : Z;                       (* unbounded epoch *)
  f_wait : list (ptr * list tid);  (* pending request -> threads still to quiesce *)
  f_bad : list (ptr * list tid)    (* frees that happened with a non-empty waiting set *)
}.

(** initial state: nobody registered; the epoch is a parameter because the
    harness runs its executions back to back on one qsbr instance *)
Definition finit (n : nat) (e : Z) : fstate :=
  {| f_w := {| w_ep := e; w_T := 0; w_P := 0 |}; f_oprev := []; f_ocur := [];
     f_thr := repeat fthr0 n; f_freed := []; f_gep := 0; f_wait := []; f_bad := [] |}.

Definition get_fthr (s : fstate) (t : tid) : fthr := nth t (f_thr s) fthr0.

Fixpoint set_nth_fthr (i : nat) (x : fthr) (l : list fthr) : list fthr :=
  match i, l with
  | _, [] => []
  | O, _ :: l' => x :: l'
  | S i', y :: l' => y :: set_nth_fthr i' x l'
  end.

Definition set_fthr (s : fstate) (t : tid) (x : fthr) : fstate :=
  {| f_w := f_w s; f_oprev := f_oprev s; f_ocur := f_ocur s; f_thr := set_nth_fthr t x (f_thr s);
     f_freed := f_freed s; f_gep := f_gep s; f_wait := f_wait s; f_bad := f_bad s |}.

Definition set_w (s : fstate) (w : sw) : fstate :=
  {| f_w := w; f_oprev := f_oprev s; f_ocur := f_ocur s; f_thr := f_thr s;
     f_freed := f_freed s; f_gep := f_gep s; f_wait := f_wait s; f_bad := f_bad s |}.

Definition get_ol (s : fstate) (l : olist) : list onode :=
  match l with OPrev => f_oprev s | OCur => f_ocur s end.

Definition set_ol (s : fstate) (l : olist) (v : list onode) : fstate :=
  {| f_w := f_w s;
     f_oprev := match l with OPrev => v | OCur => f_oprev s end;
     f_ocur := match l with OPrev => f_ocur s | OCur => v end;
     f_thr := f_thr s; f_freed := f_freed s; f_gep := f_gep s; f_wait := f_wait s; f_bad := f_bad s |}.

Definition set_wait (s : fstate) (w : list (ptr * list tid)) : fstate :=
  {| f_w := f_w s; f_oprev := f_oprev s; f_ocur := f_ocur s; f_thr := f_thr s;
     f_freed := f_freed s; f_gep := f_gep s; f_wait := w; f_bad := f_bad s |}.

Definition bump_gep (s : fstate) : fstate :=
  {| f_w := f_w s; f_oprev := f_oprev s; f_ocur := f_ocur s; f_thr := f_thr s;
     f_freed := f_freed s; f_gep := f_gep s + 1; f_wait := f_wait s; f_bad := f_bad s |}.

(** head pointer of an orphan list (nullptr = 0) *)
Definition ol_head (l : list onode) : Z := match l with [] => 0 | (a, _) :: _ => a end.

(** requests of a taken list in the order free_orphan_list executes them *)
Definition ol_reqs (l : list onode) : list ptr := concat (map snd l).

(* ------------------------------------------------------------------ *)
(** * Thread-local pieces of the calls *)

Definition with_pc (x : fthr) (p : pc) : fthr :=
  {| ft := ft x; ft_pc := p; ft_op := ft_op x; ft_free := ft_free x |}.

(** new thread object, new pc, and more requests to execute *)
Definition upd (x : fthr) (th : thr) (p : pc) (fr : list ptr) : fthr :=
  {| ft := th; ft_pc := p; ft_op := ft_op x; ft_free := ft_free x ++ fr |}.

Definition thr_set_reg (x : thr) (b : bool) : thr :=
  {| t_reg := b; t_lsq := t_lsq x; t_ls := t_ls x; t_qs := t_qs x; t_prev := t_prev x; t_cur := t_cur x |}.
Definition thr_set_lsq_qs (x : thr) (e q : Z) : thr :=
  {| t_reg := t_reg x; t_lsq := e; t_ls := t_ls x; t_qs := q; t_prev := t_prev x; t_cur := t_cur x |}.
Definition thr_set_vec (x : thr) (l : olist) (v : list ptr) : thr :=
  {| t_reg := t_reg x; t_lsq := t_lsq x; t_ls := t_ls x; t_qs := t_qs x;
     t_prev := match l with OPrev => v | OCur => t_prev x end;
     t_cur := match l with OPrev => t_cur x | OCur => v end |}.
Definition thr_vec (x : thr) (l : olist) : list ptr :=
  match l with OPrev => t_prev x | OCur => t_cur x end.

(** register_thread returns epoch [e]: the constructor / qsbr_resume assignments *)
Definition reg_return (x : fthr) (e : Z) : fthr :=
  upd x {| t_reg := t_reg (ft x); t_lsq := e; t_ls := e; t_qs := 0;
           t_prev := t_prev (ft x); t_cur := t_cur (ft x) |} PRet [].

(** orphan_pending_requests: the next non-empty vector to push, previous first *)
Definition orph_next (th : thr) : pc :=
  match t_prev th with
  | _ :: _ => POLoad OPrev
  | [] => match t_cur th with _ :: _ => POLoad OCur | [] => PRet end
  end.

(** unregister_thread: the branch taken for the state in [u_old] *)
Definition u_remove_old (u : uframe) : bool :=
  negb (u_te u =? w_ep (u_old u)) || (u_qs u =? 0).

Definition u_advance (u : uframe) : bool :=
  u_remove_old u && (w_P (u_old u) =? 1) && negb (sw_stm (u_old u) && u_ecbc u).

Definition u_decide (u : uframe) : pc :=
  if w_P (u_old u) =? 0 then PUCas u   (* epoch change in progress: dec T only *)
  else if u_advance u then PRmFsub (CallU u) (w_ep (u_old u))
  else PUCas u.

Definition u_desired (u : uframe) : sw :=
  if w_P (u_old u) =? 0 then sw_dec_T (u_old u)
  else if u_remove_old u then sw_dec_TP (u_old u) else sw_dec_T (u_old u).

Definition u_with_old (u : uframe) (w : sw) : uframe :=
  {| u_old := w; u_ecbc := u_ecbc u; u_qs := u_qs u; u_te := u_te u |}.

(** remove_thread_from_previous_epoch(cge) returns [ne] to its caller *)
Definition rm_return (x : fthr) (c : caller) (ne : Z) : fthr :=
  match c with
  | CallQ st =>
      let th := ft x in
      if negb (ne =? t_lsq th) then
        let '(th', f) := exec_prev (thr_set_lsq_qs th ne (t_qs th)) (sw_stm st) ne [] in
        upd x th' PRet f
      else upd x (thr_set_lsq_qs th (t_lsq th) (t_qs th + 1)) PRet []
  | CallU u =>
      let oe := w_ep (u_old u) in
      let ostm := sw_stm (u_old u) in
      if negb (ne =? oe) then
        let '(th1, f1, _) := adv_seen (ft x) ostm oe [] in
        let '(th2, f2) := exec_prev th1 ostm ne [] in
        upd x th2 (PULoad {| u_old := u_old u; u_ecbc := true; u_qs := 0; u_te := ne |}) (f1 ++ f2)
      else
        upd x (ft x) (PULoad {| u_old := u_old u; u_ecbc := u_ecbc u; u_qs := 1; u_te := ne |}) []
  end.

(** append [tc] at the tail of the list whose node [h] was seen as head *)
Fixpoint append_from (h : Z) (l : list onode) (tc : list onode) : option (list onode) :=
  match l with
  | [] => None
  | (a, v) :: l' =>
      if a =? h then Some (l ++ tc)
      else match append_from h l' tc with Some r => Some ((a, v) :: r) | None => None end
  end.

(** a thread may hold references to shared blocks iff it is registered (ghost
    flag) and not inside quiescent(): a thread that entered quiescent() before
    a block was retired holds no reference to it and cannot obtain one *)
Definition holds_refs (x : fthr) : bool :=
  t_reg (ft x) &&
  negb (match ft_pc x with PIdle => false | _ => fop_eqb (ft_op x) OpQuiescent end).

(** threads other than [t] that may hold references *)
Fixpoint active_others (l : list fthr) (t : tid) (i : nat) : list tid :=
  match l with
  | [] => []
  | x :: l' => (if holds_refs x && negb (Nat.eqb i t) then [i] else []) ++ active_others l' t (S i)
  end.

Fixpoint remove_ptr (p : ptr) (l : list ptr) : list ptr :=
  match l with [] => [] | q :: l' => if q =? p then remove_ptr p l' else q :: remove_ptr p l' end.

(* ------------------------------------------------------------------ *)
(** * Steps, by program counter.  [s] state, [t] thread, [x] = its record
      (with [ft_free x = []] except in [step_free]). *)

(** loads observe the current word *)
Definition sees (s : fstate) (w : Z) : bool := w =? sw_word (f_w s).

Definition step_free (s : fstate) (t : tid) (x : fthr) (p : ptr) : option fstate :=
  match ft_free x with
  | q :: r =>
      if p =? q then
        let ws := wait_of (f_wait s) p in
        let s1 := set_fthr s t {| ft := ft x; ft_pc := ft_pc x; ft_op := ft_op x; ft_free := r |} in
        Some {| f_w := f_w s1; f_oprev := f_oprev s1; f_ocur := f_ocur s1; f_thr := f_thr s1;
                f_freed := p :: f_freed s1; f_gep := f_gep s1;
                f_wait := ghost_drop (f_wait s1) [p];
                f_bad := match ws with [] => f_bad s1 | _ => f_bad s1 ++ [(p, ws)] end |}
      else None
  | [] => None
  end.

(** the harness allocates the block before the CALL marker of a retire *)
Definition step_alloc (s : fstate) (t : tid) (x : fthr) (p : ptr) : option fstate :=
  match ft_pc x with
  | PIdle =>
      Some {| f_w := f_w s; f_oprev := f_oprev s; f_ocur := f_ocur s; f_thr := f_thr s;
              f_freed := remove_ptr p (f_freed s); f_gep := f_gep s; f_wait := f_wait s; f_bad := f_bad s |}
  | _ => None
  end.

Definition set_op (x : fthr) (o : fop) (th : thr) (p : pc) : fthr :=
  {| ft := th; ft_pc := p; ft_op := o; ft_free := ft_free x |}.

(** CALL markers; API preconditions as in the coarse model's [op_enabled] *)
Definition step_call (s : fstate) (t : tid) (x : fthr) (o : fop) (arg : Z) : option fstate :=
  let th := ft x in
  match o with
  | OpStart | OpResume =>
      if t_reg th then None else Some (set_fthr s t (set_op x o th PRegLoad))
  | OpQuiescent =>
      if t_reg th then
        Some (set_fthr (set_wait s (ghost_passed (f_wait s) t)) t (set_op x o th PQLoad))
      else None
  | OpRetire =>
      if t_reg th then Some (set_fthr s t (set_op x o th (PRetObs arg))) else None
  | OpPause | OpExit =>
      if t_reg th then
        let u := {| u_old := f_w s (* dead until the load *); u_ecbc := false; u_qs := t_qs th; u_te := t_lsq th |} in
        Some (set_fthr (set_wait s (ghost_passed (f_wait s) t)) t (set_op x o (thr_set_reg th false) (PULoad u)))
      else None
  end.

Definition step_ret (s : fstate) (t : tid) (x : fthr) (o : fop) : option fstate :=
  if fop_eqb o (ft_op x) then
    let th := match o with OpStart | OpResume => thr_set_reg (ft x) true | _ => ft x end in
    Some (set_fthr s t (upd x th PIdle []))
  else None.

(** register_thread *)
Definition step_reg (s : fstate) (t : tid) (x : fthr) (e : fevent) : option fstate :=
  match ft_pc x, e with
  | PRegLoad, FLoad _ w =>
      if sees s w then Some (set_fthr s t (with_pc x (PRegCas (f_w s)))) else None
  | PRegCas old, FCas _ ex de =>
      let both := (0 <? w_P old) || (w_T old =? 0) in
      let new := if both then sw_inc_TP old else sw_inc_T old in
      if (ex =? sw_word old) && (de =? sw_word new) then
        if sw_eqb old (f_w s) then
          Some (set_fthr (set_w s new) t
                  (if both then reg_return x (w_ep old) else with_pc x (PRegSpin (w_ep old))))
        else Some (set_fthr s t (with_pc x (PRegCas (f_w s))))
      else None
  | PRegSpin oe, FSpin _ => Some s
  | PRegSpin oe, FLoad _ w =>
      if sees s w then
        if negb (w_ep (f_w s) =? oe) then Some (set_fthr s t (reg_return x (w_ep (f_w s))))
        else Some s
      else None
  | _, _ => None
  end.

(** on_next_epoch_deallocate *)
Definition step_retire (s : fstate) (t : tid) (x : fthr) (e : fevent) : option fstate :=
  match ft_pc x, e with
  | PRetObs p, FRetire _ p' =>
      if p' =? p then
        Some (set_fthr (set_wait s ((p, active_others (f_thr s) t O) :: f_wait s)) t (with_pc x (PRetLoad p)))
      else None
  | PRetLoad p, FLoad _ w =>
      if sees s w then
        let th := ft x in
        let ge := w_ep (f_w s) in
        let stm := sw_stm (f_w s) in
        if stm then
          let '(th', f, _) := adv_seen th stm ge [] in
          Some (set_fthr s t (upd x th' PRet (f ++ [p])))
        else if negb (t_ls th =? ge) then
          let '(th', f, _) := adv_seen th stm ge [p] in
          Some (set_fthr s t (upd x th' PRet f))
        else Some (set_fthr s t (upd x (thr_set_vec th OCur (t_cur th ++ [p])) PRet []))
      else None
  | _, _ => None
  end.

(** quiescent up to the call of remove_thread_from_previous_epoch *)
Definition step_q (s : fstate) (t : tid) (x : fthr) (e : fevent) : option fstate :=
  match ft_pc x, e with
  | PQLoad, FLoad _ w =>
      if sees s w then
        let st := f_w s in
        let ge := w_ep st in
        let '(th1, f1, _) := adv_seen (ft x) (sw_stm st) ge [] in
        let th2 := if negb (ge =? t_lsq th1) then thr_set_lsq_qs th1 ge 0 else th1 in
        if t_qs th2 =? 0 then Some (set_fthr s t (upd x th2 (PRmFsub (CallQ st) ge) f1))
        else Some (set_fthr s t (upd x (thr_set_lsq_qs th2 (t_lsq th2) (t_qs th2 + 1)) PRet f1))
      else None
  | _, _ => None
  end.

(** remove_thread_from_previous_epoch, change_epoch, epoch_change_barrier_and_handle_orphans *)
Definition step_epoch (s : fstate) (t : tid) (x : fthr) (e : fevent) : option fstate :=
  match ft_pc x, e with
  | PRmFsub c cge, FFetchSub _ w =>
      let old := f_w s in
      (* the code asserts P > 0; a borrow out of the field is outside the model *)
      if sees s w && (0 <? w_P old) then
        let s1 := set_w s (sw_dec_P old) in
        if 1 <? w_P old then Some (set_fthr s1 t (rm_return x c cge))
        else Some (set_fthr s1 t (with_pc x (PChXPrev c cge (sw_stm old))))
      else None
  | PChXPrev c cge stm, FOXchg _ OPrev h =>
      if h =? ol_head (f_oprev s) then
        Some (set_fthr (set_ol s OPrev []) t (with_pc x (PChXCur c cge stm (f_oprev s))))
      else None
  | PChXCur c cge stm tp, FOXchg _ OCur h =>
      if h =? ol_head (f_ocur s) then
        let tc := f_ocur s in
        let s1 := set_ol s OCur [] in
        if stm then Some (set_fthr s1 t (upd x (ft x) (PChLoad c cge) (ol_reqs tp ++ ol_reqs tc)))
        else Some (set_fthr s1 t (upd x (ft x) (PChMove c cge tc) (ol_reqs tp)))
      else None
  | PChMove c cge tc, FOMove _ ex de =>
      if (ex =? 0) && (de =? ol_head tc) then
        match f_oprev s with
        | [] => Some (set_fthr (set_ol s OPrev tc) t (with_pc x (PChLoad c cge)))
        | (a, _) :: _ => Some (set_fthr s t (with_pc x (PChAppend c cge tc a)))
        end
      else None
  | PChAppend c cge tc h, FOAppend _ d =>
      if d =? ol_head tc then
        match append_from h (f_oprev s) tc with
        | Some l => Some (set_fthr (set_ol s OPrev l) t (with_pc x (PChLoad c cge)))
        | None => None   (* the walk would start at a node no longer in the list *)
        end
      else None
  | PChLoad c cge, FLoad _ w =>
      if sees s w then Some (set_fthr s t (with_pc x (PChCas c cge (f_w s)))) else None
  | PChCas c cge old, FCas _ ex de =>
      let new := sw_next_epoch old in
      if (ex =? sw_word old) && (de =? sw_word new) then
        if sw_eqb old (f_w s) then
          Some (set_fthr (bump_gep (set_w s new)) t (rm_return x c (ep_adv cge)))
        else Some (set_fthr s t (with_pc x (PChCas c cge (f_w s))))
      else None
  | _, _ => None
  end.

(** unregister_thread *)
Definition step_unreg (s : fstate) (t : tid) (x : fthr) (e : fevent) : option fstate :=
  match ft_pc x, e with
  | PULoad u, FLoad _ w =>
      if sees s w then Some (set_fthr s t (with_pc x (u_decide (u_with_old u (f_w s))))) else None
  | PUCas u, FCas _ ex de =>
      let old := u_old u in
      let new := u_desired u in
      if (ex =? sw_word old) && (de =? sw_word new) then
        if sw_eqb old (f_w s) then
          if w_P old =? 0 then
            Some (set_fthr (set_w s new) t (upd x (ft x) (orph_next (ft x)) []))
          else
            let '(th1, f1, _) := adv_seen (ft x) (sw_stm old) (w_ep old) [] in
            Some (set_fthr (set_w s new) t (upd x th1 (orph_next th1) f1))
        else Some (set_fthr s t (with_pc x (u_decide (u_with_old u (f_w s)))))
      else None
  | _, _ => None
  end.

(** orphan_pending_requests: add_to_orphan_list twice *)
Definition step_orph (s : fstate) (t : tid) (x : fthr) (e : fevent) : option fstate :=
  match ft_pc x, e with
  | POLoad l, FOLoad _ l' h =>
      if olist_eqb l l' && (h =? ol_head (get_ol s l)) then Some (set_fthr s t (with_pc x (POCas l h)))
      else None
  | POCas l nx, FOCas _ l' ex de =>
      if olist_eqb l l' && (ex =? nx) && negb (de =? 0) then
        if nx =? ol_head (get_ol s l) then
          let th := thr_set_vec (ft x) l [] in
          Some (set_fthr (set_ol s l ((de, thr_vec (ft x) l) :: get_ol s l)) t (upd x th (orph_next th) []))
        else Some (set_fthr s t (with_pc x (POCas l (ol_head (get_ol s l)))))
      else None
  | _, _ => None
  end.

(* ------------------------------------------------------------------ *)
(** * The acceptor *)

Definition fstep (s : fstate) (e : fevent) : option fstate :=
  let t := ev_tid e in
  if (t <? length (f_thr s))%nat then
    let x := get_fthr s t in
    match e with
    | FFree _ p => step_free s t x p
    | _ =>
        match ft_free x with
        | _ :: _ => None
        | [] =>
            match e with
            | FAlloc _ p => step_alloc s t x p
            | FCall _ o arg => match ft_pc x with PIdle => step_call s t x o arg | _ => None end
            | FRet _ o => match ft_pc x with PRet => step_ret s t x o | _ => None end
            | _ =>
                match ft_pc x with
                | PIdle | PRet => None
                | PRegLoad | PRegCas _ | PRegSpin _ => step_reg s t x e
                | PRetObs _ | PRetLoad _ => step_retire s t x e
                | PQLoad => step_q s t x e
                | PRmFsub _ _ | PChXPrev _ _ _ | PChXCur _ _ _ _ | PChMove _ _ _
                | PChAppend _ _ _ _ | PChLoad _ _ | PChCas _ _ _ => step_epoch s t x e
                | PULoad _ | PUCas _ => step_unreg s t x e
                | POLoad _ | POCas _ _ => step_orph s t x e
                end
            end
        end
    end
  else None.

Fixpoint frun (s : fstate) (tr : list fevent) : option fstate :=
  match tr with
  | [] => Some s
  | e :: tr' => match fstep s e with Some s' => frun s' tr' | None => None end
  end.

(** index of the first rejected event, with the last good state *)
Fixpoint frun_diag (s : fstate) (tr : list fevent) (i : nat) : fstate * option nat :=
  match tr with
  | [] => (s, None)
  | e :: tr' => match fstep s e with Some s' => frun_diag s' tr' (S i) | None => (s, Some i) end
  end.

(** frees that happened while some thread registered at the request had not
    entered quiescent() / qsbr_pause() since *)
Definition fbad (s : fstate) : list (ptr * list tid) := f_bad s.

(** all pending pointers, anywhere (also those taken off the orphan lists or
    queued for execution by a call in progress) *)
Definition pc_reqs (p : pc) : list ptr :=
  match p with
  | PRetLoad p => [p]
  | PChXCur _ _ _ tp => ol_reqs tp
  | PChMove _ _ tc | PChAppend _ _ tc _ => ol_reqs tc
  | _ => []
  end.

Definition fpending (s : fstate) : list ptr :=
  concat (map (fun x => t_prev (ft x) ++ t_cur (ft x) ++ pc_reqs (ft_pc x) ++ ft_free x) (f_thr s))
  ++ ol_reqs (f_oprev s) ++ ol_reqs (f_ocur s).

(* ------------------------------------------------------------------ *)
(** * Sanity examples *)

Definition w11 : Z := 2 ^ 32 + 1.    (* epoch 0, T = 1, P = 1 *)
Definition w22 : Z := 2 * 2 ^ 32 + 2.

(** one thread: register, retire a block (single thread mode: freed at once) *)
Definition ex_tr1 : list fevent :=
  [FCall 0%nat OpStart 0; FLoad 0%nat 0; FCas 0%nat 0 w11; FRet 0%nat OpStart;
   FAlloc 0%nat 100; FCall 0%nat OpRetire 100; FRetire 0%nat 100; FLoad 0%nat w11; FFree 0%nat 100; FRet 0%nat OpRetire].

Example ex1_accepted :
  match frun (finit 1 0) ex_tr1 with
  | Some s => (fpending s, fbad s, f_freed s, sw_word (f_w s))
  | None => ([], [], [], -1)
  end = ([], [], [100], w11).
Proof. vm_compute. reflexivity. Qed.

(** the same with the free of another block, or without the free, is rejected *)
Example ex1_wrong_free :
  frun (finit 1 0) (firstn 8 ex_tr1 ++ [FFree 0%nat 101]) = None.
Proof. vm_compute. reflexivity. Qed.

Example ex1_missing_free :
  snd (frun_diag (finit 1 0) (firstn 8 ex_tr1 ++ [FRet 0%nat OpRetire]) 0) = Some 8%nat.
Proof. vm_compute. reflexivity. Qed.

(** two threads registering concurrently: the second CAS has a stale expected
    value, fails, and is retried with the value it found *)
Definition ex_tr2 : list fevent :=
  [FCall 0%nat OpStart 0; FCall 1%nat OpStart 0; FLoad 0%nat 0; FLoad 1%nat 0;
   FCas 0%nat 0 w11; FCas 1%nat 0 w11; FCas 1%nat w11 w22; FRet 0%nat OpStart; FRet 1%nat OpStart].

Example ex2_accepted :
  match frun (finit 2 0) ex_tr2 with Some s => sw_word (f_w s) | None => -1 end = w22.
Proof. vm_compute. reflexivity. Qed.

(** a retry that does not use the value the failed CAS found is rejected *)
Example ex2_stale_retry :
  snd (frun_diag (finit 2 0) (firstn 6 ex_tr2 ++ [FCas 1%nat 0 w11]) 0) = Some 6%nat.
Proof. vm_compute. reflexivity. Qed.

(** thread 1 retires while thread 0 is registered and idle: thread 0 is in the
    waiting set until it enters quiescent() *)
Example ex3_waiting :
  match frun (finit 2 0) (ex_tr2 ++ [FAlloc 1%nat 100; FCall 1%nat OpRetire 100; FRetire 1%nat 100]) with
  | Some s => f_wait s | None => []
  end = [(100, [0%nat])].
Proof. vm_compute. reflexivity. Qed.

Example ex3_passed :
  match frun (finit 2 0) (ex_tr2 ++ [FAlloc 1%nat 100; FCall 1%nat OpRetire 100; FRetire 1%nat 100; FCall 0%nat OpQuiescent 0]) with
  | Some s => f_wait s | None => []
  end = [(100, [])].
Proof. vm_compute. reflexivity. Qed.
