(** Invariant preservation, part E: remove_thread_from_previous_epoch and the
    orphan handling of change_epoch (everything but the epoch CAS). *)
From Coq Require Import List ZArith Bool Lia Arith.
From Unodb Require Import Qsbr.QsbrModel Qsbr.QsbrBase Qsbr.QsbrInv Qsbr.QsbrFine Qsbr.QsbrFineBase
  Qsbr.QsbrFineInv Qsbr.QsbrFineStepA Qsbr.QsbrFineStepB Qsbr.QsbrFineStepC.
Import ListNotations.
Local Open Scope Z_scope.

Ltac Zify.zify_post_hook ::= Z.div_mod_to_equations.

(** during an epoch change nobody is counted: class 1 is empty *)
Lemma cls1_P0 : forall s q, Inv s -> w_P (f_w s) = 0 -> fcls s 1 q -> fcls s 2 q.
Proof.
  intros s q I HP H. cbn [fcls] in *. apply list_empty_no_in. intros v Hv.
  destruct (H v Hv) as [_ Hc]. rewrite (P0_cntP s v I HP) in Hc. discriminate.
Qed.

(** an epoch changer in single thread mode: nobody holds references *)
Lemma sole_chg_empty : forall s t q, Inv s -> sole_pc (ft_pc (get_fthr s t)) = true ->
  wf_pc (get_fthr s t) = true -> fcls s 0 q -> fcls s 2 q.
Proof.
  intros s t q I Hs Hw H. cbn [fcls] in *. apply list_empty_no_in. intros v Hv.
  pose proof (H v Hv) as Hh. unfold hr, holds_refs in Hh.
  destruct (Nat.eq_dec v t) as [->|Hne].
  - unfold wf_pc in Hw. destruct (ft_pc (get_fthr s t)); try discriminate Hs;
      destruct c; destruct (ft_op (get_fthr s t)); destruct (t_reg (ft (get_fthr s t)));
      cbn in Hw, Hh; discriminate.
  - pose proof (v_sole s I t Hs v Hne) as Hq. unfold quiet in Hq.
    destruct (t_reg (ft (get_fthr s v))); cbn in Hq, Hh; discriminate.
Qed.

(** the changer is the only late thread *)
Lemma not_late : forall s t, Inv s -> chg_pc (ft_pc (get_fthr s t)) = true ->
  late_pc (ft_pc (get_fthr s t)) = false -> ~ late s.
Proof.
  intros s t I Hc Hl [v Hv]. destruct (v_chg s I t Hc) as [_ Hu].
  rewrite (Hu v (late_chg _ Hv)) in Hv. congruence.
Qed.

Lemma mk_late : forall s1 t, late_pc (ft_pc (get_fthr s1 t)) = true -> late s1.
Proof. intros s1 t H. now exists t. Qed.

Ltac zb_tac :=
  repeat match goal with |- context [(?a =? ?b)%Z] => destruct (Z.eqb_spec a b) end;
  cbn [negb orb andb b2z]; try lia.

Lemma step_fsub_inv : forall s t c cge e s', Inv s -> (t < length (f_thr s))%nat ->
  ft_pc (get_fthr s t) = PRmFsub c cge -> ft_free (get_fthr s t) = [] ->
  step_epoch s t (get_fthr s t) e = Some s' -> Inv s'.
Proof.
  intros s t c cge e s' I Hlt Hpc Hfr H. unfold step_epoch in H.
  pose proof (v_thr s I t) as Hok. pose proof (v_loc s I t) as Hloc.
  assert (HcT : cntT (get_fthr s t) = true) by (unfold cntT; now rewrite Hpc).
  pose proof (fcnt_pos cntT (f_thr s) t cntT_fthr0 HcT) as HT1. rewrite <- (v_T s I) in HT1.
  destruct (get_fthr s t) as [th pc op fr] eqn:Hx. cbn [ft ft_pc ft_op ft_free] in *. subst pc fr.
  destruct th as [reg lsq ls qs prev cur].
  destruct Hloc as [Hwf [Hqs [Hpr Hcall]]]. cnt_unfold_in Hwf. cnt_unfold_in Hqs. cnt_unfold_in Hcall.
  destruct e; try discriminate.
  destruct (sees s old); [|discriminate].
  destruct (Z.ltb_spec 0 (w_P (f_w s))) as [HP0|HP0]; [|discriminate]. cbn [andb] in H.
  destruct (Z.ltb_spec 1 (w_P (f_w s))) as [HP1|HP1].
  - (* not the last one: return to the caller *)
    unfold rm_return in H. cbn [ft t_lsq t_qs] in H.
    destruct c as [st|u].
    + destruct Hcall as [-> [-> ->]]. rewrite Z.eqb_refl in H. cbn [negb] in H.
      destruct op; try discriminate Hwf; destruct reg; try discriminate Hwf.
      inversion H; subst s'; clear H.
      match goal with |- Inv (set_fthr _ _ ?X) => set (x' := X) end.
      match goal with |- Inv ?S => set (s1 := S) end.
      assert (SS : StepSame s s1 t keep_all) by
        (eapply mk_same_nohr with (x' := x'); [exact Hlt|reflexivity|reflexivity|reflexivity|
           rewrite Hx; reflexivity|rewrite Hx; discriminate]).
      eapply inv_same with (t := t) (keep := keep_all) (x' := x'); eauto; keep_tac.
      all: subst x' s1; same_dispatch SS Hok Hx.
      all: rewrite ?Z.eqb_refl; zb_tac.
    + destruct Hcall as [-> Hue]. rewrite Hue, Z.eqb_refl in H. cbn [negb] in H.
      destruct op; try discriminate Hwf; destruct reg; try discriminate Hwf.
      all: inversion H; subst s'; clear H.
      all: match goal with |- Inv (set_fthr _ _ ?X) => set (x' := X) end.
      all: match goal with |- Inv ?S => set (s1 := S) end.
      all: assert (SS : StepSame s s1 t keep_all) by
        (eapply mk_same_nohr with (x' := x'); [exact Hlt|reflexivity|reflexivity|reflexivity|
           rewrite Hx; reflexivity|rewrite Hx; discriminate]).
      all: eapply inv_same with (t := t) (keep := keep_all) (x' := x'); eauto; keep_tac.
      all: subst x' s1; same_dispatch SS Hok Hx.
      all: rewrite ?Z.eqb_refl; zb_tac.
  - (* the last one: start the epoch change *)
    assert (HPeq : w_P (f_w s) = 1) by lia.
    assert (Hhr : holds_refs (get_fthr s t) = false).
    { rewrite Hx. destruct c; destruct op; try discriminate Hwf; destruct reg; try discriminate Hwf;
        reflexivity. }
    inversion H; subst s'; clear H.
    match goal with |- Inv (set_fthr _ _ ?X) => set (x' := X) end.
    match goal with |- Inv ?S => set (s1 := S) end.
    assert (SS : StepSame s s1 t keep_all) by
      (eapply mk_same_nohr with (x' := x'); [exact Hlt|reflexivity|reflexivity|reflexivity|
         exact Hhr|rewrite Hx; discriminate]).
    eapply inv_same with (t := t) (keep := keep_all) (x' := x'); eauto; keep_tac.
    all: subst x' s1; same_dispatch SS Hok Hx.
    unfold sw_stm. destruct (Z.ltb_spec (w_T (f_w s)) 2); [|discriminate].
    intros _. right. split; [lia|reflexivity].
Qed.

Lemma chg_hr_false : forall x, wf_pc x = true -> chg_pc (ft_pc x) = true -> holds_refs x = false.
Proof.
  intros x Hw Hc. unfold wf_pc, holds_refs in *.
  destruct (ft_pc x); try discriminate Hc; destruct c; destruct (ft_op x); destruct (t_reg (ft x));
    cbn in *; congruence.
Qed.

Lemma step_xprev_inv : forall s t c cge stm e s', Inv s -> (t < length (f_thr s))%nat ->
  ft_pc (get_fthr s t) = PChXPrev c cge stm -> ft_free (get_fthr s t) = [] ->
  step_epoch s t (get_fthr s t) e = Some s' -> Inv s'.
Proof.
  intros s t c cge stm e s' I Hlt Hpc Hfr H. unfold step_epoch in H.
  pose proof (v_thr s I t) as Hok. pose proof (v_loc s I t) as Hloc.
  assert (Hchg : chg_pc (ft_pc (get_fthr s t)) = true) by now rewrite Hpc.
  assert (Hhr : holds_refs (get_fthr s t) = false) by (apply chg_hr_false; [apply Hloc|exact Hchg]).
  destruct (v_chg s I t Hchg) as [HP0 _].
  assert (Hnl : ~ late s) by (eapply not_late; eauto; now rewrite Hpc).
  pose proof (v_oprev s I) as Hop.
  destruct (get_fthr s t) as [th pc op fr] eqn:Hx. cbn [ft ft_pc ft_op ft_free] in *. subst pc fr.
  destruct e; try discriminate. destruct l; try discriminate.
  destruct (old =? ol_head (f_oprev s)); [|discriminate].
  inversion H; subst s'; clear H.
  match goal with |- Inv (set_fthr _ _ ?X) => set (x' := X) end.
  match goal with |- Inv ?S => set (s1 := S) end.
  assert (SS : StepSame s s1 t keep_all) by
    (eapply mk_same_nohr with (x' := x'); [exact Hlt|reflexivity|reflexivity|reflexivity|
       rewrite Hx; exact Hhr|rewrite Hx; discriminate]).
  eapply inv_same with (t := t) (keep := keep_all) (x' := x'); eauto; keep_tac.
  all: subst x' s1.
  all: lazymatch goal with
    | |- thr_ok _ _ _ =>
        eapply thr_ok_repc; [eapply same_thr_ok; [exact SS|keep_tac|exact Hok]|..];
        try reflexivity; auto
    | |- forall p, In p (ol_reqs (f_ocur _)) -> _ => eapply same_ocur; eauto; keep_tac
    | |- forall p, In p (ol_reqs (f_oprev _)) -> _ => intros p Hp; destruct Hp
    | |- _ => rewrite ?Hx; destruct Hloc as [Hwf [Hqs [Hpr Hcall]]];
              cnt_unfold; cnt_unfold_in Hwf; cnt_unfold_in Hcall;
              repeat split; auto; try lia; try discriminate; try tauto
    end.
  (* the previous-interval orphans taken: class 1 with nobody counted *)
  cbn [pc_ok ft_pc with_pc]. intros q Hq. destruct (Hop q Hq) as [_ [H1|Hl]]; [|contradiction].
  eapply same_cls; [exact SS|exact Logic.I|]. now apply cls1_P0.
Qed.

Lemma step_xcur_inv : forall s t c cge stm tp e s', Inv s -> (t < length (f_thr s))%nat ->
  ft_pc (get_fthr s t) = PChXCur c cge stm tp -> ft_free (get_fthr s t) = [] ->
  step_epoch s t (get_fthr s t) e = Some s' -> Inv s'.
Proof.
  intros s t c cge stm tp e s' I Hlt Hpc Hfr H. unfold step_epoch in H.
  pose proof (v_thr s I t) as Hok. pose proof (v_loc s I t) as Hloc.
  assert (Hchg : chg_pc (ft_pc (get_fthr s t)) = true) by now rewrite Hpc.
  assert (Hhr : holds_refs (get_fthr s t) = false) by (apply chg_hr_false; [apply Hloc|exact Hchg]).
  destruct (v_chg s I t Hchg) as [HP0 _].
  pose proof (v_ocur s I) as Hoc.
  pose proof (sole_chg_empty s t) as Hsole.
  destruct (get_fthr s t) as [th pc op fr] eqn:Hx. cbn [ft ft_pc ft_op ft_free] in *. subst pc fr.
  destruct e; try discriminate. destruct l; try discriminate.
  destruct (old =? ol_head (f_ocur s)); [|discriminate].
  destruct stm; inversion H; subst s'; clear H.
  all: match goal with |- Inv (set_fthr _ _ ?X) => set (x' := X) end.
  all: match goal with |- Inv ?S => set (s1 := S) end.
  all: assert (SS : StepSame s s1 t keep_all) by
    (eapply mk_same_nohr with (x' := x'); [exact Hlt|reflexivity|reflexivity|reflexivity|
       rewrite Hx; exact Hhr|rewrite Hx; reflexivity]).
  all: eapply inv_same with (t := t) (keep := keep_all) (x' := x'); eauto; keep_tac.
  all: subst x' s1.
  all: lazymatch goal with
    | |- thr_ok _ _ _ => idtac
    | |- forall p, In p (ol_reqs (f_oprev _)) -> _ => eapply same_oprev; eauto; keep_tac
    | |- forall p, In p (ol_reqs (f_ocur _)) -> _ => intros p Hp; destruct Hp
    | |- _ => rewrite ?Hx; destruct Hloc as [Hwf [Hqs [Hpr Hcall]]];
              cnt_unfold; cnt_unfold_in Hwf; cnt_unfold_in Hcall;
              repeat split; auto; try lia; try discriminate; try tauto
    end.
  all: destruct Hok as [Hc Hp _ Hpc Hst]; cbn [ft ft_pc t_cur t_prev pc_ok] in Hc, Hp, Hpc, Hst.
  all: eapply thr_ok_from_old; [exact SS|..]; cbn [ft ft_pc ft_free upd t_cur t_prev app pc_ok].
  all: try exact Logic.I.
  all: try (intros q Hin; split; [exact Logic.I|]; first [apply Hc|apply Hp]; exact Hin).
  all: try (intros Hs q Hin; split; [exact Logic.I|exact (Hst Hs q Hin)]).
  all: try (intros q Hin; split; [exact Logic.I|exact (Hpc q Hin)]).
  - intros q Hin. split; [exact Logic.I|]. in_cases Hin; [exact (Hpc q Hin)|].
    apply (Hsole q I); [reflexivity|apply Hloc|exact (Hoc q Hin)].
  - intros q Hin. eapply same_cls; [exact SS|exact Logic.I|exact (Hoc q Hin)].
Qed.

Lemma get_set_same : forall s t x, (t < length (f_thr s))%nat -> get_fthr (set_fthr s t x) t = x.
Proof. intros. rewrite get_set_fthr by auto. now rewrite Nat.eqb_refl. Qed.

(** common part of the steps of a changer that only move orphans / load the word *)
Ltac chg_prelude s t I Hpc Hloc Hok Hchg Hhr HP0 :=
  pose proof (v_thr s I t) as Hok; pose proof (v_loc s I t) as Hloc;
  assert (Hchg : chg_pc (ft_pc (get_fthr s t)) = true) by (rewrite Hpc; reflexivity);
  assert (Hhr : holds_refs (get_fthr s t) = false) by (apply chg_hr_false; [apply Hloc|exact Hchg]);
  destruct (v_chg s I t Hchg) as [HP0 _].

Ltac chg_dispatch SS Hok Hx Hloc :=
  lazymatch goal with
  | |- thr_ok _ _ _ =>
      let Hok1 := fresh "Hok1" in
      pose proof (same_thr_ok _ _ _ _ _ _ SS (fun p _ => Logic.I) Hok) as Hok1;
      eapply thr_ok_repc; [exact Hok1|..]; try reflexivity; auto;
      try exact (k_pc _ _ _ Hok1)
  | |- forall p, In p (ol_reqs (f_ocur _)) -> _ => try solve [eapply same_ocur; eauto; keep_tac]
  | |- forall p, In p (ol_reqs (f_oprev _)) -> _ => try solve [eapply same_oprev; eauto; keep_tac]
  | |- _ => rewrite ?Hx; destruct Hloc as [?Hwf [?Hqs [?Hpr ?Hcall]]];
            cnt_unfold; cnt_unfold_in Hwf; cnt_unfold_in Hcall;
            repeat split; auto; try lia; try discriminate; try tauto
  end.

Lemma step_move_inv : forall s t c cge tc e s', Inv s -> (t < length (f_thr s))%nat ->
  ft_pc (get_fthr s t) = PChMove c cge tc -> ft_free (get_fthr s t) = [] ->
  step_epoch s t (get_fthr s t) e = Some s' -> Inv s'.
Proof.
  intros s t c cge tc e s' I Hlt Hpc Hfr H. unfold step_epoch in H.
  chg_prelude s t I Hpc Hloc Hok Hchg Hhr HP0.
  destruct (get_fthr s t) as [th pc op fr] eqn:Hx. cbn [ft ft_pc ft_op ft_free] in *. subst pc fr.
  destruct e; try discriminate.
  destruct ((expected =? 0) && (desired =? ol_head tc)); [|discriminate].
  destruct (f_oprev s) as [|[a v] l] eqn:Hop; inversion H; subst s'; clear H.
  all: match goal with |- Inv (set_fthr _ _ ?X) => set (x' := X) end.
  all: match goal with |- Inv ?S => set (s1 := S) end.
  all: assert (SS : StepSame s s1 t keep_all) by
    (eapply mk_same_nohr with (x' := x'); [exact Hlt|reflexivity|reflexivity|reflexivity|
       rewrite Hx; exact Hhr|rewrite Hx; reflexivity]).
  all: eapply inv_same with (t := t) (keep := keep_all) (x' := x'); eauto; keep_tac.
  all: subst x' s1; chg_dispatch SS Hok Hx Hloc.
  (* the taken current-interval orphans become the previous-interval list *)
  intros q Hq. cbn [f_oprev set_fthr set_ol] in Hq. split.
  - eapply same_cls; [exact SS|exact Logic.I|]. exact (k_pc _ _ _ Hok q Hq).
  - right. eapply mk_late with (t := t). rewrite get_set_same by exact Hlt. reflexivity.
Qed.

Lemma step_append_inv : forall s t c cge tc h e s', Inv s -> (t < length (f_thr s))%nat ->
  ft_pc (get_fthr s t) = PChAppend c cge tc h -> ft_free (get_fthr s t) = [] ->
  step_epoch s t (get_fthr s t) e = Some s' -> Inv s'.
Proof.
  intros s t c cge tc h e s' I Hlt Hpc Hfr H. unfold step_epoch in H.
  chg_prelude s t I Hpc Hloc Hok Hchg Hhr HP0.
  pose proof (v_oprev s I) as Hop.
  destruct (get_fthr s t) as [th pc op fr] eqn:Hx. cbn [ft ft_pc ft_op ft_free] in *. subst pc fr.
  destruct e; try discriminate.
  destruct (taken =? ol_head tc); [|discriminate].
  destruct (append_from h (f_oprev s) tc) as [l|] eqn:Hap; [|discriminate].
  apply append_from_eq in Hap. subst l.
  inversion H; subst s'; clear H.
  match goal with |- Inv (set_fthr _ _ ?X) => set (x' := X) end.
  match goal with |- Inv ?S => set (s1 := S) end.
  assert (SS : StepSame s s1 t keep_all) by
    (eapply mk_same_nohr with (x' := x'); [exact Hlt|reflexivity|reflexivity|reflexivity|
       rewrite Hx; exact Hhr|rewrite Hx; reflexivity]).
  eapply inv_same with (t := t) (keep := keep_all) (x' := x'); eauto; keep_tac.
  all: subst x' s1; chg_dispatch SS Hok Hx Hloc.
  intros q Hq. cbn [f_oprev set_fthr set_ol] in Hq. rewrite ol_reqs_app in Hq. split.
  - eapply same_cls; [exact SS|exact Logic.I|]. apply in_app_or in Hq. destruct Hq as [Hq|Hq].
    + apply (Hop q Hq).
    + exact (k_pc _ _ _ Hok q Hq).
  - right. eapply mk_late with (t := t). rewrite get_set_same by exact Hlt. reflexivity.
Qed.

Lemma step_chload_inv : forall s t c cge e s', Inv s -> (t < length (f_thr s))%nat ->
  ft_pc (get_fthr s t) = PChLoad c cge -> ft_free (get_fthr s t) = [] ->
  step_epoch s t (get_fthr s t) e = Some s' -> Inv s'.
Proof.
  intros s t c cge e s' I Hlt Hpc Hfr H. unfold step_epoch in H.
  chg_prelude s t I Hpc Hloc Hok Hchg Hhr HP0.
  destruct (get_fthr s t) as [th pc op fr] eqn:Hx. cbn [ft ft_pc ft_op ft_free] in *. subst pc fr.
  destruct e; try discriminate.
  destruct (sees s w); [|discriminate].
  inversion H; subst s'; clear H.
  match goal with |- Inv (set_fthr _ _ ?X) => set (x' := X) end.
  match goal with |- Inv ?S => set (s1 := S) end.
  assert (SS : StepSame s s1 t keep_all) by
    (eapply mk_same_nohr with (x' := x'); [exact Hlt|reflexivity|reflexivity|reflexivity|
       rewrite Hx; exact Hhr|rewrite Hx; reflexivity]).
  eapply inv_same with (t := t) (keep := keep_all) (x' := x'); eauto; keep_tac.
  all: subst x' s1; chg_dispatch SS Hok Hx Hloc.
Qed.

Lemma step_chcas_fail_inv : forall s t c cge old, Inv s -> (t < length (f_thr s))%nat ->
  ft_pc (get_fthr s t) = PChCas c cge old -> ft_free (get_fthr s t) = [] ->
  Inv (set_fthr s t (with_pc (get_fthr s t) (PChCas c cge (f_w s)))).
Proof.
  intros s t c cge old I Hlt Hpc Hfr.
  chg_prelude s t I Hpc Hloc Hok Hchg Hhr HP0.
  destruct (get_fthr s t) as [th pc op fr] eqn:Hx. cbn [ft ft_pc ft_op ft_free] in *. subst pc fr.
  match goal with |- Inv (set_fthr _ _ ?X) => set (x' := X) end.
  match goal with |- Inv ?S => set (s1 := S) end.
  assert (SS : StepSame s s1 t keep_all) by
    (eapply mk_same_nohr with (x' := x'); [exact Hlt|reflexivity|reflexivity|reflexivity|
       rewrite Hx; exact Hhr|rewrite Hx; reflexivity]).
  eapply inv_same with (t := t) (keep := keep_all) (x' := x'); eauto; keep_tac.
  all: subst x' s1; chg_dispatch SS Hok Hx Hloc.
Qed.
