(** Bookkeeping of pending requests in the fine-grained model: every step
    conserves them (nothing lost, nothing duplicated).  Purely structural. *)
From Coq Require Import List ZArith Bool Lia Arith Permutation.
From Unodb Require Import Qsbr.QsbrModel Qsbr.QsbrBase Qsbr.QsbrFine Qsbr.QsbrFineBase Qsbr.QsbrFineInv.
Import ListNotations.
Local Open Scope Z_scope.

Definition ev_freed (e : fevent) : list ptr := match e with FFree _ p => [p] | _ => [] end.
Definition ev_retired (e : fevent) : list ptr := match e with FRetire _ p => [p] | _ => [] end.

Lemma co_thr_set : forall l i x a, (i < length l)%nat ->
  (co (concat (map thr_reqs (set_nth_fthr i x l))) a + co (thr_reqs (nth i l fthr0)) a =
   co (concat (map thr_reqs l)) a + co (thr_reqs x) a)%nat.
Proof.
  induction l as [|y l IH]; intros i x a Hi; cbn [length] in Hi; [lia|].
  destruct i as [|i]; cbn [set_nth_fthr map concat nth]; rewrite !co_app.
  - lia.
  - specialize (IH i x a). lia.
Qed.

(** local accounting implies global accounting *)
Lemma pend_step : forall s s' t x' (F R : ptr -> nat),
  (t < length (f_thr s))%nat -> f_thr s' = set_nth_fthr t x' (f_thr s) ->
  (forall a, (co (thr_reqs x') a + co (ol_reqs (f_oprev s')) a + co (ol_reqs (f_ocur s')) a + F a =
              co (thr_reqs (get_fthr s t)) a + co (ol_reqs (f_oprev s)) a + co (ol_reqs (f_ocur s)) a + R a)%nat) ->
  forall a, (co (fpending s') a + F a = co (fpending s) a + R a)%nat.
Proof.
  intros s s' t x' F R Hlt Hthr H a. rewrite !fpending_eq, !co_app, Hthr.
  pose proof (co_thr_set (f_thr s) t x' a Hlt) as Hc. specialize (H a).
  unfold get_fthr in H. lia.
Qed.

Lemma co_cons : forall p l a, co (p :: l) a = (co [p] a + co l a)%nat.
Proof. intros. change (p :: l) with ([p] ++ l). apply co_app. Qed.

Lemma ol_reqs_nil : ol_reqs [] = [].
Proof. reflexivity. Qed.

Ltac co_norm :=
  unfold thr_reqs;
  cbn [ft ft_pc ft_op ft_free with_pc upd set_op reg_return thr_set_reg thr_set_lsq_qs thr_set_vec thr_vec
       t_reg t_lsq t_ls t_qs t_prev t_cur pc_reqs f_w f_oprev f_ocur f_thr set_fthr set_w set_ol set_wait
       bump_gep get_ol ev_freed ev_retired];
  repeat rewrite ?co_app, ?ol_reqs_app, ?ol_reqs_cons, ?ol_reqs_nil, ?co_nil;
  try lia.

(** destruct the scrutinee of the outermost [if] / [match] / [let] of a step equation *)
Ltac brk H :=
  repeat match type of H with
  | (if ?c then _ else _) = Some _ => destruct c eqn:?
  | (match ?c with _ => _ end) = Some _ => destruct c eqn:?
  | (let _ := _ in _) = Some _ => cbv zeta in H
  end; try discriminate H.

Ltac pend_fin H Hlt :=
  inversion H; subst; clear H;
  eapply pend_step; [exact Hlt|reflexivity|]; intros ?a; co_norm.

Lemma pend_alloc : forall s t x p s', step_alloc s t x p = Some s' ->
  forall a, (co (fpending s') a + co (ev_freed (FAlloc t p)) a =
             co (fpending s) a + co (ev_retired (FAlloc t p)) a)%nat.
Proof.
  intros s t x p s' H a. unfold step_alloc in H. brk H. inversion H; subst. reflexivity.
Qed.

Lemma pend_free : forall s t p s', (t < length (f_thr s))%nat ->
  step_free s t (get_fthr s t) p = Some s' ->
  forall a, (co (fpending s') a + co (ev_freed (FFree t p)) a =
             co (fpending s) a + co (ev_retired (FFree t p)) a)%nat.
Proof.
  intros s t p s' Hlt H. unfold step_free in H.
  destruct (ft_free (get_fthr s t)) as [|q r] eqn:Hfr; [discriminate|].
  destruct (Z.eqb_spec p q) as [->|]; [|discriminate].
  inversion H; subst; clear H.
  eapply pend_step with (t := t); [exact Hlt|reflexivity|]. intros a. unfold thr_reqs at 2.
  rewrite Hfr. co_norm. rewrite (co_cons q r). lia.
Qed.

Lemma pc_reqs_orph : forall th, pc_reqs (orph_next th) = [].
Proof. intros th. unfold orph_next. destruct (t_prev th); [destruct (t_cur th)|]; reflexivity. Qed.

(** destruct every [if] condition (innermost first), then simplify *)
Ltac brk_if H :=
  repeat match type of H with
  | context [if ?c then _ else _] =>
      lazymatch c with
      | context [if _ then _ else _] => fail
      | _ => destruct c eqn:?
      end
  end;
  cbn [fst snd] in H; try discriminate H.

Ltac pend_setup s t x Hx :=
  remember (get_fthr s t) as x eqn:Hx;
  let th := fresh "th" in let pc := fresh "pc" in let op := fresh "op" in let fr := fresh "fr" in
  destruct x as [th pc op fr]; destruct th as [?reg ?lsq ?ls ?qs ?prev ?cur].

Ltac pend_close Hlt Hx :=
  match goal with H : Some _ = Some _ |- _ => inversion H; subst; clear H end;
  eapply pend_step; [exact Hlt|reflexivity|]; intros ?a; rewrite <- Hx;
  co_norm; rewrite ?pc_reqs_orph; co_norm.

Lemma pend_call : forall s t o arg s', (t < length (f_thr s))%nat ->
  step_call s t (get_fthr s t) o arg = Some s' ->
  ft_pc (get_fthr s t) = PIdle ->
  forall a, (co (fpending s') a + co (ev_freed (FCall t o arg)) a =
             co (fpending s) a + co (ev_retired (FCall t o arg)) a)%nat.
Proof.
  intros s t o arg s' Hlt H Hpc. unfold step_call in H. pend_setup s t x Hx.
  cbn [ft ft_pc ft_op ft_free t_reg] in *. subst.
  destruct o; brk_if H; pend_close Hlt Hx.
Qed.

Lemma pend_ret : forall s t o s', (t < length (f_thr s))%nat ->
  step_ret s t (get_fthr s t) o = Some s' ->
  ft_pc (get_fthr s t) = PRet ->
  forall a, (co (fpending s') a + co (ev_freed (FRet t o)) a =
             co (fpending s) a + co (ev_retired (FRet t o)) a)%nat.
Proof.
  intros s t o s' Hlt H Hpc. unfold step_ret in H. pend_setup s t x Hx.
  cbn [ft ft_pc ft_op ft_free t_reg] in *. subst.
  brk_if H. destruct o; pend_close Hlt Hx.
Qed.

Ltac pend_step_tac Hlt H Hx :=
  cbn [ft ft_pc ft_op ft_free t_reg t_lsq t_ls t_qs t_prev t_cur] in H;
  match goal with pc : pc |- _ => destruct pc; try discriminate H end;
  match goal with e : fevent |- _ => destruct e; try discriminate H end;
  cbv zeta in H;
  unfold rm_return, adv_seen, exec_prev in H;
  cbn [ft ft_pc ft_op ft_free t_reg t_lsq t_ls t_qs t_prev t_cur thr_set_lsq_qs] in H;
  brk_if H;
  cbn [ft ft_pc ft_op ft_free t_reg t_lsq t_ls t_qs t_prev t_cur thr_set_lsq_qs] in H.

Lemma pend_reg : forall s t e s', (t < length (f_thr s))%nat ->
  step_reg s t (get_fthr s t) e = Some s' ->
  forall a, (co (fpending s') a + co (ev_freed e) a = co (fpending s) a + co (ev_retired e) a)%nat.
Proof.
  intros s t e s' Hlt H. unfold step_reg in H. pend_setup s t x Hx.
  pend_step_tac Hlt H Hx.
  all: try (inversion H; subst; reflexivity).
  all: pend_close Hlt Hx.
Qed.

Lemma pend_retire : forall s t e s', (t < length (f_thr s))%nat ->
  step_retire s t (get_fthr s t) e = Some s' ->
  forall a, (co (fpending s') a + co (ev_freed e) a = co (fpending s) a + co (ev_retired e) a)%nat.
Proof.
  intros s t e s' Hlt H. unfold step_retire in H. pend_setup s t x Hx.
  pend_step_tac Hlt H Hx.
  all: try (match goal with Hb : (_ =? _) = true |- _ => apply Z.eqb_eq in Hb; subst end).
  all: pend_close Hlt Hx.
Qed.

Lemma pend_q : forall s t e s', (t < length (f_thr s))%nat ->
  step_q s t (get_fthr s t) e = Some s' ->
  forall a, (co (fpending s') a + co (ev_freed e) a = co (fpending s) a + co (ev_retired e) a)%nat.
Proof.
  intros s t e s' Hlt H. unfold step_q in H. pend_setup s t x Hx.
  pend_step_tac Hlt H Hx.
  all: pend_close Hlt Hx.
Qed.

Lemma pend_epoch : forall s t e s', (t < length (f_thr s))%nat ->
  step_epoch s t (get_fthr s t) e = Some s' ->
  forall a, (co (fpending s') a + co (ev_freed e) a = co (fpending s) a + co (ev_retired e) a)%nat.
Proof.
  intros s t e s' Hlt H. unfold step_epoch in H. pend_setup s t x Hx.
  cbn [ft ft_pc ft_op ft_free t_reg t_lsq t_ls t_qs t_prev t_cur] in H.
  destruct pc; try discriminate H; destruct e; try discriminate H.
  all: try (destruct l; try discriminate H).
  all: try (destruct c).
  all: cbv zeta in H; unfold rm_return, adv_seen, exec_prev in H;
       cbn [ft ft_pc ft_op ft_free t_reg t_lsq t_ls t_qs t_prev t_cur thr_set_lsq_qs] in H.
  all: brk_if H;
       cbn [ft ft_pc ft_op ft_free t_reg t_lsq t_ls t_qs t_prev t_cur thr_set_lsq_qs] in H.
  all: brk H.
  all: try (match goal with Hap : append_from _ _ _ = Some _ |- _ =>
              apply append_from_eq in Hap; subst end).
  all: try (match goal with p : onode |- _ => destruct p end).
  all: pend_close Hlt Hx.
  all: match goal with Hn : f_oprev _ = _ |- _ => rewrite Hn; co_norm end.
Qed.

Lemma pc_reqs_decide : forall u, pc_reqs (u_decide u) = [].
Proof.
  intros u. unfold u_decide. destruct (w_P (u_old u) =? 0); [reflexivity|].
  destruct (u_advance u); reflexivity.
Qed.

Lemma pend_unreg : forall s t e s', (t < length (f_thr s))%nat ->
  step_unreg s t (get_fthr s t) e = Some s' ->
  forall a, (co (fpending s') a + co (ev_freed e) a = co (fpending s) a + co (ev_retired e) a)%nat.
Proof.
  intros s t e s' Hlt H. unfold step_unreg in H. pend_setup s t x Hx.
  cbn [ft ft_pc ft_op ft_free t_reg t_lsq t_ls t_qs t_prev t_cur] in H.
  destruct pc; try discriminate H; destruct e; try discriminate H.
  all: cbv zeta in H; unfold adv_seen, exec_prev in H;
       cbn [ft ft_pc ft_op ft_free t_reg t_lsq t_ls t_qs t_prev t_cur thr_set_lsq_qs] in H.
  all: brk_if H;
       cbn [ft ft_pc ft_op ft_free t_reg t_lsq t_ls t_qs t_prev t_cur thr_set_lsq_qs] in H.
  all: pend_close Hlt Hx.
  all: rewrite ?pc_reqs_decide; co_norm.
Qed.

Lemma pend_orph : forall s t e s', (t < length (f_thr s))%nat ->
  step_orph s t (get_fthr s t) e = Some s' ->
  forall a, (co (fpending s') a + co (ev_freed e) a = co (fpending s) a + co (ev_retired e) a)%nat.
Proof.
  intros s t e s' Hlt H. unfold step_orph in H. pend_setup s t x Hx.
  cbn [ft ft_pc ft_op ft_free t_reg t_lsq t_ls t_qs t_prev t_cur] in H.
  destruct pc; try discriminate H; destruct e; try discriminate H.
  all: brk_if H.
  all: try (destruct l; cbn [thr_set_vec thr_vec get_ol set_ol t_prev t_cur t_reg t_lsq t_ls t_qs] in H).
  all: pend_close Hlt Hx.
Qed.
