(** QSBR coarse model: what the index may rely on (Properties_C04).
    A block retired while another thread is registered is not freed before
    that thread passes a quiescent state / pauses / exits; every retired
    block is freed at most once and is never both pending and freed. *)
From Coq Require Import List ZArith Bool Lia Permutation Arith.
From Unodb Require Import Qsbr.QsbrModel Qsbr.QsbrBase Qsbr.QsbrPerm Qsbr.QsbrInv Qsbr.QsbrRun
  Qsbr.QsbrDrain Qsbr.QsbrSafe Qsbr.QsbrProofs.
Import ListNotations.
Local Open Scope Z_scope.

Definition registered_after (n : nat) (pre : list qop) (u : tid) : bool :=
  match qrun (qinit n) pre with Some (s, _, _) => t_reg (get_thr s u) | None => false end.

(** * running an appended history *)

Lemma qrun_app : forall a b s,
  qrun s (a ++ b) =
  match qrun s a with
  | Some (s1, fs1, b1) =>
      match qrun s1 b with
      | Some (s2, fs2, b2) => Some (s2, fs1 ++ fs2, b1 ++ b2)
      | None => None
      end
  | None => None
  end.
Proof.
  induction a as [|o a IH]; intros b s.
  - cbn [app qrun]. destruct (qrun s b) as [[[s2 fs2] b2]|]; reflexivity.
  - rewrite <- app_comm_cons, !qrun_cons.
    destruct (op_enabled s o); [|reflexivity].
    rewrite IH.
    destruct (qrun (drop_state (fst (op_res s o)) (snd (op_res s o))) a) as [[[s1 fs1] b1]|]; [|reflexivity].
    destruct (qrun s1 b) as [[[s2 fs2] b2]|]; [|reflexivity].
    cbn [app]. rewrite app_assoc. reflexivity.
Qed.

Lemma qrun_length : forall ops s s' fs bads,
  qrun s ops = Some (s', fs, bads) -> length fs = length ops.
Proof.
  induction ops as [|o ops IH]; intros s s' fs bads H.
  - cbn [qrun] in H. injection H as <- <- <-. reflexivity.
  - rewrite qrun_cons in H. destruct (op_enabled s o); [|discriminate].
    destruct (qrun _ ops) as [[[s3 fs3] bads3]|] eqn:Hrun; [|discriminate].
    injection H as <- <- <-. cbn [length]. f_equal. eapply IH; eauto.
Qed.

Lemma retired_app : forall a b,
  QsbrRun.retired_ptrs (a ++ b) = QsbrRun.retired_ptrs a ++ QsbrRun.retired_ptrs b.
Proof. intros a b. unfold QsbrRun.retired_ptrs. apply flat_map_app. Qed.

(** * ghost part of register / retire *)

Lemma wait_register : forall s t, q_wait (fst (q_register s t)) = q_wait s.
Proof. reflexivity. Qed.

Lemma wait_retire : forall s t p,
  q_wait (fst (q_retire s t p)) = (p, registered_others (q_thr s) t O) :: q_wait s.
Proof.
  intros s t p. unfold q_retire, adv_seen, exec_prev.
  destruct (q_T s <? 2); destruct (q_ep s =? t_ls (get_thr s t));
    destruct (t_ls (get_thr s t) =? q_ep s); reflexivity.
Qed.

Lemma registered_others_complete : forall l t i u,
  t_reg (nth u l thr0) = true -> (i + u)%nat <> t -> In (i + u)%nat (registered_others l t i).
Proof.
  induction l as [|x l IH]; intros t i u Hr Hne.
  - destruct u; cbn [nth thr0 t_reg] in Hr; discriminate.
  - cbn [registered_others]. apply in_or_app. destruct u as [|u].
    + left. cbn [nth] in Hr. rewrite Hr. cbn [andb].
      rewrite Nat.add_0_r in *.
      destruct (Nat.eqb_spec i t) as [->|_]; [congruence|]. cbn [negb]. now left.
    + right. cbn [nth] in Hr. replace (i + S u)%nat with (S i + u)%nat in * by lia.
      apply IH; auto.
Qed.

(** * a waited-for block is not freed in a safe run *)

Lemma op_bad_nil_inv : forall s1 f p, op_bad s1 f = [] -> In p f -> W s1 p = [].
Proof.
  intros s1 f p. unfold op_bad. induction f as [|q f IH]; intros Hb Hin; [contradiction|].
  cbn [map filter snd] in Hb. change (wait_of (q_wait s1) q) with (W s1 q) in Hb.
  destruct Hin as [->|Hin].
  - destruct (W s1 p); [reflexivity|discriminate].
  - apply IH; auto. destruct (W s1 q); [exact Hb|discriminate].
Qed.

(** one call by a thread other than [u], not retiring [p] again, keeps [u] in the waiting set of [p] *)
Lemma step_keeps_wait : forall s o p u,
  In u (W s p) -> o <> QQuiescent u -> o <> QUnregister u -> ~ In p (op_new o) ->
  In u (W (fst (op_res s o)) p).
Proof.
  intros s [t|t|t|t q] p u Hin Hq Hu Hnew; cbn [op_res]; unfold W in *.
  - rewrite wait_register. exact Hin.
  - rewrite wait_unregister, wait_of_passed. apply in_remove_tid. split; [exact Hin|].
    intros ->. now apply Hu.
  - rewrite wait_quiescent, wait_of_passed. apply in_remove_tid. split; [exact Hin|].
    intros ->. now apply Hq.
  - rewrite wait_retire. cbn [wait_of].
    destruct (Z.eqb_spec q p) as [->|_]; [|exact Hin].
    exfalso. apply Hnew. cbn [op_new]. now left.
Qed.

Lemma mid_keeps : forall mid s s' fs p u,
  In u (W s p) -> ~ In (QQuiescent u) mid -> ~ In (QUnregister u) mid ->
  ~ In p (QsbrRun.retired_ptrs mid) ->
  qrun s mid = Some (s', fs, []) -> ~ In p (concat fs).
Proof.
  induction mid as [|o mid IH]; intros s s' fs p u Hw Hq Hu Hret H.
  - cbn [qrun] in H. injection H as <- <-. cbn [concat]. tauto.
  - rewrite qrun_cons in H. destruct (op_enabled s o); [|discriminate].
    destruct (qrun _ mid) as [[[s3 fs3] bads3]|] eqn:Hrun; [|discriminate].
    injection H as <- <- Hb. apply app_eq_nil in Hb. destruct Hb as [Hb1 Hb3]. subst bads3.
    rewrite retired_cons in Hret.
    assert (Hw1 : In u (W (fst (op_res s o)) p)).
    { apply step_keeps_wait; auto.
      - intros ->. apply Hq. now left.
      - intros ->. apply Hu. now left.
      - intros Hc. apply Hret. apply in_or_app. now left. }
    assert (Hnf : ~ In p (snd (op_res s o))).
    { intros Hc. rewrite (op_bad_nil_inv _ _ _ Hb1 Hc) in Hw1. contradiction. }
    cbn [concat]. intros Hc. apply in_app_or in Hc. destruct Hc as [Hc|Hc]; [now apply Hnf|].
    revert Hc. eapply IH; [| | | |exact Hrun].
    + unfold W, drop_state. cbn [q_wait with_ghost]. rewrite wait_of_drop by exact Hnf. exact Hw1.
    + intros Hc. apply Hq. now right.
    + intros Hc. apply Hu. now right.
    + intros Hc. apply Hret. apply in_or_app. now right.
Qed.

Lemma retire_then_mid : forall mid s s' fs t p u,
  t_reg (get_thr s u) = true -> u <> t ->
  ~ In (QQuiescent u) mid -> ~ In (QUnregister u) mid ->
  ~ In p (QsbrRun.retired_ptrs mid) ->
  qrun s (QRetire t p :: mid) = Some (s', fs, []) -> ~ In p (concat fs).
Proof.
  intros mid s s' fs t p u Hr Hne Hq Hu Hret H.
  rewrite qrun_cons in H. destruct (op_enabled s (QRetire t p)); [|discriminate].
  destruct (qrun _ mid) as [[[s3 fs3] bads3]|] eqn:Hrun; [|discriminate].
  injection H as <- <- Hb. apply app_eq_nil in Hb. destruct Hb as [Hb1 Hb3]. subst bads3.
  cbn [op_res] in *.
  assert (Hw1 : In u (W (fst (q_retire s t p)) p)).
  { unfold W. rewrite wait_retire. cbn [wait_of]. rewrite Z.eqb_refl.
    apply (registered_others_complete (q_thr s) t O u); [exact Hr|exact Hne]. }
  assert (Hnf : ~ In p (snd (q_retire s t p))).
  { intros Hc. rewrite (op_bad_nil_inv _ _ _ Hb1 Hc) in Hw1. contradiction. }
  cbn [concat]. intros Hc. apply in_app_or in Hc. destruct Hc as [Hc|Hc]; [now apply Hnf|].
  revert Hc. eapply mid_keeps with (u := u); [|exact Hq|exact Hu|exact Hret|exact Hrun].
  unfold W, drop_state. cbn [q_wait with_ghost]. rewrite wait_of_drop by exact Hnf. exact Hw1.
Qed.

(** * the two theorems of Properties_C04 *)

Theorem view_stable : forall n pre t p mid s fs bads u,
  qrun (qinit n) (pre ++ QRetire t p :: mid) = Some (s, fs, bads) ->
  NoDup (QsbrProofs.retired_ptrs (pre ++ QRetire t p :: mid)) ->
  u <> t -> registered_after n pre u = true ->
  ~ In (QQuiescent u) mid -> ~ In (QUnregister u) mid ->
  ~ In p (concat (skipn (length pre) fs)).
Proof.
  intros n pre t p mid s fs bads u H Hnd Hne Hreg Hq Hu.
  pose proof (qrun_safe n _ s fs bads H Hnd) as Hb. subst bads.
  unfold QsbrProofs.retired_ptrs in Hnd.
  rewrite retired_app, retired_cons in Hnd. cbn [op_new app] in Hnd.
  apply NoDup_remove_2 in Hnd.
  assert (Hret : ~ In p (QsbrRun.retired_ptrs mid)).
  { intros Hc. apply Hnd. apply in_or_app. now right. }
  rewrite qrun_app in H. unfold registered_after in Hreg.
  destruct (qrun (qinit n) pre) as [[[s1 fs1] b1]|] eqn:Hpre; [|discriminate].
  destruct (qrun s1 (QRetire t p :: mid)) as [[[s2 fs2] b2]|] eqn:Hrest; [|discriminate].
  injection H as <- <- Hb. apply app_eq_nil in Hb. destruct Hb as [-> ->].
  rewrite skipn_app, <- (qrun_length _ _ _ _ _ Hpre), skipn_all, Nat.sub_diag.
  cbn [skipn app].
  eapply retire_then_mid; [exact Hreg|exact Hne|exact Hq|exact Hu|exact Hret|exact Hrest].
Qed.

Theorem freed_once : forall n ops s fs bads,
  qrun (qinit n) ops = Some (s, fs, bads) -> NoDup (QsbrProofs.retired_ptrs ops) ->
  NoDup (concat fs) /\
  forall p, In p (concat fs) -> In p (QsbrProofs.retired_ptrs ops) /\ ~ In p (pending s).
Proof.
  intros n ops s fs bads H Hnd.
  pose proof (qrun_exactly_once n ops s fs bads H Hnd) as Hperm.
  assert (Hnd' : NoDup (pending s ++ concat fs)).
  { eapply Permutation_NoDup; [apply Permutation_sym; exact Hperm|exact Hnd]. }
  split.
  - apply nodup_co. intros a. pose proof (proj1 (nodup_co _) Hnd' a) as Ha.
    rewrite co_app in Ha. lia.
  - intros p Hin. split.
    + eapply Permutation_in; [exact Hperm|]. apply in_or_app. now right.
    + intros Hp. pose proof (proj1 (nodup_co _) Hnd' p) as Ha. rewrite co_app in Ha.
      apply co_in in Hin. apply co_in in Hp. lia.
Qed.
